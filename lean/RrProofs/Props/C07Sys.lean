import RrProofs.Props.SysCache
import RrProofs.Props.C07
import RrProofs.Lemmas.SysCacheAux
/-
  C07 / C13 / C05 at SYSTEM level (`Model.SysCache`): ARBITRARY disk / clock / origin / request everywhere.

  1. `hit_replays_entry` (+ `_fields`, `hit_replays_whole_file`, `hit_replays_whole_file_sizeOK`): a hit replays the
     entry - stored status, stored header map (⊕ cache-status, `Age`, ETag suffix), the first `Metadata.Size`
     bytes of the file; through `wire`: `hit_wire_complete` / `hit_wire_cutshort` (C05's framing clause on hits,
     with the PRECISE condition `ClOK`).
  2. `cachingFill_cases`, `failed_fill_publishes_nothing`, `failed_fill_releases_key`,
     `failed_fill_key_empty_false` (the requested form without hypothesis is false: witness),
     `published_body_is_complete`, `fill_empty_keeps_entry`.
  3. `SizeOK` is preserved by every function of the model and holds in every reachable state
     (`sizeOK_stepOnce`, `sizeOK_cachingFunc`, `sizeOK_step`, `sizeOK_reachable`); the codec hypothesis is
     discharged unconditionally (`Lemmas.SysCacheAux.decode_encode_fields`).
  4. `miss_fills`, `hit_of_stored`, `fill_then_hit_gen`, `fill_then_hit`, `fill_then_hit_head`,
     `fill_then_hit_empty_body`: a fill followed by the same request is a hit that replays the origin's body.
  5. `failed_fetch_poisons_nothing`: C13 for a NotFoundWriter at system level (every key of the request free,
     the next request starts a fresh fetch).
  6. `bodies_stepOnce` / `bodies_cachingFunc` / `bodies_step`: C13 for EVERY row - a truncated body never
     enters the cache.
  7. `fill_then_hit_wire`, `fill_then_hit_history`, `fill_then_hit_history_representable`,
     `fill_then_hit_representable`: both observations complete with the origin's body, as a statement about `run`.
-/
namespace Props.C07Sys
open Go Model Model.SysCache Props.SysCache Lemmas.SysCacheAux

/-! ### the disk as a function -/

theorem upd_apply (d : Disk) (k : Bytes) (f : Option File) (p : Bytes) :
    (d.upd k f) p = if p = k then f else d p := rfl

theorem upd_self (d : Disk) (k : Bytes) (f : Option File) : (d.upd k f) k = f := by simp [upd_apply]

theorem upd_other (d : Disk) {k p : Bytes} (f : Option File) (h : p ≠ k) : (d.upd k f) p = d p := by
  simp [upd_apply, h]

/-! ## 1. A hit replays the entry -/

/-- the alwaysInclude map `foundHit` builds: the cache-status (`hit` / `stale`, an earlier `revalidated`
    / `stale` / `uncacheable` of a re-entry is kept, `pass` becomes `hit`) and `Age` -/
def hitAI (ai : Header) (age : Int) (stale : Bool) : Header :=
  let st := ai.get kStatus
  let ai1 := if st.length = 0 then ai.set kStatus (if stale then b!"stale" else b!"hit")
             else if st = b!"pass" then ai.set kStatus b!"hit" else ai
  ai1.set b!"Age" (itoa age)

/-- the header map a hit sends: the STORED map, every value `Add`ed, then alwaysInclude `Set`, then the
    ETag suffix -/
def hitHeader (cfg : Config) (s : Stored) (ai : Header) (age : Int) (stale : Bool) : Header :=
  Conditional.suffixETag cfg.sfx (Conditional.copyHeaders s.meta.respHeader (hitAI ai age stale))

/-- the bytes a hit hands to the client's writer: the first `Metadata.Size` bytes of the file -/
def hitBytes (s : Stored) : Bytes := if s.meta.size ≤ 0 then [] else s.file.body.take s.meta.size.toNat

/-- the handler-level response of a hit without a parsed Range -/
def hitOut (cfg : Config) (s : Stored) (ai : Header) (age : Int) (stale : Bool) : HandlerOut :=
  { status := s.meta.status.toNat, header := hitHeader cfg s ai age stale, writes := oneWrite (hitBytes s) }

theorem oneWrite_flatten (b : Bytes) : (oneWrite b).flatten = b := by
  unfold oneWrite
  split
  · rename_i h; simp [List.length_eq_zero_iff.1 h]
  · simp

theorem foundHit_none (cfg : Config) (s : Stored) (age : Int) (stale : Bool) (ai : Header) :
    foundHit cfg s age stale ai none = (hitOut cfg s ai age stale, "f:hit") := rfl

/-- **C07, system level: a hit replays the entry.**  A GET or HEAD request without a parsed Range for
    which `cache.Get` decides "serve the stored entry `s`" is answered in this activation, without an
    origin contact, on the disk as `storage.Get` left it, with the stored status, the stored header
    map (⊕ cache-status, `Age`, ETag suffix) and the first `Metadata.Size` bytes of the stored file. -/
theorem hit_replays_entry {cfg : Config} {origin : Bytes → Option Origin} {now : Int} {req : Request}
    {d d' : Disk} {client ai : Header} {skip : Bool} {cs : List Contact} {s : Stored} {age : Int} {stale : Bool}
    (hm : req.method = b!"GET" ∨ req.method = b!"HEAD")
    (hr : Range.getRange client = none)
    (hl : lookup cfg now (keysOf cfg req client) d client skip = (d', .serve s age stale)) :
    stepOnce cfg origin now req d client ai skip cs =
      .done { disk := d', out := hitOut cfg s ai age stale, contacts := cs,
              label := if stale then "f:hit:stale" else "f:hit" } := by
  unfold stepOnce
  have hm' : ¬ (req.method ≠ b!"GET" ∧ req.method ≠ b!"HEAD") := by
    rcases hm with h | h <;> simp [h]
  rw [if_neg hm']
  simp only [hl, hr, foundHit_none]
  cases stale <;> rfl

/-- the three clauses of the property, spelled out -/
theorem hit_replays_entry_fields {cfg : Config} {origin : Bytes → Option Origin} {now : Int} {req : Request}
    {d d' : Disk} {client ai : Header} {skip : Bool} {cs : List Contact} {s : Stored} {age : Int} {stale : Bool}
    (hm : req.method = b!"GET" ∨ req.method = b!"HEAD")
    (hr : Range.getRange client = none)
    (hl : lookup cfg now (keysOf cfg req client) d client skip = (d', .serve s age stale)) :
    ∃ a, stepOnce cfg origin now req d client ai skip cs = .done a ∧
      a.disk = d' ∧ a.contacts = cs ∧
      a.out.wrote = true ∧
      a.out.status = s.meta.status.toNat ∧
      a.out.header = Conditional.suffixETag cfg.sfx (Conditional.copyHeaders s.meta.respHeader (hitAI ai age stale)) ∧
      a.out.writes.flatten = (if s.meta.size ≤ 0 then [] else s.file.body.take s.meta.size.toNat) := by
  refine ⟨_, hit_replays_entry hm hr hl, rfl, rfl, rfl, rfl, rfl, ?_⟩
  exact oneWrite_flatten _

theorem hitBytes_of_size {s : Stored} (hs : s.meta.size = s.file.body.length) : hitBytes s = s.file.body := by
  unfold hitBytes
  rw [hs]
  split
  · rename_i h
    have : s.file.body.length = 0 := by omega
    exact (List.length_eq_zero_iff.1 this).symm
  · simp

/-- corollary: when the recorded size is the file's length (`SizeOK`, section 3) the WHOLE file goes out -/
theorem hit_replays_whole_file {cfg : Config} {origin : Bytes → Option Origin} {now : Int} {req : Request}
    {d d' : Disk} {client ai : Header} {skip : Bool} {cs : List Contact} {s : Stored} {age : Int} {stale : Bool}
    (hm : req.method = b!"GET" ∨ req.method = b!"HEAD")
    (hr : Range.getRange client = none)
    (hl : lookup cfg now (keysOf cfg req client) d client skip = (d', .serve s age stale))
    (hs : s.meta.size = s.file.body.length) :
    ∃ a, stepOnce cfg origin now req d client ai skip cs = .done a ∧ a.out.writes.flatten = s.file.body := by
  refine ⟨_, hit_replays_entry hm hr hl, ?_⟩
  show (oneWrite (hitBytes s)).flatten = _
  rw [oneWrite_flatten, hitBytes_of_size hs]

/-! ### where a served entry comes from -/

/-- the entry `storage.Get` hands out for key `k` IS the file under `k`, with the metadata decoded
    from its xattr; and it passed the content-length test of `storage.Get` (dead code when the stored
    header map has a non-empty `content-length`, else: recorded size = file size) -/
def StoredAt (d : Disk) (k : Key) (s : Stored) : Prop :=
  d (keyString k) = some s.file ∧ ∃ x, s.file.xattr = some x ∧ Codec.decode x = .ok (some s.meta) ∧
    ((s.meta.respHeader.get b!"content-length").length > 0 ∨ (s.file.body.length : Int) = s.meta.size)

theorem getOne_some {d d' : Disk} {k : Key} {s : Stored} (h : getOne d k = (d', .ok (some s))) :
    d' = d ∧ StoredAt d k s := by
  unfold getOne at h
  split at h
  · cases h
  · rename_i f hf
    split at h
    · cases h
    · rename_i x hx
      split at h
      · cases h
      · cases h
      · rename_i m hm
        split at h
        · rename_i hcl
          cases h
          exact ⟨rfl, hf, x, hx, hm, Or.inl hcl⟩
        · split at h
          · cases h
          · rename_i hsz
            cases h
            refine ⟨rfl, hf, x, hx, hm, Or.inr ?_⟩
            simpa using hsz

theorem getOne_none {d d' : Disk} {k : Key} (h : getOne d k = (d', .ok none)) : d' (keyString k) = none := by
  unfold getOne at h
  repeat' first | split at h | (dsimp only at h; split at h)
  all_goals first
    | (cases h; done)
    | (cases h; simp [Disk.upd]; done)
    | (cases h; assumption)

theorem storageGet_found : ∀ {keys : List Key} {d d' : Disk} {k : Key} {s : Stored},
    storageGet d keys = (d', .found k s) → k ∈ keys ∧ StoredAt d' k s
  | [], d, d', k, s, h => by unfold storageGet at h; cases h
  | k0 :: ks, d, d', k, s, h => by
    unfold storageGet at h
    split at h
    · cases h
    · rename_i d1 s1 heq
      cases h
      obtain ⟨rfl, hs⟩ := getOne_some heq
      exact ⟨List.mem_cons_self .., hs⟩
    · obtain ⟨hk, hs⟩ := storageGet_found h
      exact ⟨List.mem_cons_of_mem _ hk, hs⟩

/-- after a `storage.Get` that found nothing, no key of the list has a file -/
theorem storageGet_notFound : ∀ {keys : List Key} {d d' : Disk},
    storageGet d keys = (d', .notFound) → ∀ k ∈ keys, d' (keyString k) = none
  | [], d, d', h, k, hk => by cases hk
  | k0 :: ks, d, d', h, k, hk => by
    unfold storageGet at h
    split at h
    · cases h
    · cases h
    · rename_i d1 heq
      rcases List.mem_cons.1 hk with rfl | hk
      · have h0 := getOne_none heq
        have hsh : Shrinks d' d1 := by
          have := storageGet_shrinks ks d1
          rw [h] at this
          exact this
        rcases hsh (keyString k) with e | e
        · rw [e, h0]
        · exact e
      · exact storageGet_notFound h k hk

/-- what `cache.Get`'s answer "serve `s`" rests on -/
theorem lookup_serve {cfg : Config} {now : Int} {keys : List Key} {d d' : Disk} {client : Header} {skip : Bool}
    {s : Stored} {age : Int} {stale : Bool}
    (h : lookup cfg now keys d client skip = (d', .serve s age stale)) :
    ∃ k, storageGet d keys = (d', .found k s) ∧
      Freshness.decide (entryOf s) now cfg.force skip (client.get b!"if-none-match")
        (client.get b!"if-modified-since") cfg.sfx = .ok (if stale then .staleServe age else .fresh age) := by
  unfold lookup at h
  generalize hg : storageGet d keys = r at h
  rcases r with ⟨d1, g⟩
  cases g with
  | panic s => cases h
  | notFound => cases h
  | found k s1 =>
    dsimp only at h
    split at h
    · cases h
    · cases h
    · rename_i age1 hd; cases h; exact ⟨k, rfl, hd⟩
    · rename_i age1 hd; cases h; exact ⟨k, rfl, hd⟩
    · cases h

theorem lookup_writer_none {cfg : Config} {now : Int} {keys : List Key} {d d' : Disk} {client : Header} {skip : Bool}
    (h : lookup cfg now keys d client skip = (d', .writer none)) : storageGet d keys = (d', .notFound) := by
  unfold lookup at h
  generalize hg : storageGet d keys = r at h
  rcases r with ⟨d1, g⟩
  cases g with
  | panic s => cases h
  | notFound => cases h; rfl
  | found k s1 =>
    dsimp only at h
    split at h <;> cases h

/-- a served entry is a decoded file of the disk `cache.Get` returns, under one of the request's keys -/
theorem lookup_serve_storedAt {cfg : Config} {now : Int} {keys : List Key} {d d' : Disk} {client : Header} {skip : Bool}
    {s : Stored} {age : Int} {stale : Bool}
    (h : lookup cfg now keys d client skip = (d', .serve s age stale)) : ∃ k ∈ keys, StoredAt d' k s := by
  obtain ⟨k, hg, _⟩ := lookup_serve h
  exact ⟨k, storageGet_found hg⟩

/-- the one key of a request without an `Origin` header -/
def theKey (cfg : Config) (req : Request) (client : Header) : Key :=
  newKey (keyMethod req.method) cfg.host req.uri false client Facts.keyClientHeaders

/-- without an `Origin` header the key list is a single key -/
theorem keysOf_single {cfg : Config} {req : Request} {client : Header} (ho : client.get b!"origin" = []) :
    keysOf cfg req client = [theKey cfg req client] := by
  unfold keysOf keysFromRequest
  simp only [ho, List.length_nil, Nat.lt_irrefl, if_false]
  rfl

/-- `storage.Get` on a disk that holds, under the one key of the list, a file whose xattr decodes to
    `meta` recording the file's length: the content-length test passes, the entry is found, the disk
    is left alone -/
theorem storageGet_single_found {d : Disk} {k : Key} {f : File} {x : Bytes} {m : Codec.Meta}
    (hf : d (keyString k) = some f) (hx : f.xattr = some x) (hdec : Codec.decode x = .ok (some m))
    (hsz : m.size = f.body.length) :
    storageGet d [k] = (d, .found k ⟨m, f⟩) := by
  have h1 : getOne d k = (d, .ok (some ⟨m, f⟩)) := by
    unfold getOne
    simp only [hf, hx, hdec]
    split
    · rfl
    · have : ¬ ((f.body.length : Int) ≠ m.size) := by rw [hsz]; simp
      rw [if_neg this]
  unfold storageGet
  simp only [h1]

/-- `cache.Get` on a disk that holds, under the one key of a request without `Origin`, a file whose xattr
    decodes to `m` recording the file's length, and which it judges fresh: "serve it" -/
theorem lookup_of_stored {cfg : Config} {now : Int} {req : Request} {d : Disk} {client : Header} {skip : Bool}
    {f : File} {x : Bytes} {m : Codec.Meta} {age : Int}
    (ho : client.get b!"origin" = [])
    (hf : d (keyString (theKey cfg req client)) = some f) (hx : f.xattr = some x)
    (hdec : Codec.decode x = .ok (some m)) (hsz : m.size = f.body.length)
    (hfresh : Freshness.decide { header := m.respHeader, created := m.created, revalidated := m.revalidated }
      now cfg.force skip (client.get b!"if-none-match") (client.get b!"if-modified-since") cfg.sfx = .ok (.fresh age)) :
    lookup cfg now (keysOf cfg req client) d client skip = (d, .serve ⟨m, f⟩ age false) := by
  unfold lookup
  rw [keysOf_single ho, storageGet_single_found hf hx hdec hsz]
  simp only [entryOf, hfresh]

/-! ### … and through net/http (`wire`): the framing clause of C05 on hits -/

/-- the statuses net/http sends without a body -/
def Bodyless (st : Nat) : Prop := st = 304 ∨ st = 204 ∨ (100 ≤ st ∧ st < 200)

instance (st : Nat) : Decidable (Bodyless st) := by unfold Bodyless; infer_instance

/-- net/http on a GET response that was written with (at most) one `Write` of `b`: the declared
    `Content-Length` (if it parses and is not negative) must be met exactly -/
theorem wire_oneWrite {st : Nat} {h : Header} {b : Bytes} (hb : ¬ Bodyless st) :
    wire b!"GET" { status := st, header := h, writes := oneWrite b } =
      match atoi (h.get b!"Content-Length") with
      | some n =>
        if n < 0 ∨ (b.length : Int) = n then (st, true, b, h)
        else (st, decide (n = 0), if (b.length : Int) < n then b else [], h)
      | none => (st, true, b, h) := by
  unfold wire
  simp only [Bool.not_true, Bool.false_eq_true, if_false]
  have hb' : ¬ (st = 304 ∨ st = 204 ∨ (100 ≤ st ∧ st < 200)) := hb
  rw [if_neg hb', if_neg (by decide)]
  split
  · rename_i n hn
    simp only [hn, oneWrite_flatten]
    by_cases hneg : n < 0
    · simp [hneg]
    · simp only [hneg, if_false, false_or]
      unfold oneWrite
      by_cases hl : b.length = 0
      · have hbn : b = [] := List.length_eq_zero_iff.1 hl
        subst hbn
        simp only [List.length_nil, if_true, acceptWrites, Int.natCast_zero]
        by_cases h0 : (0 : Int) = n
        · simp [h0]
        · have : ¬ n = 0 := fun h => h0 h.symm
          simp [h0, this]
      · simp only [hl, if_false, acceptWrites, Nat.zero_add, List.append_nil]
        by_cases hgt : b.length > n.toNat
        · have h1 : ¬ (b.length : Int) = n := by omega
          have h2 : ¬ (b.length : Int) < n := by omega
          simp only [hgt, if_true, h1, if_false, h2, List.length_nil, Int.natCast_zero]
          by_cases h0 : (0 : Int) = n
          · simp [h0]
          · have : ¬ n = 0 := fun h => h0 h.symm
            simp [h0, this]
        · simp only [hgt, if_false]
          by_cases he : (b.length : Int) = n
          · simp [he]
          · have h2 : (b.length : Int) < n := by omega
            have h3 : ¬ n = 0 := by omega
            simp [he, h2, h3]
  · rename_i hn
    simp only [hn, oneWrite_flatten]

theorem wire_hitOut {cfg : Config} {s : Stored} {ai : Header} {age : Int} {stale : Bool}
    (hb : ¬ Bodyless s.meta.status.toNat) :
    wire b!"GET" (hitOut cfg s ai age stale) =
      match atoi ((hitHeader cfg s ai age stale).get b!"Content-Length") with
      | some n =>
        if n < 0 ∨ ((hitBytes s).length : Int) = n then (s.meta.status.toNat, true, hitBytes s, hitHeader cfg s ai age stale)
        else (s.meta.status.toNat, decide (n = 0), if ((hitBytes s).length : Int) < n then hitBytes s else [],
              hitHeader cfg s ai age stale)
      | none => (s.meta.status.toNat, true, hitBytes s, hitHeader cfg s ai age stale) :=
  wire_oneWrite hb

/-- the `Content-Length` a hit declares is the STORED one: the stored map is canonical (it was decoded)
    and neither alwaysInclude (when it carries no such line: it never does, see `NoKey`) nor the ETag
    suffix touch it -/
theorem hitHeader_contentLength {cfg : Config} {s : Stored} {ai : Header} {age : Int} {stale : Bool}
    (hc : Canonical s.meta.respHeader) (hai : NoKey ai b!"content-length") :
    (hitHeader cfg s ai age stale).get b!"Content-Length" = s.meta.respHeader.get b!"content-length" := by
  unfold hitHeader
  rw [get_suffixETag _ _ (by decide)]
  have hk : NoKey (hitAI ai age stale) b!"Content-Length" := by
    have hai' : NoKey ai b!"Content-Length" := hai
    unfold hitAI
    simp only
    apply NoKey.set _ _ (by decide)
    split
    · exact NoKey.set hai' _ (by decide)
    · split
      · exact NoKey.set hai' _ (by decide)
      · exact hai'
  rw [get_copyHeaders hc hk]
  rfl

/-- the declared length of the stored entry is consistent with its file: no `content-length` that
    parses to a non-negative number other than the file's length -/
def ClOK (s : Stored) : Prop :=
  match atoi (s.meta.respHeader.get b!"content-length") with
  | none => True
  | some n => n < 0 ∨ n = (s.file.body.length : Int)

/-- **C05's framing clause on hits.**  GET, no parsed Range, `cache.Get` serves `s`, the stored status
    is not one net/http sends without a body, alwaysInclude carries no `content-length` line.  If the
    stored `content-length` is absent (then `storage.Get` has checked the sizes), or the recorded size
    is the file's length (`SizeOK`) and the stored `content-length` does not parse / is negative / is
    the file's length, the client reads a COMPLETE response whose body is the whole stored file. -/
theorem hit_wire_complete {cfg : Config} {origin : Bytes → Option Origin} {now : Int} {req : Request}
    {d d' : Disk} {client ai : Header} {skip : Bool} {cs : List Contact} {s : Stored} {age : Int} {stale : Bool}
    (hm : req.method = b!"GET")
    (hr : Range.getRange client = none)
    (hl : lookup cfg now (keysOf cfg req client) d client skip = (d', .serve s age stale))
    (hst : ¬ Bodyless s.meta.status.toNat)
    (hai : NoKey ai b!"content-length")
    (hcl : s.meta.respHeader.get b!"content-length" = [] ∨ (s.meta.size = s.file.body.length ∧ ClOK s)) :
    ∃ a, stepOnce cfg origin now req d client ai skip cs = .done a ∧
      wire req.method a.out = (s.meta.status.toNat, true, s.file.body, hitHeader cfg s ai age stale) := by
  refine ⟨_, hit_replays_entry (Or.inl hm) hr hl, ?_⟩
  obtain ⟨k, _, hk, x, hx, hdec, hsz⟩ := lookup_serve_storedAt hl
  have hc := (decode_canonical hdec).2
  rw [hm]
  show wire b!"GET" (hitOut cfg s ai age stale) = _
  rw [wire_hitOut hst, hitHeader_contentLength hc hai]
  rcases hcl with h0 | ⟨hs, hok⟩
  · have hs : s.meta.size = s.file.body.length := by
      rcases hsz with h | h
      · rw [h0] at h; simp at h
      · exact h.symm
    rw [h0, hitBytes_of_size hs]
    rfl
  · rw [hitBytes_of_size hs]
    unfold ClOK at hok
    split
    · rename_i n hn
      rw [hn] at hok
      have : n < 0 ∨ (s.file.body.length : Int) = n := by
        rcases hok with h | h
        · exact Or.inl h
        · exact Or.inr h.symm
      rw [if_pos this]
    · rfl

/-- … and the condition is PRECISE: with `SizeOK`, a stored `content-length` that parses to a
    non-negative number other than the file's length makes the client's reading cut short (or, for a
    declared `0`, a complete EMPTY body: the one `Write` is refused as a whole) -/
theorem hit_wire_cutshort {cfg : Config} {origin : Bytes → Option Origin} {now : Int} {req : Request}
    {d d' : Disk} {client ai : Header} {skip : Bool} {cs : List Contact} {s : Stored} {age : Int} {stale : Bool}
    (hm : req.method = b!"GET")
    (hr : Range.getRange client = none)
    (hl : lookup cfg now (keysOf cfg req client) d client skip = (d', .serve s age stale))
    (hst : ¬ Bodyless s.meta.status.toNat)
    (hai : NoKey ai b!"content-length")
    (hs : s.meta.size = s.file.body.length)
    {n : Int} (hn : atoi (s.meta.respHeader.get b!"content-length") = some n)
    (h0 : 0 ≤ n) (hne : n ≠ s.file.body.length) :
    ∃ a, stepOnce cfg origin now req d client ai skip cs = .done a ∧
      wire req.method a.out = (s.meta.status.toNat, decide (n = 0),
        (if (s.file.body.length : Int) < n then s.file.body else []), hitHeader cfg s ai age stale) := by
  refine ⟨_, hit_replays_entry (Or.inl hm) hr hl, ?_⟩
  obtain ⟨k, _, hk, x, hx, hdec, hsz⟩ := lookup_serve_storedAt hl
  have hc := (decode_canonical hdec).2
  rw [hm]
  show wire b!"GET" (hitOut cfg s ai age stale) = _
  rw [wire_hitOut hst, hitHeader_contentLength hc hai, hitBytes_of_size hs, hn]
  have : ¬ (n < 0 ∨ (s.file.body.length : Int) = n) := by omega
  simp only [this, if_false]

/-! ### non-vacuity (section 1) -/

def exReq : Request := { method := b!"GET", path := b!"a", header := [] }
/-- an entry whose declared length is consistent … -/
def exMeta : Codec.Meta :=
  { host := b!"h1.test", path := b!"/a", respHeader := [(b!"Cache-Control", [b!"max-age=60"])], status := 200,
    created := 1000, size := 3 }
def exFile : File := { body := b!"abc", xattr := some (Codec.encode exMeta) }
def exDisk : Disk := Disk.empty.upd (keyString (theKey {} exReq [])) (some exFile)
/-- … and one whose stored `Content-Length: 5` is not the length of its 3-byte file -/
def exMetaBad : Codec.Meta := { exMeta with respHeader := [(b!"Content-Length", [b!"5"])] }
def exFileBad : File := { body := b!"abc", xattr := some (Codec.encode exMetaBad) }
def exDiskBad : Disk := Disk.empty.upd (keyString (theKey {} exReq [])) (some exFileBad)

theorem exLookup : lookup {} 1010 (keysOf {} exReq []) exDisk [] false = (exDisk, .serve ⟨exMeta, exFile⟩ 10 false) :=
  lookup_of_stored (by decide) (upd_self ..) rfl (by decide) (by decide) (by decide)

theorem exLookupBad :
    lookup {} 1010 (keysOf {} exReq []) exDiskBad [] false = (exDiskBad, .serve ⟨exMetaBad, exFileBad⟩ 10 false) :=
  lookup_of_stored (by decide) (upd_self ..) rfl (by decide) (by decide) (by decide)

instance (s : Stored) : Decidable (ClOK s) := by unfold ClOK; split <;> infer_instance

/-- `hit_replays_entry`, `hit_wire_complete`: a GET on a disk holding a fresh entry -/
example : ∃ a, stepOnce {} (fun _ => none) 1010 exReq exDisk [] [] false [] = .done a ∧
    wire exReq.method a.out = (200, true, b!"abc", hitHeader {} ⟨exMeta, exFile⟩ [] 10 false) :=
  hit_wire_complete (origin := fun _ => none) (cs := []) rfl (by decide) exLookup (by decide) (NoKey.nil _)
    (Or.inr ⟨by decide, by decide⟩)

/-- `hit_wire_cutshort`: the same with a stored `Content-Length: 5` over a 3-byte file: cut short -/
example : ∃ a, stepOnce {} (fun _ => none) 1010 exReq exDiskBad [] [] false [] = .done a ∧
    wire exReq.method a.out = (200, false, b!"abc", hitHeader {} ⟨exMetaBad, exFileBad⟩ [] 10 false) :=
  hit_wire_cutshort (origin := fun _ => none) (cs := []) (n := 5) rfl (by decide) exLookupBad (by decide) (NoKey.nil _)
    (by decide) (by decide) (by decide) (by decide)

/-! ## 2. What a fill can do to the disk (C13: a failed fetch publishes nothing) -/

/-- the status `cachingResponseWriter.WriteHeader` hands on to the storage writer (206 is stored as 200) -/
def stStatusOf (status : Nat) : Nat := if status = 206 then 200 else status

/-- … and the header map (a 206 loses `content-range`, its `content-length` becomes the total) -/
def stHeaderOf (status : Nat) (clientHeader : Header) : Header :=
  if status = 206 then
    let cl := Range.contentLengthFromRange (clientHeader.get b!"content-range")
    let h := Codec.denyHeaders clientHeader [b!"content-range"]
    if cl.length > 0 then h.set b!"content-length" cl else h
  else clientHeader

/-- the metadata a fill writes into the xattr -/
def fillMeta (cfg : Config) (w : Writer) (now : Int) (status : Nat) (clientHeader : Header) (resp : Resp)
    (redirect : Bytes) : Codec.Meta :=
  { host := w.key.host, path := w.key.path, reqHeader := w.key.storedHeaders,
    respHeader := Codec.storePrep cfg.sfx (stStatusOf status) (stHeaderOf status clientHeader),
    status := stStatusOf status, redirect := redirect, created := now,
    revalidated := if w.revalidating then now else 0, size := resp.body.length }

/-- the file a successful fill publishes: the COMPLETE body the origin sent, and that metadata -/
def fillFile (cfg : Config) (w : Writer) (now : Int) (status : Nat) (clientHeader : Header) (resp : Resp)
    (redirect : Bytes) : File :=
  { body := resp.body, xattr := some (Codec.encode (fillMeta cfg w now status clientHeader resp redirect)) }

/-- what `republish` (Close of a revalidating writer without a file of its own) leaves of file `f`:
    the SAME body; the xattr re-encoded from the decoded metadata with `Revalidated := now` and a
    (possibly merged) header map; only done when the recorded size is the file's size -/
def Republished (now : Int) (f f' : File) : Prop :=
  f'.body = f.body ∧ ∃ x m hdr, f.xattr = some x ∧ Codec.decode x = .ok (some m) ∧
    (f.body.length : Int) = m.size ∧
    f'.xattr = some (Codec.encode { m with revalidated := now, respHeader := hdr })

theorem republish_other (d : Disk) (w : Writer) (now : Int) (h304 : Option Header) {p : Bytes}
    (hp : p ≠ w.path) : (republish d w now h304).1 p = d p := by
  unfold republish
  repeat' first | split | (dsimp only; split)
  all_goals first | rfl | exact upd_other _ _ hp

theorem republish_self (d : Disk) (w : Writer) (now : Int) (h304 : Option Header) :
    ((republish d w now h304).1 w.path = none ∧ (republish d w now h304).2 = false) ∨
    ((republish d w now h304).2 = true ∧
      ∃ f f', d w.path = some f ∧ (republish d w now h304).1 w.path = some f' ∧ Republished now f f') := by
  unfold republish
  split
  · rename_i h; exact Or.inl ⟨h, rfl⟩
  · rename_i f hf
    split
    · rename_i m hm
      dsimp only
      split
      · exact Or.inl ⟨upd_self .., rfl⟩
      · split
        · exact Or.inl ⟨upd_self .., rfl⟩
        · rename_i hsz _
          refine Or.inr ⟨rfl, f, _, hf, upd_self .., rfl, ?_⟩
          cases hx : f.xattr with
          | none => rw [hx] at hm; cases hm
          | some x =>
            rw [hx] at hm
            simp only [Option.map_some, Option.some.injEq] at hm
            refine ⟨x, m, _, rfl, hm, ?_, rfl⟩
            simpa using hsz
    · exact Or.inl ⟨upd_self .., rfl⟩

/-- `republish` touches only the writer's cell, and leaves there nothing, or the same body re-labelled -/
theorem republish_cases (d : Disk) (w : Writer) (now : Int) (h304 : Option Header) (p : Bytes) :
    (republish d w now h304).1 p = d p ∨ (republish d w now h304).1 p = none ∨
    (p = w.path ∧ ∃ f f', d p = some f ∧ (republish d w now h304).1 p = some f' ∧ Republished now f f') := by
  by_cases hp : p = w.path
  · subst hp
    rcases republish_self d w now h304 with ⟨h, _⟩ | ⟨_, h⟩
    · exact Or.inr (Or.inl h)
    · exact Or.inr (Or.inr ⟨rfl, h⟩)
  · exact Or.inl (republish_other d w now h304 hp)

/-- `cachingFill` in terms of `stStatusOf` / `stHeaderOf` / `fillFile`, the pair of `republish` by projections -/
theorem cachingFill_eq (cfg : Config) (d : Disk) (w : Writer) (now : Int) (status : Nat) (ch : Header)
    (resp : Resp) (redirect : Bytes) (rr : Option Range.ReqRange) :
    cachingFill cfg d w now status ch resp redirect rr =
      if !inGate (stStatusOf status) then
        if resp.body.length > 0 then
          { disk := (if w.revalidating then (republish d w now none).1 else d).upd w.path none,
            toClient := [], label := "w:nogate-body" }
        else if resp.readErr then
          { disk := (if w.revalidating then (republish d w now none).1 else d).upd w.path none,
            toClient := [], label := "w:nogate-readerr" }
        else if w.revalidating then
          if (republish d w now none).2 then
            match (republish d w now none).1 w.path with
            | some f => { disk := (republish d w now none).1, toClient := sendBody rr f.body.length f.body,
                          label := "w:nogate-oldbody" }
            | none => { disk := (republish d w now none).1, toClient := [], label := "w:nogate-empty" }
          else { disk := (republish d w now none).1, toClient := [], label := "w:nogate-empty" }
        else { disk := d, toClient := [], label := "w:nogate-empty" }
      else if (getCacheControlDirectives (stHeaderOf status ch)).doNotCache then
        { disk := if w.revalidating then d.upd w.path none else d, toClient := [], label := "w:invalidated" }
      else if resp.readErr then { disk := d.upd w.path none, toClient := [], label := "w:fill-readerr" }
      else if resp.body.length = 0 ∧ !emptyAllowed w.key.method (stStatusOf status) then
        { disk := if (d w.path).isSome then d else d.upd w.path none, toClient := [], label := "w:fill-empty" }
      else
        { disk := d.upd w.path (some (fillFile cfg w now status ch resp redirect)),
          toClient := sendBody rr resp.body.length resp.body, label := "w:fill" } := by
  rfl

/-- **every cell after the caching stack has run for one origin response**: untouched, empty, the
    complete new file (only at the writer's path, only when the body reader ended with `io.EOF`, the
    status passed the gate, the directives allow storing and an empty body is allowed for the key), or
    the OLD file of a revalidating writer re-labelled (same body; only for a status outside the gate
    with an empty body). -/
theorem cachingFill_cases (cfg : Config) (d : Disk) (w : Writer) (now : Int) (status : Nat) (ch : Header)
    (resp : Resp) (redirect : Bytes) (rr : Option Range.ReqRange) (p : Bytes) :
    (cachingFill cfg d w now status ch resp redirect rr).disk p = d p ∨
    (cachingFill cfg d w now status ch resp redirect rr).disk p = none ∨
    (p = w.path ∧ resp.readErr = false ∧ inGate (stStatusOf status) = true ∧
      (getCacheControlDirectives (stHeaderOf status ch)).doNotCache = false ∧
      (resp.body ≠ [] ∨ emptyAllowed w.key.method (stStatusOf status) = true) ∧
      (cachingFill cfg d w now status ch resp redirect rr).disk p = some (fillFile cfg w now status ch resp redirect)) ∨
    (p = w.path ∧ resp.readErr = false ∧ resp.body = [] ∧ w.revalidating = true ∧ inGate (stStatusOf status) = false ∧
      ∃ f f', d p = some f ∧ (cachingFill cfg d w now status ch resp redirect rr).disk p = some f' ∧
        Republished now f f') := by
  generalize hfr : cachingFill cfg d w now status ch resp redirect rr = fr
  rw [cachingFill_eq] at hfr
  by_cases hp : p = w.path
  · subst hp
    split at hfr
    · rename_i hg
      have hg' : inGate (stStatusOf status) = false := by simpa using hg
      split at hfr
      · subst hfr; exact Or.inr (Or.inl (upd_self ..))
      · rename_i hbl
        have hb : resp.body = [] := List.length_eq_zero_iff.1 (by omega)
        split at hfr
        · subst hfr; exact Or.inr (Or.inl (upd_self ..))
        · rename_i hre
          split at hfr
          · rename_i hrv
            rcases republish_self d w now none with ⟨h1, h2⟩ | ⟨h2, f, f', hf, hf', hrep⟩
            · rw [h2] at hfr
              subst hfr
              exact Or.inr (Or.inl h1)
            · rw [h2, if_pos rfl, hf'] at hfr
              subst hfr
              exact Or.inr (Or.inr (Or.inr ⟨rfl, by simpa using hre, hb, hrv, hg', f, f', hf, hf', hrep⟩))
          · subst hfr; exact Or.inl rfl
    · rename_i hg
      have hg' : inGate (stStatusOf status) = true := by simpa using hg
      split at hfr
      · subst hfr
        dsimp only
        split
        · exact Or.inr (Or.inl (upd_self ..))
        · exact Or.inl rfl
      · rename_i hdc
        split at hfr
        · subst hfr; exact Or.inr (Or.inl (upd_self ..))
        · rename_i hre
          split at hfr
          · subst hfr
            dsimp only
            split
            · exact Or.inl rfl
            · exact Or.inr (Or.inl (upd_self ..))
          · rename_i hne
            subst hfr
            refine Or.inr (Or.inr (Or.inl ⟨rfl, by simpa using hre, hg', by simpa using hdc, ?_, upd_self ..⟩))
            by_cases hb : resp.body = []
            · right
              simp only [hb, List.length_nil, true_and, Bool.not_eq_true', Bool.not_eq_false] at hne
              exact hne
            · exact Or.inl hb
  · left
    subst hfr
    repeat' first | split | (dsimp only; split)
    all_goals first
      | rfl
      | exact upd_other _ _ hp
      | (dsimp only; rw [upd_other _ _ hp]; exact republish_other _ _ _ _ hp)
      | exact republish_other _ _ _ _ hp

/-- the reader-error rows send the client nothing from the FILE (what it got of the streamed body before
    the error is outside the model) -/
theorem failed_fill_toClient {cfg : Config} {d : Disk} {w : Writer} {now : Int} {status : Nat} {ch : Header}
    {resp : Resp} {redirect : Bytes} {rr : Option Range.ReqRange} (hre : resp.readErr = true) :
    (cachingFill cfg d w now status ch resp redirect rr).toClient = [] := by
  rw [cachingFill_eq]
  simp only [hre, if_true]
  repeat' first | split | (dsimp only; split)
  all_goals rfl

/-- **C13: a failed fill publishes nothing.**  When the origin's body reader ends with an error, every
    cell of the disk afterwards is the cell before or empty (no new file, no re-labelled file), nothing
    of the partial body is sent from the file, and the writer's own cell is empty - or this was a
    NotFoundWriter whose answer the directives forbid to store, and the disk is exactly as it was. -/
theorem failed_fill_publishes_nothing {cfg : Config} {d : Disk} {w : Writer} {now : Int} {status : Nat} {ch : Header}
    {resp : Resp} {redirect : Bytes} {rr : Option Range.ReqRange} (hre : resp.readErr = true) :
    Shrinks (cachingFill cfg d w now status ch resp redirect rr).disk d ∧
    (cachingFill cfg d w now status ch resp redirect rr).toClient = [] ∧
    ((cachingFill cfg d w now status ch resp redirect rr).disk w.path = none ∨
      (w.revalidating = false ∧ (cachingFill cfg d w now status ch resp redirect rr).disk = d)) := by
  refine ⟨?_, failed_fill_toClient hre, ?_⟩
  · intro p
    rcases cachingFill_cases cfg d w now status ch resp redirect rr p with h | h | h | h
    · exact Or.inl h
    · exact Or.inr h
    · rw [hre] at h; exact absurd h.2.1 (by decide)
    · rw [hre] at h; exact absurd h.2.1 (by decide)
  · rw [cachingFill_eq]
    simp only [hre, if_true]
    repeat' first | split | (dsimp only; split)
    all_goals first
      | exact Or.inl (upd_self ..)
      | (right; refine ⟨by simp_all, rfl⟩)

/-- the key is released whenever the writer is revalidating or its cell was empty to begin with (a
    NotFoundWriter straight from `cache.Get`: `storageGet_notFound`) -/
theorem failed_fill_releases_key {cfg : Config} {d : Disk} {w : Writer} {now : Int} {status : Nat} {ch : Header}
    {resp : Resp} {redirect : Bytes} {rr : Option Range.ReqRange} (hre : resp.readErr = true)
    (hw : w.revalidating = true ∨ d w.path = none) :
    (cachingFill cfg d w now status ch resp redirect rr).disk w.path = none := by
  rcases (failed_fill_publishes_nothing (cfg := cfg) (d := d) (w := w) (now := now) (status := status)
    (ch := ch) (redirect := redirect) (rr := rr) hre).2.2 with h | ⟨h1, h2⟩
  · exact h
  · rcases hw with hw | hw
    · rw [h1] at hw; cases hw
    · rw [h2]; exact hw

/-- the requested statement `readErr = true ⇒ fr.disk w.path = none` WITHOUT that hypothesis is false of
    the model: a writer that is not revalidating, pointed at a cell that holds a file (this happens after
    `ChangeKey` to a full-origin key that has an entry already), an answer the directives forbid to store
    (`w:invalidated`): the old file stays.  It is the OLD file, not partial data. -/
def wOccupied : Disk := fun _ => some { body := b!"old", xattr := none }
def wWriter : Writer := { key := ⟨[], [], [], false, []⟩, path := [], revalidating := false }
def wResp : Resp := { status := 200, header := [], contentLength := -1, body := b!"par", readErr := true }

theorem failed_fill_key_not_always_empty :
    (cachingFill {} wOccupied wWriter 0 200 [(b!"Cache-Control", [b!"no-store"])] wResp [] none).disk wWriter.path
      = some { body := b!"old", xattr := none } := by decide

theorem failed_fill_key_empty_false :
    ¬ ∀ (cfg : Config) (d : Disk) (w : Writer) (now : Int) (status : Nat) (ch : Header) (resp : Resp)
        (redirect : Bytes) (rr : Option Range.ReqRange), resp.readErr = true →
        (cachingFill cfg d w now status ch resp redirect rr).disk w.path = none := by
  intro h
  have := h {} wOccupied wWriter 0 200 [(b!"Cache-Control", [b!"no-store"])] wResp [] none rfl
  rw [failed_fill_key_not_always_empty] at this
  cases this

/-- **a new body in the cache is always a complete one.**  Whatever file the caching stack leaves in a
    cell has the body the cell's file had before, or it is - at the writer's path - the file made of
    the complete body of an answer whose reader ended with `io.EOF`. -/
theorem published_body_is_complete {cfg : Config} {d : Disk} {w : Writer} {now : Int} {status : Nat} {ch : Header}
    {resp : Resp} {redirect : Bytes} {rr : Option Range.ReqRange} {p : Bytes} {f : File}
    (hf : (cachingFill cfg d w now status ch resp redirect rr).disk p = some f) :
    (∃ f0, d p = some f0 ∧ f0.body = f.body) ∨
    (p = w.path ∧ resp.readErr = false ∧ f = fillFile cfg w now status ch resp redirect ∧ f.body = resp.body) := by
  rcases cachingFill_cases cfg d w now status ch resp redirect rr p with h | h | h | h
  · rw [h] at hf; exact Or.inl ⟨f, hf, rfl⟩
  · rw [h] at hf; cases hf
  · obtain ⟨hp, hre, _, _, _, hd⟩ := h
    rw [hd] at hf
    cases hf
    exact Or.inr ⟨hp, hre, rfl, rfl⟩
  · obtain ⟨_, _, _, _, _, f0, f', hd, hd', hrep⟩ := h
    rw [hd'] at hf
    cases hf
    exact Or.inl ⟨f0, hd, hrep.1.symm⟩

/-- the fields of the metadata a fill writes (`meta.size` is the length of the body that was stored) -/
theorem fillMeta_fields (cfg : Config) (w : Writer) (now : Int) (status : Nat) (ch : Header) (resp : Resp)
    (redirect : Bytes) :
    (fillMeta cfg w now status ch resp redirect).size = resp.body.length ∧
    (fillMeta cfg w now status ch resp redirect).status = stStatusOf status ∧
    (fillMeta cfg w now status ch resp redirect).created = now ∧
    (fillMeta cfg w now status ch resp redirect).revalidated = (if w.revalidating then now else 0) ∧
    (fillMeta cfg w now status ch resp redirect).host = w.key.host ∧
    (fillMeta cfg w now status ch resp redirect).path = w.key.path ∧
    (fillMeta cfg w now status ch resp redirect).reqHeader = w.key.storedHeaders ∧
    (fillMeta cfg w now status ch resp redirect).redirect = redirect ∧
    (fillMeta cfg w now status ch resp redirect).respHeader =
      Codec.storePrep cfg.sfx (stStatusOf status) (stHeaderOf status ch) :=
  ⟨rfl, rfl, rfl, rfl, rfl, rfl, rfl, rfl, rfl⟩

/-- OPTIONAL clause of the task: a `w:fill-empty` (an empty body the key may not hold, e.g. a 200 with an
    empty body on a GET key) leaves the disk, and with it the previous entry, exactly as it was -/
theorem fill_empty_keeps_entry {cfg : Config} {d : Disk} {w : Writer} {now : Int} {status : Nat} {ch : Header}
    {resp : Resp} {redirect : Bytes} {rr : Option Range.ReqRange}
    (hg : inGate (stStatusOf status) = true)
    (hdc : (getCacheControlDirectives (stHeaderOf status ch)).doNotCache = false)
    (hre : resp.readErr = false) (hb : resp.body = [])
    (he : emptyAllowed w.key.method (stStatusOf status) = false) :
    (cachingFill cfg d w now status ch resp redirect rr).label = "w:fill-empty" ∧
    (cachingFill cfg d w now status ch resp redirect rr).toClient = [] ∧
    ∀ p, (cachingFill cfg d w now status ch resp redirect rr).disk p = d p := by
  rw [cachingFill_eq]
  simp only [hg, hdc, hre, hb, he, Bool.not_true, Bool.not_false, Bool.false_eq_true, if_false, List.length_nil,
    and_self, if_true, true_and]
  intro p
  split
  · rfl
  · rename_i h
    rw [upd_apply]
    split
    · rename_i hp
      subst hp
      cases hd : d w.path with
      | none => rfl
      | some f => rw [hd] at h; simp at h
    · rfl

/-! ### non-vacuity (section 2) -/

/-- `cachingFill_cases`, third disjunct / `published_body_is_complete`: a clean 200 publishes the complete body -/
example : (cachingFill {} Disk.empty wWriter 0 200 [] { status := 200, header := [], contentLength := 3, body := b!"abc" } [] none).disk
      wWriter.path = some (fillFile {} wWriter 0 200 [] { status := 200, header := [], contentLength := 3, body := b!"abc" } []) ∧
    (fillFile {} wWriter 0 200 [] { status := 200, header := [], contentLength := 3, body := b!"abc" } []).body = b!"abc" := by
  decide

/-- `failed_fill_publishes_nothing` / `failed_fill_releases_key`: the same answer cut after `par` with a reader error -/
example : wResp.readErr = true ∧
    (cachingFill {} Disk.empty wWriter 0 200 [] wResp [] none).disk wWriter.path = none ∧
    (cachingFill {} Disk.empty wWriter 0 200 [] wResp [] none).toClient = [] ∧
    (cachingFill {} Disk.empty wWriter 0 200 [] wResp [] none).label = "w:fill-readerr" := by decide

/-- `fill_empty_keeps_entry`: a 200 with an empty body on a GET key -/
example : inGate (stStatusOf 200) = true ∧ emptyAllowed wWriter.key.method (stStatusOf 200) = false ∧
    (cachingFill {} wOccupied wWriter 0 200 [] { status := 200, header := [], contentLength := 0, body := [] } [] none).disk
      wWriter.path = some { body := b!"old", xattr := none } := by decide

/-! ## 3. `SizeOK`: the size recorded in an entry is the length of its file -/

/-- whatever metadata the xattr of `f` decodes to records the length of `f`'s body -/
def FileOK (f : File) : Prop :=
  ∀ x m, f.xattr = some x → Codec.decode x = .ok (some m) → m.size = f.body.length

/-- every decodable entry of the disk records the length of its own file -/
def SizeOK (d : Disk) : Prop :=
  ∀ p f x m, d p = some f → f.xattr = some x → Codec.decode x = .ok (some m) → m.size = f.body.length

theorem sizeOK_iff (d : Disk) : SizeOK d ↔ ∀ p f, d p = some f → FileOK f :=
  ⟨fun h p f hf x m hx hm => h p f x m hf hx hm, fun h p f x m hf hx hm => h p f hf x m hx hm⟩

theorem SizeOK.empty : SizeOK Disk.empty := by
  intro p f x m hf; cases hf

/-- every file of `d'` is a file of `d` (possibly under another key) or satisfies `FileOK` -/
theorem SizeOK.of_cells {d d' : Disk} (hd : SizeOK d)
    (h : ∀ p f, d' p = some f → (∃ q, d q = some f) ∨ FileOK f) : SizeOK d' := by
  rw [sizeOK_iff] at hd ⊢
  intro p f hf
  rcases h p f hf with ⟨q, hq⟩ | hok
  · exact hd q f hq
  · exact hok

theorem SizeOK.of_shrinks {d d' : Disk} (hs : Shrinks d' d) (hd : SizeOK d) : SizeOK d' := by
  apply hd.of_cells
  intro p f hf
  rcases hs p with e | e
  · exact Or.inl ⟨p, by rw [← e]; exact hf⟩
  · rw [e] at hf; cases hf

/-- **the codec hypothesis of the task holds unconditionally**: a file made of a body and the encoding
    of metadata that records the body's length is `FileOK`, whatever else the metadata contains
    (`decode_encode_fields`: the codec never misreports a number) -/
theorem fileOK_encode {body : Bytes} {m : Codec.Meta} (hm : m.size = body.length) :
    FileOK { body := body, xattr := some (Codec.encode m) } := by
  intro x m' hx hdec
  cases hx
  rw [(decode_encode_fields hdec).1, hm]

theorem fileOK_fillFile (cfg : Config) (w : Writer) (now : Int) (status : Nat) (ch : Header) (resp : Resp)
    (redirect : Bytes) : FileOK (fillFile cfg w now status ch resp redirect) :=
  fileOK_encode rfl

theorem fileOK_republished {now : Int} {f f' : File} (h : Republished now f f') : FileOK f' := by
  obtain ⟨hb, x, m, hdr, _, _, hsz, hx'⟩ := h
  intro x' m' hx hdec
  rw [hx'] at hx
  cases hx
  rw [(decode_encode_fields hdec).1, hb]
  exact hsz.symm

theorem sizeOK_storageGet {d : Disk} (keys : List Key) (hd : SizeOK d) : SizeOK (storageGet d keys).1 :=
  hd.of_shrinks (storageGet_shrinks keys d)

theorem sizeOK_lookup {d : Disk} (cfg : Config) (now : Int) (keys : List Key) (client : Header) (skip : Bool)
    (hd : SizeOK d) : SizeOK (lookup cfg now keys d client skip).1 :=
  hd.of_shrinks (lookup_shrinks cfg now keys d client skip)

theorem sizeOK_republish {d : Disk} (w : Writer) (now : Int) (h304 : Option Header) (hd : SizeOK d) :
    SizeOK (republish d w now h304).1 := by
  apply hd.of_cells
  intro p f hf
  rcases republish_cases d w now h304 p with e | e | ⟨_, f0, f', _, hf', hrep⟩
  · exact Or.inl ⟨p, by rw [← e]; exact hf⟩
  · rw [e] at hf; cases hf
  · rw [hf'] at hf; cases hf
    exact Or.inr (fileOK_republished hrep)

theorem sizeOK_cachingFill {d : Disk} (cfg : Config) (w : Writer) (now : Int) (status : Nat) (ch : Header)
    (resp : Resp) (redirect : Bytes) (rr : Option Range.ReqRange) (hd : SizeOK d) :
    SizeOK (cachingFill cfg d w now status ch resp redirect rr).disk := by
  apply hd.of_cells
  intro p f hf
  rcases cachingFill_cases cfg d w now status ch resp redirect rr p with e | e | h | h
  · exact Or.inl ⟨p, by rw [← e]; exact hf⟩
  · rw [e] at hf; cases hf
  · rw [h.2.2.2.2.2] at hf; cases hf
    exact Or.inr (fileOK_fillFile cfg w now status ch resp redirect)
  · obtain ⟨_, _, _, _, _, f0, f', _, hf', hrep⟩ := h
    rw [hf'] at hf; cases hf
    exact Or.inr (fileOK_republished hrep)

/-- `ChangeKey` only moves a file -/
theorem changeKey_cells (d : Disk) (w : Writer) (k : Key) (p : Bytes) (f : File)
    (hf : (changeKey d w k).1 p = some f) : ∃ q, d q = some f := by
  unfold changeKey at hf
  split at hf
  · exact ⟨p, hf⟩
  · dsimp only at hf
    split at hf
    · exact ⟨p, hf⟩
    · split at hf
      · rename_i f0 h0
        rw [upd_apply] at hf
        split at hf
        · cases hf; exact ⟨_, h0⟩
        · rw [upd_apply] at hf
          split at hf
          · cases hf
          · exact ⟨p, hf⟩
      · exact ⟨p, hf⟩

theorem sizeOK_changeKey {d : Disk} (w : Writer) (k : Key) (hd : SizeOK d) : SizeOK (changeKey d w k).1 :=
  hd.of_cells fun p f hf => Or.inl (changeKey_cells d w k p f hf)

theorem sizeOK_rekey {d : Disk} (dirs : Directives) (keys : List Key) (w : Writer) (hd : SizeOK d) :
    SizeOK (rekey dirs keys d w).1 := by
  unfold rekey
  split
  · generalize hacc : (d, w) = acc
    have hacc' : SizeOK acc.1 := by rw [← hacc]; exact hd
    clear hacc hd
    induction keys generalizing acc with
    | nil => exact hacc'
    | cons k ks ih =>
      rw [List.foldl_cons]
      apply ih
      split
      · exact sizeOK_changeKey _ _ hacc'
      · exact hacc'
  · exact hd

/-- the disk an activation leaves behind -/
def Step.disk : Step → Disk
  | .done a => a.disk
  | .reenter d _ _ _ _ _ => d
  | .reenterLocked d _ _ _ _ => d

theorem sizeOK_row304 {d : Disk} (ai : Header) (cs : List Contact) (w : Writer) (sg : Conditional.Surgery)
    (resp : Resp) (now : Int) (hd : SizeOK d) : SizeOK (Step.disk (row304 d ai cs w sg resp now)) := by
  unfold row304
  dsimp only
  have hr := sizeOK_republish w now (some (Conditional.dropZeroContentLength resp.header)) hd
  split
  · exact hd
  · split
    · rename_i d1 heq; rw [heq] at hr; exact hr
    · rename_i d1 heq; rw [heq] at hr; exact hr

/-- the self-locked re-entry leaves the disk as its `storage.Get` leaves it -/
theorem lockedReentry_disk (cfg : Config) (origin : Bytes → Option Origin) (now : Int) (req : Request)
    (d : Disk) (client ai : Header) (cs : List Contact) :
    (lockedReentry cfg origin now req d client ai cs).disk = (storageGet d (keysOf cfg req client)).1 := by
  unfold lockedReentry
  dsimp only
  generalize storageGet d (keysOf cfg req client) = r
  rcases r with ⟨d1, g⟩
  cases g with
  | panic s => rfl
  | notFound => rfl
  | found k s =>
    dsimp only
    repeat' first | split | (dsimp only; split)
    all_goals rfl

theorem sizeOK_afterAnswer {d : Disk} (cfg : Config) (now : Int) (keys : List Key) (rr : Option Range.ReqRange)
    (ai : Header) (cs : List Contact) (reval : Option (Key × Stored × Int)) (w : Writer)
    (sg : Conditional.Surgery) (resp : Resp) (hd : SizeOK d) :
    SizeOK (Step.disk (afterAnswer cfg now keys rr d ai cs reval w sg resp)) := by
  unfold afterAnswer
  split
  · exact hd
  · dsimp only
    split
    · exact sizeOK_row304 _ _ _ _ _ _ hd
    · split
      · exact hd
      · split
        · exact hd
        · have hd2 := sizeOK_rekey (getCacheControlDirectives resp.header) keys w hd
          split
          · exact hd2
          · split
            · exact hd2
            · exact sizeOK_cachingFill _ _ _ _ _ _ _ _ hd2

theorem sizeOK_writerRow {d : Disk} (cfg : Config) (origin : Bytes → Option Origin) (now : Int) (req : Request)
    (keys : List Key) (rr : Option Range.ReqRange) (client ai : Header) (cs : List Contact)
    (reval : Option (Key × Stored × Int)) (hd : SizeOK d) :
    SizeOK (Step.disk (writerRow cfg origin now req keys rr d client ai cs reval)) := by
  unfold writerRow
  dsimp only
  split
  · exact hd
  · exact sizeOK_afterAnswer _ _ _ _ _ _ _ _ _ _ hd

/-- **`SizeOK` is preserved by one activation of `cachingFunc`** … -/
theorem sizeOK_stepOnce {d : Disk} (cfg : Config) (origin : Bytes → Option Origin) (now : Int) (req : Request)
    (client ai : Header) (skip : Bool) (cs : List Contact) (hd : SizeOK d) :
    SizeOK (Step.disk (stepOnce cfg origin now req d client ai skip cs)) := by
  unfold stepOnce
  split
  · split <;> exact hd
  · dsimp only
    have hl := sizeOK_lookup cfg now (keysOf cfg req client) client skip hd
    split
    · rename_i d1 heq; rw [heq] at hl; exact hl
    · rename_i d1 s heq; rw [heq] at hl; exact hl
    · rename_i d1 s age stale heq; rw [heq] at hl; exact hl
    · rename_i d1 reval heq; rw [heq] at hl
      exact sizeOK_writerRow _ _ _ _ _ _ _ _ _ _ hl

/-- … by a whole request … -/
theorem sizeOK_cachingFunc (cfg : Config) (origin : Bytes → Option Origin) (now : Int) (req : Request) :
    ∀ (fuel : Nat) (d : Disk) (client ai : Header) (skip : Bool) (cs : List Contact), SizeOK d →
      SizeOK (cachingFunc cfg origin now req fuel d client ai skip cs).disk := by
  intro fuel
  induction fuel with
  | zero => intro d client ai skip cs hd; exact hd
  | succ n ih =>
    intro d client ai skip cs hd
    have h1 := sizeOK_stepOnce cfg origin now req client ai skip cs hd
    unfold cachingFunc
    split
    · rename_i a heq; rw [heq] at h1; exact h1
    · rename_i d' c' ai' s' cs' tag heq
      rw [heq] at h1
      exact ih d' c' ai' s' cs' h1
    · rename_i d' c' ai' cs' tag heq
      rw [heq] at h1
      show SizeOK (lockedReentry cfg origin now req d' c' ai' cs').disk
      rw [lockedReentry_disk]
      exact sizeOK_storageGet _ h1

/-- … and by every operation of a history -/
theorem sizeOK_step (cfg : Config) (s : State) (op : Op) (hs : SizeOK s.disk) : SizeOK (step cfg s op).1.disk := by
  cases op with
  | tick dt => exact hs
  | setOrigin p o => exact hs
  | req r => exact sizeOK_cachingFunc cfg s.origin s.now r _ _ _ _ _ _ hs

/-- the states a history leads through -/
def stateAfter (cfg : Config) : State → List Op → State
  | s, [] => s
  | s, op :: ops => stateAfter cfg (step cfg s op).1 ops

/-- **`SizeOK` is an invariant of the system**: in every state reachable from the empty cache by any
    history of requests, clock ticks and origin changes, every decodable entry records the length of
    its own file.  (The size comparison `storage.Get` skips when a `content-length` is stored - dead
    code - could therefore never fail on a disk only rrrouter writes to.) -/
theorem sizeOK_reachable (cfg : Config) (now : Int) (ops : List Op) :
    SizeOK (stateAfter cfg (State.init now) ops).disk := by
  suffices h : ∀ (ops : List Op) (s : State), SizeOK s.disk → SizeOK (stateAfter cfg s ops).disk from
    h ops _ SizeOK.empty
  intro ops
  induction ops with
  | nil => intro s hs; exact hs
  | cons op ops ih => intro s hs; exact ih _ (sizeOK_step cfg s op hs)

/-- on a `SizeOK` disk every entry `cache.Get` serves records the length of its file -/
theorem served_size_of_sizeOK {cfg : Config} {now : Int} {keys : List Key} {d d' : Disk} {client : Header} {skip : Bool}
    {s : Stored} {age : Int} {stale : Bool} (hd : SizeOK d)
    (hl : lookup cfg now keys d client skip = (d', .serve s age stale)) : s.meta.size = s.file.body.length := by
  obtain ⟨k, _, hk, x, hx, hdec, _⟩ := lookup_serve_storedAt hl
  have hd' : SizeOK d' := by
    have := sizeOK_lookup cfg now keys client skip hd
    rw [hl] at this; exact this
  exact hd' _ _ _ _ hk hx hdec

/-- **C07 on a `SizeOK` disk (every reachable one): a hit hands out the whole stored file**, byte for
    byte, full length, under the stored status and header map -/
theorem hit_replays_whole_file_sizeOK {cfg : Config} {origin : Bytes → Option Origin} {now : Int} {req : Request}
    {d d' : Disk} {client ai : Header} {skip : Bool} {cs : List Contact} {s : Stored} {age : Int} {stale : Bool}
    (hd : SizeOK d)
    (hm : req.method = b!"GET" ∨ req.method = b!"HEAD")
    (hr : Range.getRange client = none)
    (hl : lookup cfg now (keysOf cfg req client) d client skip = (d', .serve s age stale)) :
    ∃ a, stepOnce cfg origin now req d client ai skip cs = .done a ∧
      a.disk = d' ∧ a.contacts = cs ∧ a.out.status = s.meta.status.toNat ∧
      a.out.header = hitHeader cfg s ai age stale ∧ a.out.writes.flatten = s.file.body := by
  refine ⟨_, hit_replays_entry hm hr hl, rfl, rfl, rfl, rfl, ?_⟩
  show (oneWrite (hitBytes s)).flatten = _
  rw [oneWrite_flatten, hitBytes_of_size (served_size_of_sizeOK hd hl)]

/-- C05's framing clause on hits, on a `SizeOK` disk: complete, with the whole file as body, exactly
    when the stored `content-length` is consistent with the file (`ClOK`) -/
theorem hit_wire_complete_sizeOK {cfg : Config} {origin : Bytes → Option Origin} {now : Int} {req : Request}
    {d d' : Disk} {client ai : Header} {skip : Bool} {cs : List Contact} {s : Stored} {age : Int} {stale : Bool}
    (hd : SizeOK d)
    (hm : req.method = b!"GET")
    (hr : Range.getRange client = none)
    (hl : lookup cfg now (keysOf cfg req client) d client skip = (d', .serve s age stale))
    (hst : ¬ Bodyless s.meta.status.toNat)
    (hai : NoKey ai b!"content-length")
    (hcl : ClOK s) :
    ∃ a, stepOnce cfg origin now req d client ai skip cs = .done a ∧
      wire req.method a.out = (s.meta.status.toNat, true, s.file.body, hitHeader cfg s ai age stale) :=
  hit_wire_complete hm hr hl hst hai (Or.inr ⟨served_size_of_sizeOK hd hl, hcl⟩)

/-! ### non-vacuity (section 3) -/

/-- a disk with an entry satisfies `SizeOK` … -/
example : SizeOK exDisk := SizeOK.empty.of_cells (fun p f hf => by
  unfold exDisk at hf
  rw [upd_apply] at hf
  split at hf
  · cases hf; exact Or.inr (fileOK_encode rfl)
  · cases hf)

/-- … and `SizeOK` is not trivially true: the same metadata (size 3) on a 2-byte file violates it -/
example : ¬ SizeOK (Disk.empty.upd [] (some { body := b!"ab", xattr := some (Codec.encode exMeta) })) := by
  intro h
  have h3 := h [] _ _ exMeta (upd_self ..) rfl (by decide)
  revert h3
  decide

/-! ## 4. A fill followed by the same request is a hit that replays the origin's body -/

/-- the NotFoundWriter of such a request -/
def missWriter (cfg : Config) (req : Request) (client : Header) : Writer :=
  { key := theKey cfg req client, path := keyString (theKey cfg req client), revalidating := false,
    diskWritesDisabled := false }

theorem writerOf_single {cfg : Config} {req : Request} {client : Header}
    (hauth : client.get b!"authorization" = []) :
    writerOf [theKey cfg req client] client none = missWriter cfg req client := by
  unfold writerOf missWriter
  simp only [hauth, List.length_nil, Nat.lt_irrefl, decide_false, Option.isSome_none]
  rfl

/-- alwaysInclude on the row `w:fill` of a NotFoundWriter -/
def missAI (ai : Header) : Header := (ai.set kStatus b!"miss").set b!"Age" b!"0"

/-- the header map the client is sent on that row, which is also what the storage writer is given -/
def missHeader (cfg : Config) (resp : Resp) (ai : Header) : Header :=
  Conditional.suffixETag cfg.sfx (Conditional.copyHeaders resp.header (missAI ai))

theorem inGate_ne {s : Nat} (h : inGate s = true) : s ≠ 304 ∧ s ≠ 206 := by
  constructor <;> (intro e; subst e; revert h; decide)

theorem sendBody_none_full (b : Bytes) : sendBody none (b.length : Int) b = b := by
  unfold sendBody
  dsimp only
  split
  · rename_i h
    have : b.length = 0 := by omega
    exact (List.length_eq_zero_iff.1 this).symm
  · simp

theorem surgeryOf_none_used (rr : Option Range.ReqRange) (client : Header) :
    (surgeryOf rr client none).used = [] := rfl

/-- the caching stack on the storing branch, in one piece -/
theorem cachingFill_fill {cfg : Config} {d : Disk} {w : Writer} {now : Int} {status : Nat} {ch : Header}
    {resp : Resp} {redirect : Bytes} {rr : Option Range.ReqRange}
    (hg : inGate status = true)
    (hdc : (getCacheControlDirectives ch).doNotCache = false)
    (hre : resp.readErr = false)
    (hb : resp.body ≠ [] ∨ emptyAllowed w.key.method status = true) :
    cachingFill cfg d w now status ch resp redirect rr =
      { disk := d.upd w.path (some (fillFile cfg w now status ch resp redirect)),
        toClient := sendBody rr resp.body.length resp.body, label := "w:fill" } := by
  have h206 : status ≠ 206 := (inGate_ne hg).2
  have hs : stStatusOf status = status := by unfold stStatusOf; rw [if_neg h206]
  have hh : stHeaderOf status ch = ch := by unfold stHeaderOf; rw [if_neg h206]
  rw [cachingFill_eq, hs, hh, hg, hdc, hre]
  have hne : ¬ (resp.body.length = 0 ∧ (!emptyAllowed w.key.method status) = true) := by
    rintro ⟨h1, h2⟩
    rcases hb with hb | hb
    · exact hb (List.length_eq_zero_iff.1 h1)
    · rw [hb] at h2; cases h2
  simp only [Bool.not_true, Bool.false_eq_true, if_false, hne]

/-- **the filling request** (generalised to every storable status): a GET/HEAD request without `Origin`,
    `Authorization` and parsed Range for which nothing is stored; the origin answers with a status
    inside the storage gate, directives that allow storing, a body reader that ends with `io.EOF`, and
    a body that is non-empty or may be empty for this key.  The activation answers with the origin's
    status and the complete body, and publishes `fillFile` under the request's one key. -/
theorem miss_fills {cfg : Config} {origin : Bytes → Option Origin} {now : Int} {req : Request}
    {d d0 : Disk} {client ai : Header} {skip : Bool} {cs : List Contact} {resp : Resp}
    (hm : req.method = b!"GET" ∨ req.method = b!"HEAD")
    (ho : client.get b!"origin" = [])
    (hauth : client.get b!"authorization" = [])
    (hr : Range.getRange client = none)
    (hl : lookup cfg now (keysOf cfg req client) d client skip = (d0, .writer none))
    (hask : ask cfg origin req cs (surgeryOf none client none).req = some resp)
    (hre : resp.readErr = false)
    (hg : inGate resp.status = true)
    (hdc1 : (getCacheControlDirectives resp.header).doNotCache = false)
    (hdc2 : (getCacheControlDirectives (missHeader cfg resp ai)).doNotCache = false)
    (hb : resp.body ≠ [] ∨ emptyAllowed (keyMethod req.method) resp.status = true) :
    stepOnce cfg origin now req d client ai skip cs =
      .done { disk := d0.upd (keyString (theKey cfg req client))
                (some (fillFile cfg (missWriter cfg req client) now resp.status (missHeader cfg resp ai) resp [])),
              out := { status := resp.status, header := missHeader cfg resp ai, writes := oneWrite resp.body },
              contacts := logged cfg cs (surgeryOf none client none).req,
              label := "w:fill" } := by
  unfold stepOnce
  have hm' : ¬ (req.method ≠ b!"GET" ∧ req.method ≠ b!"HEAD") := by
    rcases hm with h | h <;> simp [h]
  rw [if_neg hm']
  simp only [hl, hr]
  unfold writerRow
  rw [keysOf_single ho, writerOf_single hauth]
  simp only [hask]
  unfold afterAnswer
  have h304 : resp.status ≠ 304 := (inGate_ne hg).1
  have hra : rangeAdjust none resp ai = (none, none, ai) := rfl
  have hrk : rekey (getCacheControlDirectives resp.header) [theKey cfg req client] d0 (missWriter cfg req client)
      = (d0, missWriter cfg req client) := by
    unfold rekey
    have : (missWriter cfg req client).key.hasOpaqueOrigin = false := rfl
    rw [this]
    simp
  have hsie : staleIfErrorOf none resp = false := rfl
  simp only [hra, surgeryOf_none_used, List.length_nil, Nat.lt_irrefl, false_and, if_false, hdc1,
    Bool.false_eq_true, hsie, hrk, Option.getD_none, h304, Option.isSome_none]
  have hw : (missWriter cfg req client).diskWritesDisabled = false := rfl
  simp only [hw, Bool.false_eq_true, if_false]
  have hb' : resp.body ≠ [] ∨ emptyAllowed (missWriter cfg req client).key.method resp.status = true := hb
  have hfill := cachingFill_fill (cfg := cfg) (d := d0) (w := missWriter cfg req client) (now := now)
    (redirect := []) (rr := none) hg hdc2 hre hb'
  have hch : Conditional.suffixETag cfg.sfx (Conditional.copyHeaders resp.header
      ((ai.set kStatus b!"miss").set b!"Age" b!"0")) = missHeader cfg resp ai := rfl
  rw [hch, hfill, sendBody_none_full]
  rfl

/-- **the second request** (generalised): the one key of the list holds a file whose metadata decodes
    to `m` with the file's length; `cache.Get` judges `m` fresh ⇒ the hit row, the disk untouched,
    no contact, the stored status and the WHOLE file -/
theorem hit_of_stored {cfg : Config} {origin : Bytes → Option Origin} {now : Int} {req : Request}
    {d : Disk} {client ai : Header} {skip : Bool} {cs : List Contact}
    {f : File} {x : Bytes} {m : Codec.Meta} {age : Int}
    (hm : req.method = b!"GET" ∨ req.method = b!"HEAD")
    (ho : client.get b!"origin" = [])
    (hr : Range.getRange client = none)
    (hf : d (keyString (theKey cfg req client)) = some f) (hx : f.xattr = some x)
    (hdec : Codec.decode x = .ok (some m)) (hsz : m.size = f.body.length)
    (hfresh : Freshness.decide { header := m.respHeader, created := m.created, revalidated := m.revalidated }
      now cfg.force skip (client.get b!"if-none-match") (client.get b!"if-modified-since") cfg.sfx = .ok (.fresh age)) :
    stepOnce cfg origin now req d client ai skip cs =
      .done { disk := d, out := hitOut cfg ⟨m, f⟩ ai age false, contacts := cs, label := "f:hit" } ∧
    (hitOut cfg ⟨m, f⟩ ai age false).writes.flatten = f.body := by
  refine ⟨hit_replays_entry hm hr (lookup_of_stored ho hf hx hdec hsz hfresh), ?_⟩
  show (oneWrite (hitBytes ⟨m, f⟩)).flatten = _
  rw [oneWrite_flatten, hitBytes_of_size hsz]

/-- the metadata the filling request of `miss_fills` writes … -/
abbrev missMeta (cfg : Config) (req : Request) (client : Header) (now : Int) (resp : Resp) (ai : Header) : Codec.Meta :=
  fillMeta cfg (missWriter cfg req client) now resp.status (missHeader cfg resp ai) resp []

/-- … and the file it publishes -/
abbrev missFile (cfg : Config) (req : Request) (client : Header) (now : Int) (resp : Resp) (ai : Header) : File :=
  fillFile cfg (missWriter cfg req client) now resp.status (missHeader cfg resp ai) resp []

theorem missMeta_status {cfg : Config} {req : Request} {client : Header} {now : Int} {resp : Resp} {ai : Header}
    (hg : inGate resp.status = true) : (missMeta cfg req client now resp ai).status = resp.status := by
  show ((stStatusOf resp.status : Nat) : Int) = _
  unfold stStatusOf; rw [if_neg (inGate_ne hg).2]

theorem missMeta_respHeader {cfg : Config} {req : Request} {client : Header} {now : Int} {resp : Resp} {ai : Header}
    (hg : inGate resp.status = true) :
    (missMeta cfg req client now resp ai).respHeader = Codec.storePrep cfg.sfx resp.status (missHeader cfg resp ai) := by
  show Codec.storePrep cfg.sfx (stStatusOf resp.status) (stHeaderOf resp.status (missHeader cfg resp ai)) = _
  unfold stStatusOf stHeaderOf; rw [if_neg (inGate_ne hg).2, if_neg (inGate_ne hg).2]

/-- **`fill_then_hit`, generalised to every storable status, to HEAD, and to every DECODABLE entry**
    (item 5 of the task: HEAD keys, 301 / 404 …, with the empty bodies `emptyAllowed` admits).  The
    first request fills (`miss_fills`); the xattr it wrote decodes to SOME metadata `m'` (`hcodec`: the
    undecodable part of finding C07-a excluded; the header maps of `m'` may differ from what was
    written, its numbers cannot: `decode_encode_fields`) which `cache.Get` judges fresh at the same
    instant; then the SAME request - whatever alwaysInclude map and contact log it starts with - is
    the hit row: no origin contact, the disk untouched, the origin's status and the origin's complete
    body under the decoded header map. -/
theorem fill_then_hit_gen {cfg : Config} {origin : Bytes → Option Origin} {now : Int} {req : Request}
    {d d0 : Disk} {client ai ai2 : Header} {skip : Bool} {cs cs2 : List Contact} {resp : Resp} {age : Int}
    {m' : Codec.Meta}
    (hm : req.method = b!"GET" ∨ req.method = b!"HEAD")
    (ho : client.get b!"origin" = [])
    (hauth : client.get b!"authorization" = [])
    (hr : Range.getRange client = none)
    (hinm : client.get b!"if-none-match" = [])
    (hims : client.get b!"if-modified-since" = [])
    (hl : lookup cfg now (keysOf cfg req client) d client skip = (d0, .writer none))
    (hask : ask cfg origin req cs (surgeryOf none client none).req = some resp)
    (hre : resp.readErr = false)
    (hg : inGate resp.status = true)
    (hdc1 : (getCacheControlDirectives resp.header).doNotCache = false)
    (hdc2 : (getCacheControlDirectives (missHeader cfg resp ai)).doNotCache = false)
    (hb : resp.body ≠ [] ∨ emptyAllowed (keyMethod req.method) resp.status = true)
    (hcodec : Codec.decode (Codec.encode (missMeta cfg req client now resp ai)) = .ok (some m'))
    (hfresh : Freshness.decide (entryOf ⟨m', missFile cfg req client now resp ai⟩)
      now cfg.force false [] [] cfg.sfx = .ok (.fresh age)) :
    ∃ a1 a2,
      stepOnce cfg origin now req d client ai skip cs = .done a1 ∧
      a1.label = "w:fill" ∧ a1.out.status = resp.status ∧ a1.out.writes.flatten = resp.body ∧
      a1.contacts = logged cfg cs (surgeryOf none client none).req ∧
      a1.disk (keyString (theKey cfg req client)) = some (missFile cfg req client now resp ai) ∧
      stepOnce cfg origin now req a1.disk client ai2 false cs2 = .done a2 ∧
      a2.label = "f:hit" ∧ a2.contacts = cs2 ∧ a2.disk = a1.disk ∧
      a2.out.status = resp.status ∧ a2.out.writes.flatten = resp.body ∧
      a2.out.header = Conditional.suffixETag cfg.sfx (Conditional.copyHeaders m'.respHeader (hitAI ai2 age false)) := by
  have h1 := miss_fills (ai := ai) hm ho hauth hr hl hask hre hg hdc1 hdc2 hb
  have hf := decode_encode_fields hcodec
  have hfresh' : Freshness.decide { header := m'.respHeader, created := m'.created, revalidated := m'.revalidated }
      now cfg.force false (client.get b!"if-none-match") (client.get b!"if-modified-since") cfg.sfx = .ok (.fresh age) := by
    rw [hinm, hims]; exact hfresh
  obtain ⟨h2, h2b⟩ := hit_of_stored (origin := origin) (ai := ai2) (cs := cs2)
    (d := d0.upd (keyString (theKey cfg req client)) (some (missFile cfg req client now resp ai)))
    (f := missFile cfg req client now resp ai)
    hm ho hr (upd_self ..) rfl hcodec hf.1 hfresh'
  refine ⟨_, _, h1, rfl, rfl, oneWrite_flatten _, rfl, upd_self .., h2, rfl, rfl, rfl, ?_, h2b, rfl⟩
  show m'.status.toNat = _
  rw [hf.2.1, missMeta_status hg]; simp

theorem noKey_missAI {ai : Header} {k : Bytes} (h : NoKey ai k) (h1 : canon kStatus ≠ canon k)
    (h2 : canon b!"Age" ≠ canon k) : NoKey (missAI ai) k :=
  NoKey.set (NoKey.set h _ h1) _ h2

/-- the directive test of the storage writer (run on the header map the CLIENT was sent) agrees with the
    handler's own (run on the origin's header map) for every answer of the scripted origin -/
theorem missHeader_directives {cfg : Config} {origin : Bytes → Option Origin} {req : Request} {cs : List Contact}
    {h ai : Header} {resp : Resp} (hask : ask cfg origin req cs h = some resp)
    (h1 : NoKey ai b!"cache-control") (h2 : NoKey ai b!"vary") :
    getCacheControlDirectives (missHeader cfg resp ai) = getCacheControlDirectives resp.header :=
  directives_clientHeader (ask_canonical hask) (noKey_missAI h1 (by decide) (by decide))
    (noKey_missAI h2 (by decide) (by decide))

/-- **`fill_then_hit`** as the task states it: GET, no `Origin`, no `Authorization`, no parsed Range, no
    validators; nothing stored; the origin answers 200 with a non-empty body, a clean end of the body
    and directives that allow storing; the metadata written is decodable (`hcodec`) and what it decodes
    to is fresh.  Then the same request against the disk the first one left, at the same instant, is
    answered from the cache: label `f:hit`, NO origin contact, status 200, the origin's body byte for
    byte, the disk unchanged.  (`fill_then_hit_representable` below discharges `hcodec` from
    `Representable` and states freshness on the metadata as WRITTEN.) -/
theorem fill_then_hit {cfg : Config} {origin : Bytes → Option Origin} {now : Int} {req : Request}
    {d d0 : Disk} {client ai ai2 : Header} {skip : Bool} {cs cs2 : List Contact} {resp : Resp} {age : Int}
    {m' : Codec.Meta}
    (hm : req.method = b!"GET")
    (ho : client.get b!"origin" = [])
    (hauth : client.get b!"authorization" = [])
    (hr : Range.getRange client = none)
    (hinm : client.get b!"if-none-match" = [])
    (hims : client.get b!"if-modified-since" = [])
    (hai1 : NoKey ai b!"cache-control") (hai2 : NoKey ai b!"vary")
    (hl : lookup cfg now (keysOf cfg req client) d client skip = (d0, .writer none))
    (hask : ask cfg origin req cs (surgeryOf none client none).req = some resp)
    (hre : resp.readErr = false)
    (hst : resp.status = 200)
    (hb : resp.body ≠ [])
    (hdc : (getCacheControlDirectives resp.header).doNotCache = false)
    (hcodec : Codec.decode (Codec.encode (missMeta cfg req client now resp ai)) = .ok (some m'))
    (hfresh : Freshness.decide (entryOf ⟨m', missFile cfg req client now resp ai⟩)
      now cfg.force false [] [] cfg.sfx = .ok (.fresh age)) :
    ∃ a1 a2,
      stepOnce cfg origin now req d client ai skip cs = .done a1 ∧
      a1.label = "w:fill" ∧ a1.out.status = 200 ∧ a1.out.writes.flatten = resp.body ∧
      a1.contacts = logged cfg cs (surgeryOf none client none).req ∧
      a1.disk (keyString (theKey cfg req client)) = some (missFile cfg req client now resp ai) ∧
      stepOnce cfg origin now req a1.disk client ai2 false cs2 = .done a2 ∧
      a2.label = "f:hit" ∧ a2.contacts = cs2 ∧ a2.disk = a1.disk ∧
      a2.out.status = 200 ∧ a2.out.writes.flatten = resp.body ∧
      a2.out.header = Conditional.suffixETag cfg.sfx (Conditional.copyHeaders m'.respHeader (hitAI ai2 age false)) := by
  have hg : inGate resp.status = true := by rw [hst]; rfl
  have hdc2 : (getCacheControlDirectives (missHeader cfg resp ai)).doNotCache = false := by
    rw [missHeader_directives hask hai1 hai2]; exact hdc
  have := fill_then_hit_gen (ai2 := ai2) (cs2 := cs2) (Or.inl hm) ho hauth hr hinm hims hl hask hre hg hdc hdc2
    (Or.inl hb) hcodec hfresh
  rw [hst] at this
  exact this

/-- when `storageWriter.Close` publishes an EMPTY file: HEAD keys, 204, the cacheable errors 400-404, redirects -/
theorem emptyAllowed_iff (m : Bytes) (st : Nat) :
    emptyAllowed m st = true ↔
      m = b!"HEAD" ∨ st = 204 ∨ (400 ≤ st ∧ st ≤ 404) ∨ st ∈ [301, 302, 303, 307, 308] := by
  unfold emptyAllowed
  simp only [Bool.or_eq_true, decide_eq_true_eq, Props.C07.isCacheableError_iff, Int.toNat_natCast,
    Facts.redirectStatuses, List.contains_eq_mem]
  constructor
  · rintro (((h | h) | h) | h)
    · exact Or.inl h
    · exact Or.inr (Or.inl (by omega))
    · exact Or.inr (Or.inr (Or.inl (by omega)))
    · exact Or.inr (Or.inr (Or.inr h))
  · rintro (h | h | h | h)
    · exact Or.inl (Or.inl (Or.inl h))
    · exact Or.inl (Or.inl (Or.inr (by omega)))
    · exact Or.inl (Or.inr (by omega))
    · exact Or.inr h

/-- OPTIONAL item 5 of the task, HEAD: a HEAD request that fills (whatever the body the reader hands out -
    for the scripted origin it is empty) is followed by a hit with the same status and that body -/
theorem fill_then_hit_head {cfg : Config} {origin : Bytes → Option Origin} {now : Int} {req : Request}
    {d d0 : Disk} {client ai ai2 : Header} {skip : Bool} {cs cs2 : List Contact} {resp : Resp} {age : Int}
    {m' : Codec.Meta}
    (hm : req.method = b!"HEAD")
    (ho : client.get b!"origin" = [])
    (hauth : client.get b!"authorization" = [])
    (hr : Range.getRange client = none)
    (hinm : client.get b!"if-none-match" = [])
    (hims : client.get b!"if-modified-since" = [])
    (hl : lookup cfg now (keysOf cfg req client) d client skip = (d0, .writer none))
    (hask : ask cfg origin req cs (surgeryOf none client none).req = some resp)
    (hre : resp.readErr = false)
    (hg : inGate resp.status = true)
    (hdc1 : (getCacheControlDirectives resp.header).doNotCache = false)
    (hdc2 : (getCacheControlDirectives (missHeader cfg resp ai)).doNotCache = false)
    (hcodec : Codec.decode (Codec.encode (missMeta cfg req client now resp ai)) = .ok (some m'))
    (hfresh : Freshness.decide (entryOf ⟨m', missFile cfg req client now resp ai⟩)
      now cfg.force false [] [] cfg.sfx = .ok (.fresh age)) :
    ∃ a1 a2,
      stepOnce cfg origin now req d client ai skip cs = .done a1 ∧ a1.label = "w:fill" ∧
      stepOnce cfg origin now req a1.disk client ai2 false cs2 = .done a2 ∧
      a2.label = "f:hit" ∧ a2.contacts = cs2 ∧ a2.disk = a1.disk ∧
      a2.out.status = resp.status ∧ a2.out.writes.flatten = resp.body := by
  have hb : resp.body ≠ [] ∨ emptyAllowed (keyMethod req.method) resp.status = true := by
    right
    rw [hm]
    exact (emptyAllowed_iff _ _).2 (Or.inl (by decide))
  obtain ⟨a1, a2, h1, h2, _, _, _, _, h7, h8, h9, h10, h11, h12, _⟩ :=
    fill_then_hit_gen (ai2 := ai2) (cs2 := cs2) (Or.inr hm) ho hauth hr hinm hims hl hask hre hg hdc1 hdc2 hb hcodec hfresh
  exact ⟨a1, a2, h1, h2, h7, h8, h9, h10, h11, h12⟩

/-- OPTIONAL item 5, 301 / 302 / 303 / 307 / 308 / 400-404 on a GET key: EMPTY bodies are stored and replayed too -/
theorem fill_then_hit_empty_body {cfg : Config} {origin : Bytes → Option Origin} {now : Int} {req : Request}
    {d d0 : Disk} {client ai ai2 : Header} {skip : Bool} {cs cs2 : List Contact} {resp : Resp} {age : Int}
    {m' : Codec.Meta}
    (hm : req.method = b!"GET")
    (ho : client.get b!"origin" = [])
    (hauth : client.get b!"authorization" = [])
    (hr : Range.getRange client = none)
    (hinm : client.get b!"if-none-match" = [])
    (hims : client.get b!"if-modified-since" = [])
    (hl : lookup cfg now (keysOf cfg req client) d client skip = (d0, .writer none))
    (hask : ask cfg origin req cs (surgeryOf none client none).req = some resp)
    (hre : resp.readErr = false)
    (hst : (400 ≤ resp.status ∧ resp.status ≤ 404) ∨ resp.status ∈ [301, 302, 303, 307, 308])
    (hdc1 : (getCacheControlDirectives resp.header).doNotCache = false)
    (hdc2 : (getCacheControlDirectives (missHeader cfg resp ai)).doNotCache = false)
    (hcodec : Codec.decode (Codec.encode (missMeta cfg req client now resp ai)) = .ok (some m'))
    (hfresh : Freshness.decide (entryOf ⟨m', missFile cfg req client now resp ai⟩)
      now cfg.force false [] [] cfg.sfx = .ok (.fresh age)) :
    ∃ a1 a2,
      stepOnce cfg origin now req d client ai skip cs = .done a1 ∧ a1.label = "w:fill" ∧
      stepOnce cfg origin now req a1.disk client ai2 false cs2 = .done a2 ∧
      a2.label = "f:hit" ∧ a2.contacts = cs2 ∧ a2.disk = a1.disk ∧
      a2.out.status = resp.status ∧ a2.out.writes.flatten = resp.body := by
  have hg : inGate resp.status = true := by
    unfold inGate
    simp only [Bool.or_eq_true, decide_eq_true_eq, Props.C07.isCacheableError_iff, Facts.redirectStatuses,
      List.contains_eq_mem]
    rcases hst with h | h
    · exact Or.inl (Or.inr (by omega))
    · exact Or.inr h
  have hb : resp.body ≠ [] ∨ emptyAllowed (keyMethod req.method) resp.status = true :=
    Or.inr ((emptyAllowed_iff _ _).2 (Or.inr (Or.inr hst)))
  obtain ⟨a1, a2, h1, h2, _, _, _, _, h7, h8, h9, h10, h11, h12, _⟩ :=
    fill_then_hit_gen (ai2 := ai2) (cs2 := cs2) (Or.inl hm) ho hauth hr hinm hims hl hask hre hg hdc1 hdc2 hb hcodec hfresh
  exact ⟨a1, a2, h1, h2, h7, h8, h9, h10, h11, h12⟩

/-! ## 5. C13 at system level: a failed fetch of a NotFoundWriter leaves every key of the request free -/

/-- no key of the list has a file -/
def KeysFree (d : Disk) (keys : List Key) : Prop := ∀ k ∈ keys, d (keyString k) = none

theorem storageGet_of_free : ∀ {keys : List Key} {d : Disk}, KeysFree d keys → storageGet d keys = (d, .notFound)
  | [], d, _ => rfl
  | k :: ks, d, h => by
    have h1 : getOne d k = (d, .ok none) := by
      unfold getOne
      rw [h k (List.mem_cons_self ..)]
    unfold storageGet
    simp only [h1]
    exact storageGet_of_free (fun k' hk' => h k' (List.mem_cons_of_mem _ hk'))

/-- … so the next request for these keys starts a fresh fetch (a NotFoundWriter), whatever its clock,
    validators, `skipRevalidate` -/
theorem lookup_of_free {cfg : Config} {now : Int} {keys : List Key} {d : Disk} {client : Header} {skip : Bool}
    (h : KeysFree d keys) : lookup cfg now keys d client skip = (d, .writer none) := by
  unfold lookup
  rw [storageGet_of_free h]

theorem KeysFree.of_shrinks {d d' : Disk} {keys : List Key} (hs : Shrinks d' d) (h : KeysFree d keys) :
    KeysFree d' keys := by
  intro k hk
  rcases hs (keyString k) with e | e
  · rw [e]; exact h k hk
  · exact e

/-- `ChangeKey` to a key of the list, by a writer sitting on a key of the list, on a disk where all of
    them are free: nothing moves, the writer sits on a key of the list again -/
theorem changeKey_free {d : Disk} {keys : List Key} {w : Writer} {k : Key} (h : KeysFree d keys)
    (hw : ∃ k0 ∈ keys, w.path = keyString k0) (hk : k ∈ keys) :
    (changeKey d w k).1 = d ∧ (∃ k0 ∈ keys, (changeKey d w k).2.path = keyString k0) ∧
    (changeKey d w k).2.revalidating = w.revalidating ∧
    (changeKey d w k).2.diskWritesDisabled = w.diskWritesDisabled := by
  unfold changeKey
  split
  · exact ⟨rfl, hw, rfl, rfl⟩
  · dsimp only
    rw [h k hk]
    obtain ⟨k0, hk0, hp⟩ := hw
    rw [hp, h k0 hk0]
    exact ⟨rfl, ⟨k, hk, rfl⟩, rfl, rfl⟩

theorem rekey_free {d : Disk} {keys : List Key} {w : Writer} (dirs : Directives) (h : KeysFree d keys)
    (hw : ∃ k0 ∈ keys, w.path = keyString k0) :
    (rekey dirs keys d w).1 = d ∧ (∃ k0 ∈ keys, (rekey dirs keys d w).2.path = keyString k0) ∧
    (rekey dirs keys d w).2.revalidating = w.revalidating ∧
    (rekey dirs keys d w).2.diskWritesDisabled = w.diskWritesDisabled := by
  unfold rekey
  split
  · suffices hgen : ∀ (l : List Key) (acc : Disk × Writer), (∀ k ∈ l, k ∈ keys) →
        acc.1 = d → (∃ k0 ∈ keys, acc.2.path = keyString k0) →
        acc.2.revalidating = w.revalidating → acc.2.diskWritesDisabled = w.diskWritesDisabled →
        (l.foldl (fun (acc : Disk × Writer) k => if k.hasFullOrigin then changeKey acc.1 acc.2 k else acc) acc).1 = d ∧
        (∃ k0 ∈ keys, (l.foldl (fun (acc : Disk × Writer) k => if k.hasFullOrigin then changeKey acc.1 acc.2 k else acc) acc).2.path = keyString k0) ∧
        (l.foldl (fun (acc : Disk × Writer) k => if k.hasFullOrigin then changeKey acc.1 acc.2 k else acc) acc).2.revalidating = w.revalidating ∧
        (l.foldl (fun (acc : Disk × Writer) k => if k.hasFullOrigin then changeKey acc.1 acc.2 k else acc) acc).2.diskWritesDisabled = w.diskWritesDisabled from
      hgen keys (d, w) (fun _ hk => hk) rfl hw rfl rfl
    intro l
    induction l with
    | nil => intro acc _ h1 h2 h3 h4; exact ⟨h1, h2, h3, h4⟩
    | cons k ks ih =>
      intro acc hsub h1 h2 h3 h4
      rw [List.foldl_cons]
      apply ih _ (fun k' hk' => hsub k' (List.mem_cons_of_mem _ hk'))
      · split
        · have := changeKey_free (w := acc.2) (k := k) (h1 ▸ h) h2 (hsub k (List.mem_cons_self ..))
          rw [this.1]; exact h1
        · exact h1
      · split
        · exact (changeKey_free (w := acc.2) (k := k) (h1 ▸ h) h2 (hsub k (List.mem_cons_self ..))).2.1
        · exact h2
      · split
        · rw [(changeKey_free (w := acc.2) (k := k) (h1 ▸ h) h2 (hsub k (List.mem_cons_self ..))).2.2.1]; exact h3
        · exact h3
      · split
        · rw [(changeKey_free (w := acc.2) (k := k) (h1 ▸ h) h2 (hsub k (List.mem_cons_self ..))).2.2.2]; exact h4
        · exact h4
  · exact ⟨rfl, hw, rfl, rfl⟩

/-- the NotFoundWriter sits on a key of the request's list -/
theorem writerOf_none_path (cfg : Config) (req : Request) (client : Header) :
    ∃ k0 ∈ keysOf cfg req client, (writerOf (keysOf cfg req client) client none).path = keyString k0 := by
  unfold keysOf keysFromRequest
  dsimp only
  split
  · refine ⟨_, List.mem_cons_of_mem _ (List.mem_cons_self ..), ?_⟩
    rfl
  · refine ⟨_, List.mem_cons_self .., ?_⟩
    rfl

/-- the rows a NotFoundWriter can end in when the origin's body reader fails -/
def failedRows : List String :=
  ["w:416", "w:uncacheable", "w:pass", "w:client304", "w:nogate-body", "w:nogate-readerr", "w:invalidated",
   "w:fill-readerr"]

theorem cachingFill_failed_label {cfg : Config} {d : Disk} {w : Writer} {now : Int} {status : Nat} {ch : Header}
    {resp : Resp} {redirect : Bytes} {rr : Option Range.ReqRange} (hre : resp.readErr = true) :
    (cachingFill cfg d w now status ch resp redirect rr).label ∈ failedRows := by
  rw [cachingFill_eq]
  simp only [hre, if_true]
  repeat' first | split | (dsimp only; split)
  all_goals simp [failedRows]

/-- a NotFoundWriter row whose origin answer ends in a reader error: the activation is over (no
    re-entry), every cell is as before or empty, every key of the request is still free -/
theorem afterAnswer_failed_fetch {cfg : Config} {now : Int} {keys : List Key} {rr : Option Range.ReqRange}
    {d : Disk} {ai : Header} {cs : List Contact} {w : Writer} {sg : Conditional.Surgery} {resp : Resp}
    (hfree : KeysFree d keys) (hw : ∃ k0 ∈ keys, w.path = keyString k0)
    (hused : sg.used = []) (hre : resp.readErr = true) :
    ∃ a, afterAnswer cfg now keys rr d ai cs none w sg resp = .done a ∧
      Shrinks a.disk d ∧ KeysFree a.disk keys ∧ a.contacts = cs ∧ a.label ∈ failedRows := by
  unfold afterAnswer
  split
  · exact ⟨_, rfl, Shrinks.refl d, hfree, rfl, by simp [failedRows]⟩
  · dsimp only
    have hsie : staleIfErrorOf none resp = false := rfl
    simp only [hused, List.length_nil, Nat.lt_irrefl, false_and, if_false, hsie, Bool.false_eq_true]
    split
    · exact ⟨_, rfl, Shrinks.refl d, hfree, rfl, by simp [failedRows]⟩
    · obtain ⟨h1, h2, _, _⟩ := rekey_free (getCacheControlDirectives resp.header) hfree hw
      split
      · refine ⟨_, rfl, ?_, ?_, rfl, by simp [failedRows]⟩
        · show Shrinks (rekey _ keys d w).1 d
          rw [h1]; exact Shrinks.refl d
        · show KeysFree (rekey _ keys d w).1 keys
          rw [h1]; exact hfree
      · split
        · refine ⟨_, rfl, ?_, ?_, rfl, by simp [failedRows]⟩
          · show Shrinks (rekey _ keys d w).1 d
            rw [h1]; exact Shrinks.refl d
          · show KeysFree (rekey _ keys d w).1 keys
            rw [h1]; exact hfree
        · have key : ∀ (status : Nat) (ch : Header),
              Shrinks (cachingFill cfg (rekey (getCacheControlDirectives resp.header) keys d w).1
                (rekey (getCacheControlDirectives resp.header) keys d w).2 now status ch resp [] rr).disk d := by
            intro status ch
            have := (failed_fill_publishes_nothing (cfg := cfg)
              (d := (rekey (getCacheControlDirectives resp.header) keys d w).1)
              (w := (rekey (getCacheControlDirectives resp.header) keys d w).2) (now := now) (status := status)
              (ch := ch) (redirect := []) (rr := rr) hre).1
            rw [h1] at this
            rw [h1]
            exact this
          exact ⟨_, rfl, key _ _, hfree.of_shrinks (key _ _), rfl, cachingFill_failed_label hre⟩

/-- **C13 at system level.**  A GET/HEAD request (ANY headers: with or without `Origin`, `Authorization`,
    Range, validators) for which nothing is stored, whose origin fetch fails in the body: the request is
    answered in this activation; every cell of the disk afterwards is the cell before the request or
    empty (no partial file anywhere); every key of the request is free; the row is never `w:fill`; and
    the next request for these keys - at any time, with any validators - starts a fresh fetch. -/
theorem failed_fetch_poisons_nothing {cfg : Config} {origin : Bytes → Option Origin} {now : Int} {req : Request}
    {d d0 : Disk} {client ai : Header} {skip : Bool} {cs : List Contact} {resp : Resp}
    (hm : req.method = b!"GET" ∨ req.method = b!"HEAD")
    (hl : lookup cfg now (keysOf cfg req client) d client skip = (d0, .writer none))
    (hask : ask cfg origin req cs (surgeryOf (Range.getRange client) client none).req = some resp)
    (hre : resp.readErr = true) :
    ∃ a, stepOnce cfg origin now req d client ai skip cs = .done a ∧
      Shrinks a.disk d ∧ KeysFree a.disk (keysOf cfg req client) ∧
      a.contacts = logged cfg cs (surgeryOf (Range.getRange client) client none).req ∧
      a.label ∈ failedRows ∧
      ∀ (now' : Int) (client' : Header) (skip' : Bool),
        lookup cfg now' (keysOf cfg req client) a.disk client' skip' = (a.disk, .writer none) := by
  have hfree : KeysFree d0 (keysOf cfg req client) := storageGet_notFound (lookup_writer_none hl)
  have hsh : Shrinks d0 d := by
    have := lookup_shrinks cfg now (keysOf cfg req client) d client skip
    rw [hl] at this; exact this
  obtain ⟨a, ha, h1, h2, h3, h4⟩ := afterAnswer_failed_fetch (cfg := cfg) (now := now) (rr := Range.getRange client)
    (ai := ai) (cs := logged cfg cs (surgeryOf (Range.getRange client) client none).req)
    (sg := surgeryOf (Range.getRange client) client none) hfree (writerOf_none_path cfg req client)
    (surgeryOf_none_used _ _) hre
  refine ⟨a, ?_, h1.trans hsh, h2, h3, h4, fun _ _ _ => lookup_of_free h2⟩
  unfold stepOnce
  have hm' : ¬ (req.method ≠ b!"GET" ∧ req.method ≠ b!"HEAD") := by
    rcases hm with h | h <;> simp [h]
  rw [if_neg hm']
  simp only [hl]
  unfold writerRow
  simp only [hask]
  exact ha

/-! ### non-vacuity (section 5) -/

def exReq5 : Request := { method := b!"GET", path := b!"a", header := [] }
/-- an origin whose body read fails after one byte -/
def exOriginErr : Origin :=
  { status := 200, headers := [(b!"Cache-Control", b!"max-age=60")], body := b!"abc", readErrAt := some 1 }

/-- `failed_fetch_poisons_nothing`: its hypotheses hold on the empty cache with that origin -/
example : ∃ a, stepOnce {} (fun _ => some exOriginErr) 1000 exReq5 Disk.empty [] [] false [] = .done a ∧
      Shrinks a.disk Disk.empty ∧ KeysFree a.disk (keysOf {} exReq5 []) ∧
      a.contacts = logged {} [] (surgeryOf (Range.getRange []) [] none).req ∧ a.label ∈ failedRows ∧
      ∀ (now' : Int) (client' : Header) (skip' : Bool),
        lookup {} now' (keysOf {} exReq5 []) a.disk client' skip' = (a.disk, .writer none) :=
  failed_fetch_poisons_nothing (resp := originAnswer exOriginErr b!"GET" (surgeryOf none [] none).req none)
    (Or.inl rfl) (lookup_of_free (fun _ _ => rfl)) rfl (by decide)

/-! ## 6. C13 for EVERY row: no partial body is ever in the cache -/

/-- every file of `d'` has the body of a file of `d` (possibly under another key, possibly re-labelled),
    or a body that satisfies `R` -/
def BodiesFrom (R : Bytes → Prop) (d d' : Disk) : Prop :=
  ∀ p f, d' p = some f → (∃ q f0, d q = some f0 ∧ f0.body = f.body) ∨ R f.body

theorem BodiesFrom.refl (R : Bytes → Prop) (d : Disk) : BodiesFrom R d d :=
  fun p f hf => Or.inl ⟨p, f, hf, rfl⟩

theorem BodiesFrom.trans {R : Bytes → Prop} {a b c : Disk} (h1 : BodiesFrom R a b) (h2 : BodiesFrom R b c) :
    BodiesFrom R a c := by
  intro p f hf
  rcases h2 p f hf with ⟨q, f0, hq, hb⟩ | hr
  · rcases h1 q f0 hq with ⟨q', f1, hq', hb'⟩ | hr
    · exact Or.inl ⟨q', f1, hq', hb'.trans hb⟩
    · exact Or.inr (hb ▸ hr)
  · exact Or.inr hr

theorem BodiesFrom.of_shrinks {R : Bytes → Prop} {d d' : Disk} (hs : Shrinks d' d) : BodiesFrom R d d' := by
  intro p f hf
  rcases hs p with e | e
  · exact Or.inl ⟨p, f, by rw [← e]; exact hf, rfl⟩
  · rw [e] at hf; cases hf

theorem bodies_republish (R : Bytes → Prop) (d : Disk) (w : Writer) (now : Int) (h304 : Option Header) :
    BodiesFrom R d (republish d w now h304).1 := by
  intro p f hf
  rcases republish_cases d w now h304 p with e | e | ⟨_, f0, f', hd, hf', hrep⟩
  · exact Or.inl ⟨p, f, by rw [← e]; exact hf, rfl⟩
  · rw [e] at hf; cases hf
  · rw [hf'] at hf; cases hf
    exact Or.inl ⟨p, f0, hd, hrep.1.symm⟩

theorem bodies_cachingFill {R : Bytes → Prop} (cfg : Config) (d : Disk) (w : Writer) (now : Int) (status : Nat)
    (ch : Header) {resp : Resp} (redirect : Bytes) (rr : Option Range.ReqRange)
    (hR : resp.readErr = false → R resp.body) :
    BodiesFrom R d (cachingFill cfg d w now status ch resp redirect rr).disk := by
  intro p f hf
  rcases published_body_is_complete hf with ⟨f0, h0, hb⟩ | ⟨_, hre, _, hb⟩
  · exact Or.inl ⟨p, f0, h0, hb⟩
  · exact Or.inr (hb ▸ hR hre)

theorem bodies_rekey (R : Bytes → Prop) (dirs : Directives) (keys : List Key) (d : Disk) (w : Writer) :
    BodiesFrom R d (rekey dirs keys d w).1 := by
  unfold rekey
  split
  · suffices h : ∀ (l : List Key) (acc : Disk × Writer), BodiesFrom R d acc.1 →
        BodiesFrom R d (l.foldl (fun (acc : Disk × Writer) k =>
          if k.hasFullOrigin then changeKey acc.1 acc.2 k else acc) acc).1 from h keys (d, w) (BodiesFrom.refl R d)
    intro l
    induction l with
    | nil => intro acc h; exact h
    | cons k ks ih =>
      intro acc h
      rw [List.foldl_cons]
      apply ih
      split
      · apply h.trans
        intro p f hf
        obtain ⟨q, hq⟩ := changeKey_cells acc.1 acc.2 k p f hf
        exact Or.inl ⟨q, f, hq, rfl⟩
      · exact h
  · exact BodiesFrom.refl R d

theorem bodies_row304 (R : Bytes → Prop) (d : Disk) (ai : Header) (cs : List Contact) (w : Writer)
    (sg : Conditional.Surgery) (resp : Resp) (now : Int) :
    BodiesFrom R d (Step.disk (row304 d ai cs w sg resp now)) := by
  unfold row304
  dsimp only
  have hr := bodies_republish R d w now (some (Conditional.dropZeroContentLength resp.header))
  split
  · exact BodiesFrom.refl R d
  · split
    · rename_i d1 heq; rw [heq] at hr; exact hr
    · rename_i d1 heq; rw [heq] at hr; exact hr

theorem bodies_afterAnswer {R : Bytes → Prop} (cfg : Config) (now : Int) (keys : List Key) (rr : Option Range.ReqRange)
    (d : Disk) (ai : Header) (cs : List Contact) (reval : Option (Key × Stored × Int)) (w : Writer)
    (sg : Conditional.Surgery) {resp : Resp} (hR : resp.readErr = false → R resp.body) :
    BodiesFrom R d (Step.disk (afterAnswer cfg now keys rr d ai cs reval w sg resp)) := by
  unfold afterAnswer
  split
  · exact BodiesFrom.refl R d
  · dsimp only
    split
    · exact bodies_row304 R d _ cs w sg resp now
    · split
      · exact BodiesFrom.refl R d
      · split
        · exact BodiesFrom.refl R d
        · have hk := bodies_rekey R (getCacheControlDirectives resp.header) keys d w
          split
          · exact hk
          · split
            · exact hk
            · exact hk.trans (bodies_cachingFill cfg _ _ now _ _ [] rr hR)

/-- the complete body of an answer the origin gives to this request (its body reader ended with `io.EOF`) -/
def CompleteBody (cfg : Config) (origin : Bytes → Option Origin) (req : Request) (b : Bytes) : Prop :=
  ∃ cs h resp, ask cfg origin req cs h = some resp ∧ resp.readErr = false ∧ resp.body = b

theorem bodies_writerRow (cfg : Config) (origin : Bytes → Option Origin) (now : Int) (req : Request)
    (keys : List Key) (rr : Option Range.ReqRange) (d : Disk) (client ai : Header) (cs : List Contact)
    (reval : Option (Key × Stored × Int)) :
    BodiesFrom (CompleteBody cfg origin req) d (Step.disk (writerRow cfg origin now req keys rr d client ai cs reval)) := by
  unfold writerRow
  dsimp only
  split
  · exact BodiesFrom.refl _ d
  · rename_i resp hask
    exact bodies_afterAnswer cfg now keys rr d ai _ reval _ _ (fun hre => ⟨_, _, resp, hask, hre, rfl⟩)

/-- **C13, every row of one activation**: whatever `cachingFunc` does - hit, 304, fill, revalidation,
    `ChangeKey`, stale-if-error, a failed or aborted fetch at any byte - every file on the disk afterwards
    has the body of a file that was there before, or the COMPLETE body of an answer whose reader ended
    with `io.EOF`.  A truncated body never enters the cache. -/
theorem bodies_stepOnce (cfg : Config) (origin : Bytes → Option Origin) (now : Int) (req : Request)
    (d : Disk) (client ai : Header) (skip : Bool) (cs : List Contact) :
    BodiesFrom (CompleteBody cfg origin req) d (Step.disk (stepOnce cfg origin now req d client ai skip cs)) := by
  unfold stepOnce
  split
  · split <;> exact BodiesFrom.refl _ d
  · dsimp only
    have hl : BodiesFrom (CompleteBody cfg origin req) d (lookup cfg now (keysOf cfg req client) d client skip).1 :=
      BodiesFrom.of_shrinks (lookup_shrinks cfg now (keysOf cfg req client) d client skip)
    split
    · rename_i d1 heq; rw [heq] at hl; exact hl
    · rename_i d1 s heq; rw [heq] at hl; exact hl
    · rename_i d1 s age stale heq; rw [heq] at hl; exact hl
    · rename_i d1 reval heq; rw [heq] at hl
      exact hl.trans (bodies_writerRow cfg origin now req _ _ d1 client ai cs reval)

/-- … of a whole request (all its re-entries) … -/
theorem bodies_cachingFunc (cfg : Config) (origin : Bytes → Option Origin) (now : Int) (req : Request) :
    ∀ (fuel : Nat) (d : Disk) (client ai : Header) (skip : Bool) (cs : List Contact),
      BodiesFrom (CompleteBody cfg origin req) d (cachingFunc cfg origin now req fuel d client ai skip cs).disk := by
  intro fuel
  induction fuel with
  | zero => intro d client ai skip cs; exact BodiesFrom.refl _ d
  | succ n ih =>
    intro d client ai skip cs
    have h1 := bodies_stepOnce cfg origin now req d client ai skip cs
    unfold cachingFunc
    split
    · rename_i a heq; rw [heq] at h1; exact h1
    · rename_i d' c' ai' s' cs' tag heq
      rw [heq] at h1
      exact h1.trans (ih d' c' ai' s' cs')
    · rename_i d' c' ai' cs' tag heq
      rw [heq] at h1
      apply h1.trans
      show BodiesFrom _ d' (lockedReentry cfg origin now req d' c' ai' cs').disk
      rw [lockedReentry_disk]
      exact BodiesFrom.of_shrinks (storageGet_shrinks _ _)

/-- … and of every operation of a history -/
theorem bodies_step (cfg : Config) (s : State) (r : Request) :
    BodiesFrom (CompleteBody cfg s.origin r) s.disk (step cfg s (.req r)).1.disk :=
  bodies_cachingFunc cfg s.origin s.now r _ _ _ _ _ _

/-! ### non-vacuity (section 6) -/

/-- `abc` is a complete body of the origin of `exOrigin6` … -/
def exOrigin6 : Origin := { status := 200, headers := [(b!"Cache-Control", b!"max-age=60")], body := b!"abc" }
example : CompleteBody {} (fun _ => some exOrigin6) exReq b!"abc" := ⟨[], [], _, rfl, by decide, by decide⟩

/-- … while NOTHING is a complete body of the origin whose read fails after one byte: whatever the
    request headers and the contact log, its answer to `exReq5` ends in a reader error -/
example (b : Bytes) : ¬ CompleteBody {} (fun _ => some exOriginErr) exReq5 b := by
  rintro ⟨cs, h, resp, hask, hre, _⟩
  unfold ask at hask
  split at hask
  · cases hask
  · simp only [Option.map_some, Option.some.injEq] at hask
    subst hask
    revert hre
    have hc : cancelAtOf (fun _ => some exOriginErr) exReq5 = none := rfl
    rw [hc]
    unfold originAnswer
    have h1 : ¬ (exOriginErr.cond = true ∧ scriptEtag exOriginErr ≠ [] ∧ h.get b!"If-None-Match" = scriptEtag exOriginErr) := by
      intro h; exact absurd h.1 (by decide)
    simp only [h1, if_false]
    decide

/-! ## 7. `fill_then_hit`: what the client reads off the wire, both times -/

/-- the length the origin declared is consistent with the body it delivered -/
def RespClOK (resp : Resp) : Prop :=
  match atoi (resp.header.get b!"content-length") with
  | none => True
  | some n => n < 0 ∨ n = (resp.body.length : Int)

theorem inGate_not_bodyless {s : Nat} (h : inGate s = true) : ¬ Bodyless s := by
  unfold Bodyless
  rintro (e | e | ⟨e1, e2⟩)
  · subst e; revert h; decide
  · subst e; revert h; decide
  · unfold inGate at h
    simp only [Bool.or_eq_true, decide_eq_true_eq] at h
    rcases h with (h | h) | h
    · omega
    · rw [Props.C07.isCacheableError_iff] at h; omega
    · simp [Facts.redirectStatuses] at h; omega

theorem missHeader_contentLength {cfg : Config} {resp : Resp} {ai : Header}
    (hc : Canonical resp.header) (hai : NoKey ai b!"content-length") :
    (missHeader cfg resp ai).get b!"Content-Length" = resp.header.get b!"content-length" := by
  unfold missHeader
  rw [get_suffixETag _ _ (by decide)]
  have hai' : NoKey ai b!"Content-Length" := hai
  rw [get_copyHeaders hc (noKey_missAI hai' (by decide) (by decide))]
  rfl

theorem storePrep_contentLength (sfx : Option Bytes) (st : Int) (h : Header) :
    (Codec.storePrep sfx st h).get b!"content-length" = h.get b!"Content-Length" := by
  have hcl : canon b!"content-length" = b!"Content-Length" := by decide
  have hcl' : canon b!"Content-Length" = b!"Content-Length" := by decide
  unfold Header.get Header.values
  rw [hcl, hcl', Props.C07.store_keeps_other_headers sfx st h _ (by decide) (by decide) (by decide)]

/-- net/http on a hit whose entry is consistent (`SizeOK`, `ClOK`): complete, the whole file -/
theorem wire_hitOut_complete {cfg : Config} {s : Stored} {ai : Header} {age : Int} {stale : Bool}
    (hnb : ¬ Bodyless s.meta.status.toNat) (hc : Canonical s.meta.respHeader) (hai : NoKey ai b!"content-length")
    (hs : s.meta.size = s.file.body.length) (hok : ClOK s) :
    wire b!"GET" (hitOut cfg s ai age stale) = (s.meta.status.toNat, true, s.file.body, hitHeader cfg s ai age stale) := by
  rw [wire_hitOut hnb, hitHeader_contentLength hc hai, hitBytes_of_size hs]
  unfold ClOK at hok
  split
  · rename_i n hn
    rw [hn] at hok
    have : n < 0 ∨ (s.file.body.length : Int) = n := by
      rcases hok with h | h
      · exact Or.inl h
      · exact Or.inr h.symm
    rw [if_pos this]
  · rfl

/-- **both responses are complete and carry the same body** (C05's framing clause on the fill and on the hit):
    under the hypotheses of `fill_then_hit_gen`, for GET, when the origin's declared length is
    consistent with its body (`RespClOK`: absent, unparsable, negative, or the body's length), so is
    the DECODED one (`ClOK`; for representable metadata it is the origin's: `fill_then_hit_history_representable`)
    and the alwaysInclude maps carry no `content-length`, the client reads `complete = true`, the
    origin's status and the origin's body from the filling request AND from the hit. -/
theorem fill_then_hit_wire {cfg : Config} {origin : Bytes → Option Origin} {now : Int} {req : Request}
    {d d0 : Disk} {client ai ai2 : Header} {skip : Bool} {cs cs2 : List Contact} {resp : Resp} {age : Int}
    {m' : Codec.Meta}
    (hm : req.method = b!"GET")
    (ho : client.get b!"origin" = [])
    (hauth : client.get b!"authorization" = [])
    (hr : Range.getRange client = none)
    (hinm : client.get b!"if-none-match" = [])
    (hims : client.get b!"if-modified-since" = [])
    (hl : lookup cfg now (keysOf cfg req client) d client skip = (d0, .writer none))
    (hask : ask cfg origin req cs (surgeryOf none client none).req = some resp)
    (hre : resp.readErr = false)
    (hg : inGate resp.status = true)
    (hdc1 : (getCacheControlDirectives resp.header).doNotCache = false)
    (hdc2 : (getCacheControlDirectives (missHeader cfg resp ai)).doNotCache = false)
    (hb : resp.body ≠ [] ∨ emptyAllowed (keyMethod req.method) resp.status = true)
    (hcodec : Codec.decode (Codec.encode (missMeta cfg req client now resp ai)) = .ok (some m'))
    (hfresh : Freshness.decide (entryOf ⟨m', missFile cfg req client now resp ai⟩)
      now cfg.force false [] [] cfg.sfx = .ok (.fresh age))
    (hai : NoKey ai b!"content-length") (hai2 : NoKey ai2 b!"content-length")
    (hcl : RespClOK resp) (hcl' : ClOK ⟨m', missFile cfg req client now resp ai⟩) :
    ∃ a1 a2,
      stepOnce cfg origin now req d client ai skip cs = .done a1 ∧
      stepOnce cfg origin now req a1.disk client ai2 false cs2 = .done a2 ∧
      wire req.method a1.out = (resp.status, true, resp.body, a1.out.header) ∧
      wire req.method a2.out = (resp.status, true, resp.body, a2.out.header) ∧
      a1.label = "w:fill" ∧ a1.contacts = logged cfg cs (surgeryOf none client none).req ∧
      a2.label = "f:hit" ∧ a2.contacts = cs2 := by
  have hnb := inGate_not_bodyless hg
  have hcan := ask_canonical hask
  have hf := decode_encode_fields hcodec
  have h1 := miss_fills (ai := ai) (Or.inl hm) ho hauth hr hl hask hre hg hdc1 hdc2 hb
  have hfresh' : Freshness.decide { header := m'.respHeader, created := m'.created, revalidated := m'.revalidated }
      now cfg.force false (client.get b!"if-none-match") (client.get b!"if-modified-since") cfg.sfx = .ok (.fresh age) := by
    rw [hinm, hims]; exact hfresh
  obtain ⟨h2, _⟩ := hit_of_stored (origin := origin) (ai := ai2) (cs := cs2)
    (d := d0.upd (keyString (theKey cfg req client)) (some (missFile cfg req client now resp ai)))
    (f := missFile cfg req client now resp ai)
    (Or.inl hm) ho hr (upd_self ..) rfl hcodec hf.1 hfresh'
  refine ⟨_, _, h1, h2, ?_, ?_, rfl, rfl, rfl, rfl⟩
  · rw [hm]
    show wire b!"GET" { status := resp.status, header := missHeader cfg resp ai, writes := oneWrite resp.body } = _
    rw [wire_oneWrite hnb, missHeader_contentLength hcan hai]
    unfold RespClOK at hcl
    split
    · rename_i n hn
      rw [hn] at hcl
      have : n < 0 ∨ (resp.body.length : Int) = n := by
        rcases hcl with h | h
        · exact Or.inl h
        · exact Or.inr h.symm
      rw [if_pos this]
    · rfl
  · rw [hm]
    have hst : m'.status.toNat = resp.status := by
      rw [hf.2.1, missMeta_status hg]; simp
    have hw := wire_hitOut_complete (cfg := cfg) (ai := ai2) (age := age) (stale := false)
      (s := ⟨m', missFile cfg req client now resp ai⟩)
      (by rw [hst]; exact hnb) (decode_canonical hcodec).2 hai2 hf.1 hcl'
    rw [hst] at hw
    exact hw

/-! ### … lifted to whole requests and histories -/

theorem cachingFunc_of_done {cfg : Config} {origin : Bytes → Option Origin} {now : Int} {req : Request}
    {d : Disk} {client ai : Header} {skip : Bool} {cs : List Contact} {a : Ans}
    (h : stepOnce cfg origin now req d client ai skip cs = .done a) (fuel : Nat) :
    cachingFunc cfg origin now req (fuel + 1) d client ai skip cs = a := by
  unfold cachingFunc
  rw [h]

theorem obsOf_of_wire {req : Request} {a : Ans} {st : Nat} {c : Bool} {b : Bytes} {h : Header}
    (hw : wire req.method a.out = (st, c, b, h)) :
    (obsOf req a).status = st ∧ (obsOf req a).complete = c ∧ (obsOf req a).body = b ∧ (obsOf req a).header = h ∧
    (obsOf req a).contacts = a.contacts ∧ (obsOf req a).label = a.label := by
  unfold obsOf
  rw [hw]
  exact ⟨rfl, rfl, rfl, rfl, rfl, rfl⟩

/-- **`fill_then_hit` as a statement about histories** (`run`): in ANY state - any disk, any clock, any
    origin table - in which nothing is stored for the GET request `r` (no `Origin`, `Authorization`,
    parsed Range, validators) and whose origin answers with a storable status, a clean body and a
    consistent declared length, the history `[r, r]` produces exactly two observations: both complete,
    both with the origin's status and the origin's body; the first is the row `w:fill` with one origin
    contact, the second the row `f:hit` with NO origin contact. -/
theorem fill_then_hit_history {cfg : Config} {s : State} {r : Request} {d0 : Disk} {resp : Resp} {age : Int}
    {m' : Codec.Meta}
    (hm : r.method = b!"GET")
    (ho : r.header.get b!"origin" = [])
    (hauth : r.header.get b!"authorization" = [])
    (hr : Range.getRange r.header = none)
    (hinm : r.header.get b!"if-none-match" = [])
    (hims : r.header.get b!"if-modified-since" = [])
    (hl : lookup cfg s.now (keysOf cfg r r.header) s.disk r.header false = (d0, .writer none))
    (hask : ask cfg s.origin r [] (surgeryOf none r.header none).req = some resp)
    (hre : resp.readErr = false)
    (hg : inGate resp.status = true)
    (hdc : (getCacheControlDirectives resp.header).doNotCache = false)
    (hb : resp.body ≠ [] ∨ emptyAllowed (keyMethod r.method) resp.status = true)
    (hcl : RespClOK resp)
    (hcodec : Codec.decode (Codec.encode (missMeta cfg r r.header s.now resp [])) = .ok (some m'))
    (hcl' : ClOK ⟨m', missFile cfg r r.header s.now resp []⟩)
    (hfresh : Freshness.decide (entryOf ⟨m', missFile cfg r r.header s.now resp []⟩)
      s.now cfg.force false [] [] cfg.sfx = .ok (.fresh age)) :
    ∃ o1 o2, run cfg s [.req r, .req r] = [o1, o2] ∧
      o1.status = resp.status ∧ o1.complete = true ∧ o1.body = resp.body ∧ o1.label = "w:fill" ∧
      o1.contacts = logged cfg [] (surgeryOf none r.header none).req ∧
      o2.status = resp.status ∧ o2.complete = true ∧ o2.body = resp.body ∧ o2.label = "f:hit" ∧
      o2.contacts = [] := by
  have hdc2 : (getCacheControlDirectives (missHeader cfg resp [])).doNotCache = false := by
    rw [missHeader_directives hask (NoKey.nil _) (NoKey.nil _)]; exact hdc
  obtain ⟨a1, a2, h1, h2, hw1, hw2, hl1, hc1, hl2, hc2⟩ :=
    fill_then_hit_wire (ai2 := []) (cs2 := []) hm ho hauth hr hinm hims hl hask hre hg hdc hdc2 hb hcodec hfresh
      (NoKey.nil _) (NoKey.nil _) hcl hcl'
  obtain ⟨o1s, o1c, o1b, _, o1k, o1l⟩ := obsOf_of_wire hw1
  obtain ⟨o2s, o2c, o2b, _, o2k, o2l⟩ := obsOf_of_wire hw2
  refine ⟨obsOf r a1, obsOf r a2, ?_, o1s, o1c, o1b, o1l.trans hl1, o1k.trans hc1, o2s, o2c, o2b, o2l.trans hl2,
    o2k.trans hc2⟩
  have hf : defaultFuel = 399 + 1 := rfl
  simp only [run, step, hf, cachingFunc_of_done h1, cachingFunc_of_done h2]

/-! ### representable metadata: the hypotheses on the metadata as WRITTEN -/

/-- what a representable entry decodes to: the same fields, the header maps rebuilt (same values under
    every name, another order of the association list) -/
theorem decode_missMeta {cfg : Config} {req : Request} {client : Header} {now : Int} {resp : Resp} {ai : Header}
    (hrange : (missMeta cfg req client now resp ai).inRange = true)
    (hrep : Spec.C07.Representable (missMeta cfg req client now resp ai) = true) :
    ∃ m', Codec.decode (Codec.encode (missMeta cfg req client now resp ai)) = .ok (some m') ∧
      (∀ k, Header.values m'.respHeader k = Header.values (missMeta cfg req client now resp ai).respHeader k) ∧
      m'.created = now ∧ m'.revalidated = 0 := by
  refine ⟨_, Props.C07.decode_encode_of_representable _ hrange hrep, ?_, rfl, rfl⟩
  intro k
  apply values_of_vals
  intro k'
  simp only [Spec.C07.Representable, Bool.and_eq_true] at hrep
  exact Codec.vals_decoded hrep.2 k'

/-- **`fill_then_hit_history` for representable metadata** - the form the task asks for: the codec
    hypothesis is `Representable` (finding C07-a excluded) + the int64 range, freshness is judged on the
    metadata as WRITTEN, the declared length is the origin's. -/
theorem fill_then_hit_history_representable {cfg : Config} {s : State} {r : Request} {d0 : Disk} {resp : Resp} {age : Int}
    (hm : r.method = b!"GET")
    (ho : r.header.get b!"origin" = [])
    (hauth : r.header.get b!"authorization" = [])
    (hr : Range.getRange r.header = none)
    (hinm : r.header.get b!"if-none-match" = [])
    (hims : r.header.get b!"if-modified-since" = [])
    (hl : lookup cfg s.now (keysOf cfg r r.header) s.disk r.header false = (d0, .writer none))
    (hask : ask cfg s.origin r [] (surgeryOf none r.header none).req = some resp)
    (hre : resp.readErr = false)
    (hg : inGate resp.status = true)
    (hdc : (getCacheControlDirectives resp.header).doNotCache = false)
    (hb : resp.body ≠ [] ∨ emptyAllowed (keyMethod r.method) resp.status = true)
    (hcl : RespClOK resp)
    (hrange : (missMeta cfg r r.header s.now resp []).inRange = true)
    (hrep : Spec.C07.Representable (missMeta cfg r r.header s.now resp []) = true)
    (hfresh : Freshness.decide (entryOf ⟨missMeta cfg r r.header s.now resp [], missFile cfg r r.header s.now resp []⟩)
      s.now cfg.force false [] [] cfg.sfx = .ok (.fresh age)) :
    ∃ o1 o2, run cfg s [.req r, .req r] = [o1, o2] ∧
      o1.status = resp.status ∧ o1.complete = true ∧ o1.body = resp.body ∧ o1.label = "w:fill" ∧
      o1.contacts = logged cfg [] (surgeryOf none r.header none).req ∧
      o2.status = resp.status ∧ o2.complete = true ∧ o2.body = resp.body ∧ o2.label = "f:hit" ∧
      o2.contacts = [] := by
  obtain ⟨m', hcodec, hv, hcr, hrv⟩ := decode_missMeta hrange hrep
  have hfresh' : Freshness.decide (entryOf ⟨m', missFile cfg r r.header s.now resp []⟩)
      s.now cfg.force false [] [] cfg.sfx = .ok (.fresh age) := by
    unfold entryOf
    dsimp only
    rw [hcr, hrv, freshness_decide_congr hv]
    exact hfresh
  have hcl' : ClOK ⟨m', missFile cfg r r.header s.now resp []⟩ := by
    unfold ClOK
    dsimp only
    rw [get_congr_values hv, missMeta_respHeader hg, storePrep_contentLength,
      missHeader_contentLength (ask_canonical hask) (NoKey.nil _)]
    exact hcl
  exact fill_then_hit_history hm ho hauth hr hinm hims hl hask hre hg hdc hb hcl hcodec hcl' hfresh'

/-- the stepOnce-level form: `fill_then_hit` with `Representable` instead of `hcodec` -/
theorem fill_then_hit_representable {cfg : Config} {origin : Bytes → Option Origin} {now : Int} {req : Request}
    {d d0 : Disk} {client ai ai2 : Header} {skip : Bool} {cs cs2 : List Contact} {resp : Resp} {age : Int}
    (hm : req.method = b!"GET")
    (ho : client.get b!"origin" = [])
    (hauth : client.get b!"authorization" = [])
    (hr : Range.getRange client = none)
    (hinm : client.get b!"if-none-match" = [])
    (hims : client.get b!"if-modified-since" = [])
    (hai1 : NoKey ai b!"cache-control") (hai2 : NoKey ai b!"vary")
    (hl : lookup cfg now (keysOf cfg req client) d client skip = (d0, .writer none))
    (hask : ask cfg origin req cs (surgeryOf none client none).req = some resp)
    (hre : resp.readErr = false)
    (hst : resp.status = 200)
    (hb : resp.body ≠ [])
    (hdc : (getCacheControlDirectives resp.header).doNotCache = false)
    (hrange : (missMeta cfg req client now resp ai).inRange = true)
    (hrep : Spec.C07.Representable (missMeta cfg req client now resp ai) = true)
    (hfresh : Freshness.decide (entryOf ⟨missMeta cfg req client now resp ai, missFile cfg req client now resp ai⟩)
      now cfg.force false [] [] cfg.sfx = .ok (.fresh age)) :
    ∃ a1 a2,
      stepOnce cfg origin now req d client ai skip cs = .done a1 ∧
      a1.label = "w:fill" ∧ a1.out.status = 200 ∧ a1.out.writes.flatten = resp.body ∧
      stepOnce cfg origin now req a1.disk client ai2 false cs2 = .done a2 ∧
      a2.label = "f:hit" ∧ a2.contacts = cs2 ∧ a2.disk = a1.disk ∧
      a2.out.status = 200 ∧ a2.out.writes.flatten = resp.body ∧
      ∀ k, Header.values a2.out.header k = Header.values (Conditional.suffixETag cfg.sfx (Conditional.copyHeaders
        (Codec.storePrep cfg.sfx 200 (missHeader cfg resp ai)) (hitAI ai2 age false))) k := by
  obtain ⟨m', hcodec, hv, hcr, hrv⟩ := decode_missMeta hrange hrep
  have hfresh' : Freshness.decide (entryOf ⟨m', missFile cfg req client now resp ai⟩)
      now cfg.force false [] [] cfg.sfx = .ok (.fresh age) := by
    unfold entryOf
    dsimp only
    rw [hcr, hrv, freshness_decide_congr hv]
    exact hfresh
  obtain ⟨a1, a2, h1, h2, h3, h4, _, _, h7, h8, h9, h10, h11, h12, h13⟩ :=
    fill_then_hit (ai2 := ai2) (cs2 := cs2) hm ho hauth hr hinm hims hai1 hai2 hl hask hre hst hb hdc hcodec hfresh'
  refine ⟨a1, a2, h1, h2, h3, h4, h7, h8, h9, h10, h11, h12, ?_⟩
  intro k
  have hg : inGate resp.status = true := by rw [hst]; rfl
  have hmh : Canonical (missHeader cfg resp ai) := (Canonical.copyHeaders _ _).suffixETag _
  rw [h13]
  apply values_suffixETag_congr
  intro k'
  apply values_copyHeaders_congr _ (decode_canonical hcodec).2 (hmh.storePrep _ _)
  intro k''
  rw [hv, missMeta_respHeader hg, hst]
  rfl

/-! ### non-vacuity (sections 4 and 7) -/

def exOrigin : Origin := { status := 200, headers := [(b!"Cache-Control", b!"max-age=60")], body := b!"abc" }
def exState : State := { now := 1000, disk := Disk.empty, origin := fun _ => some exOrigin }
def exResp : Resp := originAnswer exOrigin b!"GET" (surgeryOf none [] none).req none

example : exResp.status = 200 ∧ exResp.body = b!"abc" ∧ exResp.readErr = false ∧
    exResp.header = [(b!"Content-Length", [b!"3"]), (b!"Cache-Control", [b!"max-age=60"])] := by decide

instance (resp : Resp) : Decidable (RespClOK resp) := by unfold RespClOK; split <;> infer_instance

set_option maxRecDepth 100000 in
/-- the hypotheses of `fill_then_hit_history_representable` (hence of `fill_then_hit_history`, `fill_then_hit_wire`,
    `fill_then_hit_gen`, `fill_then_hit`, `miss_fills`, `hit_of_stored`) are satisfiable: an empty cache, an
    origin answering `200` / `max-age=60` / `abc` -/
example : ∃ o1 o2, run {} exState [.req exReq, .req exReq] = [o1, o2] ∧
      o1.status = 200 ∧ o1.complete = true ∧ o1.body = b!"abc" ∧ o1.label = "w:fill" ∧
      o1.contacts = [⟨[], [], []⟩] ∧
      o2.status = 200 ∧ o2.complete = true ∧ o2.body = b!"abc" ∧ o2.label = "f:hit" ∧ o2.contacts = [] :=
  fill_then_hit_history_representable (s := exState) (r := exReq) (d0 := Disk.empty) (resp := exResp) (age := 0)
    rfl (by decide) (by decide) (by decide) (by decide) (by decide)
    (lookup_of_free (fun _ _ => rfl)) rfl (by decide) (by decide) (by decide) (Or.inl (by decide))
    (by decide) (by decide) (by decide) (by decide)


set_option maxRecDepth 100000 in
/-- the codec hypothesis in the form `decode (encode meta) = .ok (some meta)` is NOT satisfiable here (and hardly
    ever): the decoder rebuilds the header maps key by key, so the association LIST comes back in another order
    although it is the same map.  This is why `fill_then_hit*` speak about the decoded metadata `m'`. -/
example : Codec.decode (Codec.encode (missMeta {} exReq [] 1000 exResp [])) ≠ .ok (some (missMeta {} exReq [] 1000 exResp [])) ∧
    Spec.C07.Representable (missMeta {} exReq [] 1000 exResp []) = true := by decide

end Props.C07Sys
