import RrModel.Conc
import RrProofs.Lemmas.Conc
/-
  C12 — single flight and complete service of the cache front for one key, on the interleaving
  model `Model.Conc`: the ghost holder tracks the lock, the writer section is exclusive and at
  most one origin fetch is in flight unless a stale release happened (finding C12-b); without
  origin faults every finished request has the complete response unless another request's Get
  removed a live writer's file (C12-a), a request took the lock after a publication it missed
  (C12-c), or a stale release let two revalidating writers clash on the shared `.tmp` file.
-/
namespace Props.C12
open Model.Conc Lemmas.Conc

def noFaults : Nat → Fault := fun _ => .none

/-- lock_holder: the ghost holder tracks the lock entry exactly -/
def LockHolder : Prop :=
  ∀ (n : Nat) (f : Nat → Fault) (sched : List Actor),
    (run (init n f) sched).lock.isSome = (run (init n f) sched).holder.isSome

/-- lock_mutex: whoever is between taking the lock and its first release is the holder; so at
    most one thread is in the writer section per lock generation, unless a stale release happened -/
def LockMutex : Prop :=
  ∀ (n : Nat) (f : Nat → Fault) (sched : List Actor) (i : Nat),
    let s := run (init n f) sched
    s.staleReleases = 0 → i < n →
    (match (s.threads i).pc with | .route _ | .whCreate _ | .write _ | .close _ _ => True | _ => False) →
    s.holder = some i

/-- single_flight, full statement: at most one origin fetch in flight at any moment -/
def SingleFlight : Prop :=
  ∀ (n : Nat) (f : Nat → Fault) (sched : List Actor), (run (init n f) sched).maxInFlight ≤ 1

/-- proved part: in every schedule without a stale release (class of finding C12-b) -/
def SingleFlightPartial : Prop :=
  ∀ (n : Nat) (f : Nat → Fault) (sched : List Actor),
    (run (init n f) sched).staleReleases = 0 → (run (init n f) sched).maxInFlight ≤ 1

/-- all served fully, full statement: without origin faults every finished request has the complete response -/
def AllServedComplete : Prop :=
  ∀ (n : Nat) (sched : List Actor) (i : Nat), i < n →
    ((run (init n noFaults) sched).threads i).pc = .done →
    ∃ v st, ((run (init n noFaults) sched).threads i).view = .complete v st

/-- proved part: schedules in which no request's Get removes a live writer's file (C12-a), no
    request takes the lock after a publication it missed (C12-c), and no stale release lets two
    writers run at once (C12-b: the second revalidating writer loses the shared `.tmp` file) -/
def AllServedCompletePartial : Prop :=
  ∀ (n : Nat) (sched : List Actor) (i : Nat), i < n →
    (run (init n noFaults) sched).liveRemovals = 0 → (run (init n noFaults) sched).lateWriters = 0 →
    (run (init n noFaults) sched).staleReleases = 0 →
    ((run (init n noFaults) sched).threads i).pc = .done →
    ∃ v st, ((run (init n noFaults) sched).threads i).view = .complete v st

theorem lock_holder : LockHolder := by
  intro n f sched
  exact (inv_run n f sched).lockHolder

/-- the writer-section match of `LockMutex` is `Pc.inW` -/
theorem inW_of_match (p : Pc)
    (h : match p with | .route _ | .whCreate _ | .write _ | .close _ _ => True | _ => False) :
    p.inW = true := by
  cases p <;> first | rfl | exact h.elim

theorem lock_mutex : LockMutex := by
  intro n f sched i s h0 _ hpc
  exact (inv_run n f sched).mutex h0 i (inW_of_match _ hpc)

theorem single_flight_partial : SingleFlightPartial := by
  intro n f sched h0
  exact (inv_run n f sched).flight h0

theorem all_served_complete_partial : AllServedCompletePartial := by
  intro n sched i _ hl hw hs hd
  exact servedOk_done _ _ hd ((invC_run n noFaults (fun _ => rfl) sched).served hl hw hs i)

/-! ### the full statements are false -/

abbrev T (i : Nat) : Actor := .thread i

/-- finding C12-b, stale release: thread 0 fills and publishes; its FIRST release (Close) frees the
    key, the entry expires, thread 1 takes the lock and starts a revalidating fetch; thread 0's
    SECOND release (the deferred Finish) then deletes thread 1's lock entry, so thread 2 takes the
    lock too and starts another fetch while thread 1's is still in flight -/
def schedB : List Actor :=
  [T 0, T 0, T 0, T 0, T 0, T 0, T 0, .notifier, .expire, T 1, T 1, T 1, T 0, T 0, .notifier, T 2, T 2, T 2]

theorem single_flight_witness : (run (init 3 noFaults) schedB).maxInFlight = 2 := by decide

theorem single_flight_witness_class : (run (init 3 noFaults) schedB).staleReleases = 1 := by decide

theorem SingleFlight_false : ¬ SingleFlight := by
  intro h
  have := h 3 noFaults schedB
  rw [single_flight_witness] at this
  exact absurd this (by decide)

/-- finding C12-a: thread 0 has created the entry's file (no metadata yet); thread 1's Get finds it
    "corrupt" and removes it; thread 0's publication fails, its client has the headers only -/
def schedA : List Actor := [T 0, T 0, T 0, T 0, T 1, T 1, T 0, T 0, T 0, .notifier, T 0]

theorem all_served_witness :
    ((run (init 2 noFaults) schedA).threads 0).pc = .done ∧
    ((run (init 2 noFaults) schedA).threads 0).view = .headers 1 ∧
    (run (init 2 noFaults) schedA).liveRemovals = 1 := by decide

theorem AllServedComplete_false : ¬ AllServedComplete := by
  intro h
  obtain ⟨v, st, hv⟩ := h 2 schedA 0 (by decide) all_served_witness.1
  rw [all_served_witness.2.1] at hv
  cases hv

/-- class C12-c: thread 1 misses in Get; thread 0 fills, publishes and releases; thread 1 then takes
    the free lock as a (non-revalidating) writer, GetWriter refuses because the entry exists: 500 -/
def schedL : List Actor := [T 1, T 0, T 0, T 0, T 0, T 0, T 0, T 0, .notifier, T 1, T 1, .notifier]

theorem late_writer_witness :
    ((run (init 2 noFaults) schedL).threads 1).pc = .done ∧
    ((run (init 2 noFaults) schedL).threads 1).view = .error 500 ∧
    (run (init 2 noFaults) schedL).lateWriters = 1 ∧
    (run (init 2 noFaults) schedL).liveRemovals = 0 ∧
    (run (init 2 noFaults) schedL).staleReleases = 0 := by decide

/-- so every exclusion of `AllServedCompletePartial` is needed: without `lateWriters = 0` it fails -/
theorem AllServedComplete_false_late :
    ¬ (∀ (n : Nat) (sched : List Actor) (i : Nat), i < n →
        (run (init n noFaults) sched).liveRemovals = 0 →
        (run (init n noFaults) sched).staleReleases = 0 →
        ((run (init n noFaults) sched).threads i).pc = .done →
        ∃ v st, ((run (init n noFaults) sched).threads i).view = .complete v st) := by
  intro h
  obtain ⟨v, st, hv⟩ :=
    h 2 schedL 1 (by decide) late_writer_witness.2.2.2.1 late_writer_witness.2.2.2.2 late_writer_witness.1
  rw [late_writer_witness.2.1] at hv
  cases hv

/-- tmp clash after a stale release (consequence of C12-b): as in `schedB` threads 1 and 2 are both
    revalidating writers; both write through the shared `<name>.tmp`; thread 1's Close renames it
    over the entry, thread 2's Close then finds no tmp file and fails: its client has the headers only -/
def schedT : List Actor := schedB ++ [T 1, T 2, T 1, T 1, T 2, T 2, T 2]

theorem tmp_clash_witness :
    ((run (init 3 noFaults) schedT).threads 2).pc = .done ∧
    ((run (init 3 noFaults) schedT).threads 2).view = .headers 1 ∧
    (run (init 3 noFaults) schedT).staleReleases = 1 ∧
    (run (init 3 noFaults) schedT).liveRemovals = 0 ∧
    (run (init 3 noFaults) schedT).lateWriters = 0 := by decide

/-- without `staleReleases = 0` the partial statement fails -/
theorem AllServedComplete_false_stale :
    ¬ (∀ (n : Nat) (sched : List Actor) (i : Nat), i < n →
        (run (init n noFaults) sched).liveRemovals = 0 → (run (init n noFaults) sched).lateWriters = 0 →
        ((run (init n noFaults) sched).threads i).pc = .done →
        ∃ v st, ((run (init n noFaults) sched).threads i).view = .complete v st) := by
  intro h
  obtain ⟨v, st, hv⟩ :=
    h 3 schedT 2 (by decide) tmp_clash_witness.2.2.2.1 tmp_clash_witness.2.2.2.2 tmp_clash_witness.1
  rw [tmp_clash_witness.2.1] at hv
  cases hv

/-! ### non-vacuity -/

/-- a fault-free run of three requests (one writer, one waiter, one late hit): one fetch, everybody
    complete, no stale release / live removal / late writer — the hypotheses of the partial theorems hold -/
def schedG : List Actor :=
  [T 0, T 0, T 1, T 1, T 0, T 0, T 0, T 0, T 0, .notifier, T 0, T 0, .notifier, T 1, T 2]

example :
    let s := run (init 3 noFaults) schedG
    (∀ i, i < 3 → (s.threads i).pc = .done ∧ (s.threads i).view = .complete 1 false) ∧
    s.fetches = 1 ∧ s.maxInFlight = 1 ∧ s.staleReleases = 0 ∧ s.liveRemovals = 0 ∧ s.lateWriters = 0 ∧
    s.lock = none ∧ s.holder = none := by decide

/-- lock_mutex / lock_holder: a writer in its section is the holder, with a waiter registered -/
example :
    let s := run (init 3 noFaults) [T 0, T 0, T 1, T 1, T 0, T 0]
    s.staleReleases = 0 ∧ (s.threads 0).pc = .write false ∧ s.holder = some 0 ∧ s.lock = some [1] ∧
    s.maxInFlight = 1 := by decide

end Props.C12
