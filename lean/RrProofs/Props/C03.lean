import RrModel.Forward
import RrModel.Spec.C03
import RrProofs.Lemmas.Forward
import RrProofs.Props.C04
import RrProofs.Pins
/-
  C03 — Every contacted destination receives the client's request intact: the HEADER half,
  at function level (`preprocessHeaders`, `filterHeader`, `createProxyRequest`).  The method /
  body clauses over contact traces (connect retries, retry_rule fallback) belong to the
  executor slice and are added to this file with it.
-/
set_option linter.unusedSimpArgs false

namespace Props.C03
open Go Go.Header Model Spec Spec.C03

/-! ### what a successful `createProxyRequest` consists of -/

/-- a built request: `NewRequest` succeeded, the Host field follows the switch, and the header
    is `ensureInternalHeaders` applied to the filtered copy of the client's header -/
theorem createProxyRequest_ok {secrets : Option (List Bytes)} {req : ClientReq} {internal : Bool}
    {b : HostHeaderBehavior} {o : Bytes} {u : Option Bytes} {uuid : Bytes} {out : OutReq}
    (hr : createProxyRequest secrets req internal b o u uuid = .ok (.ok out)) :
    ∃ uh, u = some uh ∧ out.urlHost = removeEmptyPort uh ∧
      out.method = (if req.method = [] then b!"GET" else req.method) ∧
      out.host = expectedHost { hostBehavior := b, hostOverride := o } req.host (removeEmptyPort uh) ∧
      Props.C04.ensuredBy secrets req internal uuid = .ok (.ok out.header) := by
  unfold createProxyRequest at hr
  by_cases hm : validMethod (if req.method = [] then b!"GET" else req.method) = false
  · simp [hm] at hr
  · cases u with
    | none => simp [hm] at hr
    | some uh =>
      refine ⟨uh, rfl, ?_⟩
      simp only [hm, if_false] at hr
      cases secrets with
      | none =>
        simp only [Props.C04.ensuredBy]
        simp only at hr
        cases he : ensureInternalHeaders (filterHeader req.header Facts.nonForwarded) false [] uuid
          (requestIP req.header req.remoteIP) with
        | panic s => rw [he] at hr; cases hr
        | ok r =>
          cases r with
          | error rej => rw [he] at hr; cases hr
          | ok h' =>
            rw [he] at hr
            injection hr with hr; injection hr with hr; subst hr
            exact ⟨rfl, rfl, by cases b <;> rfl, rfl⟩
      | some ss =>
        simp only [Props.C04.ensuredBy]
        simp only at hr
        cases he : ensureInternalHeaders (filterHeader req.header Facts.nonForwarded) internal ss uuid
          (requestIP req.header req.remoteIP) with
        | panic s => rw [he] at hr; cases hr
        | ok r =>
          cases r with
          | error rej => rw [he] at hr; cases hr
          | ok h' =>
            rw [he] at hr
            injection hr with hr; injection hr with hr; subst hr
            exact ⟨rfl, rfl, by cases b <;> rfl, rfl⟩

theorem ensuredBy_cases (secrets : Option (List Bytes)) (req : ClientReq) (internal : Bool) (uuid : Bytes) :
    ∃ pass secs, Props.C04.ensuredBy secrets req internal uuid =
      ensureInternalHeaders (filterHeader req.header Facts.nonForwarded) pass secs uuid
        (requestIP req.header req.remoteIP) := by
  cases secrets with
  | none => exact ⟨false, [], rfl⟩
  | some ss => exact ⟨internal, ss, rfl⟩

/-! ### tables -/

theorem hop_tokens : ∀ n ∈ Spec.hopByHopAndHost, tokenName n = true := by decide

theorem hop_in_deleted : ∀ n ∈ Spec.hopByHopAndHost, canon n ∈ Facts.nonForwarded.map canon := by decide

theorem hop_not_internal : ∀ n ∈ Spec.hopByHopAndHost, ∀ m ∈ Model.internalHeaders, canon m ≠ canon n := by
  decide

theorem internal_tokens : ∀ m ∈ Model.internalHeaders, tokenName m = true := by decide

/-- a token name outside the managed set is neither deleted by `filterHeader` nor touched by
    `ensureInternalHeaders` -/
theorem unmanaged {n : Bytes} (ht : tokenName n = true) (hm : isManaged [] n = false) :
    canon n ∉ Facts.nonForwarded.map canon ∧ ∀ m ∈ Model.internalHeaders, canon m ≠ canon n := by
  have hall : ∀ m ∈ managed [], sameName n m = false := by
    intro m hmem
    unfold isManaged at hm
    rw [List.any_eq_false] at hm
    simpa using hm m hmem
  constructor
  · intro hc
    rw [List.mem_map] at hc
    obtain ⟨m, hmem, hcm⟩ := hc
    have hs : sameName m n = true := (canon_eq_canon_iff_sameName ht m).1 hcm
    have hmm : m ∈ managed [] := by
      have : m ∈ Spec.hopByHopAndHost := by rw [← Pins.nonForwarded]; exact hmem
      simp [managed, this]
    rw [sameName_comm] at hs
    rw [hall m hmm] at hs
    cases hs
  · intro m hmem hcm
    have hs : sameName m n = true := (canon_eq_canon_iff_sameName ht m).1 hcm
    have hmm : m ∈ managed [] := by
      have : m ∈ Spec.richieHeaders := by
        rw [← Props.C04.spec_names, ← Props.C04.internalHeaders_spec]; exact hmem
      simp [managed, this]
    rw [sameName_comm] at hs
    rw [hall m hmm] at hs
    cases hs

/-! ### the header theorems -/

/-- **forwarded_headers** — every header name outside hop-by-hop ∪ {Host} ∪ the three internal
    headers keeps exactly its values: same values, same multiplicity, same order, all casings
    of the name merged — for EVERY client header list (any casing of the raw keys, repeated
    entries), rule flag, configuration and Host policy. -/
theorem forwarded_headers {secrets : Option (List Bytes)} {req : ClientReq} {internal : Bool}
    {b : HostHeaderBehavior} {o : Bytes} {u : Option Bytes} {uuid : Bytes} {out : OutReq}
    (hr : createProxyRequest secrets req internal b o u uuid = .ok (.ok out))
    (n : Bytes) (ht : tokenName n = true) (hm : isManaged [] n = false) :
    valuesOf out.header n = valuesOf req.header n := by
  obtain ⟨uh, _, _, _, _, he⟩ := createProxyRequest_ok hr
  obtain ⟨pass, secs, hpe⟩ := ensuredBy_cases secrets req internal uuid
  rw [hpe] at he
  obtain ⟨h1, h2⟩ := unmanaged ht hm
  have hN := normal_filterHeader req.header Facts.nonForwarded
  rw [valuesOf_eq_values (Props.C04.normal_of_ensure hN he) ht,
    Props.C04.ensure_keeps_others he n h2, ← valuesOf_eq_values hN ht,
    valuesOf_filterHeader _ _ ht, if_neg h1]

/-- the same at the level of `filterHeader` alone, for any deletion list -/
theorem filterHeader_keeps (h : Header) (names : List Bytes) (n : Bytes) (ht : tokenName n = true)
    (hn : canon n ∉ names.map canon) : valuesOf (filterHeader h names) n = valuesOf h n := by
  rw [valuesOf_filterHeader _ _ ht, if_neg hn]

/-- for a header as net/http hands it over (distinct canonical keys) this is Go's `Values` -/
theorem forwarded_headers_values {secrets : Option (List Bytes)} {req : ClientReq} {internal : Bool}
    {b : HostHeaderBehavior} {o : Bytes} {u : Option Bytes} {uuid : Bytes} {out : OutReq}
    (hr : createProxyRequest secrets req internal b o u uuid = .ok (.ok out)) (hN : Normal req.header)
    (n : Bytes) (ht : tokenName n = true) (hm : isManaged [] n = false) :
    out.header.values n = req.header.values n := by
  have := forwarded_headers hr n ht hm
  obtain ⟨uh, _, _, _, _, he⟩ := createProxyRequest_ok hr
  obtain ⟨pass, secs, hpe⟩ := ensuredBy_cases secrets req internal uuid
  rw [hpe] at he
  rw [valuesOf_eq_values (Props.C04.normal_of_ensure (normal_filterHeader _ _) he) ht,
    valuesOf_eq_values hN ht] at this
  exact this

/-- **hop_by_hop_removed** — none of the listed hop-by-hop headers, and no `Host` entry, is in
    the outgoing header, under any casing, whatever the client sent. -/
theorem hop_by_hop_removed {secrets : Option (List Bytes)} {req : ClientReq} {internal : Bool}
    {b : HostHeaderBehavior} {o : Bytes} {u : Option Bytes} {uuid : Bytes} {out : OutReq}
    (hr : createProxyRequest secrets req internal b o u uuid = .ok (.ok out)) :
    ∀ n ∈ Spec.hopByHopAndHost, valuesOf out.header n = [] := by
  intro n hn
  obtain ⟨uh, _, _, _, _, he⟩ := createProxyRequest_ok hr
  obtain ⟨pass, secs, hpe⟩ := ensuredBy_cases secrets req internal uuid
  rw [hpe] at he
  have ht := hop_tokens n hn
  have hN := normal_filterHeader req.header Facts.nonForwarded
  rw [valuesOf_eq_values (Props.C04.normal_of_ensure hN he) ht,
    Props.C04.ensure_keeps_others he n (hop_not_internal n hn), ← valuesOf_eq_values hN ht,
    valuesOf_filterHeader _ _ ht, if_pos (hop_in_deleted n hn)]

/-- **host_policy** — default / destination ⇒ the destination URL's host (as net/http
    normalises it: an empty port is dropped); original ⇒ the client's Host; override ⇒ the
    configured text. -/
theorem host_policy {secrets : Option (List Bytes)} {req : ClientReq} {internal : Bool}
    {b : HostHeaderBehavior} {o : Bytes} {u : Option Bytes} {uuid : Bytes} {out : OutReq}
    (hr : createProxyRequest secrets req internal b o u uuid = .ok (.ok out)) :
    out.host = expectedHost { hostBehavior := b, hostOverride := o } req.host out.urlHost ∧
      ∃ uh, u = some uh ∧ out.urlHost = removeEmptyPort uh := by
  obtain ⟨uh, hu, h1, _, h2, _⟩ := createProxyRequest_ok hr
  exact ⟨by rw [h2, h1], uh, hu, h1⟩

/-- the method goes out as it came (net/http's `"" ⇒ GET` default cannot apply to a request
    received by a server) -/
theorem method_kept {secrets : Option (List Bytes)} {req : ClientReq} {internal : Bool}
    {b : HostHeaderBehavior} {o : Bytes} {u : Option Bytes} {uuid : Bytes} {out : OutReq}
    (hr : createProxyRequest secrets req internal b o u uuid = .ok (.ok out)) (hm : req.method ≠ []) :
    out.method = req.method := by
  obtain ⟨uh, _, _, h3, _, _⟩ := createProxyRequest_ok hr
  rw [h3, if_neg hm]

/-! ### overrides -/

theorem preprocessHeaders_append (h : Header) (a b : List (Bytes × Option Bytes)) :
    preprocessHeaders h (a ++ b) = preprocessHeaders (preprocessHeaders h a) b := by
  induction a generalizing h with
  | nil => rfl
  | cons o rest ih =>
    obtain ⟨k, v⟩ := o
    cases v <;> simp [preprocessHeaders, ih]

/-- **overrides_applied** (set) — a `request_headers` entry with a value leaves exactly that
    single value under the name, whatever the client sent and whatever other names are
    overridden; `post` = the entries Go's map iteration visits later: none of them may denote
    the same header (never the case for keys produced by the rule parser: they are
    lower-cased, hence distinct canonical forms). -/
theorem overrides_applied_set (h : Header) (pre post : List (Bytes × Option Bytes)) (k v : Bytes)
    (hpost : ∀ o ∈ post, canon o.1 ≠ canon k) :
    (preprocessHeaders h (pre ++ (k, some v) :: post)).values k = [v] := by
  rw [preprocessHeaders_append, preprocessHeaders, values_preprocess_other _ _ _ hpost]
  simp

/-- **overrides_applied** (delete) — a `null` entry leaves the header absent. -/
theorem overrides_applied_del (h : Header) (pre post : List (Bytes × Option Bytes)) (k : Bytes)
    (hpost : ∀ o ∈ post, canon o.1 ≠ canon k) :
    (preprocessHeaders h (pre ++ (k, none) :: post)).values k = [] := by
  rw [preprocessHeaders_append, preprocessHeaders, values_preprocess_other _ _ _ hpost]
  simp

/-- names no override mentions keep their values -/
theorem overrides_leave_others (h : Header) (ovs : List (Bytes × Option Bytes)) (n : Bytes)
    (hn : ∀ o ∈ ovs, canon o.1 ≠ canon n) : (preprocessHeaders h ovs).values n = h.values n :=
  values_preprocess_other h ovs n hn

example : preprocessHeaders [(b!"Accept", [b!"a", b!"b"]), (b!"X-Old", [b!"1"]), (b!"Cookie", [b!"c=1"])]
    [(b!"accept", some b!"forced"), (b!"x-old", none), (b!"x-new", some b!"n")] =
    [(b!"X-New", [b!"n"]), (b!"Accept", [b!"forced"]), (b!"Cookie", [b!"c=1"])] := by decide

/-! ### the model's `Set`/`Del` against the specification's case-insensitive override -/

theorem sameName_refl (a : Bytes) : sameName a a = true := by simp [sameName]

theorem sameName_trans_left {a b : Bytes} (h : sameName a b = true) (c : Bytes) :
    sameName a c = sameName b c := by
  rw [sameName_iff] at h
  simp [sameName, h]

theorem sameName_canon_left (k n : Bytes) : sameName (canon k) n = sameName k n := by
  simp [sameName, toLower_canon]

theorem valuesOf_cons (e : Bytes × List Bytes) (t : Header) (n : Bytes) :
    valuesOf (e :: t) n = (if sameName e.1 n = true then e.2 else []) ++ valuesOf t n := by
  unfold valuesOf
  by_cases h : sameName e.1 n = true <;> simp [List.filter_cons, h]

theorem valuesOf_append (a b : Header) (n : Bytes) : valuesOf (a ++ b) n = valuesOf a n ++ valuesOf b n := by
  simp [valuesOf, List.filter_append, List.flatMap_append]

theorem valuesOf_nil (n : Bytes) : valuesOf [] n = [] := rfl

/-- specification side: dropping every field named `k` -/
theorem valuesOf_drop_spec (hs : Header) (k n : Bytes) :
    valuesOf (hs.filter fun e => !sameName e.1 k) n = if sameName k n = true then [] else valuesOf hs n := by
  induction hs with
  | nil => simp [valuesOf_nil]
  | cons e t ih =>
    by_cases hek : sameName e.1 k = true
    · have hf : (e :: t).filter (fun e => !sameName e.1 k) = t.filter (fun e => !sameName e.1 k) := by
        simp [List.filter_cons, hek]
      rw [hf, ih, valuesOf_cons, sameName_trans_left hek n]
      by_cases hkn : sameName k n = true <;> simp [hkn]
    · have hf : (e :: t).filter (fun e => !sameName e.1 k) = e :: t.filter (fun e => !sameName e.1 k) := by
        simp [List.filter_cons, hek]
      rw [hf, valuesOf_cons, valuesOf_cons, ih]
      by_cases hkn : sameName k n = true
      · have : sameName e.1 n = false := by
          cases hen : sameName e.1 n with
          | false => rfl
          | true =>
            exfalso; apply hek
            rw [sameName_iff] at hen hkn ⊢
            rw [hen, hkn]
        simp [hkn, this]
      · simp [hkn]

/-- model side: `delRaw` of the canonical key, on a header whose keys are canonical -/
theorem valuesOf_drop_model {hm : Header} (hc : CanonKeys hm) {k : Bytes} (ht : tokenName k = true) (n : Bytes) :
    valuesOf (delRaw hm (canon k)) n = if sameName k n = true then [] else valuesOf hm n := by
  have : delRaw hm (canon k) = hm.filter fun e => !sameName e.1 k := by
    unfold delRaw
    apply List.filter_congr
    intro e he
    have hk : canon e.1 = e.1 := hc e.1 (List.mem_map.2 ⟨e, he, rfl⟩)
    by_cases hs : sameName e.1 k = true
    · have := (canon_eq_canon_iff_sameName ht e.1).2 hs
      rw [hk] at this
      rw [hs]; simp [this]
    · have hne : e.1 ≠ canon k := by
        intro heq
        apply hs
        apply (canon_eq_canon_iff_sameName ht e.1).1
        rw [hk, heq]
      rw [Bool.not_eq_true] at hs
      rw [hs]; simp [hne]
  rw [this, valuesOf_drop_spec]

/-- `preprocessHeaders` (Go's `Set`/`Del` on canonical keys) computes the specification's
    case-insensitive overrides, for every name -/
theorem valuesOf_preprocess {hm hs : Header} (hc : CanonKeys hm) {ovs : List (Bytes × Option Bytes)}
    (ho : ∀ o ∈ ovs, tokenName o.1 = true) (heq : ∀ n, valuesOf hm n = valuesOf hs n) (n : Bytes) :
    valuesOf (preprocessHeaders hm ovs) n = valuesOf (applyOverrides hs ovs) n := by
  induction ovs generalizing hm hs with
  | nil => exact heq n
  | cons o rest ih =>
    obtain ⟨k, v⟩ := o
    have hk : tokenName k = true := ho (k, v) (by simp)
    have hrest : ∀ o ∈ rest, tokenName o.1 = true := fun o h => ho o (List.mem_cons_of_mem _ h)
    unfold applyOverrides
    rw [List.foldl_cons]
    cases v with
    | none =>
      rw [preprocessHeaders]
      apply ih (hc.del k) hrest
      intro m
      simp only [applyOverride, List.append_nil, Header.del]
      rw [valuesOf_drop_model hc hk, valuesOf_drop_spec, heq]
    | some v =>
      rw [preprocessHeaders]
      apply ih (hc.set k v) hrest
      intro m
      simp only [applyOverride, Header.set, setRaw]
      rw [valuesOf_cons, valuesOf_drop_model hc hk, valuesOf_append, valuesOf_drop_spec, heq,
        valuesOf_cons, valuesOf_nil, sameName_canon_left]
      by_cases hkm : sameName k m = true <;> simp [hkm]

theorem tokenKeys_applyOverrides {h : Header} (hc : TokenKeys h) {ovs : List (Bytes × Option Bytes)}
    (ho : ∀ o ∈ ovs, tokenName o.1 = true) : TokenKeys (applyOverrides h ovs) := by
  induction ovs generalizing h with
  | nil => exact hc
  | cons o rest ih =>
    obtain ⟨k, v⟩ := o
    have hk : tokenName k = true := ho (k, v) (by simp)
    have hrest : ∀ o ∈ rest, tokenName o.1 = true := fun o h => ho o (List.mem_cons_of_mem _ h)
    unfold applyOverrides
    rw [List.foldl_cons]
    apply ih _ hrest
    intro a ha
    unfold applyOverride rawKeys at ha
    rw [List.map_append, List.mem_append] at ha
    rcases ha with ha | ha
    · obtain ⟨e, he, rfl⟩ := List.mem_map.1 ha
      exact hc e.1 (List.mem_map.2 ⟨e, (List.mem_filter.1 he).1, rfl⟩)
    · cases v with
      | none => simp at ha
      | some v => simp at ha; rw [ha]; exact hk

/-! ### the oracle accepts the model -/

/-- **Statement (header clauses)** — for every client header as net/http hands it over
    (canonical token names; repeated entries allowed), every override list with token names,
    every Host policy, rule flag and configuration: whenever the outgoing request is built from
    the pre-processed client request, the oracle `Spec.C03.holdsHeaders` accepts it. -/
def StatementHeaders : Prop :=
  ∀ (rv : RuleView) (client : Header) (clientHost method : Bytes) (remoteIP : Option Bytes)
    (secrets : Option (List Bytes)) (internal : Bool) (u : Option Bytes) (uuid : Bytes) (out : OutReq),
    CanonKeys client → TokenKeys client → (∀ o ∈ rv.overrides, tokenName o.1 = true) →
    createProxyRequest secrets
      { method := method, header := preprocessHeaders client rv.overrides, host := clientHost, remoteIP := remoteIP }
      internal rv.hostBehavior rv.hostOverride u uuid = .ok (.ok out) →
    holdsHeaders rv client clientHost { header := out.header, host := out.host, urlHost := out.urlHost } = true

theorem holds_model : StatementHeaders := by
  intro rv client clientHost method remoteIP secrets internal u uuid out hc htk ho hr
  have hhost := (host_policy hr).1
  have hhop := hop_by_hop_removed hr
  -- token names everywhere
  have htk1 : TokenKeys (preprocessHeaders client rv.overrides) := tokenKeys_preprocess htk ho
  obtain ⟨uh, _, _, _, _, he⟩ := createProxyRequest_ok hr
  obtain ⟨pass, secs, hpe⟩ := ensuredBy_cases secrets
    { method := method, header := preprocessHeaders client rv.overrides, host := clientHost, remoteIP := remoteIP }
    internal uuid
  rw [hpe] at he
  have htk2 : TokenKeys out.header :=
    Props.C04.ensure_induct (P := TokenKeys)
      (fun _ k v hk hx => hx.set (internal_tokens k hk) v) (fun _ k _ hx => hx.del k)
      (tokenKeys_filterHeader htk1 _) he
  have htke : TokenKeys (expectedHeaders rv client) := tokenKeys_applyOverrides htk ho
  unfold holdsHeaders
  simp only [Bool.and_eq_true]
  refine ⟨⟨?_, ?_⟩, ?_⟩
  · unfold forwardedOk
    rw [List.all_eq_true]
    intro n hn
    have ht : tokenName n = true := by
      rcases List.mem_append.1 hn with h1 | h1
      · exact htke n h1
      · exact htk2 n h1
    cases hm : isManaged [] n with
    | true => rfl
    | false =>
      simp only [Bool.false_or, beq_iff_eq]
      rw [forwarded_headers hr n ht hm]
      exact valuesOf_preprocess hc ho (fun _ => rfl) n
  · unfold hopByHopRemoved
    rw [List.all_eq_true]
    intro n hn
    simp [hhop n hn]
  · unfold hostOk
    have h2 : out.host = expectedHost rv clientHost out.urlHost := hhost
    simp [h2]

/-- the oracle of the `filter` stream accepts `filterHeader`, for every association list and
    every list of names -/
theorem holds_filter_model (h : Header) (names : List Bytes) :
    holdsFilter h names (filterHeader h names) = true := by
  unfold holdsFilter
  rw [List.all_eq_true]
  intro n _
  cases ht : tokenName n with
  | false => rfl
  | true =>
    simp only [Bool.not_true, Bool.false_or, beq_iff_eq]
    rw [valuesOf_filterHeader _ _ ht]
    have : (canon n ∈ names.map canon) ↔ (names.any (sameName n) = true) := by
      rw [List.any_eq_true, List.mem_map]
      constructor
      · rintro ⟨m, hm, hc⟩
        refine ⟨m, hm, ?_⟩
        rw [sameName_comm]; exact (canon_eq_canon_iff_sameName ht m).1 hc
      · rintro ⟨m, hm, hs⟩
        refine ⟨m, hm, ?_⟩
        rw [sameName_comm] at hs; exact (canon_eq_canon_iff_sameName ht m).2 hs
    by_cases hc : canon n ∈ names.map canon
    · rw [if_pos hc, if_pos (this.1 hc)]
    · rw [if_neg hc, if_neg (fun h => hc (this.2 h))]

/-- the oracle of the `preprocess` stream accepts `preprocessHeaders` on canonical keys -/
theorem holds_overrides_model (h : Header) (ovs : List (Bytes × Option Bytes)) (hc : CanonKeys h)
    (ho : ∀ o ∈ ovs, tokenName o.1 = true) : holdsOverrides h ovs (preprocessHeaders h ovs) = true := by
  unfold holdsOverrides
  rw [List.all_eq_true]
  intro n _
  rw [beq_iff_eq]
  exact valuesOf_preprocess hc ho (fun _ => rfl) n

/-! ### non-vacuity: a concrete client header with a repeated name, a hop-by-hop header, a spoofed
    internal header; a rule with a delete and a set override and `hostheader: original` -/

def exClient : Header :=
  [(b!"Accept", [b!"a", b!"b"]), (b!"Connection", [b!"close"]), (b!"X-Old", [b!"1"]), (b!"Accept", [b!"c"]),
   (b!"Richie-Request-Id", [b!"spoofed"])]

def exRule : RuleView :=
  { overrides := [(b!"x-old", none), (b!"x-new", some b!"n")], hostBehavior := .original }

def exOut : OutReq :=
  { method := b!"PUT", header := [(b!"Accept", [b!"a", b!"b", b!"c"]), (b!"X-New", [b!"n"])],
    host := b!"h.test", urlHost := b!"d.test" }

example : CanonKeys exClient ∧ TokenKeys exClient ∧ ∀ o ∈ exRule.overrides, tokenName o.1 = true := by
  unfold CanonKeys TokenKeys; decide

theorem exOut_built : createProxyRequest none
    { method := b!"PUT", header := preprocessHeaders exClient exRule.overrides, host := b!"h.test", remoteIP := none }
    false exRule.hostBehavior exRule.hostOverride (some b!"d.test:") b!"U" = .ok (.ok exOut) := by rfl

example : valuesOf exOut.header b!"accept" = [b!"a", b!"b", b!"c"] ∧ isManaged [] b!"accept" = false := by
  decide

example : holdsHeaders exRule exClient b!"h.test"
    { header := exOut.header, host := exOut.host, urlHost := exOut.urlHost } = true := by decide

/-- the oracle is not vacuous: it rejects an outgoing request that lost a value, kept a
    hop-by-hop header, or ignored the Host policy -/
example : holdsHeaders exRule exClient b!"h.test"
    { header := [(b!"Accept", [b!"a", b!"c"]), (b!"X-New", [b!"n"])], host := b!"h.test", urlHost := b!"d.test" }
    = false := by decide
example : holdsHeaders exRule exClient b!"h.test"
    { header := exOut.header ++ [(b!"connection", [b!"close"])], host := b!"h.test", urlHost := b!"d.test" }
    = false := by decide
example : holdsHeaders exRule exClient b!"h.test"
    { header := exOut.header, host := b!"d.test", urlHost := b!"d.test" } = false := by decide

end Props.C03
