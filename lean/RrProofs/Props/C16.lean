import RrModel.Spec.C16
import RrProofs.Lemmas.Limiter
import RrProofs.Pins
/-
  C16 — Cache size stays within the configured limit, without needless eviction.
  Only property theorems, their non-vacuity examples, and the lemmas local to them.
-/
namespace Props.C16
open Go Model.Limiter Spec.C16

/-- size of the file at a path (0 if there is none) -/
def fsize (fs : FS) (n : Name) : Int := (((fs.files.get n).getD 0 : Nat) : Int)

/-- **bytes stored**: the sum of the sizes of the files under the directory (log excluded) -/
def stored (fs : FS) : Int := total (fsize fs) fs.files.keys

/-- the accounting invariant: the limiter's books describe the directory exactly -/
structure Inv (s : Sys) : Prop where
  nodup : s.fs.files.keys.Nodup
  support : ∀ n, n ∉ s.fs.files.keys → s.fs.files.get n = none
  sum : s.st.sizeBytes = total (acctA s.st) s.fs.files.keys + total (acctU s.st) s.fs.files.keys
  point : ∀ n, fsize s.fs n = acctA s.st n + acctU s.st n
  kb : ∀ n sz, s.fs.files.get n = some sz → kbExact sz = true
  disj : ∀ n, s.st.withA.get n = none ∨ s.st.without.get n = none
  absent : ∀ n, s.fs.files.get n = none → s.st.withA.get n = none ∧ s.st.without.get n = none
  shape : ∀ n sz, s.fs.files.get n = some sz → itemNameOfPath n = .ok n
  wfA : ∀ n, s.st.withA.get n ≠ none → n ∈ s.st.withA.keys
  wfU : ∀ n, s.st.without.get n ≠ none → n ∈ s.st.without.keys
  maxNonneg : 0 ≤ s.st.max

/-- under the invariant the limiter's running estimate IS the number of bytes stored -/
theorem Inv.exact {s : Sys} (h : Inv s) : s.st.sizeBytes = stored s.fs := by
  rw [h.sum, stored, ← total_add]
  exact total_congr fun n _ => (h.point n).symm

theorem acctA_none {st : LState} {n : Name} (h : st.withA.get n = none) : acctA st n = 0 := by
  simp [acctA, kbWithA, h, kbBytes_zero]

theorem acctU_none {st : LState} {n : Name} (h : st.without.get n = none) : acctU st n = 0 := by
  simp [acctU, kbWithout, h, kbBytes_zero]

theorem fsize_none {fs : FS} {n : Name} (h : fs.files.get n = none) : fsize fs n = 0 := by
  simp [fsize, h]

/-- the bookkeeping of a purge pass on duplicate-free selections of present items keeps the
    invariant and subtracts exactly what was accounted for them -/
theorem purge_inv {s : Sys} (hi : Inv s) (U A : List Name) (lr : Int)
    (hU : U.Nodup) (hUm : ∀ n ∈ U, s.st.without.get n ≠ none)
    (hA : A.Nodup) (hAm : ∀ n ∈ A, s.st.withA.get n ≠ none) :
    let st' := subtractWithout (subtractWith s.st A) U
    let fs' := rmFiles (rmFiles s.fs U) A
    Inv { st := { st' with lastRun := lr }, fs := fs' } ∧
    st'.sizeBytes = s.st.sizeBytes - total (acctA s.st) A - total (acctU s.st) U := by
  intro st' fs'
  have fr1 := subtractWith_frame s.st A
  have fr2 := subtractWithout_frame (subtractWith s.st A) U
  have hwA : ∀ n, st'.withA.get n = if n ∈ A then none else s.st.withA.get n := by
    intro n; show (subtractWithout (subtractWith s.st A) U).withA.get n = _
    rw [fr2.1, subtractWith_get]
  have hwU : ∀ n, st'.without.get n = if n ∈ U then none else s.st.without.get n := by
    intro n; show (subtractWithout (subtractWith s.st A) U).without.get n = _
    rw [subtractWithout_get, fr1.1]
  have hf : ∀ n, fs'.files.get n = if n ∈ A ∨ n ∈ U then none else s.fs.files.get n := by
    intro n; show (rmFiles (rmFiles s.fs U) A).files.get n = _
    rw [rmFiles_get, rmFiles_get]
    by_cases h1 : n ∈ A <;> by_cases h2 : n ∈ U <;> simp [h1, h2]
  have hk : fs'.files.keys = s.fs.files.keys := by
    show (rmFiles (rmFiles s.fs U) A).files.keys = _
    rw [rmFiles_keys, rmFiles_keys]
  have hAU : ∀ n, n ∈ A → n ∉ U := by
    intro n ha hu
    rcases hi.disj n with h | h
    · exact hAm n ha h
    · exact hUm n hu h
  have hAk : ∀ n ∈ A, n ∈ s.fs.files.keys := by
    intro n ha
    apply Classical.byContradiction; intro hn
    exact hAm n ha (hi.absent n (hi.support n hn)).1
  have hUk : ∀ n ∈ U, n ∈ s.fs.files.keys := by
    intro n hu
    apply Classical.byContradiction; intro hn
    exact hUm n hu (hi.absent n (hi.support n hn)).2
  have hacA : ∀ n, acctA { st' with lastRun := lr } n = if n ∈ A then 0 else acctA s.st n := by
    intro n
    simp only [acctA, kbWithA]
    rw [hwA n]
    by_cases h : n ∈ A <;> simp [h, kbBytes_zero]
  have hacU : ∀ n, acctU { st' with lastRun := lr } n = if n ∈ U then 0 else acctU s.st n := by
    intro n
    simp only [acctU, kbWithout]
    rw [hwU n]
    by_cases h : n ∈ U <;> simp [h, kbBytes_zero]
  have hsize : st'.sizeBytes = s.st.sizeBytes - total (acctA s.st) A - total (acctU s.st) U := by
    show (subtractWithout (subtractWith s.st A) U).sizeBytes = _
    rw [subtractWithout_size _ _ hU, subtractWith_size _ _ hA]
    have : total (acctU (subtractWith s.st A)) U = total (acctU s.st) U := by
      apply total_congr; intro n _
      simp [acctU, kbWithout, fr1.1]
    rw [this]
  refine ⟨?_, hsize⟩
  constructor
  · show fs'.files.keys.Nodup
    rw [hk]; exact hi.nodup
  · intro n hn
    show fs'.files.get n = none
    rw [hk] at hn
    rw [hf, hi.support n hn]; simp
  · show st'.sizeBytes = total (acctA { st' with lastRun := lr }) fs'.files.keys + total (acctU { st' with lastRun := lr }) fs'.files.keys
    have e1 : total (acctA { st' with lastRun := lr }) s.fs.files.keys = total (acctA s.st) s.fs.files.keys - total (acctA s.st) A := by
      rw [← total_zeroed hi.nodup hA hAk]
      exact total_congr fun n _ => hacA n
    have e2 : total (acctU { st' with lastRun := lr }) s.fs.files.keys = total (acctU s.st) s.fs.files.keys - total (acctU s.st) U := by
      rw [← total_zeroed hi.nodup hU hUk]
      exact total_congr fun n _ => hacU n
    rw [hk, e1, e2, hsize, hi.sum]; omega
  · intro n
    show fsize fs' n = acctA { st' with lastRun := lr } n + acctU { st' with lastRun := lr } n
    rw [hacA, hacU]
    by_cases ha : n ∈ A
    · have hu := hAU n ha
      have hw : s.st.without.get n = none := by
        rcases hi.disj n with h | h
        · exact absurd h (hAm n ha)
        · exact h
      have : fsize fs' n = 0 := fsize_none (by rw [hf]; simp [ha])
      simp [ha, hu, this, acctU_none hw]
    · by_cases hu : n ∈ U
      · have hw : s.st.withA.get n = none := by
          rcases hi.disj n with h | h
          · exact h
          · exact absurd h (hUm n hu)
        have : fsize fs' n = 0 := fsize_none (by rw [hf]; simp [hu])
        simp [ha, hu, this, acctA_none hw]
      · have : fsize fs' n = fsize s.fs n := by simp [fsize, hf, ha, hu]
        simp [ha, hu, this, hi.point n]
  · intro n sz h
    have h' : fs'.files.get n = some sz := h
    rw [hf] at h'
    by_cases hc : n ∈ A ∨ n ∈ U
    · simp [hc] at h'
    · simp only [hc, ↓reduceIte] at h'; exact hi.kb n sz h'
  · intro n
    show st'.withA.get n = none ∨ st'.without.get n = none
    rw [hwA, hwU]
    rcases hi.disj n with h | h
    · left; simp [h]
    · right; simp [h]
  · intro n h
    have h' : fs'.files.get n = none := h
    show st'.withA.get n = none ∧ st'.without.get n = none
    rw [hwA, hwU]
    rw [hf] at h'
    by_cases ha : n ∈ A
    · have hw : s.st.without.get n = none := by
        rcases hi.disj n with h | h
        · exact absurd h (hAm n ha)
        · exact h
      simp [ha, hw]
    · by_cases hu : n ∈ U
      · have hw : s.st.withA.get n = none := by
          rcases hi.disj n with h | h
          · exact h
          · exact absurd h (hUm n hu)
        simp [hu, hw]
      · simp only [ha, hu, or_self, ↓reduceIte] at h'
        have := hi.absent n h'
        simp [this.1, this.2]
  · intro n sz h
    have h' : fs'.files.get n = some sz := h
    rw [hf] at h'
    by_cases hc : n ∈ A ∨ n ∈ U
    · simp [hc] at h'
    · simp only [hc, ↓reduceIte] at h'; exact hi.shape n sz h'
  · intro n h
    have h' : st'.withA.get n ≠ none := h
    show n ∈ st'.withA.keys
    have hkeys : st'.withA.keys = s.st.withA.keys := by
      show (subtractWithout (subtractWith s.st A) U).withA.keys = _
      rw [fr2.1, subtractWith_keys]
    rw [hkeys]
    rw [hwA] at h'
    by_cases ha : n ∈ A
    · simp [ha] at h'
    · simp only [ha, ↓reduceIte] at h'; exact hi.wfA n h'
  · intro n h
    have h' : st'.without.get n ≠ none := h
    show n ∈ st'.without.keys
    have : st'.without.keys = s.st.without.keys := by
      show (subtractWithout (subtractWith s.st A) U).without.keys = _
      rw [subtractWithout_keys, fr1.1]
    rw [this]
    rw [hwU] at h'
    by_cases hu : n ∈ U
    · simp [hu] at h'
    · simp only [hu, ↓reduceIte] at h'; exact hi.wfU n h'
  · show 0 ≤ st'.max
    have : st'.max = s.st.max := by
      show (subtractWithout (subtractWith s.st A) U).max = _
      rw [fr2.2.2.2.1, fr1.2.2.2.1]
    rw [this]; exact hi.maxNonneg

theorem Inv.setLastRun {s : Sys} (hi : Inv s) (lr : Int) :
    Inv { st := { s.st with lastRun := lr }, fs := s.fs } :=
  ⟨hi.nodup, hi.support, hi.sum, hi.point, hi.kb, hi.disj, hi.absent, hi.shape, hi.wfA, hi.wfU, hi.maxNonneg⟩

/-- what an observer of the directory records for the loop tail run on `s1` -/
def obsPass (s1 : Sys) (r : Sys × PassOut) : Option Pass :=
  if r.2.ran then
    some { max := s1.st.max, before := stored s1.fs, after := stored r.1.fs,
           removed := (r.2.sel.without ++ r.2.sel.withA).filter fun n => s1.fs.files.has n }
  else none

theorem purgeBound_eq (x : Int) : purgeBound x = min x (Spec.maxPurgeBytes : Int) := by
  unfold purgeBound
  rw [Pins.maxPurgeBytes]
  split <;> omega

/-- **purge_amount** (for ALL states and orders): a pass selects items whose accounted sizes sum
    to at least min(excess, maxPurgeBytes), or it selects every item there is. -/
theorem purge_amount (st : LState) (h : Hints) (hover : st.sizeBytes > st.max) :
    let sel := passSel st h
    sel.size = total (acctU st) sel.without + total (acctA st) sel.withA ∧
    (sel.size ≥ min (st.sizeBytes - st.max) (Spec.maxPurgeBytes : Int) ∨
      (sel.without = h.uorder ∧ sel.withA = h.korder)) := by
  intro sel
  have : sel = purgeableItemNames st (st.sizeBytes - st.max) h := by
    show passSel st h = _
    unfold passSel; simp [hover]
  rw [this]
  obtain ⟨_, _, h3, h4, _⟩ := purgeable_facts st (st.sizeBytes - st.max) h
  rw [purgeBound_eq] at h4
  exact ⟨h3, h4⟩

/-- the loop tail keeps the invariant, and what it does to the directory satisfies the oracle -/
theorem passSys_ok {s : Sys} (hi : Inv s) (now : Int) (sc : Sched) (hv : validHints s.st (sc s.st) = true) :
    Inv (passSys s now sc).1 ∧ ∀ p, obsPass s (passSys s now sc) = some p → passOk p = true := by
  unfold passSys pass
  by_cases hint : now - s.st.lastRun < (Facts.purgeIntervalSec : Int)
  · simp only [hint, ↓reduceIte]
    refine ⟨hi, ?_⟩
    intro p hp; simp [obsPass] at hp
  · simp only [hint, ↓reduceIte]
    obtain ⟨hUn, hUm, hAn, hAm⟩ := passSel_members hv
    by_cases hempty : (passSel s.st (sc s.st)).withA.length = 0 ∧ (passSel s.st (sc s.st)).without.length = 0
    · simp only [hempty, and_self, ↓reduceIte]
      refine ⟨hi.setLastRun now, ?_⟩
      intro p hp
      simp only [obsPass, ↓reduceIte, Option.some.injEq] at hp
      subst hp
      unfold passOk needless progress
      simp only [List.append_nil, List.filter_nil, List.isEmpty_nil, Bool.not_true, Bool.and_false,
        Bool.not_false, Bool.true_and, Bool.or_eq_true, decide_eq_true_eq]
      by_cases hle : stored s.fs ≤ s.st.max
      · exact Or.inl (Or.inl hle)
      · exfalso
        have hover : s.st.sizeBytes > s.st.max := by rw [hi.exact]; omega
        obtain ⟨hsz, hor⟩ := purge_amount s.st (sc s.st) hover
        have hW : (passSel s.st (sc s.st)).withA = [] := List.eq_nil_of_length_eq_zero hempty.1
        have hU : (passSel s.st (sc s.st)).without = [] := List.eq_nil_of_length_eq_zero hempty.2
        simp only [hW, hU, total] at hsz
        rcases hor with hge | ⟨hu, hk⟩
        · have : (0 : Int) < min (s.st.sizeBytes - s.st.max) (Spec.maxPurgeBytes : Int) := by
            have : (0 : Int) < (Spec.maxPurgeBytes : Int) := by decide
            omega
          omega
        · -- nothing in either map: the books say 0 bytes, which is not above a non-negative limit
          obtain ⟨⟨_, hum⟩, ⟨_, hkm⟩, _, _⟩ := validHints_parts hv
          have hnoA : ∀ n, s.st.withA.get n = none := by
            intro n
            apply Classical.byContradiction; intro hne
            have : n ∈ (sc s.st).korder := (hkm n).2 ((mem_dom _ _).2 ⟨hi.wfA n hne, hne⟩)
            rw [← hk, hW] at this; simp at this
          have hnoU : ∀ n, s.st.without.get n = none := by
            intro n
            apply Classical.byContradiction; intro hne
            have : n ∈ (sc s.st).uorder := (hum n).2 ((mem_dom _ _).2 ⟨hi.wfU n hne, hne⟩)
            rw [← hu, hU] at this; simp at this
          have h0 : s.st.sizeBytes = 0 := by
            rw [hi.sum, total_congr (g := fun _ => 0) (fun n _ => acctA_none (hnoA n)),
              total_congr (g := fun _ => 0) (fun n _ => acctU_none (hnoU n)), total_zero]; rfl
          have := hi.maxNonneg
          omega
    · simp only [hempty, ↓reduceIte]
      obtain ⟨hinv, hsize⟩ := purge_inv hi _ _ now hUn hUm hAn hAm
      refine ⟨hinv, ?_⟩
      intro p hp
      simp only [obsPass, ↓reduceIte, Option.some.injEq] at hp
      subst hp
      have hafter := hinv.exact
      simp only [] at hafter hsize
      have hover : s.st.sizeBytes > s.st.max := by
        apply Classical.byContradiction; intro hno
        apply hempty
        unfold passSel; simp [hno]
      obtain ⟨hsz, hor⟩ := purge_amount s.st (sc s.st) hover
      unfold passOk needless progress
      have hbefore : stored s.fs > s.st.max := by rw [← hi.exact]; exact hover
      have hnl : decide (stored s.fs ≤ s.st.max) = false := by simp; omega
      simp only [hnl, Bool.false_and, Bool.not_false, Bool.true_and, Bool.false_or, Bool.or_eq_true,
        decide_eq_true_eq]
      rw [← hafter, hsize, ← hi.exact]
      rcases hor with hge | ⟨hu, hk⟩
      · right; omega
      · left
        -- everything was selected: both maps are empty afterwards, so the books say 0
        obtain ⟨⟨_, hum⟩, ⟨_, hkm⟩, _, _⟩ := validHints_parts hv
        have hnoA : ∀ n, acctA s.st n = 0 ∨ n ∈ (passSel s.st (sc s.st)).withA := by
          intro n
          by_cases hne : s.st.withA.get n = none
          · exact Or.inl (acctA_none hne)
          · right; rw [hk]; exact (hkm n).2 ((mem_dom _ _).2 ⟨hi.wfA n hne, hne⟩)
        have hnoU : ∀ n, acctU s.st n = 0 ∨ n ∈ (passSel s.st (sc s.st)).without := by
          intro n
          by_cases hne : s.st.without.get n = none
          · exact Or.inl (acctU_none hne)
          · right; rw [hu]; exact (hum n).2 ((mem_dom _ _).2 ⟨hi.wfU n hne, hne⟩)
        have hz := hinv.sum
        simp only [] at hz
        have zA : total (acctA { subtractWithout (subtractWith s.st (passSel s.st (sc s.st)).withA) (passSel s.st (sc s.st)).without with lastRun := now })
            (rmFiles (rmFiles s.fs (passSel s.st (sc s.st)).without) (passSel s.st (sc s.st)).withA).files.keys = 0 := by
          rw [total_congr (g := fun _ => 0), total_zero]
          intro n _
          apply acctA_none
          show (subtractWithout (subtractWith s.st _) _).withA.get n = none
          rw [(subtractWithout_frame _ _).1, subtractWith_get]
          rcases hnoA n with h0 | hm
          · by_cases hm : n ∈ (passSel s.st (sc s.st)).withA
            · simp [hm]
            · simp only [hm, ↓reduceIte]
              apply Classical.byContradiction; intro hne
              exact hm (by rw [hk]; exact (hkm n).2 ((mem_dom _ _).2 ⟨hi.wfA n hne, hne⟩))
          · simp [hm]
        have zU : total (acctU { subtractWithout (subtractWith s.st (passSel s.st (sc s.st)).withA) (passSel s.st (sc s.st)).without with lastRun := now })
            (rmFiles (rmFiles s.fs (passSel s.st (sc s.st)).without) (passSel s.st (sc s.st)).withA).files.keys = 0 := by
          rw [total_congr (g := fun _ => 0), total_zero]
          intro n _
          apply acctU_none
          show (subtractWithout (subtractWith s.st _) _).without.get n = none
          rw [subtractWithout_get, (subtractWith_frame _ _).1]
          by_cases hm : n ∈ (passSel s.st (sc s.st)).without
          · simp [hm]
          · simp only [hm, ↓reduceIte]
            apply Classical.byContradiction; intro hne
            exact hm (by rw [hu]; exact (hum n).2 ((mem_dom _ _).2 ⟨hi.wfU n hne, hne⟩))
        rw [zA, zU] at hz
        have := hi.maxNonneg
        rw [← hsize]; omega

/-- the invariant only looks at the maps pointwise -/
theorem Inv.of_eq {s t : Sys} (hi : Inv s)
    (hk : t.fs.files.keys = s.fs.files.keys) (hg : ∀ n, t.fs.files.get n = s.fs.files.get n)
    (hA : ∀ n, t.st.withA.get n = s.st.withA.get n) (hAk : ∀ n, n ∈ s.st.withA.keys → n ∈ t.st.withA.keys)
    (hU : ∀ n, t.st.without.get n = s.st.without.get n) (hUk : ∀ n, n ∈ s.st.without.keys → n ∈ t.st.without.keys)
    (hs : t.st.sizeBytes = s.st.sizeBytes) (hm : t.st.max = s.st.max) : Inv t := by
  have eA : ∀ n, acctA t.st n = acctA s.st n := fun n => by simp [acctA, kbWithA, hA]
  have eU : ∀ n, acctU t.st n = acctU s.st n := fun n => by simp [acctU, kbWithout, hU]
  have eF : ∀ n, fsize t.fs n = fsize s.fs n := fun n => by simp [fsize, hg]
  constructor
  · rw [hk]; exact hi.nodup
  · intro n hn; rw [hk] at hn; rw [hg]; exact hi.support n hn
  · rw [hs, hk, hi.sum, total_congr (fun n _ => eA n), total_congr (fun n _ => eU n)]
  · intro n; rw [eF, eA, eU]; exact hi.point n
  · intro n sz h; rw [hg] at h; exact hi.kb n sz h
  · intro n; rw [hA, hU]; exact hi.disj n
  · intro n h; rw [hg] at h; rw [hA, hU]; exact hi.absent n h
  · intro n sz h; rw [hg] at h; exact hi.shape n sz h
  · intro n h; rw [hA] at h; exact hAk n (hi.wfA n h)
  · intro n h; rw [hU] at h; exact hUk n (hi.wfU n h)
  · rw [hm]; exact hi.maxNonneg

/-- a directory the limiter can describe exactly: duplicate-free listing, every file a whole
    number of KiB below 4 GiB and at its item path, no access-time log -/
structure CleanDir (fs : FS) : Prop where
  nodup : fs.files.keys.Nodup
  support : ∀ n, n ∉ fs.files.keys → fs.files.get n = none
  kb : ∀ n sz, fs.files.get n = some sz → kbExact sz = true
  shape : ∀ n sz, fs.files.get n = some sz → itemNameOfPath n = .ok n
  nolog : fs.atimes = none

theorem kbExact_bytes {sz : Nat} (h : kbExact sz = true) : kbBytes (kbOfSize sz) = (sz : Int) := by
  unfold kbExact at h
  simp only [Bool.and_eq_true, beq_iff_eq, decide_eq_true_eq] at h
  exact kbExact_roundtrip h.1 h.2

/-- start-up on a clean directory establishes the invariant -/
theorem startUp_inv {fs : FS} (hc : CleanDir fs) (max now : Int) (hmax : 0 ≤ max) :
    ∃ st, startUp max now fs = .ok st ∧ Inv { st := st, fs := fs } := by
  have hall : allFiles fs = fs.files.toList := by simp [allFiles, hc.nolog]
  obtain ⟨st', h1, h2, h3, h4, h5, h6, h7⟩ := readFilesL_spec fs.files.toList
    (fun x hx => by
      obtain ⟨n, sz⟩ := x
      exact hc.shape n sz ((mem_toList _ _ _).1 hx).2)
    ((toList_fst_sublist fs.files).nodup hc.nodup) (newState max now) (by simp [newState, KMap.empty])
  refine ⟨st', ?_, ?_⟩
  · unfold startUp readFiles; rw [hall, h1]; simp [hc.nolog]
  · have hnoA : ∀ n, st'.withA.get n = none := fun n => by rw [h3]; rfl
    have hwo : ∀ n, st'.without.get n = (fs.files.get n).map kbOfSize := by
      intro n
      cases hg : fs.files.get n with
      | some sz =>
        have hk : n ∈ fs.files.keys := by
          apply Classical.byContradiction; intro hn
          rw [hc.support n hn] at hg; cases hg
        rw [h5 n sz ((mem_toList _ _ _).2 ⟨hk, hg⟩)]; rfl
      | none =>
        have : n ∉ fs.files.toList.map (·.1) := by
          intro hm
          obtain ⟨x, hx, rfl⟩ := List.mem_map.1 hm
          have := ((mem_toList _ x.1 x.2).1 hx).2
          rw [hg] at this; cases this
        rw [h6 n this]; rfl
    have hpoint : ∀ n, fsize fs n = acctA st' n + acctU st' n := by
      intro n
      rw [acctA_none (hnoA n)]
      simp only [acctU, kbWithout, hwo n, fsize]
      cases hg : fs.files.get n with
      | some sz => simp [kbExact_bytes (hc.kb n sz hg)]
      | none => simp [kbBytes_zero]
    constructor
    · exact hc.nodup
    · exact hc.support
    · show st'.sizeBytes = _
      rw [h2, sumSizes_toList]
      have : (newState max now).sizeBytes = 0 := rfl
      rw [this, ← total_add]
      simp only [Int.zero_add]
      exact total_congr fun n _ => hpoint n
    · exact hpoint
    · exact hc.kb
    · intro n; exact Or.inl (hnoA n)
    · intro n hg
      refine ⟨hnoA n, ?_⟩
      show st'.without.get n = none
      rw [hwo n]; simp at hg ⊢; exact hg
    · exact hc.shape
    · intro n h; exact absurd (hnoA n) h
    · exact h7
    · show 0 ≤ st'.max
      rw [h4]; exact hmax

theorem has_false {V} {m : KMap V} {n : Name} (h : m.has n = false) : m.get n = none := by
  simpa [KMap.has] using h

theorem Inv.mem_keys {s : Sys} (hi : Inv s) {n : Name} {sz : Nat} (h : s.fs.files.get n = some sz) :
    n ∈ s.fs.files.keys := by
  apply Classical.byContradiction; intro hn
  rw [hi.support n hn] at h; cases h

/-- `H` for a fill: a new entry of a whole number of KiB (< 4 GiB) at its item path -/
theorem fill_inv {s : Sys} (hi : Inv s) (n : Name) (size : Nat) (a : Nat)
    (habs : s.fs.files.get n = none) (hkb : kbExact size = true) (hshape : itemNameOfPath n = .ok n) :
    Inv { st := opAdd s.st n { atime := a, kb := kbOfSize size }, fs := { s.fs with files := s.fs.files.set n size } } := by
  obtain ⟨hnA, hnU⟩ := hi.absent n habs
  have eA : ∀ k, acctA (opAdd s.st n { atime := a, kb := kbOfSize size }) k = if k = n then (size : Int) else acctA s.st k := by
    intro k
    simp only [acctA, kbWithA, opAdd, KMap.set_get]
    by_cases hk : k = n
    · simp [hk, kbExact_bytes hkb]
    · simp [hk]
  have eU : ∀ k, acctU (opAdd s.st n { atime := a, kb := kbOfSize size }) k = acctU s.st k := fun k => rfl
  have eF : ∀ k, fsize { s.fs with files := s.fs.files.set n size } k = if k = n then (size : Int) else fsize s.fs k := by
    intro k
    simp only [fsize, KMap.set_get]
    by_cases hk : k = n <;> simp [hk]
  constructor
  · exact KMap.set_keys_nodup _ _ _ hi.nodup
  · intro k hk
    show (s.fs.files.set n size).get k = none
    rw [KMap.set_get]
    have hkn : k ≠ n := by
      intro e; subst e
      apply hk; show k ∈ (s.fs.files.set k size).keys
      simp only [KMap.set]; split <;> simp_all
    simp only [hkn, ↓reduceIte]
    apply hi.support
    intro hm; apply hk
    show k ∈ (s.fs.files.set n size).keys
    simp only [KMap.set]; split <;> simp [hm]
  · show s.st.sizeBytes + kbBytes (kbOfSize size) = _
    rw [kbExact_bytes hkb, total_congr (fun k _ => eU k)]
    show _ = total _ (s.fs.files.set n size).keys + total _ (s.fs.files.set n size).keys
    simp only [KMap.set]
    by_cases hm : n ∈ s.fs.files.keys
    · simp only [hm, ↓reduceIte]
      rw [total_point (f := acctA s.st) hi.nodup hm (fun k hk => by rw [eA]; simp [hk]), eA, hi.sum,
        acctA_none hnA]
      simp
      omega
    · simp only [hm, ↓reduceIte, total_append, total]
      rw [total_notMem (f := acctA s.st) hm (fun k hk => by rw [eA]; simp [hk]), eA, hi.sum, acctU_none hnU]
      simp
      omega
  · intro k
    rw [eA, eU, eF]
    by_cases hk : k = n
    · simp [hk, acctU_none hnU]
    · simp only [hk, ↓reduceIte]; exact hi.point k
  · intro k sz h
    have h' : (s.fs.files.set n size).get k = some sz := h
    rw [KMap.set_get] at h'
    by_cases hk : k = n
    · simp only [hk, ↓reduceIte, Option.some.injEq] at h'; subst h'; exact hkb
    · simp only [hk, ↓reduceIte] at h'; exact hi.kb k sz h'
  · intro k
    show (s.st.withA.set n _).get k = none ∨ s.st.without.get k = none
    rw [KMap.set_get]
    by_cases hk : k = n
    · right; rw [hk]; exact hnU
    · simp only [hk, ↓reduceIte]; exact hi.disj k
  · intro k h
    have h' : (s.fs.files.set n size).get k = none := h
    rw [KMap.set_get] at h'
    by_cases hk : k = n
    · simp [hk] at h'
    · simp only [hk, ↓reduceIte] at h'
      show (s.st.withA.set n _).get k = none ∧ s.st.without.get k = none
      rw [KMap.set_get]; simp only [hk, ↓reduceIte]; exact hi.absent k h'
  · intro k sz h
    have h' : (s.fs.files.set n size).get k = some sz := h
    rw [KMap.set_get] at h'
    by_cases hk : k = n
    · rw [hk]; exact hshape
    · simp only [hk, ↓reduceIte] at h'; exact hi.shape k sz h'
  · exact KMap.set_wf _ _ _ hi.wfA
  · exact hi.wfU
  · exact hi.maxNonneg

/-- `H` for a hit: the entry is not in the unknown-atime set -/
theorem hit_inv {s : Sys} (hi : Inv s) (n : Name) (size : Nat) (a : Nat) (st : Storable)
    (hfile : s.fs.files.get n = some size) (hnU : s.st.without.get n = none) :
    Inv { s with st := opAccessTime s.st n { atime := a, kb := kbOfSize size } st } := by
  have hp := hi.point n
  rw [acctU_none hnU] at hp
  have hfs : fsize s.fs n = (size : Int) := by simp [fsize, hfile]
  have eA : ∀ k, acctA (opAccessTime s.st n { atime := a, kb := kbOfSize size } st) k = acctA s.st k := by
    intro k
    by_cases hk : k = n
    · subst hk
      have : acctA (opAccessTime s.st k { atime := a, kb := kbOfSize size } st) k = kbBytes (kbOfSize size) := by
        simp [acctA, kbWithA, opAccessTime, KMap.set_get]
      rw [this, kbExact_bytes (hi.kb k size hfile)]; omega
    · simp [acctA, kbWithA, opAccessTime, KMap.set_get, hk]
  have eU : ∀ k, acctU (opAccessTime s.st n { atime := a, kb := kbOfSize size } st) k = acctU s.st k := fun k => rfl
  constructor
  · exact hi.nodup
  · exact hi.support
  · show s.st.sizeBytes = _
    rw [total_congr (fun k _ => eA k), total_congr (fun k _ => eU k)]; exact hi.sum
  · intro k; rw [eA, eU]; exact hi.point k
  · exact hi.kb
  · intro k
    show (s.st.withA.set n _).get k = none ∨ s.st.without.get k = none
    rw [KMap.set_get]
    by_cases hk : k = n
    · right; rw [hk]; exact hnU
    · simp only [hk, ↓reduceIte]; exact hi.disj k
  · intro k h
    show (s.st.withA.set n _).get k = none ∧ s.st.without.get k = none
    rw [KMap.set_get]
    have hk : k ≠ n := by intro e; rw [e, hfile] at h; cases h
    simp only [hk, ↓reduceIte]; exact hi.absent k h
  · exact hi.shape
  · exact KMap.set_wf _ _ _ hi.wfA
  · exact hi.wfU
  · exact hi.maxNonneg

theorem atimes_not_entry : itemNameOfPath atimesName ≠ .ok atimesName := by decide

/-- one op of a clean history keeps the invariant (the op's own effect, before the loop tail) -/
theorem applyOp_inv {s : Sys} (hi : Inv s) (op : Op) (sc : Sched) (hc : cleanStep s op = true)
    {s1 : Sys} {w : Option Int} (h : applyOp s op sc = .ok (s1, w)) : Inv s1 := by
  unfold cleanStep at hc
  simp only [Bool.not_eq_true', Bool.or_eq_false_iff] at hc
  obtain ⟨⟨⟨⟨⟨ha, hb⟩, hcc⟩, hd⟩, he⟩, hf⟩ := hc
  cases op with
  | fill n size now =>
    unfold applyOp at h
    by_cases hhas : s.fs.files.has n = true
    · simp only [hhas, ↓reduceIte, Res.ok.injEq, Prod.mk.injEq] at h
      rw [← h.1]; exact hi
    · simp only [hhas] at h
      simp only [Bool.false_eq_true, ↓reduceIte, Res.ok.injEq, Prod.mk.injEq] at h
      rw [← h.1]
      have hhas' : s.fs.files.has n = false := by simpa using hhas
      have hkb : kbExact size = true := by
        simp only [inClass_a, hhas', Bool.not_false, Bool.true_and, Bool.not_eq_false'] at ha
        exact ha
      have hsh : itemNameOfPath n = .ok n := by
        simp only [inClass_e, bne_eq_false_iff_eq] at he
        exact he
      exact fill_inv hi n size _ (has_false hhas') hkb hsh
  | hit n now =>
    unfold applyOp at h
    cases hg : s.fs.files.get n with
    | none =>
      simp only [hg, Res.ok.injEq, Prod.mk.injEq] at h
      rw [← h.1]; exact hi
    | some size =>
      simp only [hg, Res.ok.injEq, Prod.mk.injEq] at h
      rw [← h.1]
      have hnU : s.st.without.get n = none := by
        simp only [inClass_f, KMap.has, hg, Option.isSome_some, Bool.true_and] at hf
        simpa using hf
      exact hit_inv hi n size _ _ hg hnU
  | flush now ml =>
    unfold applyOp at h
    simp only [Res.ok.injEq, Prod.mk.injEq] at h
    rw [← h.1]
    have hnotrunc : s.fs.files.get truncatedName = none := by
      cases hg : s.fs.files.get truncatedName with
      | none => rfl
      | some sz => exact absurd (hi.shape _ sz hg) (by decide)
    have hst := flush_st s.st s.fs ml (sc s.st).forder
    rcases flush_files s.st s.fs ml (sc s.st).forder with hfl | hfl
    · refine hi.of_eq (by simp only [hfl]) (fun k => by simp only [hfl]) (fun k => by simp only [hst])
        (fun _ h => by simp only [hst]; exact h) (fun k => by simp only [hst]) (fun _ h => by simp only [hst]; exact h)
        (by simp only [hst]) (by simp only [hst])
    · refine hi.of_eq (by simp only [hfl]; rfl) (fun k => ?_) (fun k => by simp only [hst])
        (fun _ h => by simp only [hst]; exact h) (fun k => by simp only [hst]) (fun _ h => by simp only [hst]; exact h)
        (by simp only [hst]) (by simp only [hst])
      simp only [hfl]
      show (s.fs.files.del truncatedName).get k = s.fs.files.get k
      simp only [KMap.del, upd]
      split
      · rename_i hk; rw [hk, hnotrunc]
      · rfl
  | regrow n size =>
    unfold applyOp at h
    by_cases hhas : s.fs.files.has n = true
    · simp only [hhas, ↓reduceIte, Res.ok.injEq, Prod.mk.injEq] at h
      rw [← h.1]
      obtain ⟨old, hold⟩ := Option.isSome_iff_exists.1 (show (s.fs.files.get n).isSome = true from hhas)
      have heq : old = size := by
        simp only [inClass_b, hold, bne_eq_false_iff_eq] at hb
        exact hb
      subst heq
      have hk := hi.mem_keys hold
      refine hi.of_eq ?_ (fun k => ?_) (fun _ => rfl) (fun _ h => h) (fun _ => rfl) (fun _ h => h) rfl rfl
      · show (s.fs.files.set n old).keys = _
        simp [KMap.set, hk]
      · show (s.fs.files.set n old).get k = _
        rw [KMap.set_get]
        split
        · rename_i e; rw [e, hold]
        · rfl
    · simp only [hhas] at h
      simp only [Bool.false_eq_true, ↓reduceIte, Res.ok.injEq, Prod.mk.injEq] at h
      rw [← h.1]; exact hi
  | delete n =>
    unfold applyOp at h
    simp only [Res.ok.injEq, Prod.mk.injEq] at h
    rw [← h.1]
    have hnone : s.fs.files.get n = none := by
      simp only [inClass_d] at hd
      exact has_false hd
    refine hi.of_eq rfl (fun k => ?_) (fun _ => rfl) (fun _ h => h) (fun _ => rfl) (fun _ h => h) rfl rfl
    show (s.fs.files.del n).get k = s.fs.files.get k
    simp only [KMap.del, upd]
    split
    · rename_i hk; rw [hk, hnone]
    · rfl
  | restart now =>
    simp only [applyOp] at h
    have hnolog : s.fs.atimes = none := by
      cases hat : s.fs.atimes with
      | none => rfl
      | some c =>
        exfalso
        simp only [inClass_e, allFiles, hat, List.any_append, List.any_cons, List.any_nil, Bool.or_false,
          Bool.or_eq_false_iff] at he
        have := he.2
        simp only [bne_eq_false_iff_eq] at this
        exact atimes_not_entry this
    obtain ⟨st, hst, hinv⟩ := startUp_inv (fs := s.fs)
      ⟨hi.nodup, hi.support, hi.kb, hi.shape, hnolog⟩ s.st.max now hi.maxNonneg
    rw [hst] at h
    simp only [Res.ok.injEq, Prod.mk.injEq] at h
    rw [← h.1]; exact hinv

/-! ### histories -/

/-- the limiter log of a run of the model: one record per loop tail that ran -/
def runLog : Sys → List (Op × Sched) → List Pass
  | _, [] => []
  | s, (op, sc) :: t =>
    match applyOp s op sc with
    | .panic _ => []
    | .ok (s1, none) => runLog s1 t
    | .ok (s1, some now) => (obsPass s1 (passSys s1 now sc)).toList ++ runLog (passSys s1 now sc).1 t

/-- `H`: every step of the run is in none of the known-finding classes -/
def cleanRun : Sys → List (Op × Sched) → Bool
  | _, [] => true
  | s, (op, sc) :: t =>
    cleanStep s op && (match step s op sc with
      | .panic _ => true
      | .ok r => cleanRun r.1 t)

/-- a history: a directory, a limit, a start time, ops with Go's map-order choices -/
def historyLog (fs0 : FS) (max start : Int) (ops : List (Op × Sched)) : List Pass :=
  match startUp max start fs0 with
  | .panic _ => []
  | .ok st => runLog { st := st, fs := fs0 } ops

def ValidScheds (ops : List (Op × Sched)) : Prop := ∀ x ∈ ops, Sched.Valid x.2

/-- **C16, first sentence, as stated**: whatever the history, a pass that starts over the limit
    ends within it or frees at least min(excess, cap). -/
def StatementReturns : Prop :=
  ∀ (fs0 : FS) (max start : Int) (ops : List (Op × Sched)), 0 ≤ max → ValidScheds ops →
    ∀ p ∈ historyLog fs0 max start ops, progress p = true

/-- **C16, second sentence, as stated**: within the limit nothing is removed. -/
def StatementNoNeedless : Prop :=
  ∀ (fs0 : FS) (max start : Int) (ops : List (Op × Sched)), 0 ≤ max → ValidScheds ops →
    ∀ p ∈ historyLog fs0 max start ops, needless p = false

/-- **C16 as stated**: the oracle accepts the limiter log of every history. -/
def Statement : Prop :=
  ∀ (fs0 : FS) (max start : Int) (ops : List (Op × Sched)), 0 ≤ max → ValidScheds ops →
    holds (historyLog fs0 max start ops) = true

theorem step_eq (s : Sys) (op : Op) (sc : Sched) :
    step s op sc = match applyOp s op sc with
      | .panic site => .panic site
      | .ok (s1, none) => .ok (s1, {})
      | .ok (s1, some now) => .ok (passSys s1 now sc) := rfl

/-- the invariant and the oracle along a clean run -/
theorem run_clean {s : Sys} (hi : Inv s) (ops : List (Op × Sched)) (hv : ValidScheds ops)
    (hc : cleanRun s ops = true) :
    (∀ p ∈ runLog s ops, passOk p = true) ∧ ∀ s', run s ops = .ok s' → Inv s' := by
  induction ops generalizing s with
  | nil =>
    refine ⟨by simp [runLog], ?_⟩
    intro s' h; simp only [run, Res.ok.injEq] at h; rw [← h]; exact hi
  | cons x t ih =>
    obtain ⟨op, sc⟩ := x
    simp only [cleanRun, Bool.and_eq_true] at hc
    have hsc : Sched.Valid sc := hv (op, sc) (by simp)
    have hvt : ValidScheds t := fun y hy => hv y (by simp [hy])
    simp only [runLog, run]
    rw [step_eq] at hc ⊢
    cases ha : applyOp s op sc with
    | panic site => simp
    | ok r =>
      obtain ⟨s1, w⟩ := r
      have hi1 := applyOp_inv hi op sc hc.1 ha
      cases w with
      | none =>
        simp only [ha] at hc ⊢
        exact ih hi1 hvt hc.2
      | some now =>
        simp only [ha] at hc ⊢
        obtain ⟨hi2, hok⟩ := passSys_ok hi1 now sc (hsc s1.st)
        obtain ⟨ih1, ih2⟩ := ih hi2 hvt hc.2
        refine ⟨?_, ih2⟩
        intro p hp
        rcases List.mem_append.1 hp with h | h
        · exact hok p (by simpa using h)
        · exact ih1 p h

/-- **accounting_exact_partial** (the main invariant).  Under `H` = {every entry a whole number
    of KiB below 4 GiB; entries change size or disappear only through the limiter; no names from
    the access-time log / no files off their item path at a start-up; no hit on an unknown-atime
    entry} — i.e. no step in a class C16-a…f — the limiter's `sizeBytes` equals the bytes stored
    after EVERY op sequence, from every state that satisfies the invariant. -/
theorem accounting_exact_partial {s : Sys} (hi : Inv s) (ops : List (Op × Sched)) (hv : ValidScheds ops)
    (hc : cleanRun s ops = true) (s' : Sys) (hrun : run s ops = .ok s') :
    s'.st.sizeBytes = stored s'.fs :=
  ((run_clean hi ops hv hc).2 s' hrun).exact

/-- the same from a start-up on a clean directory -/
theorem accounting_exact_from_start {fs0 : FS} (hd : CleanDir fs0) (max start : Int) (hmax : 0 ≤ max)
    (ops : List (Op × Sched)) (hv : ValidScheds ops) :
    ∃ st, startUp max start fs0 = .ok st ∧
      (cleanRun { st := st, fs := fs0 } ops = true →
        ∀ s', run { st := st, fs := fs0 } ops = .ok s' → s'.st.sizeBytes = stored s'.fs) := by
  obtain ⟨st, h1, h2⟩ := startUp_inv hd max start hmax
  exact ⟨st, h1, fun hc s' hr => accounting_exact_partial h2 ops hv hc s' hr⟩

/-- **returns_within_limit_partial**: under `H`, every pass that starts over the limit ends within
    it or frees at least min(excess, maxPurgeBytes) — so after exceeding the limit by `x`,
    ⌈x / maxPurgeBytes⌉ passes bring the stored bytes back (findings C16-a…f excluded). -/
theorem returns_within_limit_partial {s : Sys} (hi : Inv s) (ops : List (Op × Sched)) (hv : ValidScheds ops)
    (hc : cleanRun s ops = true) : ∀ p ∈ runLog s ops, progress p = true := by
  intro p hp
  have := (run_clean hi ops hv hc).1 p hp
  unfold passOk at this
  simp only [Bool.and_eq_true] at this
  exact this.2

/-- **no_needless_eviction_partial**: under `H`, a pass that starts within the limit removes
    nothing (findings C16-a…f excluded). -/
theorem no_needless_eviction_partial {s : Sys} (hi : Inv s) (ops : List (Op × Sched)) (hv : ValidScheds ops)
    (hc : cleanRun s ops = true) : ∀ p ∈ runLog s ops, needless p = false := by
  intro p hp
  have := (run_clean hi ops hv hc).1 p hp
  unfold passOk at this
  simp only [Bool.and_eq_true, Bool.not_eq_true'] at this
  exact this.1

/-- the oracle accepts every clean history that starts on a clean directory -/
theorem holds_partial {fs0 : FS} (hd : CleanDir fs0) (max start : Int) (hmax : 0 ≤ max)
    (ops : List (Op × Sched)) (hv : ValidScheds ops)
    (hc : ∀ st, startUp max start fs0 = .ok st → cleanRun { st := st, fs := fs0 } ops = true) :
    holds (historyLog fs0 max start ops) = true := by
  obtain ⟨st, h1, h2⟩ := startUp_inv hd max start hmax
  unfold historyLog holds
  rw [h1]
  simp only [List.all_eq_true]
  exact (run_clean h2 ops hv (hc st h1)).1

/-- what `progress` buys: each pass over the limit ends within it or cuts the excess by the cap, so
    an excess of `x` is gone after ⌈x / maxPurgeBytes⌉ passes (if nothing is added meanwhile) -/
theorem progress_excess {p : Pass} (h : progress p = true) (hover : p.before > p.max) :
    p.after ≤ p.max ∨ p.after - p.max ≤ (p.before - p.max) - (Spec.maxPurgeBytes : Int) := by
  unfold progress at h
  simp only [Bool.or_eq_true, decide_eq_true_eq] at h
  rcases h with (h | h) | h
  · omega
  · exact Or.inl h
  · by_cases hm : p.before - p.max ≤ (Spec.maxPurgeBytes : Int)
    · left; rw [Int.min_eq_left hm] at h; omega
    · right; rw [Int.min_eq_right (by omega)] at h; omega

/-! ### C16-a for every size of workload: entries below 1 KiB are never purged -/

/-- fills of less than 1 KiB, hits and flush ticks -/
def subKbOp : Op → Bool
  | .fill _ size _ => decide (size < 1024)
  | .hit _ _ => true
  | .flush _ _ => true
  | _ => false

theorem kbOfSize_small {size : Nat} (h : size < 1024) : kbOfSize size = 0 := by
  unfold kbOfSize
  have : Facts.kbDivisor = 1024 := rfl
  rw [this, Nat.div_eq_of_lt h]; rfl

theorem passSys_idle (s : Sys) (now : Int) (sc : Sched) (h : s.st.sizeBytes ≤ s.st.max) :
    (passSys s now sc).1.fs = s.fs ∧ (passSys s now sc).1.st.sizeBytes = s.st.sizeBytes ∧
    (passSys s now sc).1.st.max = s.st.max ∧ (passSys s now sc).2.sel = {} := by
  unfold passSys pass
  have hsel : passSel s.st (sc s.st) = {} := by unfold passSel; simp [Int.not_lt.2 h]
  by_cases hint : now - s.st.lastRun < (Facts.purgeIntervalSec : Int)
  · simp [hint]
  · simp [hint, hsel]

/-- **C16-a, unbounded**: on an empty cache with any limit ≥ 0, however many entries of less than
    1 KiB are stored (2 000 entries of 1 000 B on a 1 MB cache, say), `sizeBytes` stays 0 and no
    pass ever removes anything — the stored bytes grow without bound. -/
theorem sub_kb_never_purged (ops : List (Op × Sched)) (hops : ∀ x ∈ ops, subKbOp x.1 = true)
    (s : Sys) (h0 : s.st.sizeBytes = 0) (hmax : 0 ≤ s.st.max) :
    ∀ p ∈ runLog s ops, p.removed = [] ∧ p.after = p.before := by
  induction ops generalizing s with
  | nil => simp [runLog]
  | cons x t ih =>
    obtain ⟨op, sc⟩ := x
    have hop : subKbOp op = true := hops (op, sc) (by simp)
    have ht : ∀ y ∈ t, subKbOp y.1 = true := fun y hy => hops y (by simp [hy])
    -- the op leaves sizeBytes = 0
    have key : ∀ s1 w, applyOp s op sc = .ok (s1, w) → s1.st.sizeBytes = 0 ∧ s1.st.max = s.st.max := by
      intro s1 w ha
      cases op with
      | fill n size now =>
        simp only [subKbOp, decide_eq_true_eq] at hop
        unfold applyOp at ha
        by_cases hhas : s.fs.files.has n = true
        · simp only [hhas, ↓reduceIte, Res.ok.injEq, Prod.mk.injEq] at ha
          rw [← ha.1]; exact ⟨h0, rfl⟩
        · simp only [hhas] at ha
          simp only [Bool.false_eq_true, ↓reduceIte, Res.ok.injEq, Prod.mk.injEq] at ha
          rw [← ha.1]
          simp [opAdd, h0, kbOfSize_small hop, kbBytes_zero]
      | hit n now =>
        unfold applyOp at ha
        cases hg : s.fs.files.get n with
        | none => simp only [hg, Res.ok.injEq, Prod.mk.injEq] at ha; rw [← ha.1]; exact ⟨h0, rfl⟩
        | some size =>
          simp only [hg, Res.ok.injEq, Prod.mk.injEq] at ha; rw [← ha.1]; exact ⟨h0, rfl⟩
      | flush now ml =>
        unfold applyOp at ha
        simp only [Res.ok.injEq, Prod.mk.injEq] at ha
        rw [← ha.1]
        simp only [flush_st]; exact ⟨h0, trivial⟩
      | regrow n size => simp [subKbOp] at hop
      | delete n => simp [subKbOp] at hop
      | restart now => simp [subKbOp] at hop
    simp only [runLog]
    cases ha : applyOp s op sc with
    | panic site => simp
    | ok r =>
      obtain ⟨s1, w⟩ := r
      obtain ⟨hz, hm⟩ := key s1 w ha
      cases w with
      | none => simp only []; exact ih ht s1 hz (by rw [hm]; exact hmax)
      | some now =>
        simp only []
        obtain ⟨hfs, hsz, hmx, hsel⟩ := passSys_idle s1 now sc (by rw [hz, hm]; exact hmax)
        intro p hp
        rcases List.mem_append.1 hp with hh | hh
        · unfold obsPass at hh
          split at hh
          · simp only [Option.toList_some, List.mem_singleton] at hh
            subst hh
            simp [hsel, hfs]
          · simp at hh
        · exact ih ht _ (by rw [hsz, hz]) (by rw [hmx, hm]; exact hmax) p hh

/-! ### the full statements are false: witnesses (each replayed on the real limiter as `kf.C16-*`) -/

section Witnesses
set_option maxRecDepth 100000

def c : Sched := canonicalHints
def emptyFS : FS := {}
def t0 : Int := 1700000000
def ml : Int := 180000000
def n1 : Name := b!"a/b/c/abc1"
def n2 : Name := b!"a/b/d/abd2"
def n3 : Name := b!"0/f/3/0f3e9a"
def n4 : Name := b!"c/0/f/c0ffee"
def n5 : Name := b!"a/1/b/a1b2c3"
def stale : Name := b!"5/t/a/5ta1e0"

theorem emptyFS_clean : CleanDir emptyFS where
  nodup := by simp [emptyFS, KMap.empty]
  support := fun _ _ => rfl
  kb := fun n sz h => by cases h
  shape := fun n sz h => by cases h
  nolog := rfl

/-- a script whose map-order choices are the canonical ones -/
def withC (ops : List Op) : List (Op × Sched) := ops.map fun o => (o, c)

theorem valid_withC (ops : List Op) : ValidScheds (withC ops) := by
  intro x hx
  obtain ⟨o, _, rfl⟩ := List.mem_map.1 hx
  exact canonical_valid

/-- C16-a: three entries of 1 000 B on a 2 000 B cache.  Every `kb` is 0, `sizeBytes` stays 0,
    no pass ever purges: 3 000 B stay stored for good. -/
def wA : List (Op × Sched) := withC
  [.fill n1 1000 (t0+1), .fill n2 1000 (t0+7), .fill n3 1000 (t0+13), .flush (t0+19) ml]
theorem fails_witness_a : (historyLog emptyFS 2000 t0 wA).all progress = false := by decide

/-- C16-b: an entry of 1 KiB grows to 1 MiB by a 200-revalidation (`closeFinisher` returns early
    on revalidate); the limiter never learns: 1 MiB stays on a 4 KiB cache. -/
def wB : List (Op × Sched) := withC
  [.fill n1 1024 (t0+1), .regrow n1 1048576, .hit n1 (t0+7), .flush (t0+13) ml]
theorem fails_witness_b : (historyLog emptyFS 4096 t0 wB).all progress = false := by decide

/-- C16-c: the access-time log names an entry without a file, 1 MiB large.  A pass "removes" it
    and subtracts 1 MiB that was never added: `sizeBytes` goes negative and 16 KiB stay on an
    8 KiB cache. -/
def fsC : FS := { files := (KMap.empty.set n1 4096).set n2 4096,
                  atimes := some (n1 ++ b!"|1699990000|4\n" ++ n2 ++ b!"|1699991000|4\n" ++ stale ++ b!"|1699999000|1024\n") }
def wC : List (Op × Sched) := withC
  [.fill n3 4096 (t0+1), .fill n4 4096 (t0+7), .fill n5 4096 (t0+13), .flush (t0+19) ml]
theorem fails_witness_c : (historyLog fsC 8192 t0 wC).all progress = false := by decide

/-- C16-d: an entry is deleted behind the limiter's back and filled again: counted twice, so a
    pass evicts although only 8 KiB are stored on an 8 KiB cache. -/
def wD : List (Op × Sched) := withC
  [.fill n1 4096 (t0+1), .fill n2 4096 (t0+2), .delete n1, .fill n1 4096 (t0+3), .flush (t0+9) ml]
theorem fails_witness_d : (historyLog emptyFS 8192 t0 wD).any needless = true := by decide

/-- C16-e: a file that does not sit at its item path becomes a phantom entry: the pass "frees"
    its 4 KiB without removing anything. -/
def fsE : FS := { files := (KMap.empty.set n1 4096).set b!"zz/qrs7" 4096 }
def wE : List (Op × Sched) := withC
  [.fill n2 4096 (t0+1), .flush (t0+7) ml, .flush (t0+13) ml]
theorem fails_witness_e : (historyLog fsE 4096 t0 wE).all progress = false := by decide

/-- C16-f: a hit on an entry present at start puts it into both maps; it is purged as unknown
    and later "purged" again as known: subtracted twice, 12 KiB stay on an 8 KiB cache. -/
def fsF : FS := { files := KMap.empty.set n1 4096 }
def wF : List (Op × Sched) := withC
  [.hit n1 (t0+1), .fill n2 4096 (t0+2), .fill n3 4096 (t0+3), .flush (t0+9) ml,
   .fill n4 4096 (t0+10), .fill n5 4096 (t0+16), .flush (t0+22) ml]
theorem fails_witness_f : (historyLog fsF 8192 t0 wF).all progress = false := by decide

theorem StatementReturns_false : ¬ StatementReturns := by
  intro h
  have hall : (historyLog emptyFS 2000 t0 wA).all progress = true :=
    List.all_eq_true.2 (h emptyFS 2000 t0 wA (by decide) (valid_withC _))
  rw [fails_witness_a] at hall; cases hall

theorem StatementNoNeedless_false : ¬ StatementNoNeedless := by
  intro h
  obtain ⟨p, hp, hn⟩ := List.any_eq_true.1 fails_witness_d
  have := h emptyFS 8192 t0 wD (by decide) (valid_withC _) p hp
  rw [this] at hn; cases hn

theorem Statement_false : ¬ Statement := by
  intro h
  have := h emptyFS 8192 t0 wD (by decide) (valid_withC _)
  obtain ⟨p, hp, hn⟩ := List.any_eq_true.1 fails_witness_d
  have hok := (List.all_eq_true.1 this) p hp
  unfold passOk at hok
  rw [hn] at hok; cases hok

/-! Non-vacuity of `H`: a clean history that fills 5 × 4 KiB into an 8 KiB cache, hits, flushes,
    restarts are excluded only after the log exists; passes evict and the oracle accepts. -/
def wClean : List (Op × Sched) := withC
  [.fill n1 4096 (t0+1), .fill n2 4096 (t0+2), .hit n1 (t0+3), .fill n3 4096 (t0+8),
   .restart (t0+9), .fill n4 1048576 (t0+10), .fill n5 4096 (t0+20), .flush (t0+30) ml]
example : cleanRun { st := newState 8192 t0, fs := emptyFS } wClean = true := by decide
example : (historyLog emptyFS 8192 t0 wClean).map (fun p => (p.before, p.after, p.removed.length))
    = [(4096, 4096, 0), (12288, 8192, 1), (1056768, 0, 3), (4096, 4096, 0), (4096, 4096, 0)] := by decide
example : holds (historyLog emptyFS 8192 t0 wClean) = true := by decide
example : ValidScheds wClean := valid_withC _

/-! Non-vacuity of `sub_kb_never_purged` and `purge_amount`. -/
example : ∀ x ∈ wA, subKbOp x.1 = true := by decide
example : (newState 2000 t0).sizeBytes = 0 ∧ (0 : Int) ≤ (newState 2000 t0).max := by decide
/-- a state over its limit in which the pass has something to select -/
def stOver : LState := opAdd (opAdd (newState 4096 t0) n1 ⟨1, 4⟩) n2 ⟨2, 4⟩
example : stOver.sizeBytes > stOver.max := by decide
example : (passSel stOver (canonicalHints stOver)) = { withA := [n1], without := [], size := 4096 } := by decide

end Witnesses

end Props.C16
