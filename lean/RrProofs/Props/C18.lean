import RrModel.Redirect
import RrModel.Spec.C18
import RrProofs.Props.C01
import RrModel.Spec.Tables
/-
  C18 — restart_on_redirect follows redirects through the rules and always terminates
  (uncached path; the cached re-entry sites are a later slice).

  * `location_resolution` (full strength since the repair of finding C18-b)
  * `hop_semantics_match`, `hop_semantics_fallback`, `hop_semantics_nomatch_root`
  * `terminates_partial`, `final_response`, `follow_done_reaches`, `ending_chain_acyclic`
  * `self_redirect_508`, `absolute_not_caught_on_first_request`
  * `cycle_diverges`, `diverges_forall_fuel`, `Statement_false` (C18-a)
-/
namespace Props.C18
open Go Model Model.Redirect Spec.C18

/-! ## Location resolution -/

/-- what the resolution is compared on -/
def resolvedOf (u : RUrl) : Resolved := ⟨u.host, u.path, u.rawQuery⟩

/-- full statement: `util.RedirectedURL` resolves every Location as RFC 3986 says (for
    references without dot segments), against the host that answered and the request path -/
def ResolutionStatement : Prop :=
  ∀ (origUrl : RUrl) (origHost : Bytes) (requested redir : RUrl), requested.host ≠ [] →
    resolvedOf (redirectedURL origUrl origHost requested redir) = resolve requested.host origUrl.path redir

theorem index_slash_zero (p : Bytes) : index b!"/" p = some 0 ↔ ∃ t, p = 47 :: t := by
  cases p with
  | nil => simp [index]
  | cons c t =>
    by_cases hc : c = 47
    · subst hc; simp [index, List.isPrefixOf]
    · have : (List.isPrefixOf [47] (c :: t)) = false := by simp [List.isPrefixOf, Ne.symm hc]
      simp [index, this, hc]

/-- `strings.LastIndex(p, "/")` finds a slash exactly when there is one -/
theorem lastIndex_slash_none (t : Bytes) : lastIndex b!"/" t = none ↔ 47 ∉ t := by
  induction t with
  | nil => simp [lastIndex]
  | cons c t ih =>
    unfold lastIndex
    cases h : lastIndex b!"/" t with
    | some i =>
      have hm : 47 ∈ t := Classical.byContradiction fun hn => by rw [ih.2 hn] at h; cases h
      simp [hm]
    | none =>
      have hn := ih.1 h
      by_cases hc : c = 47
      · subst hc; simp [List.isPrefixOf]
      · have : (List.isPrefixOf [47] (c :: t)) = false := by simp [List.isPrefixOf, Ne.symm hc]
        simp [this, hn, Ne.symm hc]

theorem dirOf_no_slash (t : Bytes) (h : 47 ∉ t) : dirOf t = [] := by
  cases t with
  | nil => rfl
  | cons c t =>
    unfold dirOf
    have : ¬ (c :: t).contains 47 = true := by simpa using h
    rw [if_neg this]

/-- the prefix the repaired code cuts (`p[:LastIndex(p, "/")+1]`) is the specification's directory -/
theorem uptoLastSlash_dirOf (p : Bytes) : uptoLastSlash p = dirOf p := by
  induction p with
  | nil => rfl
  | cons c t ih =>
    unfold uptoLastSlash at ih ⊢
    unfold lastIndex dirOf
    cases h : lastIndex b!"/" t with
    | some i =>
      have hm : 47 ∈ t := Classical.byContradiction fun hn => by
        rw [(lastIndex_slash_none t).2 hn] at h; cases h
      have hc : (c :: t).contains 47 = true := by simp [hm]
      rw [h] at ih
      simp only at ih
      simp only [hc, ↓reduceIte, List.take_succ_cons, ih]
    | none =>
      have hn := (lastIndex_slash_none t).1 h
      by_cases hc : c = 47
      · subst hc
        simp [List.isPrefixOf, dirOf_no_slash t hn]
      · have hp : (List.isPrefixOf [47] (c :: t)) = false := by simp [List.isPrefixOf, Ne.symm hc]
        have hcn : ¬ (c :: t).contains 47 = true := by simp [hn, Ne.symm hc]
        simp only [hp, Bool.false_eq_true, ↓reduceIte, List.take_zero, hcn]

/-- the relative branch merges the reference onto the directory of the request path -/
theorem relativePath_merge (origPath redirPath : Bytes) :
    relativePath origPath redirPath = baseDir origPath ++ redirPath := by
  unfold relativePath baseDir
  cases origPath with
  | nil => simp
  | cons c t => simp [uptoLastSlash_dirOf]

/-- **location_resolution** (full strength since the repair of finding C18-b): absolute
    Locations are taken as they are, `/`-rooted ones are put on the host that answered, relative
    ones are merged onto the directory of the request path (RFC 3986 §5.2.3) -/
theorem location_resolution : ResolutionStatement := by
  intro origUrl origHost requested redir hh
  have hlen : requested.host.length > 0 := by
    cases h : requested.host with
    | nil => exact absurd h hh
    | cons _ _ => simp
  unfold redirectedURL resolve formOf
  by_cases hs : redir.scheme = []
  · have hs' : ¬ redir.scheme.length > 0 := by simp [hs]
    rw [if_neg hs']
    simp only [hs, ne_eq, not_true_eq_false, ↓reduceIte, hlen]
    by_cases hr : index b!"/" redir.path = some 0
    · obtain ⟨t, ht⟩ := (index_slash_zero _).1 hr
      rw [if_pos hr]
      simp [resolvedOf, ht]
    · rw [if_neg hr]
      have hnr : ∀ t, redir.path ≠ 47 :: t := fun t e => hr ((index_slash_zero _).2 ⟨t, e⟩)
      simp only [resolvedOf, relativePath_merge]
  · have hs' : redir.scheme.length > 0 := by
      cases h : redir.scheme with
      | nil => exact absurd h hs
      | cons _ _ => simp
    rw [if_pos hs']
    simp [hs, resolvedOf]

/-- non-vacuity: all three forms of a Location occur -/
example : formOf { scheme := b!"http", host := b!"d0.test", path := b!"/c" } = .absolute ∧
    formOf { path := b!"/c" } = .rooted ∧ formOf { path := b!"2", rawQuery := b!"c=d" } = .relative := by decide

/-- the inputs of the repaired finding C18-b: `/s/a` answers `Location: b` -/
def wOrig : RUrl := { path := b!"/s/a" }
def wRequested : RUrl := { scheme := b!"http", host := b!"d0.test", path := b!"/s/a" }
def wRedir : RUrl := { path := b!"b" }

/-- the former witness, repaired: `/s/a` + `b` is `/s/b` (the code used to build `/sb`) -/
example :
    (redirectedURL wOrig b!"h.test" wRequested wRedir).path = b!"/s/b" ∧
    (resolve wRequested.host wOrig.path wRedir).path = b!"/s/b" := by decide

/-- a trailing slash keeps the directory: `/s/` + `b` ⇒ `/s/b` (used to be `/b`); a path directly
    under the root, or none at all, merges onto the root as before -/
example :
    (redirectedURL { path := b!"/s/" } b!"h.test" wRequested wRedir).path = b!"/s/b" ∧
    (redirectedURL { path := b!"/a" } b!"h.test" wRequested wRedir).path = b!"/b" ∧
    (redirectedURL { path := [] } b!"h.test" wRequested wRedir).path = b!"/b" ∧
    (redirectedURL { path := b!"/x/y/z" } b!"h.test" wRequested { path := b!"w", rawQuery := b!"k=v" }).path = b!"/x/y/w" := by decide

/-! the four strings of `TestRedirectedURL` (util/http_test.go) -/

def render (u : RUrl) : Bytes := u.scheme ++ b!"://" ++ u.host ++ escapedPath u ++ querySuffix u

def unitTest (orig requested redir : Bytes) : Option Bytes :=
  match parseURL orig, parseURL requested, parseURL redir with
  | some o, some q, some r => some (render (redirectedURL o [] q r))
  | _, _, _ => none

example : unitTest b!"https://edge.example.com/" b!"https://inner.example.com/a" b!"https://example.com/1?a=b"
    = some b!"https://example.com/1?a=b" := by decide
example : unitTest b!"https://edge.example.com/" b!"https://inner.example.com/a" b!"/1?a=b"
    = some b!"https://inner.example.com/1?a=b" := by decide
example : unitTest b!"https://edge.example.com/" b!"https://inner.example.com" b!"1?b=c"
    = some b!"https://inner.example.com/1?b=c" := by decide
example : unitTest b!"https://edge.example.com/1?a=b" b!"https://inner.example.com/1?a=b" b!"2?c=d"
    = some b!"https://inner.example.com/2?c=d" := by decide


/-! ## One hop = one new client request through the rules -/

def contactOf : HopRes → Option Contact
  | .leaf _ c => c
  | .next _ c => some c

/-- whatever the answer, the performer was asked exactly the prepared request -/
theorem conclude_contact (cfg : Cfg) (p : Prepared) :
    ∃ c, contactOf (conclude cfg p) = some c ∧ c.url = p.contact.url ∧
      c.hostField = p.contact.hostField ∧ c.headers = p.contact.headers := by
  unfold conclude
  simp only
  split
  · exact ⟨_, rfl, rfl, rfl, rfl⟩
  · split
    · exact ⟨_, rfl, rfl, rfl, rfl⟩
    · exact ⟨_, rfl, rfl, rfl, rfl⟩
    · split
      · split <;> exact ⟨_, rfl, rfl, rfl, rfl⟩
      · exact ⟨_, rfl, rfl, rfl, rfl⟩

/-- the rule `GetRoutingFlavors` reports is the first applicable proxy rule of C01 -/
theorem matchedRule_first (rules : List Rule) (q : Query) :
    matchedRule rules q = (Spec.C01.firstProxy rules q).bind (rules[·]?) := by
  unfold matchedRule
  rw [← Props.C01.match_proxy_first]
  cases (matchRules rules q).proxy with
  | none => rfl
  | some x => rfl

/-- **hop_semantics**, a rule matches the (resolved) request URL: that rule's request-header
    overrides are applied, its destination (with the request's query) is contacted under its
    Host policy.  `hxfp`: the overrides leave the scheme the rules are matched on alone
    (`X-Forwarded-Proto`); `rf` stays the parent's flavors on a re-entry (uncached rules). -/
theorem hop_semantics_match (cfg : Cfg) (lvl : Level) (q : Query) (i : Nat) (target : Bytes)
    (rule : Rule) (t : RUrl)
    (hq : query lvl.req = .ok q)
    (hxfp : query { lvl.req with headers := preprocess lvl.req.headers rule.requestHeaders } = .ok q)
    (hm : matchRules cfg.rules q = { proxy := some (i, target), copy := none })
    (hr : cfg.rules[i]? = some rule) (ht : parseURL target = some t)
    (hunc : rule.cacheId = []) (hfrf : ∀ p, lvl.frf = some p → p.cacheId = []) :
    Spec.C01.firstProxy cfg.rules q = some i ∧
    ∃ p, prepare cfg lvl = .ok p ∧ p.rule = rule ∧
      p.contact.url = { t with rawQuery := lvl.req.url.rawQuery, fragment := lvl.req.url.fragment } ∧
      p.contact.headers = preprocess lvl.req.headers rule.requestHeaders ∧
      p.contact.hostField = hostField rule p.r p.contact.url ∧
      p.rf = (if lvl.frf.isSome then lvl.frf else some rule) := by
  constructor
  · rw [← Props.C01.match_proxy_first, hm]; rfl
  · have hmatched : matchedRule cfg.rules q = some rule := by simp [matchedRule, hm, hr]
    have heff : effectiveRule (some rule) lvl.frf = (if lvl.frf.isSome then lvl.frf else some rule) := by
      simp [effectiveRule, hunc]
    have hcid : (((if lvl.frf.isSome then lvl.frf else some rule).map (·.cacheId)).getD []).length = 0 := by
      cases hf : lvl.frf with
      | none => simp [hunc]
      | some p => simp [hfrf p hf]
    unfold prepare
    simp only [hq, hmatched, Option.map_some, Option.getD_some, heff, hcid, ne_eq, not_true_eq_false,
      false_and, ↓reduceIte, hxfp, outgoing, hm, Option.isSome_none, Bool.false_eq_true, hr, ht]
    exact ⟨_, rfl, rfl, rfl, rfl, rfl, rfl⟩

/-- **hop_semantics**, no rule matches a re-entered request: the parent rule is used, the
    resolved URL ITSELF is the destination, the headers are those the parent request ended with -/
theorem hop_semantics_fallback (cfg : Cfg) (lvl : Level) (q : Query) (parent : Rule)
    (hq : query lvl.req = .ok q)
    (hm : matchRules cfg.rules q = { proxy := none, copy := none })
    (hfrf : lvl.frf = some parent) (hunc : parent.cacheId = []) :
    Spec.C01.firstProxy cfg.rules q = none ∧
    ∃ p, prepare cfg lvl = .ok p ∧ p.rule = parent ∧ p.rf = some parent ∧
      p.contact.url = lvl.req.url ∧ p.contact.headers = lvl.req.headers ∧
      p.contact.hostField = hostField parent lvl.req lvl.req.url := by
  constructor
  · rw [← Props.C01.match_proxy_first, hm]; rfl
  · have hmatched : matchedRule cfg.rules q = none := by simp [matchedRule, hm]
    have hreq : ({ lvl.req with headers := preprocess lvl.req.headers [] } : Req) = lvl.req := rfl
    unfold prepare
    simp only [hq, hmatched, Option.map_none, Option.getD_none, effectiveRule, hfrf, List.length_nil,
      Option.isSome_some, and_self, ↓reduceIte, Option.map_some, Option.getD_some, hunc, ne_eq,
      not_true_eq_false, false_and, hreq, outgoing, hm, Option.isSome_none, Bool.false_eq_true]
    exact ⟨_, rfl, rfl, rfl, rfl, rfl, rfl⟩

/-- the client's own request without a matching rule: 404, nothing is contacted -/
theorem hop_semantics_nomatch_root (cfg : Cfg) (lvl : Level) (q : Query)
    (hq : query lvl.req = .ok q)
    (hm : matchRules cfg.rules q = { proxy := none, copy := none }) (hfrf : lvl.frf = none) :
    hop cfg lvl = .leaf (.userError 404 b!"No destination found for request target") none := by
  have hmatched : matchedRule cfg.rules q = none := by simp [matchedRule, hm]
  have hreq : ({ lvl.req with headers := preprocess lvl.req.headers [] } : Req) = lvl.req := rfl
  unfold hop prepare
  simp only [hq, hmatched, Option.map_none, Option.getD_none, effectiveRule, hfrf, List.length_nil,
    Option.isSome_none, Bool.false_eq_true, and_false, ↓reduceIte, ne_eq, not_true_eq_false,
    false_and, hreq, outgoing, hm]
  rfl

/-- a re-entry happens exactly on a redirect with a parsable Location under a restarting rule
    that `urlEquals` does not stop; the new activation is `reenter`: the resolved Location (scheme
    forced to the contacted URL's) as request URL and Host, the request headers as overridden so
    far, the same `frf` -/
theorem reentry_iff (cfg : Cfg) (p : Prepared) (lvl' : Level) (c : Contact) :
    conclude cfg p = .next lvl' c ↔
      ∃ resp redir, cfg.origin p.contact = some resp ∧ redirectOf cfg resp = some (some redir) ∧
        (p.rf.map (·.restartOnRedirect)).getD false = true ∧ urlEquals redir p.r.url = false ∧
        lvl' = reenter p redir ∧ c = p.contact := by
  cases ho : cfg.origin p.contact with
  | none =>
    have : conclude cfg p = .leaf (.userError 502 b!"Destination unreachable") (some { p.contact with failed := true }) := by
      unfold conclude; simp only [ho]
    rw [this]; simp
  | some resp =>
    cases hr : redirectOf cfg resp with
    | none =>
      have : conclude cfg p = .leaf .plainError (some p.contact) := by unfold conclude; simp only [ho, hr]
      rw [this]; simp [hr]
    | some o =>
      cases o with
      | none =>
        have : conclude cfg p = .leaf (.response resp p.rule) (some p.contact) := by unfold conclude; simp only [ho, hr]
        rw [this]; simp [hr]
      | some redir =>
        have hc : conclude cfg p =
            if (p.rf.map (·.restartOnRedirect)).getD false = true then
              if urlEquals redir p.r.url = true then .leaf (.userError 508 b!"Loop detected") (some p.contact)
              else .next (reenter p redir) p.contact
            else .leaf (.response resp p.rule) (some p.contact) := by unfold conclude; simp only [ho, hr]
        rw [hc]
        by_cases h1 : (p.rf.map (·.restartOnRedirect)).getD false = true
        · rw [if_pos h1]
          by_cases h2 : urlEquals redir p.r.url = true
          · rw [if_pos h2]; simp [hr, h2]
          · rw [if_neg h2]
            simp only [Bool.not_eq_true] at h2
            constructor
            · intro h
              injection h with h3 h4
              exact ⟨resp, redir, rfl, hr, h1, h2, h3.symm, h4.symm⟩
            · rintro ⟨resp', redir', hresp, hredir, _, _, rfl, rfl⟩
              injection hresp with hresp; subst hresp
              rw [hr] at hredir
              injection hredir with hredir; injection hredir with hredir; subst hredir
              rfl
        · rw [if_neg h1]; simp [h1]

/-! ## Termination -/

/-- the chain from `lvl` ends after exactly `d` re-entries in leaf `l`, having contacted `hops` -/
def Reaches (cfg : Cfg) : Nat → Level → Leaf → List Contact → Prop
  | 0, lvl, l, hops => ∃ c, hop cfg lvl = .leaf l c ∧ hops = c.toList
  | d + 1, lvl, l, hops =>
    ∃ lvl' c hops', hop cfg lvl = .next lvl' c ∧ Reaches cfg d lvl' l hops' ∧ hops = c :: hops'

/-- **terminates_partial**: a redirect chain that ends after `d` re-entries is served with any
    fuel above `d` — for every rule set, origin behaviour and request -/
theorem terminates_partial (cfg : Cfg) (d : Nat) (lvl : Level) (l : Leaf) (hops : List Contact)
    (h : Reaches cfg d lvl l hops) : ∀ fuel, d < fuel → follow cfg fuel lvl = .done l hops := by
  induction d generalizing lvl hops with
  | zero =>
    intro fuel hf
    obtain ⟨c, hc, rfl⟩ := h
    cases fuel with
    | zero => omega
    | succ n => simp [follow, hc]
  | succ d ih =>
    intro fuel hf
    obtain ⟨lvl', c, hops', hc, hr, rfl⟩ := h
    cases fuel with
    | zero => omega
    | succ n =>
      have := ih lvl' hops' hr n (by omega)
      simp [follow, hc, this, Outcome.prepend]

/-- conversely, whatever `follow` delivers is the end of a chain shorter than the fuel -/
theorem follow_done_reaches (cfg : Cfg) (fuel : Nat) (lvl : Level) (l : Leaf) (hops : List Contact)
    (h : follow cfg fuel lvl = .done l hops) : ∃ d, d < fuel ∧ Reaches cfg d lvl l hops := by
  induction fuel generalizing lvl hops with
  | zero => simp [follow] at h
  | succ n ih =>
    unfold follow at h
    cases hh : hop cfg lvl with
    | leaf l' c =>
      rw [hh] at h
      simp only at h
      injection h with h1 h2
      subst h1; subst h2
      exact ⟨0, by omega, c, hh, rfl⟩
    | next lvl' c =>
      rw [hh] at h
      simp only at h
      cases hf : follow cfg n lvl' with
      | diverged => rw [hf] at h; simp [Outcome.prepend] at h
      | done l' hops' =>
        rw [hf] at h
        simp only [Outcome.prepend] at h
        injection h with h1 h2
        subst h1; subst h2
        obtain ⟨d, hd, hr⟩ := ih lvl' hops' hf
        exact ⟨d + 1, by omega, lvl', c, hops', hh, hr, rfl⟩

theorem prepErr_not_response (e : PrepErr) (r : Resp) (rule : Rule) : e.leaf ≠ .response r rule := by
  cases e <;> simp [PrepErr.leaf]

/-- a response leaf is the answer of the contact it names -/
theorem leaf_response_origin (cfg : Cfg) (lvl : Level) (resp : Resp) (rule : Rule) (c : Option Contact)
    (h : hop cfg lvl = .leaf (.response resp rule) c) :
    ∃ c', c = some c' ∧ cfg.origin c' = some resp := by
  unfold hop at h
  cases hp : prepare cfg lvl with
  | error e =>
    rw [hp] at h
    simp only at h
    injection h with h1 _
    exact absurd h1 (prepErr_not_response e resp rule)
  | ok p =>
    rw [hp] at h
    simp only at h
    unfold conclude at h
    simp only at h
    split at h
    · injection h with h1 _; cases h1
    · rename_i resp' ho
      split at h
      · injection h with h1 _; cases h1
      · injection h with h1 h2
        injection h1 with h3 _
        subst h3; subst h2
        exact ⟨_, rfl, ho⟩
      · split at h
        · split at h
          · injection h with h1 _; cases h1
          · cases h
        · injection h with h1 h2
          injection h1 with h3 _
          subst h3; subst h2
          exact ⟨_, rfl, ho⟩

theorem reaches_length (cfg : Cfg) (d : Nat) (lvl : Level) (resp : Resp) (rule : Rule) (hops : List Contact)
    (h : Reaches cfg d lvl (.response resp rule) hops) :
    hops.length = d + 1 ∧ ∃ c, hops.getLast? = some c ∧ cfg.origin c = some resp := by
  induction d generalizing lvl hops with
  | zero =>
    obtain ⟨c, hc, rfl⟩ := h
    obtain ⟨c', rfl, ho⟩ := leaf_response_origin cfg lvl resp rule c hc
    exact ⟨rfl, c', rfl, ho⟩
  | succ d ih =>
    obtain ⟨lvl', c, hops', _, hr, rfl⟩ := h
    obtain ⟨hl, c', hlast, ho⟩ := ih lvl' hops' hr
    refine ⟨by simp [hl], c', ?_, ho⟩
    cases hops' with
    | nil => simp at hl
    | cons x xs => simpa [List.getLast?_cons_cons] using hlast

/-- **final_response**: for every redirect chain that ends in a non-redirect (or passed-on) answer
    after `d` re-entries, fuel `d + 1` suffices, exactly `d + 1` destinations are contacted, and
    the client receives what the LAST of them answered -/
theorem final_response (cfg : Cfg) (d : Nat) (lvl : Level) (resp : Resp) (rule : Rule) (hops : List Contact)
    (h : Reaches cfg d lvl (.response resp rule) hops) :
    follow cfg (d + 1) lvl = .done (.response resp rule) hops ∧ hops.length = d + 1 ∧
      ∃ c, hops.getLast? = some c ∧ cfg.origin c = some resp :=
  ⟨terminates_partial cfg d lvl _ hops h (d + 1) (by omega), reaches_length cfg d lvl resp rule hops h⟩

/-- the depth of an ending chain is determined by its first activation -/
theorem reaches_depth_unique (cfg : Cfg) (d d' : Nat) (lvl : Level) (l l' : Leaf) (hops hops' : List Contact)
    (h : Reaches cfg d lvl l hops) (h' : Reaches cfg d' lvl l' hops') : d = d' := by
  induction d generalizing d' lvl hops hops' with
  | zero =>
    obtain ⟨c, hc, _⟩ := h
    cases d' with
    | zero => rfl
    | succ d' =>
      obtain ⟨_, _, _, hc', _, _⟩ := h'
      rw [hc] at hc'; cases hc'
  | succ d ih =>
    obtain ⟨lvl1, c, hops1, hc, hr, _⟩ := h
    cases d' with
    | zero =>
      obtain ⟨_, hc', _⟩ := h'
      rw [hc] at hc'; cases hc'
    | succ d' =>
      obtain ⟨lvl2, c2, hops2, hc', hr', _⟩ := h'
      rw [hc] at hc'
      injection hc' with h1 _
      subst h1
      rw [ih d' lvl1 hops1 hops2 hr hr']

theorem reaches_levelAt (cfg : Cfg) (k d : Nat) (lvl : Level) (l : Leaf) (hops : List Contact)
    (h : Reaches cfg d lvl l hops) (hk : k ≤ d) :
    ∃ s hops', levelAt cfg k lvl = some s ∧ Reaches cfg (d - k) s l hops' := by
  induction k generalizing d lvl hops with
  | zero => exact ⟨lvl, hops, rfl, h⟩
  | succ k ih =>
    cases d with
    | zero => omega
    | succ d =>
      obtain ⟨lvl', c, hops', hc, hr, _⟩ := h
      obtain ⟨s, hs, h1, h2⟩ := ih d lvl' hops' hr (by omega)
      refine ⟨s, hs, ?_, by simpa using h2⟩
      simp [levelAt, hc, h1]

/-- a chain that ends is acyclic: no activation (request URL, Host, headers, parent rule) occurs
    twice on it.  So the hypothesis of `terminates_partial` is exactly "the chain of resolved
    URLs ends in a non-redirect", and it implies that nothing repeats on the way. -/
theorem ending_chain_acyclic (cfg : Cfg) (d : Nat) (lvl : Level) (l : Leaf) (hops : List Contact)
    (h : Reaches cfg d lvl l hops) (i j : Nat) (hij : i < j) (hj : j ≤ d) (s : Level)
    (hi : levelAt cfg i lvl = some s) : levelAt cfg j lvl ≠ some s := by
  intro hjs
  obtain ⟨s1, h1, e1, r1⟩ := reaches_levelAt cfg i d lvl l hops h (by omega)
  obtain ⟨s2, h2, e2, r2⟩ := reaches_levelAt cfg j d lvl l hops h hj
  rw [hi] at e1; rw [hjs] at e2
  injection e1 with e1; injection e2 with e2
  subst e1; subst e2
  have := reaches_depth_unique cfg _ _ s l l h1 h2 r1 r2
  omega

/-! ## What the loop check catches -/

/-- **self_redirect_508** (general form): when the Location equals the request's own URL as
    the handler sees it, the answer is 508 after this one contact -/
theorem self_redirect_508 (cfg : Cfg) (lvl : Level) (p : Prepared) (resp : Resp) (redir : RUrl)
    (hp : prepare cfg lvl = .ok p) (ho : cfg.origin p.contact = some resp)
    (hr : redirectOf cfg resp = some (some redir))
    (hrestart : (p.rf.map (·.restartOnRedirect)).getD false = true)
    (heq : urlEquals redir p.r.url = true) (n : Nat) :
    follow cfg (n + 1) lvl = .done (.userError 508 b!"Loop detected") [p.contact] := by
  have : hop cfg lvl = .leaf (.userError 508 b!"Loop detected") (some p.contact) := by
    unfold hop; rw [hp]; simp only
    unfold conclude; simp only [ho, hr, hrestart, heq, ↓reduceIte]
  simp [follow, this]

/-- the client's own request URL is in origin form (no scheme): an absolute Location never
    equals it, so an absolute self-redirect is not caught on the first request -/
theorem absolute_not_caught_on_first_request (redir reqUrl : RUrl)
    (hreq : reqUrl.scheme = []) (habs : redir.scheme ≠ []) : urlEquals redir reqUrl = false := by
  unfold urlEquals
  have : (redir.scheme == reqUrl.scheme) = false := by
    rw [hreq]; simpa using habs
  simp [this]

/-- a re-entered request URL is absolute (it carries the contacted URL's scheme): a Location
    without scheme never equals it, so a relative or rooted self-redirect is not caught from
    the second activation on -/
theorem relative_not_caught_after_reentry (redir reqUrl : RUrl)
    (hreq : reqUrl.scheme ≠ []) (hrel : redir.scheme = []) : urlEquals redir reqUrl = false := by
  unfold urlEquals
  have : (redir.scheme == reqUrl.scheme) = false := by
    rw [hrel]; simpa using fun h => hreq h

  simp [this]

/-! ## Divergence -/

theorem levelAt_short (cfg : Cfg) (k : Nat) (lvl s : Level) (h : levelAt cfg k lvl = some s) :
    ∀ n, n ≤ k → follow cfg n lvl = .diverged := by
  induction k generalizing lvl with
  | zero => intro n hn; have : n = 0 := by omega
            subst this; rfl
  | succ k ih =>
    intro n hn
    cases n with
    | zero => rfl
    | succ m =>
      unfold levelAt at h
      cases hh : hop cfg lvl with
      | leaf l c => rw [hh] at h; simp at h
      | next lvl' c =>
        rw [hh] at h
        simp only at h
        simp [follow, hh, ih lvl' h m (by omega), Outcome.prepend]

theorem follow_add (cfg : Cfg) (k n : Nat) (lvl s : Level) (h : levelAt cfg k lvl = some s)
    (hd : follow cfg n s = .diverged) : follow cfg (n + k) lvl = .diverged := by
  induction k generalizing lvl with
  | zero =>
    simp only [levelAt, Option.some.injEq] at h
    subst h; simpa using hd
  | succ k ih =>
    unfold levelAt at h
    cases hh : hop cfg lvl with
    | leaf l c => rw [hh] at h; simp at h
    | next lvl' c =>
      rw [hh] at h
      simp only at h
      have := ih lvl' h
      rw [show n + (k + 1) = (n + k) + 1 by omega]
      simp [follow, hh, this, Outcome.prepend]

/-- **cycle_diverges**: if an activation comes back to itself after `k > 0` re-entries, no
    amount of fuel serves the request -/
theorem cycle_diverges (cfg : Cfg) (k : Nat) (lvl : Level) (hk : 0 < k)
    (h : levelAt cfg k lvl = some lvl) : ∀ n, follow cfg n lvl = .diverged := by
  intro n
  induction n using Nat.strongRecOn with
  | _ n ih =>
    by_cases hn : n ≤ k
    · exact levelAt_short cfg k lvl lvl h n hn
    · have := follow_add cfg k (n - k) lvl lvl h (ih (n - k) (by omega))
      rwa [show n - k + k = n by omega] at this

/-! ## Concrete configurations (witnesses and non-vacuity) -/

/-- the catch-all rule of the edge host, restart_on_redirect on -/
def rootRule : Rule :=
  { host := b!"h.test", path := b!"/*", wci := some 1, dest := b!"http://d0.test/$1", restartOnRedirect := true }

/-- a second rule: its own destination host and a request-header override -/
def ruleB : Rule :=
  { path := b!"/b", dest := b!"http://e1.test/b", requestHeaders := [(b!"x-hop", some b!"r1")], restartOnRedirect := true }

/-- an origin keyed by request path (any host answers); unknown paths are a 404 -/
def originOf (tbl : List (Bytes × Resp)) (c : Contact) : Option Resp :=
  match tbl.lookup c.url.path with
  | some r => some r
  | none => some { status := 404, body := b!"unknown" }

def cfgOf (rules : List Rule) (tbl : List (Bytes × Resp)) : Cfg :=
  { rules := rules, origin := originOf tbl, isRedirect := fun s => Spec.redirectStatuses.contains s }

def clientGet (path : Bytes) : Level :=
  { req := { url := { path := path }, host := b!"h.test", headers := [], method := b!"GET" } }

example : clientLevel b!"/a" b!"h.test" [] b!"GET" = some (clientGet b!"/a") := by rfl

/-- a re-entered request for `http://<host><path>` with the catch-all rule as parent -/
def reentered (host path : Bytes) (headers : Header := []) : Level :=
  { req := { url := { scheme := b!"http", host := host, path := path }, host := host, headers := headers, method := b!"GET" },
    frf := some rootRule }

def contactAt (host path : Bytes) (headers : Header := []) : Contact :=
  { url := { scheme := b!"http", host := host, path := path }, hostField := host, headers := headers }

/-- the 2-cycle `/a → /b → /a` (rooted Locations) -/
def cfg2 : Cfg := cfgOf [rootRule]
  [(b!"/a", { status := 302, location := b!"/b" }), (b!"/b", { status := 302, location := b!"/a" })]

theorem cfg2_first : hop cfg2 (clientGet b!"/a") = .next (reentered b!"d0.test" b!"/b") (contactAt b!"d0.test" b!"/a") := by rfl
theorem cfg2_cycle : levelAt cfg2 2 (reentered b!"d0.test" b!"/b") = some (reentered b!"d0.test" b!"/b") := by rfl

/-- **diverges_forall_fuel**: on the 2-cycle the handler never answers, whatever the fuel -/
theorem diverges_forall_fuel : ∀ n, follow cfg2 n (clientGet b!"/a") = .diverged := by
  intro n
  cases n with
  | zero => rfl
  | succ n =>
    have := cycle_diverges cfg2 2 _ (by omega) cfg2_cycle n
    simp [follow, cfg2_first, this, Outcome.prepend]

/-- the first steps for growing fuel, computed (the same fact, by evaluation) -/
example : (List.range 40).all (fun n => match follow cfg2 n (clientGet b!"/a") with | .diverged => true | _ => false) = true := by
  decide

/-- a 3-cycle with mixed Location forms -/
def cfg3 : Cfg := cfgOf [rootRule]
  [(b!"/a", { status := 301, location := b!"b" }), (b!"/b", { status := 307, location := b!"http://d0.test/c" }),
   (b!"/c", { status := 308, location := b!"/a" })]

theorem cfg3_diverges : ∀ n, follow cfg3 n (clientGet b!"/a") = .diverged := by
  intro n
  cases n with
  | zero => rfl
  | succ n =>
    -- the first re-entry carries the RawPath the relative branch sets; the cycle closes on the
    -- activation for /c
    have h1 : levelAt cfg3 2 (clientGet b!"/a") = some (reentered b!"d0.test" b!"/c") := by rfl
    have h2 : levelAt cfg3 3 (reentered b!"d0.test" b!"/c") = some (reentered b!"d0.test" b!"/c") := by rfl
    have hc := cycle_diverges cfg3 3 _ (by omega) h2
    by_cases hn : n + 1 ≤ 2
    · exact levelAt_short cfg3 2 _ _ h1 (n + 1) hn
    · have := follow_add cfg3 2 (n + 1 - 2) _ _ h1 (hc _)
      rwa [show n + 1 - 2 + 2 = n + 1 by omega] at this

/-- an absolute self-redirect (https upgrade answered by a plain-http destination): the scheme
    of the resolved URL is forced back to the destination's, the Location never equals it -/
def cfgUp : Cfg := cfgOf [rootRule] [(b!"/a", { status := 301, location := b!"https://d0.test/a" })]

theorem cfgUp_diverges : ∀ n, follow cfgUp n (clientGet b!"/a") = .diverged := by
  intro n
  cases n with
  | zero => rfl
  | succ n =>
    have h1 : hop cfgUp (clientGet b!"/a") = .next (reentered b!"d0.test" b!"/a") (contactAt b!"d0.test" b!"/a") := by rfl
    have h2 : levelAt cfgUp 1 (reentered b!"d0.test" b!"/a") = some (reentered b!"d0.test" b!"/a") := by rfl
    have := cycle_diverges cfgUp 1 _ (by omega) h2 n
    simp [follow, h1, this, Outcome.prepend]

/-- a relative self-redirect in the rooted form on the client's own request IS caught -/
def cfgSelf : Cfg := cfgOf [rootRule] [(b!"/x", { status := 302, location := b!"/x" })]

theorem self_redirect_508_witness (n : Nat) :
    follow cfgSelf (n + 1) (clientGet b!"/x") = .done (.userError 508 b!"Loop detected") [contactAt b!"d0.test" b!"/x"] := by
  have hp : prepare cfgSelf (clientGet b!"/x") = .ok
      { r := (clientGet b!"/x").req, rf := some rootRule, rule := rootRule, contact := contactAt b!"d0.test" b!"/x" } := by rfl
  exact self_redirect_508 cfgSelf _ _ { status := 302, location := b!"/x" } { path := b!"/x" } hp rfl rfl rfl rfl n

/-- …but the same self-redirect reached through one earlier hop is not: the re-entered
    request URL is absolute, the Location is not -/
def cfgSelf2 : Cfg := cfgOf [rootRule]
  [(b!"/w", { status := 302, location := b!"/x" }), (b!"/x", { status := 302, location := b!"/x" })]

theorem late_self_redirect_diverges : ∀ n, follow cfgSelf2 n (clientGet b!"/w") = .diverged := by
  intro n
  cases n with
  | zero => rfl
  | succ n =>
    have h1 : hop cfgSelf2 (clientGet b!"/w") = .next (reentered b!"d0.test" b!"/x") (contactAt b!"d0.test" b!"/w") := by rfl
    have h2 : levelAt cfgSelf2 1 (reentered b!"d0.test" b!"/x") = some (reentered b!"d0.test" b!"/x") := by rfl
    have := cycle_diverges cfgSelf2 1 _ (by omega) h2 n
    simp [follow, h1, this, Outcome.prepend]

/-- an absolute self-redirect with the destination's own scheme is caught — one hop late -/
def cfgAbs : Cfg := cfgOf [rootRule] [(b!"/x", { status := 302, location := b!"http://d0.test/x" })]

example : follow cfgAbs 2 (clientGet b!"/x") =
    .done (.userError 508 b!"Loop detected") [contactAt b!"d0.test" b!"/x", contactAt b!"d0.test" b!"/x"] := by rfl

/-- an acyclic chain through a second rule and a fallback hop: `/a → /b → /c`, `/b` has its own
    rule (destination e1.test, override `x-hop: r1`), `/c` has none -/
def cfgChain : Cfg := cfgOf [ruleB, rootRule]
  [(b!"/a", { status := 302, location := b!"/b" }), (b!"/b", { status := 307, location := b!"/c" }),
   (b!"/c", { status := 200, body := b!"sink" })]

def hopHdr : Header := [(b!"X-Hop", [b!"r1"])]

def chainHops : List Contact :=
  [contactAt b!"d0.test" b!"/a",
   -- the matched rule's destination and override
   { url := { scheme := b!"http", host := b!"e1.test", path := b!"/b" }, hostField := b!"e1.test", headers := hopHdr },
   -- no rule: the resolved URL itself (on the host that answered), the override carried along
   contactAt b!"e1.test" b!"/c" hopHdr]

theorem chain_reaches :
    Reaches cfgChain 2 (clientGet b!"/a") (.response { status := 200, body := b!"sink" } rootRule) chainHops :=
  ⟨_, _, _, (by rfl : hop cfgChain (clientGet b!"/a") = .next (reentered b!"d0.test" b!"/b") _), ⟨_, _, _,
    (by rfl : hop cfgChain (reentered b!"d0.test" b!"/b") = .next (reentered b!"e1.test" b!"/c" hopHdr) _),
    ⟨_, by rfl, rfl⟩, rfl⟩, rfl⟩

/-- non-vacuity of `terminates_partial` / `final_response`: depth 2, three contacts, the sink's body -/
example : follow cfgChain 3 (clientGet b!"/a") = .done (.response { status := 200, body := b!"sink" } rootRule) chainHops :=
  (final_response cfgChain 2 _ _ _ _ chain_reaches).1

/-- non-vacuity of `hop_semantics_match`: the re-entered request for `/b` matches `ruleB` -/
example : ∃ p, prepare cfgChain (reentered b!"d0.test" b!"/b") = .ok p ∧ p.rule = ruleB ∧
    p.contact.url.host = b!"e1.test" ∧ p.contact.headers = hopHdr ∧ p.rf = some rootRule := by
  obtain ⟨_, p, hp, h1, h2, h3, _, h5⟩ := hop_semantics_match cfgChain (reentered b!"d0.test" b!"/b")
    { scheme := b!"http", host := b!"d0.test", uri := b!"/b", method := b!"GET" } 0 b!"http://e1.test/b" ruleB
    { scheme := b!"http", host := b!"e1.test", path := b!"/b" } (by rfl) (by rfl) (by rfl) (by rfl) (by rfl) (by rfl)
    (by intro p hp; injection hp with hp; subst hp; rfl)
  exact ⟨p, hp, h1, by rw [h2], by rw [h3]; rfl, by rw [h5]; rfl⟩

/-- non-vacuity of `hop_semantics_fallback`: `/c` on e1.test matches nothing -/
example : ∃ p, prepare cfgChain (reentered b!"e1.test" b!"/c" hopHdr) = .ok p ∧ p.rule = rootRule ∧
    p.contact.url = { scheme := b!"http", host := b!"e1.test", path := b!"/c" } := by
  obtain ⟨_, p, hp, h1, _, h3, _, _⟩ := hop_semantics_fallback cfgChain (reentered b!"e1.test" b!"/c" hopHdr)
    { scheme := b!"http", host := b!"e1.test", uri := b!"/c", method := b!"GET" } rootRule (by rfl) (by rfl) rfl rfl
  exact ⟨p, hp, h1, h3⟩

/-- non-vacuity of `ending_chain_acyclic` -/
example : levelAt cfgChain 2 (clientGet b!"/a") ≠ some (reentered b!"d0.test" b!"/b") :=
  ending_chain_acyclic cfgChain 2 _ _ _ chain_reaches 1 2 (by omega) (by omega) _ (by rfl)

/-! ## The termination statement -/

/-- the same URL is requested again on the chain -/
def Loops (cfg : Cfg) (lvl : Level) : Prop :=
  ∃ i j s s', i < j ∧ levelAt cfg i lvl = some s ∧ levelAt cfg j lvl = some s' ∧
    s.req.url = s'.req.url ∧ s.req.host = s'.req.host

def isErrorResponse : Outcome → Bool
  | .done (.userError code _) _ => decide (code ≥ 400)
  | .done .plainError _ => true
  | _ => false

/-- C18, termination clause, at full strength: some fuel serves every request, and a chain that
    loops ends in an error response -/
def Statement : Prop :=
  ∃ N, ∀ (cfg : Cfg) (lvl : Level),
    follow cfg N lvl ≠ .diverged ∧ (Loops cfg lvl → isErrorResponse (follow cfg N lvl) = true)

/-- the statement is FALSE of the code: the only loop check compares the Location with the
    request's own URL, so every cycle of length ≥ 2 recurses without bound (finding C18-a) -/
theorem Statement_false : ¬ Statement := by
  rintro ⟨N, h⟩
  exact (h cfg2 (clientGet b!"/a")).1 (diverges_forall_fuel N)

/-- the witness loops in the sense of the statement -/
example : Loops cfg2 (clientGet b!"/a") :=
  ⟨1, 3, reentered b!"d0.test" b!"/b", reentered b!"d0.test" b!"/b", by omega, by rfl, by rfl, rfl, rfl⟩

/-- what does hold (see `terminates_partial`): the bound exists per ending chain -/
theorem terminates_iff_chain_ends (cfg : Cfg) (lvl : Level) :
    (∃ N, follow cfg N lvl ≠ .diverged) ↔ ∃ d l hops, Reaches cfg d lvl l hops := by
  constructor
  · rintro ⟨N, hN⟩
    cases hf : follow cfg N lvl with
    | diverged => exact absurd hf hN
    | done l hops =>
      obtain ⟨d, _, hr⟩ := follow_done_reaches cfg N lvl l hops hf
      exact ⟨d, l, hops, hr⟩
  · rintro ⟨d, l, hops, hr⟩
    refine ⟨d + 1, ?_⟩
    rw [terminates_partial cfg d lvl l hops hr (d + 1) (by omega)]
    intro h; cases h

/-! ## The oracle `Spec.C18.holds` on the model's outcomes -/

/-- the oracle rejects every diverging run on a looping graph… -/
theorem holds_cycle_diverged (nodes : List Node) (start : Nat)
    (hc : chainEnd nodes nodes.length start = .cycle) : holds nodes start (obsOf .diverged) = false := by
  simp [holds, hc, obsOf]

/-- …and accepts an ending run on an acyclic graph iff the client got the sink's status and body -/
theorem holds_sink_response (nodes : List Node) (start i : Nat) (n : Node) (resp : Resp) (rule : Rule)
    (hops : List Contact) (hc : chainEnd nodes nodes.length start = .sink i) (hn : nodes[i]? = some n) :
    holds nodes start (obsOf (.done (.response resp rule) hops)) = (resp.status == n.status && toHex resp.body == toHex n.body) := by
  simp [holds, hc, hn, obsOf, leafStatus, leafBodyTok]

/-- the graph of the 2-cycle witness as the harness scripts it (stream kf.C18-a, case 0) -/
def nodes2 : List Node :=
  [{ path := b!"/a", redirect := true, status := 302, body := [], hasLoc := true, location := b!"/b", intended := 1, ruleIdx := -1 },
   { path := b!"/b", redirect := true, status := 302, body := [], hasLoc := true, location := b!"/a", intended := 0, ruleIdx := -1 }]

/-- **fails_witness** (C18-a): the oracle applied to what the model does on the 2-cycle, with
    the fuel the harness' watchdog corresponds to -/
theorem fails_witness_a : holds nodes2 0 (obsOf (follow cfg2 40 (clientGet b!"/a"))) = false := by
  rw [diverges_forall_fuel 40]
  exact holds_cycle_diverged nodes2 0 (by decide)

/-- the graph of the former separator witness (regression stream kf.C18-b, case 0): `/s/a → b`,
    `/s/b` answers 200 -/
def nodesB : List Node :=
  [{ path := b!"/s/a", redirect := true, status := 302, body := [], hasLoc := true, location := b!"b", intended := 1, ruleIdx := -1 },
   { path := b!"/s/b", redirect := false, status := 200, body := b!"target", hasLoc := false, location := [], intended := -1, ruleIdx := -1 }]

def cfgB : Cfg := cfgOf [rootRule]
  [(b!"/s/a", { status := 302, location := b!"b" }), (b!"/s/b", { status := 200, body := b!"target" })]

/-- the former witness of C18-b, repaired: the second contact goes to `/s/b` and the client gets
    the sink's response; both oracles accept the model's outcome -/
example :
    holds nodesB 0 (obsOf (follow cfgB 40 (clientGet b!"/s/a"))) = true ∧
    ((obsOf (follow cfgB 40 (clientGet b!"/s/a"))).contacts.map (·.uri)) = [b!"/s/a", b!"/s/b"] ∧
    (match (obsOf (follow cfgB 40 (clientGet b!"/s/a"))).contacts with
     | [c0, c1] => holdsHop cfgB.rules c0 { path := b!"b" } c1
     | _ => false) = true := by
  decide

/-- non-vacuity: on the acyclic chain `cfgChain` the oracle accepts the model's outcome -/
example : holds
    [{ path := b!"/a", redirect := true, status := 302, body := [], hasLoc := true, location := b!"/b", intended := 1, ruleIdx := -1 },
     { path := b!"/b", redirect := true, status := 307, body := [], hasLoc := true, location := b!"/c", intended := 2, ruleIdx := 0 },
     { path := b!"/c", redirect := false, status := 200, body := b!"sink", hasLoc := false, location := [], intended := -1, ruleIdx := -1 }]
    0 (obsOf (follow cfgChain 40 (clientGet b!"/a"))) = true := by decide

/-- the hop oracle accepts the model's hops on `cfgChain` (matched rule, then fallback) -/
example :
    let cs := (obsOf (follow cfgChain 40 (clientGet b!"/a"))).contacts
    (match cs with
     | [c0, c1, c2] => holdsHop cfgChain.rules c0 { path := b!"/b" } c1 && holdsHop cfgChain.rules c1 { path := b!"/c" } c2
     | _ => false) = true := by decide

end Props.C18
