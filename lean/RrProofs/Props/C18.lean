import RrModel.Redirect
import RrModel.Spec.C18
import RrProofs.Props.C01
import RrModel.Spec.Tables
/-
  C18 — restart_on_redirect follows redirects through the rules and always terminates
  (uncached path; the cached re-entry sites are a later slice).

  * `location_resolution` (full strength since the repair of finding C18-b)
  * `hop_semantics_match`, `hop_semantics_fallback`, `hop_semantics_nomatch_root`
  * `terminates` (FULL strength since the repair of findings C18-a / C18-c: every request is
    answered within `maxRedirects + 1` contacts, a chain that loops with 508), `follow_done`,
    `loop_ends_508`, `bound_508`, `chain_ends`
  * `final_response` (for every chain of at most `maxRedirects` re-entries, the chain taken with
    ANY bound), `long_chain_508` (a longer one: 508 after `maxRedirects + 1` contacts): what the
    handler does is the unbounded chain cut off after `maxRedirects` hops
  * `reaches_follow`, `final_response_followed`, `follow_done_reaches`, `ending_chain_acyclic`
  * `self_redirect_508`, `absolute_not_caught_on_first_request`
  * the former witnesses of C18-a (2-cycle, 3-cycle, https upgrade, late self-redirect) as
    `example`s of the 508 after `maxRedirects` hops
-/
namespace Props.C18
open Go Model Model.Redirect Spec.C18

/-! ## Location resolution -/

/-- what the resolution is compared on -/
def resolvedOf (u : RUrl) : Resolved := ⟨u.host, u.path, u.rawQuery⟩

/-- full statement: `util.RedirectedURL` resolves every Location as RFC 3986 says (for
    references without dot segments), against the host that answered and the request path -/
def ResolutionStatement : Prop :=
  ∀ (origUrl : RUrl) (origHost : Bytes) (requested redir : RUrl), requested.host ≠ [] →
    resolvedOf (redirectedURL origUrl origHost requested redir) = resolve requested.host origUrl.path redir

theorem index_slash_zero (p : Bytes) : index b!"/" p = some 0 ↔ ∃ t, p = 47 :: t := by
  cases p with
  | nil => simp [index]
  | cons c t =>
    by_cases hc : c = 47
    · subst hc; simp [index, List.isPrefixOf]
    · have : (List.isPrefixOf [47] (c :: t)) = false := by simp [List.isPrefixOf, Ne.symm hc]
      simp [index, this, hc]

/-- `strings.LastIndex(p, "/")` finds a slash exactly when there is one -/
theorem lastIndex_slash_none (t : Bytes) : lastIndex b!"/" t = none ↔ 47 ∉ t := by
  induction t with
  | nil => simp [lastIndex]
  | cons c t ih =>
    unfold lastIndex
    cases h : lastIndex b!"/" t with
    | some i =>
      have hm : 47 ∈ t := Classical.byContradiction fun hn => by rw [ih.2 hn] at h; cases h
      simp [hm]
    | none =>
      have hn := ih.1 h
      by_cases hc : c = 47
      · subst hc; simp [List.isPrefixOf]
      · have : (List.isPrefixOf [47] (c :: t)) = false := by simp [List.isPrefixOf, Ne.symm hc]
        simp [this, hn, Ne.symm hc]

theorem dirOf_no_slash (t : Bytes) (h : 47 ∉ t) : dirOf t = [] := by
  cases t with
  | nil => rfl
  | cons c t =>
    unfold dirOf
    have : ¬ (c :: t).contains 47 = true := by simpa using h
    rw [if_neg this]

/-- the prefix the repaired code cuts (`p[:LastIndex(p, "/")+1]`) is the specification's directory -/
theorem uptoLastSlash_dirOf (p : Bytes) : uptoLastSlash p = dirOf p := by
  induction p with
  | nil => rfl
  | cons c t ih =>
    unfold uptoLastSlash at ih ⊢
    unfold lastIndex dirOf
    cases h : lastIndex b!"/" t with
    | some i =>
      have hm : 47 ∈ t := Classical.byContradiction fun hn => by
        rw [(lastIndex_slash_none t).2 hn] at h; cases h
      have hc : (c :: t).contains 47 = true := by simp [hm]
      rw [h] at ih
      simp only at ih
      simp only [hc, ↓reduceIte, List.take_succ_cons, ih]
    | none =>
      have hn := (lastIndex_slash_none t).1 h
      by_cases hc : c = 47
      · subst hc
        simp [List.isPrefixOf, dirOf_no_slash t hn]
      · have hp : (List.isPrefixOf [47] (c :: t)) = false := by simp [List.isPrefixOf, Ne.symm hc]
        have hcn : ¬ (c :: t).contains 47 = true := by simp [hn, Ne.symm hc]
        simp only [hp, Bool.false_eq_true, ↓reduceIte, List.take_zero, hcn]

/-- the relative branch merges the reference onto the directory of the request path -/
theorem relativePath_merge (origPath redirPath : Bytes) :
    relativePath origPath redirPath = baseDir origPath ++ redirPath := by
  unfold relativePath baseDir
  cases origPath with
  | nil => simp
  | cons c t => simp [uptoLastSlash_dirOf]

/-- **location_resolution** (full strength since the repair of finding C18-b): absolute
    Locations are taken as they are, `/`-rooted ones are put on the host that answered, relative
    ones are merged onto the directory of the request path (RFC 3986 §5.2.3) -/
theorem location_resolution : ResolutionStatement := by
  intro origUrl origHost requested redir hh
  have hlen : requested.host.length > 0 := by
    cases h : requested.host with
    | nil => exact absurd h hh
    | cons _ _ => simp
  unfold redirectedURL resolve formOf
  by_cases hs : redir.scheme = []
  · have hs' : ¬ redir.scheme.length > 0 := by simp [hs]
    rw [if_neg hs']
    simp only [hs, ne_eq, not_true_eq_false, ↓reduceIte, hlen]
    by_cases hr : index b!"/" redir.path = some 0
    · obtain ⟨t, ht⟩ := (index_slash_zero _).1 hr
      rw [if_pos hr]
      simp [resolvedOf, ht]
    · rw [if_neg hr]
      have hnr : ∀ t, redir.path ≠ 47 :: t := fun t e => hr ((index_slash_zero _).2 ⟨t, e⟩)
      simp only [resolvedOf, relativePath_merge]
  · have hs' : redir.scheme.length > 0 := by
      cases h : redir.scheme with
      | nil => exact absurd h hs
      | cons _ _ => simp
    rw [if_pos hs']
    simp [hs, resolvedOf]

/-- non-vacuity: all three forms of a Location occur -/
example : formOf { scheme := b!"http", host := b!"d0.test", path := b!"/c" } = .absolute ∧
    formOf { path := b!"/c" } = .rooted ∧ formOf { path := b!"2", rawQuery := b!"c=d" } = .relative := by decide

/-- the inputs of the repaired finding C18-b: `/s/a` answers `Location: b` -/
def wOrig : RUrl := { path := b!"/s/a" }
def wRequested : RUrl := { scheme := b!"http", host := b!"d0.test", path := b!"/s/a" }
def wRedir : RUrl := { path := b!"b" }

/-- the former witness, repaired: `/s/a` + `b` is `/s/b` (the code used to build `/sb`) -/
example :
    (redirectedURL wOrig b!"h.test" wRequested wRedir).path = b!"/s/b" ∧
    (resolve wRequested.host wOrig.path wRedir).path = b!"/s/b" := by decide

/-- a trailing slash keeps the directory: `/s/` + `b` ⇒ `/s/b` (used to be `/b`); a path directly
    under the root, or none at all, merges onto the root as before -/
example :
    (redirectedURL { path := b!"/s/" } b!"h.test" wRequested wRedir).path = b!"/s/b" ∧
    (redirectedURL { path := b!"/a" } b!"h.test" wRequested wRedir).path = b!"/b" ∧
    (redirectedURL { path := [] } b!"h.test" wRequested wRedir).path = b!"/b" ∧
    (redirectedURL { path := b!"/x/y/z" } b!"h.test" wRequested { path := b!"w", rawQuery := b!"k=v" }).path = b!"/x/y/w" := by decide

/-! the four strings of `TestRedirectedURL` (util/http_test.go) -/

def render (u : RUrl) : Bytes := u.scheme ++ b!"://" ++ u.host ++ escapedPath u ++ querySuffix u

def unitTest (orig requested redir : Bytes) : Option Bytes :=
  match parseURL orig, parseURL requested, parseURL redir with
  | some o, some q, some r => some (render (redirectedURL o [] q r))
  | _, _, _ => none

example : unitTest b!"https://edge.example.com/" b!"https://inner.example.com/a" b!"https://example.com/1?a=b"
    = some b!"https://example.com/1?a=b" := by decide
example : unitTest b!"https://edge.example.com/" b!"https://inner.example.com/a" b!"/1?a=b"
    = some b!"https://inner.example.com/1?a=b" := by decide
example : unitTest b!"https://edge.example.com/" b!"https://inner.example.com" b!"1?b=c"
    = some b!"https://inner.example.com/1?b=c" := by decide
example : unitTest b!"https://edge.example.com/1?a=b" b!"https://inner.example.com/1?a=b" b!"2?c=d"
    = some b!"https://inner.example.com/2?c=d" := by decide


/-! ## One hop = one new client request through the rules -/

def contactOf : HopRes → Option Contact
  | .leaf _ c => c
  | .next _ c => some c

/-- whatever the answer, the performer was asked exactly the prepared request -/
theorem conclude_contact (cfg : Cfg) (hops : Nat) (p : Prepared) :
    ∃ c, contactOf (conclude cfg hops p) = some c ∧ c.url = p.contact.url ∧
      c.hostField = p.contact.hostField ∧ c.headers = p.contact.headers := by
  unfold conclude
  simp only
  split
  · exact ⟨_, rfl, rfl, rfl, rfl⟩
  · split
    · exact ⟨_, rfl, rfl, rfl, rfl⟩
    · exact ⟨_, rfl, rfl, rfl, rfl⟩
    · split
      · split
        · exact ⟨_, rfl, rfl, rfl, rfl⟩
        · split <;> exact ⟨_, rfl, rfl, rfl, rfl⟩
      · exact ⟨_, rfl, rfl, rfl, rfl⟩

/-- the rule `GetRoutingFlavors` reports is the first applicable proxy rule of C01 -/
theorem matchedRule_first (rules : List Rule) (q : Query) :
    matchedRule rules q = (Spec.C01.firstProxy rules q).bind (rules[·]?) := by
  unfold matchedRule
  rw [← Props.C01.match_proxy_first]
  cases (matchRules rules q).proxy with
  | none => rfl
  | some x => rfl

/-- **hop_semantics**, a rule matches the (resolved) request URL: that rule's request-header
    overrides are applied, its destination (with the request's query) is contacted under its
    Host policy.  `hxfp`: the overrides leave the scheme the rules are matched on alone
    (`X-Forwarded-Proto`); `rf` stays the parent's flavors on a re-entry (uncached rules). -/
theorem hop_semantics_match (cfg : Cfg) (lvl : Level) (q : Query) (i : Nat) (target : Bytes)
    (rule : Rule) (t : RUrl)
    (hq : query lvl.req = .ok q)
    (hxfp : query { lvl.req with headers := preprocess lvl.req.headers rule.requestHeaders } = .ok q)
    (hm : matchRules cfg.rules q = { proxy := some (i, target), copy := none })
    (hr : cfg.rules[i]? = some rule) (ht : parseURL target = some t)
    (hunc : rule.cacheId = []) (hfrf : ∀ p, lvl.frf = some p → p.cacheId = []) :
    Spec.C01.firstProxy cfg.rules q = some i ∧
    ∃ p, prepare cfg lvl = .ok p ∧ p.rule = rule ∧
      p.contact.url = { t with rawQuery := lvl.req.url.rawQuery, fragment := lvl.req.url.fragment } ∧
      p.contact.headers = preprocess lvl.req.headers rule.requestHeaders ∧
      p.contact.hostField = hostField rule p.r p.contact.url ∧
      p.rf = (if lvl.frf.isSome then lvl.frf else some rule) := by
  constructor
  · rw [← Props.C01.match_proxy_first, hm]; rfl
  · have hmatched : matchedRule cfg.rules q = some rule := by simp [matchedRule, hm, hr]
    have heff : effectiveRule (some rule) lvl.frf = (if lvl.frf.isSome then lvl.frf else some rule) := by
      simp [effectiveRule, hunc]
    have hcid : (((if lvl.frf.isSome then lvl.frf else some rule).map (·.cacheId)).getD []).length = 0 := by
      cases hf : lvl.frf with
      | none => simp [hunc]
      | some p => simp [hfrf p hf]
    unfold prepare
    simp only [hq, hmatched, Option.map_some, Option.getD_some, heff, hcid, ne_eq, not_true_eq_false,
      false_and, ↓reduceIte, hxfp, outgoing, hm, Option.isSome_none, Bool.false_eq_true, hr, ht]
    exact ⟨_, rfl, rfl, rfl, rfl, rfl, rfl⟩

/-- **hop_semantics**, no rule matches a re-entered request: the parent rule is used, the
    resolved URL ITSELF is the destination, the headers are those the parent request ended with -/
theorem hop_semantics_fallback (cfg : Cfg) (lvl : Level) (q : Query) (parent : Rule)
    (hq : query lvl.req = .ok q)
    (hm : matchRules cfg.rules q = { proxy := none, copy := none })
    (hfrf : lvl.frf = some parent) (hunc : parent.cacheId = []) :
    Spec.C01.firstProxy cfg.rules q = none ∧
    ∃ p, prepare cfg lvl = .ok p ∧ p.rule = parent ∧ p.rf = some parent ∧
      p.contact.url = lvl.req.url ∧ p.contact.headers = lvl.req.headers ∧
      p.contact.hostField = hostField parent lvl.req lvl.req.url := by
  constructor
  · rw [← Props.C01.match_proxy_first, hm]; rfl
  · have hmatched : matchedRule cfg.rules q = none := by simp [matchedRule, hm]
    have hreq : ({ lvl.req with headers := preprocess lvl.req.headers [] } : Req) = lvl.req := rfl
    unfold prepare
    simp only [hq, hmatched, Option.map_none, Option.getD_none, effectiveRule, hfrf, List.length_nil,
      Option.isSome_some, and_self, ↓reduceIte, Option.map_some, Option.getD_some, hunc, ne_eq,
      not_true_eq_false, false_and, hreq, outgoing, hm, Option.isSome_none, Bool.false_eq_true]
    exact ⟨_, rfl, rfl, rfl, rfl, rfl, rfl⟩

/-- the client's own request without a matching rule: 404, nothing is contacted -/
theorem hop_semantics_nomatch_root (cfg : Cfg) (lvl : Level) (q : Query)
    (hq : query lvl.req = .ok q)
    (hm : matchRules cfg.rules q = { proxy := none, copy := none }) (hfrf : lvl.frf = none) :
    hop cfg lvl = .leaf (.userError 404 b!"No destination found for request target") none := by
  have hmatched : matchedRule cfg.rules q = none := by simp [matchedRule, hm]
  have hreq : ({ lvl.req with headers := preprocess lvl.req.headers [] } : Req) = lvl.req := rfl
  unfold hop prepare
  simp only [hq, hmatched, Option.map_none, Option.getD_none, effectiveRule, hfrf, List.length_nil,
    Option.isSome_none, Bool.false_eq_true, and_false, ↓reduceIte, ne_eq, not_true_eq_false,
    false_and, hreq, outgoing, hm]
  rfl

/-- a re-entry happens exactly on a redirect with a parsable Location under a restarting rule
    that neither `urlEquals` nor the redirect counter stops (`hops` = the redirects followed so
    far for this client request); the new activation is `reenter`: the resolved Location (scheme
    forced to the contacted URL's) as request URL and Host, the request headers as overridden so
    far, the same `frf`, the counter one higher -/
theorem reentry_iff (cfg : Cfg) (hops : Nat) (p : Prepared) (lvl' : Level) (c : Contact) :
    conclude cfg hops p = .next lvl' c ↔
      ∃ resp redir, cfg.origin p.contact = some resp ∧ redirectOf cfg resp = some (some redir) ∧
        (p.rf.map (·.restartOnRedirect)).getD false = true ∧ urlEquals redir p.r.url = false ∧
        hops + 1 ≤ cfg.maxRedirects ∧
        lvl' = reenter p redir (hops + 1) ∧ c = p.contact := by
  cases ho : cfg.origin p.contact with
  | none =>
    have : conclude cfg hops p = .leaf (.userError 502 b!"Destination unreachable") (some { p.contact with failed := true }) := by
      unfold conclude; simp only [ho]
    rw [this]; simp
  | some resp =>
    cases hr : redirectOf cfg resp with
    | none =>
      have : conclude cfg hops p = .leaf .plainError (some p.contact) := by unfold conclude; simp only [ho, hr]
      rw [this]; simp [hr]
    | some o =>
      cases o with
      | none =>
        have : conclude cfg hops p = .leaf (.response resp p.rule) (some p.contact) := by unfold conclude; simp only [ho, hr]
        rw [this]; simp [hr]
      | some redir =>
        have hc : conclude cfg hops p =
            if (p.rf.map (·.restartOnRedirect)).getD false = true then
              if urlEquals redir p.r.url = true then .leaf (.userError 508 b!"Loop detected") (some p.contact)
              else if hops + 1 > cfg.maxRedirects then .leaf (.userError 508 b!"Loop detected") (some p.contact)
              else .next (reenter p redir (hops + 1)) p.contact
            else .leaf (.response resp p.rule) (some p.contact) := by unfold conclude; simp only [ho, hr]
        rw [hc]
        by_cases h1 : (p.rf.map (·.restartOnRedirect)).getD false = true
        · rw [if_pos h1]
          by_cases h2 : urlEquals redir p.r.url = true
          · rw [if_pos h2]; simp [hr, h2]
          · rw [if_neg h2]
            simp only [Bool.not_eq_true] at h2
            by_cases h3 : hops + 1 > cfg.maxRedirects
            · rw [if_pos h3]
              constructor
              · intro h; cases h
              · rintro ⟨_, _, _, _, _, _, h5, _, _⟩; omega
            · rw [if_neg h3]
              constructor
              · intro h
                injection h with h4 h5
                exact ⟨resp, redir, rfl, hr, h1, h2, by omega, h4.symm, h5.symm⟩
              · rintro ⟨resp', redir', hresp, hredir, _, _, _, rfl, rfl⟩
                injection hresp with hresp; subst hresp
                rw [hr] at hredir
                injection hredir with hredir; injection hredir with hredir; subst hredir
                rfl
        · rw [if_neg h1]; simp [h1]

/-! ## Termination -/

/-- a re-entry has counted one more redirect, and the count stays within the bound -/
theorem hop_next_hops (cfg : Cfg) (lvl lvl' : Level) (c : Contact) (h : hop cfg lvl = .next lvl' c) :
    lvl'.hops = lvl.hops + 1 ∧ lvl.hops + 1 ≤ cfg.maxRedirects := by
  unfold hop at h
  cases hp : prepare cfg lvl with
  | error e => rw [hp] at h; simp at h
  | ok p =>
    rw [hp] at h
    simp only at h
    obtain ⟨_, redir, _, _, _, _, hb, rfl, _⟩ := (reentry_iff cfg lvl.hops p lvl' c).1 h
    exact ⟨rfl, hb⟩

/-- the same rule set, origin and tables under another bound (`M'` large: "no bound") -/
def withBound (cfg : Cfg) (M' : Nat) : Cfg := { cfg with maxRedirects := M' }

theorem prepare_withBound (cfg : Cfg) (M' : Nat) (lvl : Level) : prepare (withBound cfg M') lvl = prepare cfg lvl := rfl

/-- an answer is handed to the client exactly when it is not a redirect, or the effective rule
    does not restart — whatever the bound -/
theorem response_iff (cfg : Cfg) (hops : Nat) (p : Prepared) (resp : Resp) (rule : Rule) (c : Option Contact) :
    conclude cfg hops p = .leaf (.response resp rule) c ↔
      cfg.origin p.contact = some resp ∧ rule = p.rule ∧ c = some p.contact ∧
        (redirectOf cfg resp = some none ∨
         ((∃ redir, redirectOf cfg resp = some (some redir)) ∧ (p.rf.map (·.restartOnRedirect)).getD false = false)) := by
  cases ho : cfg.origin p.contact with
  | none =>
    have : conclude cfg hops p = .leaf (.userError 502 b!"Destination unreachable") (some { p.contact with failed := true }) := by
      unfold conclude; simp only [ho]
    rw [this]; simp
  | some resp' =>
    cases hr : redirectOf cfg resp' with
    | none =>
      have : conclude cfg hops p = .leaf .plainError (some p.contact) := by unfold conclude; simp only [ho, hr]
      rw [this]
      constructor
      · intro h; cases h
      · rintro ⟨h1, _, _, h2⟩
        injection h1 with h1; subst h1
        rw [hr] at h2
        rcases h2 with h2 | ⟨⟨_, h2⟩, _⟩ <;> cases h2
    | some o =>
      cases o with
      | none =>
        have : conclude cfg hops p = .leaf (.response resp' p.rule) (some p.contact) := by unfold conclude; simp only [ho, hr]
        rw [this]
        constructor
        · intro h
          injection h with h1 h2
          injection h1 with h3 h4
          subst h3
          exact ⟨rfl, h4.symm, h2.symm, Or.inl hr⟩
        · rintro ⟨h1, rfl, rfl, _⟩
          injection h1 with h1; subst h1; rfl
      | some redir =>
        have hc : conclude cfg hops p =
            if (p.rf.map (·.restartOnRedirect)).getD false = true then
              if urlEquals redir p.r.url = true then .leaf (.userError 508 b!"Loop detected") (some p.contact)
              else if hops + 1 > cfg.maxRedirects then .leaf (.userError 508 b!"Loop detected") (some p.contact)
              else .next (reenter p redir (hops + 1)) p.contact
            else .leaf (.response resp' p.rule) (some p.contact) := by unfold conclude; simp only [ho, hr]
        rw [hc]
        by_cases h1 : (p.rf.map (·.restartOnRedirect)).getD false = true
        · rw [if_pos h1]
          constructor
          · intro h
            split at h
            · cases h
            · split at h <;> cases h
          · rintro ⟨h2, _, _, h3⟩
            injection h2 with h2; subst h2
            rw [hr] at h3
            rcases h3 with h3 | ⟨_, h3⟩
            · cases h3
            · rw [h1] at h3; cases h3
        · rw [if_neg h1]
          constructor
          · intro h
            injection h with h2 h3
            injection h2 with h4 h5
            subst h4
            exact ⟨rfl, h5.symm, h3.symm, Or.inr ⟨⟨redir, hr⟩, by simpa using h1⟩⟩
          · rintro ⟨h2, rfl, rfl, _⟩
            injection h2 with h2; subst h2; rfl

/-- a response leaf does not depend on the bound -/
theorem hop_response_any_bound (cfg : Cfg) (M' : Nat) (lvl : Level) (resp : Resp) (rule : Rule) (c : Option Contact)
    (h : hop (withBound cfg M') lvl = .leaf (.response resp rule) c) :
    hop cfg lvl = .leaf (.response resp rule) c := by
  unfold hop at h ⊢
  rw [prepare_withBound] at h
  cases hp : prepare cfg lvl with
  | error e => rw [hp] at h; exact h
  | ok p =>
    rw [hp] at h
    simp only at h ⊢
    exact (response_iff cfg lvl.hops p resp rule c).2 ((response_iff (withBound cfg M') lvl.hops p resp rule c).1 h)

/-- a re-entry made under some bound is made under every bound the counter has not reached -/
theorem hop_next_any_bound (cfg : Cfg) (M' : Nat) (lvl lvl' : Level) (c : Contact)
    (h : hop (withBound cfg M') lvl = .next lvl' c) (hb : lvl.hops + 1 ≤ cfg.maxRedirects) :
    hop cfg lvl = .next lvl' c := by
  unfold hop at h ⊢
  rw [prepare_withBound] at h
  cases hp : prepare cfg lvl with
  | error e => rw [hp] at h; simp at h
  | ok p =>
    rw [hp] at h
    simp only at h ⊢
    obtain ⟨resp, redir, ho, hre, hrs, hue, _, h5, h6⟩ := (reentry_iff (withBound cfg M') lvl.hops p lvl' c).1 h
    exact (reentry_iff cfg lvl.hops p lvl' c).2 ⟨resp, redir, ho, hre, hrs, hue, hb, h5, h6⟩

/-- the chain from `lvl` ends after exactly `d` re-entries in leaf `l`, having contacted `hops` -/
def Reaches (cfg : Cfg) : Nat → Level → Leaf → List Contact → Prop
  | 0, lvl, l, hops => ∃ c, hop cfg lvl = .leaf l c ∧ hops = c.toList
  | d + 1, lvl, l, hops =>
    ∃ lvl' c hops', hop cfg lvl = .next lvl' c ∧ Reaches cfg d lvl' l hops' ∧ hops = c :: hops'

/-- **reaches_follow** (was `terminates_partial`): a redirect chain that ends after `d`
    re-entries is served with any fuel above `d` — for every rule set, origin behaviour and
    request -/
theorem reaches_follow (cfg : Cfg) (d : Nat) (lvl : Level) (l : Leaf) (hops : List Contact)
    (h : Reaches cfg d lvl l hops) : ∀ fuel, d < fuel → follow cfg fuel lvl = .done l hops := by
  induction d generalizing lvl hops with
  | zero =>
    intro fuel hf
    obtain ⟨c, hc, rfl⟩ := h
    cases fuel with
    | zero => omega
    | succ n => simp [follow, hc]
  | succ d ih =>
    intro fuel hf
    obtain ⟨lvl', c, hops', hc, hr, rfl⟩ := h
    cases fuel with
    | zero => omega
    | succ n =>
      have := ih lvl' hops' hr n (by omega)
      simp [follow, hc, this, Outcome.prepend]

/-- conversely, whatever `follow` delivers is the end of a chain shorter than the fuel -/
theorem follow_done_reaches (cfg : Cfg) (fuel : Nat) (lvl : Level) (l : Leaf) (hops : List Contact)
    (h : follow cfg fuel lvl = .done l hops) : ∃ d, d < fuel ∧ Reaches cfg d lvl l hops := by
  induction fuel generalizing lvl hops with
  | zero => simp [follow] at h
  | succ n ih =>
    unfold follow at h
    cases hh : hop cfg lvl with
    | leaf l' c =>
      rw [hh] at h
      simp only at h
      injection h with h1 h2
      subst h1; subst h2
      exact ⟨0, by omega, c, hh, rfl⟩
    | next lvl' c =>
      rw [hh] at h
      simp only at h
      cases hf : follow cfg n lvl' with
      | diverged => rw [hf] at h; simp [Outcome.prepend] at h
      | done l' hops' =>
        rw [hf] at h
        simp only [Outcome.prepend] at h
        injection h with h1 h2
        subst h1; subst h2
        obtain ⟨d, hd, hr⟩ := ih lvl' hops' hf
        exact ⟨d + 1, by omega, lvl', c, hops', hh, hr, rfl⟩

/-- **follow_done**: an activation that finds the counter at `lvl.hops` is answered as soon as the
    fuel covers the redirects the counter still allows — `maxRedirects + 1 - lvl.hops`
    activations, one contact each at most.  For every rule set, origin behaviour and request. -/
theorem follow_done (cfg : Cfg) (fuel : Nat) (lvl : Level) (hf : 0 < fuel)
    (hb : cfg.maxRedirects + 1 ≤ fuel + lvl.hops) :
    ∃ l hops, follow cfg fuel lvl = .done l hops ∧
      (hops.length ≤ 1 ∨ hops.length + lvl.hops ≤ cfg.maxRedirects + 1) := by
  induction fuel generalizing lvl with
  | zero => omega
  | succ n ih =>
    cases hh : hop cfg lvl with
    | leaf l c =>
      refine ⟨l, c.toList, by simp [follow, hh], ?_⟩
      cases c <;> simp
    | next lvl' c =>
      obtain ⟨h1, h2⟩ := hop_next_hops cfg lvl lvl' c hh
      obtain ⟨l, hops, hfo, hlen⟩ := ih lvl' (by omega) (by omega)
      refine ⟨l, c :: hops, by simp [follow, hh, hfo, Outcome.prepend], ?_⟩
      right
      simp only [List.length_cons]
      omega

theorem prepErr_not_response (e : PrepErr) (r : Resp) (rule : Rule) : e.leaf ≠ .response r rule := by
  cases e <;> simp [PrepErr.leaf]

/-- a response leaf is the answer of the contact it names -/
theorem leaf_response_origin (cfg : Cfg) (lvl : Level) (resp : Resp) (rule : Rule) (c : Option Contact)
    (h : hop cfg lvl = .leaf (.response resp rule) c) :
    ∃ c', c = some c' ∧ cfg.origin c' = some resp := by
  unfold hop at h
  cases hp : prepare cfg lvl with
  | error e =>
    rw [hp] at h
    simp only at h
    injection h with h1 _
    exact absurd h1 (prepErr_not_response e resp rule)
  | ok p =>
    rw [hp] at h
    simp only at h
    unfold conclude at h
    simp only at h
    split at h
    · injection h with h1 _; cases h1
    · rename_i resp' ho
      split at h
      · injection h with h1 _; cases h1
      · injection h with h1 h2
        injection h1 with h3 _
        subst h3; subst h2
        exact ⟨_, rfl, ho⟩
      · split at h
        · split at h
          · injection h with h1 _; cases h1
          · split at h
            · injection h with h1 _; cases h1
            · cases h
        · injection h with h1 h2
          injection h1 with h3 _
          subst h3; subst h2
          exact ⟨_, rfl, ho⟩

theorem reaches_length (cfg : Cfg) (d : Nat) (lvl : Level) (resp : Resp) (rule : Rule) (hops : List Contact)
    (h : Reaches cfg d lvl (.response resp rule) hops) :
    hops.length = d + 1 ∧ ∃ c, hops.getLast? = some c ∧ cfg.origin c = some resp := by
  induction d generalizing lvl hops with
  | zero =>
    obtain ⟨c, hc, rfl⟩ := h
    obtain ⟨c', rfl, ho⟩ := leaf_response_origin cfg lvl resp rule c hc
    exact ⟨rfl, c', rfl, ho⟩
  | succ d ih =>
    obtain ⟨lvl', c, hops', _, hr, rfl⟩ := h
    obtain ⟨hl, c', hlast, ho⟩ := ih lvl' hops' hr
    refine ⟨by simp [hl], c', ?_, ho⟩
    cases hops' with
    | nil => simp at hl
    | cons x xs => simpa [List.getLast?_cons_cons] using hlast

/-- a chain the handler follows has at most `maxRedirects` re-entries: every one of them was
    counted -/
theorem reaches_depth_le (cfg : Cfg) (d : Nat) (lvl : Level) (l : Leaf) (hops : List Contact)
    (h : Reaches cfg d lvl l hops) : 0 < d → d + lvl.hops ≤ cfg.maxRedirects := by
  induction d generalizing lvl hops with
  | zero => intro h0; omega
  | succ d ih =>
    intro _
    obtain ⟨lvl', c, hops', hc, hr, _⟩ := h
    obtain ⟨h1, h2⟩ := hop_next_hops cfg lvl lvl' c hc
    cases d with
    | zero => omega
    | succ d => have := ih lvl' hops' hr (by omega); omega

/-- a chain that ends in a handed-on answer under SOME bound `M'` after `d` re-entries is the same
    chain under `cfg`'s own bound, provided the counter covers it -/
theorem reaches_any_bound (cfg : Cfg) (M' : Nat) (resp : Resp) (rule : Rule) (d : Nat) (lvl : Level) (hops : List Contact)
    (h : Reaches (withBound cfg M') d lvl (.response resp rule) hops)
    (hd : 0 < d → d + lvl.hops ≤ cfg.maxRedirects) :
    Reaches cfg d lvl (.response resp rule) hops := by
  induction d generalizing lvl hops with
  | zero =>
    obtain ⟨c, hc, rfl⟩ := h
    exact ⟨c, hop_response_any_bound cfg M' lvl resp rule c hc, rfl⟩
  | succ d ih =>
    obtain ⟨lvl', c, hops', hc, hr, rfl⟩ := h
    have hb := hd (by omega)
    have hh := (hop_next_hops (withBound cfg M') lvl lvl' c hc).1
    exact ⟨lvl', c, hops', hop_next_any_bound cfg M' lvl lvl' c hc (by omega), ih lvl' hops' hr (by intro _; omega), rfl⟩

/-- **final_response**: for every redirect chain of at most `maxRedirects` re-entries — the chain
    as the rules and the origin define it, followed with ANY bound `M'` (think of `M'` as "no
    bound") — that ends in a non-redirect (or passed-on) answer after `d` re-entries,
    `d + lvl.hops ≤ maxRedirects`: under the code's own bound fuel `d + 1` suffices, exactly
    `d + 1` destinations are contacted, and the client receives what the LAST of them answered.
    The counter does not disturb a chain it covers. -/
theorem final_response (cfg : Cfg) (M' d : Nat) (lvl : Level) (resp : Resp) (rule : Rule) (hops : List Contact)
    (h : Reaches (withBound cfg M') d lvl (.response resp rule) hops)
    (hd : 0 < d → d + lvl.hops ≤ cfg.maxRedirects) :
    follow cfg (d + 1) lvl = .done (.response resp rule) hops ∧ hops.length = d + 1 ∧
      ∃ c, hops.getLast? = some c ∧ cfg.origin c = some resp :=
  have h' := reaches_any_bound cfg M' resp rule d lvl hops h hd
  ⟨reaches_follow cfg d lvl _ hops h' (d + 1) (by omega), reaches_length cfg d lvl resp rule hops h'⟩

/-- the statement `final_response` had before the repair, verbatim, for the chains the handler
    follows to their end under its own bound (they have at most `maxRedirects` re-entries:
    `reaches_depth_le`) -/
theorem final_response_followed (cfg : Cfg) (d : Nat) (lvl : Level) (resp : Resp) (rule : Rule) (hops : List Contact)
    (h : Reaches cfg d lvl (.response resp rule) hops) :
    follow cfg (d + 1) lvl = .done (.response resp rule) hops ∧ hops.length = d + 1 ∧
      ∃ c, hops.getLast? = some c ∧ cfg.origin c = some resp :=
  final_response cfg cfg.maxRedirects d lvl resp rule hops h (reaches_depth_le cfg d lvl _ hops h)


/-- the depth of an ending chain is determined by its first activation -/
theorem reaches_depth_unique (cfg : Cfg) (d d' : Nat) (lvl : Level) (l l' : Leaf) (hops hops' : List Contact)
    (h : Reaches cfg d lvl l hops) (h' : Reaches cfg d' lvl l' hops') : d = d' := by
  induction d generalizing d' lvl hops hops' with
  | zero =>
    obtain ⟨c, hc, _⟩ := h
    cases d' with
    | zero => rfl
    | succ d' =>
      obtain ⟨_, _, _, hc', _, _⟩ := h'
      rw [hc] at hc'; cases hc'
  | succ d ih =>
    obtain ⟨lvl1, c, hops1, hc, hr, _⟩ := h
    cases d' with
    | zero =>
      obtain ⟨_, hc', _⟩ := h'
      rw [hc] at hc'; cases hc'
    | succ d' =>
      obtain ⟨lvl2, c2, hops2, hc', hr', _⟩ := h'
      rw [hc] at hc'
      injection hc' with h1 _
      subst h1
      rw [ih d' lvl1 hops1 hops2 hr hr']

/-! ## Loops -/

/-- what an activation does before it looks at the counter depends on its request and `frf` only -/
theorem prepare_congr (cfg : Cfg) (s s' : Level) (hr : s.req = s'.req) (hf : s.frf = s'.frf) :
    prepare cfg s = prepare cfg s' := by
  cases s; cases s'
  simp only at hr hf
  subst hr; subst hf
  rfl

/-- two activations with the same request and `frf` differ only in what the counter allows: when
    the first re-enters, the second re-enters with the same request and `frf`, or — its counter
    being exhausted — answers 508 after the same contact -/
theorem hop_sim (cfg : Cfg) (s s' t : Level) (c : Contact) (hr : s.req = s'.req) (hf : s.frf = s'.frf)
    (h : hop cfg s = .next t c) :
    (∃ t', hop cfg s' = .next t' c ∧ t.req = t'.req ∧ t.frf = t'.frf) ∨
    hop cfg s' = .leaf (.userError 508 b!"Loop detected") (some c) := by
  unfold hop at h ⊢
  rw [← prepare_congr cfg s s' hr hf]
  cases hp : prepare cfg s with
  | error e => rw [hp] at h; simp at h
  | ok p =>
    rw [hp] at h
    simp only at h ⊢
    obtain ⟨resp, redir, ho, hre, hrs, hue, _, rfl, rfl⟩ := (reentry_iff cfg s.hops p t c).1 h
    by_cases hb : s'.hops + 1 ≤ cfg.maxRedirects
    · left
      exact ⟨reenter p redir (s'.hops + 1),
        (reentry_iff cfg s'.hops p _ _).2 ⟨resp, redir, ho, hre, hrs, hue, hb, rfl, rfl⟩, rfl, rfl⟩
    · right
      have hb' : s'.hops + 1 > cfg.maxRedirects := by omega
      unfold conclude
      simp only [ho, hre, hrs, hue, hb', ↓reduceIte, Bool.false_eq_true]

theorem levelAt_snoc (cfg : Cfg) (k : Nat) (lvl s t : Level) (c : Contact)
    (h : levelAt cfg k lvl = some s) (hh : hop cfg s = .next t c) : levelAt cfg (k + 1) lvl = some t := by
  induction k generalizing lvl with
  | zero =>
    simp only [levelAt, Option.some.injEq] at h
    subst h
    simp [levelAt, hh]
  | succ k ih =>
    unfold levelAt at h
    cases h1 : hop cfg lvl with
    | leaf l c' => rw [h1] at h; simp at h
    | next lvl' c' =>
      rw [h1] at h
      simp only at h
      have := ih lvl' h
      rw [show k + 1 + 1 = (k + 1) + 1 by rfl]
      conv => lhs; unfold levelAt
      simp only [h1]
      exact this

theorem levelAt_split (cfg : Cfg) (i j : Nat) (lvl s s' : Level) (hi : levelAt cfg i lvl = some s)
    (hj : levelAt cfg j lvl = some s') (hij : i ≤ j) : levelAt cfg (j - i) s = some s' := by
  induction i generalizing lvl j with
  | zero =>
    simp only [levelAt, Option.some.injEq] at hi
    subst hi
    simpa using hj
  | succ i ih =>
    cases j with
    | zero => omega
    | succ j =>
      unfold levelAt at hi hj
      cases h1 : hop cfg lvl with
      | leaf l c' => rw [h1] at hi; simp at hi
      | next lvl' c' =>
        rw [h1] at hi hj
        simp only at hi hj
        rw [show j + 1 - (i + 1) = j - i by omega]
        exact ih j lvl' hi hj (by omega)

/-- once an activation has come back to its own request and `frf` (`s'`, `k > 0` re-entries after
    `s`), whatever `follow` answers from there is the counter's 508 -/
theorem loop_leaf (cfg : Cfg) : ∀ (fuel k : Nat) (s s' : Level), 0 < k → levelAt cfg k s = some s' →
    s.req = s'.req → s.frf = s'.frf → ∀ l hops, follow cfg fuel s' = .done l hops →
    l = .userError 508 b!"Loop detected" := by
  intro fuel
  induction fuel with
  | zero => intro k s s' _ _ _ _ l hops h; simp [follow] at h
  | succ n ih =>
    intro k s s' hk hl hr hf l hops h
    cases k with
    | zero => omega
    | succ k =>
      unfold levelAt at hl
      cases h1 : hop cfg s with
      | leaf l' c' => rw [h1] at hl; simp at hl
      | next t c =>
        rw [h1] at hl
        simp only at hl
        unfold follow at h
        rcases hop_sim cfg s s' t c hr hf h1 with ⟨t', h2, hr', hf'⟩ | h2
        · rw [h2] at h
          simp only at h
          cases hfo : follow cfg n t' with
          | diverged => rw [hfo] at h; simp [Outcome.prepend] at h
          | done l' hops' =>
            rw [hfo] at h
            simp only [Outcome.prepend] at h
            injection h with e1 _
            subst e1
            exact ih (k + 1) t t' (by omega) (levelAt_snoc cfg k t s' t' c hl h2) hr' hf' l' hops' hfo
        · rw [h2] at h
          simp only at h
          injection h with e1 _
          exact e1.symm

theorem follow_levelAt (cfg : Cfg) (j : Nat) (lvl s' : Level) (h : levelAt cfg j lvl = some s') :
    ∀ fuel l hops, follow cfg fuel lvl = .done l hops → ∃ hops', follow cfg (fuel - j) s' = .done l hops' := by
  induction j generalizing lvl with
  | zero =>
    intro fuel l hops hf
    simp only [levelAt, Option.some.injEq] at h
    subst h
    exact ⟨hops, by simpa using hf⟩
  | succ j ih =>
    intro fuel l hops hf
    unfold levelAt at h
    cases h1 : hop cfg lvl with
    | leaf l' c' => rw [h1] at h; simp at h
    | next t c =>
      rw [h1] at h
      simp only at h
      cases fuel with
      | zero => simp [follow] at hf
      | succ n =>
        unfold follow at hf
        rw [h1] at hf
        simp only at hf
        cases hfo : follow cfg n t with
        | diverged => rw [hfo] at hf; simp [Outcome.prepend] at hf
        | done l' hops' =>
          rw [hfo] at hf
          simp only [Outcome.prepend] at hf
          injection hf with e1 _
          subst e1
          obtain ⟨hops'', h3⟩ := ih t h n l' hops' hfo
          exact ⟨hops'', by rw [show n + 1 - (j + 1) = n - j by omega]; exact h3⟩

/-- the chain loops: an activation comes back to its own request (URL, Host, headers, method) and
    parent rule.  (The counter is not part of the comparison; the headers are: the origin sees
    them, and a URL that is asked for again with other headers may be answered differently.) -/
def Loops (cfg : Cfg) (lvl : Level) : Prop :=
  ∃ i j s s', i < j ∧ levelAt cfg i lvl = some s ∧ levelAt cfg j lvl = some s' ∧
    s.req = s'.req ∧ s.frf = s'.frf

/-- **loop_ends_508**: whatever a chain that loops is answered, it is 508 Loop detected -/
theorem loop_ends_508 (cfg : Cfg) (lvl : Level) (h : Loops cfg lvl) (fuel : Nat) (l : Leaf) (hops : List Contact)
    (hf : follow cfg fuel lvl = .done l hops) : l = .userError 508 b!"Loop detected" := by
  obtain ⟨i, j, s, s', hij, hi, hj, hr, hfr⟩ := h
  obtain ⟨hops', h1⟩ := follow_levelAt cfg j lvl s' hj fuel l hops hf
  exact loop_leaf cfg (fuel - j) (j - i) s s' (by omega) (levelAt_split cfg i j lvl s s' hi hj (by omega))
    hr hfr l hops' h1

/-- a chain that ends in anything but the counter's 508 is acyclic: no activation (request URL,
    Host, headers, method, parent rule) occurs twice on it -/
theorem ending_chain_acyclic (cfg : Cfg) (d : Nat) (lvl : Level) (l : Leaf) (hops : List Contact)
    (h : Reaches cfg d lvl l hops) (hl : l ≠ .userError 508 b!"Loop detected")
    (i j : Nat) (hij : i < j) (s s' : Level)
    (hi : levelAt cfg i lvl = some s) (hj : levelAt cfg j lvl = some s') :
    ¬ (s.req = s'.req ∧ s.frf = s'.frf) := by
  intro ⟨hr, hf⟩
  exact hl (loop_ends_508 cfg lvl ⟨i, j, s, s', hij, hi, hj, hr, hf⟩ (d + 1) l hops
    (reaches_follow cfg d lvl l hops h (d + 1) (by omega)))

/-! ## The termination statement -/

def isErrorResponse : Outcome → Bool
  | .done (.userError code _) _ => decide (code ≥ 400)
  | .done .plainError _ => true
  | _ => false

/-- C18, termination clause, at full strength: for every rule set, origin behaviour and client
    request, fuel `maxRedirects + 1` (or more) serves the request after at most
    `maxRedirects + 1` contacts, and a chain that loops ends in an error response -/
def Statement : Prop :=
  ∀ (cfg : Cfg) (lvl : Level) (fuel : Nat), lvl.hops = 0 → cfg.maxRedirects + 1 ≤ fuel →
    (∃ l hops, follow cfg fuel lvl = .done l hops ∧ hops.length ≤ cfg.maxRedirects + 1) ∧
    (Loops cfg lvl → isErrorResponse (follow cfg fuel lvl) = true)

/-- **terminates** (full strength since the repair of findings C18-a / C18-c; was
    `terminates_partial` + `Statement_false`) -/
theorem terminates : Statement := by
  intro cfg lvl fuel h0 hfuel
  obtain ⟨l, hops, hf, hlen⟩ := follow_done cfg fuel lvl (by omega) (by omega)
  refine ⟨⟨l, hops, hf, by omega⟩, fun hl => ?_⟩
  rw [hf, loop_ends_508 cfg lvl hl fuel l hops hf]
  rfl

/-- every chain ends (was `terminates_iff_chain_ends`: "some fuel serves the request iff its
    chain ends" — both sides now hold for every request) -/
theorem chain_ends (cfg : Cfg) (lvl : Level) : ∃ d l hops, Reaches cfg d lvl l hops := by
  obtain ⟨l, hops, hf, _⟩ := follow_done cfg (cfg.maxRedirects + 1) lvl (by omega) (by omega)
  obtain ⟨d, _, hr⟩ := follow_done_reaches cfg _ lvl l hops hf
  exact ⟨d, l, hops, hr⟩

theorem levelAt_hops (cfg : Cfg) (k : Nat) (lvl s : Level) (h : levelAt cfg k lvl = some s) :
    s.hops = lvl.hops + k := by
  induction k generalizing lvl with
  | zero =>
    simp only [levelAt, Option.some.injEq] at h
    subst h; rfl
  | succ k ih =>
    unfold levelAt at h
    cases h1 : hop cfg lvl with
    | leaf l c' => rw [h1] at h; simp at h
    | next lvl' c' =>
      rw [h1] at h
      simp only at h
      have := ih lvl' h
      have := (hop_next_hops cfg lvl lvl' c' h1).1
      omega

theorem levelAt_reaches (cfg : Cfg) (k : Nat) (lvl s : Level) (l : Leaf) (c : Option Contact)
    (h : levelAt cfg k lvl = some s) (hl : hop cfg s = .leaf l c) :
    ∃ hops, Reaches cfg k lvl l hops ∧ hops.length = k + c.toList.length := by
  induction k generalizing lvl with
  | zero =>
    simp only [levelAt, Option.some.injEq] at h
    subst h
    exact ⟨c.toList, ⟨c, hl, rfl⟩, by simp⟩
  | succ k ih =>
    unfold levelAt at h
    cases h1 : hop cfg lvl with
    | leaf l' c' => rw [h1] at h; simp at h
    | next lvl' c' =>
      rw [h1] at h
      simp only at h
      obtain ⟨hops', hr, hlen⟩ := ih lvl' h
      exact ⟨c' :: hops', ⟨lvl', c', hops', h1, hr, rfl⟩, by simp only [List.length_cons]; omega⟩

/-- **bound_508**: a chain that is still redirecting after `maxRedirects` re-entries — the
    activation reached then is again answered with a redirect to follow — is answered 508 Loop
    detected after exactly `maxRedirects + 1` contacts, whether or not anything repeats on it -/
theorem bound_508 (cfg : Cfg) (lvl s : Level) (p : Prepared) (resp : Resp) (redir : RUrl)
    (h0 : lvl.hops = 0) (hs : levelAt cfg cfg.maxRedirects lvl = some s)
    (hp : prepare cfg s = .ok p) (ho : cfg.origin p.contact = some resp)
    (hr : redirectOf cfg resp = some (some redir))
    (hrestart : (p.rf.map (·.restartOnRedirect)).getD false = true)
    (fuel : Nat) (hfuel : cfg.maxRedirects + 1 ≤ fuel) :
    ∃ hops, follow cfg fuel lvl = .done (.userError 508 b!"Loop detected") hops ∧
      hops.length = cfg.maxRedirects + 1 := by
  have hh : s.hops + 1 > cfg.maxRedirects := by
    have := levelAt_hops cfg _ lvl s hs
    omega
  have hleaf : hop cfg s = .leaf (.userError 508 b!"Loop detected") (some p.contact) := by
    unfold hop; rw [hp]; simp only
    unfold conclude
    simp only [ho, hr, hrestart, hh, ↓reduceIte]
    split <;> rfl
  obtain ⟨hops, hre, hlen⟩ := levelAt_reaches cfg _ lvl s _ _ hs hleaf
  exact ⟨hops, reaches_follow cfg _ lvl _ hops hre fuel (by omega), by simpa using hlen⟩

theorem levelAt_any_bound (cfg : Cfg) (M' : Nat) (k : Nat) (lvl s : Level)
    (h : levelAt (withBound cfg M') k lvl = some s) (hk : 0 < k → k + lvl.hops ≤ cfg.maxRedirects) :
    levelAt cfg k lvl = some s := by
  induction k generalizing lvl with
  | zero => simpa [levelAt] using h
  | succ k ih =>
    unfold levelAt at h ⊢
    cases h1 : hop (withBound cfg M') lvl with
    | leaf l c => rw [h1] at h; simp at h
    | next lvl' c =>
      rw [h1] at h
      simp only at h
      have hb := hk (by omega)
      have hh := (hop_next_hops (withBound cfg M') lvl lvl' c h1).1
      rw [hop_next_any_bound cfg M' lvl lvl' c h1 (by omega)]
      simp only
      exact ih lvl' h (by intro _; omega)

/-- **long_chain_508**: a chain that — followed with ANY bound `M'` — has more than `maxRedirects`
    re-entries (a loop of whatever length, or just a long chain) is answered 508 Loop detected
    after exactly `maxRedirects + 1` contacts under the code's own bound.  Together with
    `final_response`: what the handler does is the unbounded chain cut off after `maxRedirects`
    hops. -/
theorem long_chain_508 (cfg : Cfg) (M' : Nat) (lvl s' : Level) (h0 : lvl.hops = 0)
    (h : levelAt (withBound cfg M') (cfg.maxRedirects + 1) lvl = some s')
    (fuel : Nat) (hfuel : cfg.maxRedirects + 1 ≤ fuel) :
    ∃ hops, follow cfg fuel lvl = .done (.userError 508 b!"Loop detected") hops ∧
      hops.length = cfg.maxRedirects + 1 := by
  -- the activation reached after maxRedirects re-entries, and its re-entry under M'
  obtain ⟨s, hs, c, hc⟩ : ∃ s, levelAt (withBound cfg M') cfg.maxRedirects lvl = some s ∧
      ∃ c, hop (withBound cfg M') s = .next s' c := by
    have : ∀ (k : Nat) (lvl : Level), levelAt (withBound cfg M') (k + 1) lvl = some s' →
        ∃ s, levelAt (withBound cfg M') k lvl = some s ∧ ∃ c, hop (withBound cfg M') s = .next s' c := by
      intro k
      induction k with
      | zero =>
        intro lvl h
        unfold levelAt at h
        cases h1 : hop (withBound cfg M') lvl with
        | leaf l c => rw [h1] at h; simp at h
        | next lvl' c =>
          rw [h1] at h
          simp only [levelAt, Option.some.injEq] at h
          subst h
          exact ⟨lvl, rfl, c, h1⟩
      | succ k ih =>
        intro lvl h
        unfold levelAt at h
        cases h1 : hop (withBound cfg M') lvl with
        | leaf l c => rw [h1] at h; simp at h
        | next lvl' c =>
          rw [h1] at h
          simp only at h
          obtain ⟨s, hs, c', hc'⟩ := ih lvl' h
          refine ⟨s, ?_, c', hc'⟩
          unfold levelAt
          simp only [h1]
          exact hs
    exact this _ lvl h
  have hs' := levelAt_any_bound cfg M' cfg.maxRedirects lvl s hs (by intro _; omega)
  unfold hop at hc
  rw [prepare_withBound] at hc
  cases hp : prepare cfg s with
  | error e => rw [hp] at hc; simp at hc
  | ok p =>
    rw [hp] at hc
    simp only at hc
    obtain ⟨resp, redir, ho, hre, hrs, _, _, _, _⟩ := (reentry_iff (withBound cfg M') s.hops p s' c).1 hc
    exact bound_508 cfg lvl s p resp redir h0 hs' hp ho hre hrs fuel hfuel

/-! ## What the loop check catches -/

/-- **self_redirect_508** (general form): when the Location equals the request's own URL as
    the handler sees it, the answer is 508 after this one contact -/
theorem self_redirect_508 (cfg : Cfg) (lvl : Level) (p : Prepared) (resp : Resp) (redir : RUrl)
    (hp : prepare cfg lvl = .ok p) (ho : cfg.origin p.contact = some resp)
    (hr : redirectOf cfg resp = some (some redir))
    (hrestart : (p.rf.map (·.restartOnRedirect)).getD false = true)
    (heq : urlEquals redir p.r.url = true) (n : Nat) :
    follow cfg (n + 1) lvl = .done (.userError 508 b!"Loop detected") [p.contact] := by
  have : hop cfg lvl = .leaf (.userError 508 b!"Loop detected") (some p.contact) := by
    unfold hop; rw [hp]; simp only
    unfold conclude; simp only [ho, hr, hrestart, heq, ↓reduceIte]
  simp [follow, this]

/-- the client's own request URL is in origin form (no scheme): an absolute Location never
    equals it, so an absolute self-redirect is not caught by `urlEquals` on the first request
    (the counter ends it) -/
theorem absolute_not_caught_on_first_request (redir reqUrl : RUrl)
    (hreq : reqUrl.scheme = []) (habs : redir.scheme ≠ []) : urlEquals redir reqUrl = false := by
  unfold urlEquals
  have : (redir.scheme == reqUrl.scheme) = false := by
    rw [hreq]; simpa using habs
  simp [this]

/-- a re-entered request URL is absolute (it carries the contacted URL's scheme): a Location
    without scheme never equals it, so a relative or rooted self-redirect is not caught by
    `urlEquals` from the second activation on (the counter ends it) -/
theorem relative_not_caught_after_reentry (redir reqUrl : RUrl)
    (hreq : reqUrl.scheme ≠ []) (hrel : redir.scheme = []) : urlEquals redir reqUrl = false := by
  unfold urlEquals
  have : (redir.scheme == reqUrl.scheme) = false := by
    rw [hrel]; simpa using fun h => hreq h

  simp [this]

/-! ## Concrete configurations (former witnesses, regression examples, non-vacuity) -/

/-- the catch-all rule of the edge host, restart_on_redirect on -/
def rootRule : Rule :=
  { host := b!"h.test", path := b!"/*", wci := some 1, dest := b!"http://d0.test/$1", restartOnRedirect := true }

/-- a second rule: its own destination host and a request-header override -/
def ruleB : Rule :=
  { path := b!"/b", dest := b!"http://e1.test/b", requestHeaders := [(b!"x-hop", some b!"r1")], restartOnRedirect := true }

/-- an origin keyed by request path (any host answers); unknown paths are a 404 -/
def originOf (tbl : List (Bytes × Resp)) (c : Contact) : Option Resp :=
  match tbl.lookup c.url.path with
  | some r => some r
  | none => some { status := 404, body := b!"unknown" }

def cfgOf (rules : List Rule) (tbl : List (Bytes × Resp)) : Cfg :=
  { rules := rules, origin := originOf tbl, isRedirect := fun s => Spec.redirectStatuses.contains s,
    maxRedirects := Spec.maxRedirects }

def clientGet (path : Bytes) : Level :=
  { req := { url := { path := path }, host := b!"h.test", headers := [], method := b!"GET" } }

example : clientLevel b!"/a" b!"h.test" [] b!"GET" = some (clientGet b!"/a") := by rfl

/-- a re-entered request for `http://<host><path>` with the catch-all rule as parent, the counter
    at `hops` -/
def reentered (host path : Bytes) (headers : Header := []) (hops : Nat := 1) : Level :=
  { req := { url := { scheme := b!"http", host := host, path := path }, host := host, headers := headers, method := b!"GET" },
    frf := some rootRule, hops := hops }

def contactAt (host path : Bytes) (headers : Header := []) : Contact :=
  { url := { scheme := b!"http", host := host, path := path }, hostField := host, headers := headers }

def loopDetected : Leaf := .userError 508 b!"Loop detected"

/-- status and contacted paths of an outcome (what the examples below compare) -/
def summary : Outcome → Option (Nat × List Bytes)
  | .done l hops => some (leafStatus l, hops.map (·.url.path))
  | .diverged => none

/-- the 2-cycle `/a → /b → /a` (rooted Locations): the first former witness of C18-a -/
def cfg2 : Cfg := cfgOf [rootRule]
  [(b!"/a", { status := 302, location := b!"/b" }), (b!"/b", { status := 302, location := b!"/a" })]

theorem cfg2_first : hop cfg2 (clientGet b!"/a") = .next (reentered b!"d0.test" b!"/b") (contactAt b!"d0.test" b!"/a") := by rfl

/-- the witness loops in the sense of the statement: the activation for `/b` comes back to its
    own request after two re-entries -/
theorem cfg2_loops : Loops cfg2 (clientGet b!"/a") :=
  ⟨1, 3, reentered b!"d0.test" b!"/b", reentered b!"d0.test" b!"/b" [] 3, by omega, by rfl, by rfl, rfl, rfl⟩

/-- the 2-cycle, repaired: 508 Loop detected after `maxRedirects + 1` = 11 contacts (the handler
    used to recurse for ever: `diverges_forall_fuel`), for EVERY fuel from 11 on -/
theorem two_cycle_508 (fuel : Nat) (hf : 11 ≤ fuel) :
    ∃ hops, follow cfg2 fuel (clientGet b!"/a") = .done loopDetected hops ∧ hops.length ≤ 11 := by
  obtain ⟨⟨l, hops, h1, h2⟩, _⟩ := terminates cfg2 (clientGet b!"/a") fuel rfl hf
  exact ⟨hops, by rw [h1, loop_ends_508 cfg2 _ cfg2_loops fuel l hops h1]; rfl, h2⟩

/-- the same by evaluation, with the fuel the driver uses: ten hops are followed, the eleventh
    answer is not -/
example : summary (follow cfg2 40 (clientGet b!"/a")) =
    some (508, [b!"/a", b!"/b", b!"/a", b!"/b", b!"/a", b!"/b", b!"/a", b!"/b", b!"/a", b!"/b", b!"/a"]) := by decide

/-- fuel 11 suffices, fuel 10 does not (the fuel is a device of the model: the code's own bound is
    the counter) -/
example : summary (follow cfg2 11 (clientGet b!"/a")) = summary (follow cfg2 40 (clientGet b!"/a")) ∧
    summary (follow cfg2 10 (clientGet b!"/a")) = none := by decide

/-- a 3-cycle with mixed Location forms (second former witness) -/
def cfg3 : Cfg := cfgOf [rootRule]
  [(b!"/a", { status := 301, location := b!"b" }), (b!"/b", { status := 307, location := b!"http://d0.test/c" }),
   (b!"/c", { status := 308, location := b!"/a" })]

example : summary (follow cfg3 40 (clientGet b!"/a")) =
    some (508, [b!"/a", b!"/b", b!"/c", b!"/a", b!"/b", b!"/c", b!"/a", b!"/b", b!"/c", b!"/a", b!"/b"]) := by decide

/-- an absolute self-redirect (https upgrade answered by a plain-http destination; third former
    witness): the scheme of the resolved URL is forced back to the destination's, the Location
    never equals it for `urlEquals` — the counter ends it -/
def cfgUp : Cfg := cfgOf [rootRule] [(b!"/a", { status := 301, location := b!"https://d0.test/a" })]

example : summary (follow cfgUp 40 (clientGet b!"/a")) = some (508, List.replicate 11 b!"/a") := by decide

/-- a relative self-redirect in the rooted form on the client's own request IS caught by
    `urlEquals`, after one contact -/
def cfgSelf : Cfg := cfgOf [rootRule] [(b!"/x", { status := 302, location := b!"/x" })]

theorem self_redirect_508_witness (n : Nat) :
    follow cfgSelf (n + 1) (clientGet b!"/x") = .done (.userError 508 b!"Loop detected") [contactAt b!"d0.test" b!"/x"] := by
  have hp : prepare cfgSelf (clientGet b!"/x") = .ok
      { r := (clientGet b!"/x").req, rf := some rootRule, rule := rootRule, contact := contactAt b!"d0.test" b!"/x" } := by rfl
  exact self_redirect_508 cfgSelf _ _ { status := 302, location := b!"/x" } { path := b!"/x" } hp rfl rfl rfl rfl n

/-- …the same self-redirect reached through one earlier hop is not (the re-entered request URL is
    absolute, the Location is not): it used to recurse for ever, now the counter ends it -/
def cfgSelf2 : Cfg := cfgOf [rootRule]
  [(b!"/w", { status := 302, location := b!"/x" }), (b!"/x", { status := 302, location := b!"/x" })]

example : summary (follow cfgSelf2 40 (clientGet b!"/w")) = some (508, b!"/w" :: List.replicate 10 b!"/x") := by decide

/-- an absolute self-redirect with the destination's own scheme is caught by `urlEquals` — one hop late -/
def cfgAbs : Cfg := cfgOf [rootRule] [(b!"/x", { status := 302, location := b!"http://d0.test/x" })]

example : follow cfgAbs 2 (clientGet b!"/x") =
    .done (.userError 508 b!"Loop detected") [contactAt b!"d0.test" b!"/x", contactAt b!"d0.test" b!"/x"] := by rfl

/-- an acyclic chain through a second rule and a fallback hop: `/a → /b → /c`, `/b` has its own
    rule (destination e1.test, override `x-hop: r1`), `/c` has none -/
def cfgChain : Cfg := cfgOf [ruleB, rootRule]
  [(b!"/a", { status := 302, location := b!"/b" }), (b!"/b", { status := 307, location := b!"/c" }),
   (b!"/c", { status := 200, body := b!"sink" })]

def hopHdr : Header := [(b!"X-Hop", [b!"r1"])]

def chainHops : List Contact :=
  [contactAt b!"d0.test" b!"/a",
   -- the matched rule's destination and override
   { url := { scheme := b!"http", host := b!"e1.test", path := b!"/b" }, hostField := b!"e1.test", headers := hopHdr },
   -- no rule: the resolved URL itself (on the host that answered), the override carried along
   contactAt b!"e1.test" b!"/c" hopHdr]

theorem chain_reaches :
    Reaches cfgChain 2 (clientGet b!"/a") (.response { status := 200, body := b!"sink" } rootRule) chainHops :=
  ⟨_, _, _, (by rfl : hop cfgChain (clientGet b!"/a") = .next (reentered b!"d0.test" b!"/b") _), ⟨_, _, _,
    (by rfl : hop cfgChain (reentered b!"d0.test" b!"/b") = .next (reentered b!"e1.test" b!"/c" hopHdr 2) _),
    ⟨_, by rfl, rfl⟩, rfl⟩, rfl⟩

/-- non-vacuity of `reaches_follow` / `final_response`: depth 2, three contacts, the sink's body -/
example : follow cfgChain 3 (clientGet b!"/a") = .done (.response { status := 200, body := b!"sink" } rootRule) chainHops :=
  (final_response_followed cfgChain 2 _ _ _ _ chain_reaches).1

/-- a chain of exactly `maxRedirects` = 10 re-entries is still followed to its end (eleven
    contacts, the sink's answer); one hop more and the answer is 508 -/
def nodeName (i : Nat) : Bytes := b!"/n" ++ (Nat.toDigits 10 i).map Char.toNat

def longTbl (n : Nat) : List (Bytes × Resp) :=
  (List.range n).map (fun i => (nodeName i, ({ status := 302, location := nodeName (i + 1) } : Resp))) ++
  [(nodeName n, { status := 200, body := b!"sink" })]

example : summary (follow (cfgOf [rootRule] (longTbl 10)) 40 (clientGet b!"/n0")) =
    some (200, [b!"/n0", b!"/n1", b!"/n2", b!"/n3", b!"/n4", b!"/n5", b!"/n6", b!"/n7", b!"/n8", b!"/n9", b!"/n10"]) := by decide

example : summary (follow (cfgOf [rootRule] (longTbl 11)) 40 (clientGet b!"/n0")) =
    some (508, [b!"/n0", b!"/n1", b!"/n2", b!"/n3", b!"/n4", b!"/n5", b!"/n6", b!"/n7", b!"/n8", b!"/n9", b!"/n10"]) := by decide

/-- non-vacuity of `final_response`: the chain of ten re-entries, followed "without bound"
    (`M'` = 1000), is served identically under the code's own bound -/
example : summary (follow (withBound (cfgOf [rootRule] (longTbl 10)) 1000) 40 (clientGet b!"/n0")) =
    summary (follow (cfgOf [rootRule] (longTbl 10)) 40 (clientGet b!"/n0")) := by decide

/-- non-vacuity of `long_chain_508`: followed with bound 1000 the 2-cycle has more than ten
    re-entries -/
example : ∃ hops, follow cfg2 40 (clientGet b!"/a") = .done loopDetected hops ∧ hops.length = 11 :=
  long_chain_508 cfg2 1000 (clientGet b!"/a") (reentered b!"d0.test" b!"/b" [] 11) rfl (by rfl) 40 (by decide)

/-- non-vacuity of `hop_semantics_match`: the re-entered request for `/b` matches `ruleB` -/
example : ∃ p, prepare cfgChain (reentered b!"d0.test" b!"/b") = .ok p ∧ p.rule = ruleB ∧
    p.contact.url.host = b!"e1.test" ∧ p.contact.headers = hopHdr ∧ p.rf = some rootRule := by
  obtain ⟨_, p, hp, h1, h2, h3, _, h5⟩ := hop_semantics_match cfgChain (reentered b!"d0.test" b!"/b")
    { scheme := b!"http", host := b!"d0.test", uri := b!"/b", method := b!"GET" } 0 b!"http://e1.test/b" ruleB
    { scheme := b!"http", host := b!"e1.test", path := b!"/b" } (by rfl) (by rfl) (by rfl) (by rfl) (by rfl) (by rfl)
    (by intro p hp; injection hp with hp; subst hp; rfl)
  exact ⟨p, hp, h1, by rw [h2], by rw [h3]; rfl, by rw [h5]; rfl⟩

/-- non-vacuity of `hop_semantics_fallback`: `/c` on e1.test matches nothing -/
example : ∃ p, prepare cfgChain (reentered b!"e1.test" b!"/c" hopHdr) = .ok p ∧ p.rule = rootRule ∧
    p.contact.url = { scheme := b!"http", host := b!"e1.test", path := b!"/c" } := by
  obtain ⟨_, p, hp, h1, _, h3, _, _⟩ := hop_semantics_fallback cfgChain (reentered b!"e1.test" b!"/c" hopHdr)
    { scheme := b!"http", host := b!"e1.test", uri := b!"/c", method := b!"GET" } rootRule (by rfl) (by rfl) rfl rfl
  exact ⟨p, hp, h1, h3⟩

/-- non-vacuity of `ending_chain_acyclic` -/
example : ¬ ((reentered b!"d0.test" b!"/b").req = (reentered b!"e1.test" b!"/c" hopHdr 2).req ∧
    (reentered b!"d0.test" b!"/b").frf = (reentered b!"e1.test" b!"/c" hopHdr 2).frf) :=
  ending_chain_acyclic cfgChain 2 _ _ _ chain_reaches (by intro h; cases h) 1 2 (by omega) _ _ (by rfl) (by rfl)

/-- non-vacuity of `bound_508`: on the 2-cycle the activation reached after ten re-entries is
    again answered with a redirect -/
example : ∃ hops, follow cfg2 11 (clientGet b!"/a") = .done loopDetected hops ∧ hops.length = 11 :=
  bound_508 cfg2 (clientGet b!"/a") (reentered b!"d0.test" b!"/a" [] 10)
    { r := (reentered b!"d0.test" b!"/a" [] 10).req, rf := some rootRule, rule := rootRule, contact := contactAt b!"d0.test" b!"/a" }
    { status := 302, location := b!"/b" } { path := b!"/b" } rfl (by rfl) (by rfl) rfl rfl rfl 11 (by decide)

/-! ## The oracle `Spec.C18.holds` on the model's outcomes -/

/-- the oracle rejects every diverging run on a looping graph… -/
theorem holds_cycle_diverged (nodes : List Node) (start : Nat)
    (hc : chainEnd nodes nodes.length start = .cycle) : holds nodes start (obsOf .diverged) = false := by
  simp [holds, hc, obsOf]

/-- …and accepts an ending run on an acyclic graph iff the client got the sink's status and body -/
theorem holds_sink_response (nodes : List Node) (start i : Nat) (n : Node) (resp : Resp) (rule : Rule)
    (hops : List Contact) (hc : chainEnd nodes nodes.length start = .sink i) (hn : nodes[i]? = some n) :
    holds nodes start (obsOf (.done (.response resp rule) hops)) = (resp.status == n.status && toHex resp.body == toHex n.body) := by
  simp [holds, hc, hn, obsOf, leafStatus, leafBodyTok]

/-- the oracle's bound on the contacts of a looping chain leaves room for the code's bound -/
theorem bound_within_oracle : Spec.maxRedirects + 1 ≤ maxLoopContacts := by decide

/-- **holds_cycle_loops**: on a looping graph the oracle ACCEPTS what the model does with every
    request whose chain loops — for every rule set and origin behaviour with the pinned bound: the
    run ends by itself, with an error status, within the oracle's number of contacts -/
theorem holds_cycle_loops (nodes : List Node) (start : Nat) (cfg : Cfg) (lvl : Level) (fuel : Nat)
    (hc : chainEnd nodes nodes.length start = .cycle) (hm : cfg.maxRedirects = Spec.maxRedirects)
    (h0 : lvl.hops = 0) (hfuel : cfg.maxRedirects + 1 ≤ fuel) (hl : Loops cfg lvl) :
    holds nodes start (obsOf (follow cfg fuel lvl)) = true := by
  obtain ⟨⟨l, hops, hf, hlen⟩, _⟩ := terminates cfg lvl fuel h0 hfuel
  have h508 := loop_ends_508 cfg lvl hl fuel l hops hf
  have hb := bound_within_oracle
  rw [hf, h508]
  simp only [holds, hc, obsOf, leafStatus, List.length_map]
  have : hops.length ≤ maxLoopContacts := by omega
  simp [this]

/-- the graph of the 2-cycle witness as the harness scripts it (regression stream kf.C18-a, case 0) -/
def nodes2 : List Node :=
  [{ path := b!"/a", redirect := true, status := 302, body := [], hasLoc := true, location := b!"/b", intended := 1, ruleIdx := -1 },
   { path := b!"/b", redirect := true, status := 302, body := [], hasLoc := true, location := b!"/a", intended := 0, ruleIdx := -1 }]

/-- the former `fails_witness_a`, repaired: the oracle accepts what the model does on the 2-cycle
    (508 after 11 contacts, within the oracle's 12), with the fuel the driver uses -/
example : holds nodes2 0 (obsOf (follow cfg2 40 (clientGet b!"/a"))) = true :=
  holds_cycle_loops nodes2 0 cfg2 _ 40 (by decide) rfl rfl (by decide) cfg2_loops

/-- the graph of the former separator witness (regression stream kf.C18-b, case 0): `/s/a → b`,
    `/s/b` answers 200 -/
def nodesB : List Node :=
  [{ path := b!"/s/a", redirect := true, status := 302, body := [], hasLoc := true, location := b!"b", intended := 1, ruleIdx := -1 },
   { path := b!"/s/b", redirect := false, status := 200, body := b!"target", hasLoc := false, location := [], intended := -1, ruleIdx := -1 }]

def cfgB : Cfg := cfgOf [rootRule]
  [(b!"/s/a", { status := 302, location := b!"b" }), (b!"/s/b", { status := 200, body := b!"target" })]

/-- the former witness of C18-b, repaired: the second contact goes to `/s/b` and the client gets
    the sink's response; both oracles accept the model's outcome -/
example :
    holds nodesB 0 (obsOf (follow cfgB 40 (clientGet b!"/s/a"))) = true ∧
    ((obsOf (follow cfgB 40 (clientGet b!"/s/a"))).contacts.map (·.uri)) = [b!"/s/a", b!"/s/b"] ∧
    (match (obsOf (follow cfgB 40 (clientGet b!"/s/a"))).contacts with
     | [c0, c1] => holdsHop cfgB.rules c0 { path := b!"b" } c1
     | _ => false) = true := by
  decide

/-- non-vacuity: on the acyclic chain `cfgChain` the oracle accepts the model's outcome -/
example : holds
    [{ path := b!"/a", redirect := true, status := 302, body := [], hasLoc := true, location := b!"/b", intended := 1, ruleIdx := -1 },
     { path := b!"/b", redirect := true, status := 307, body := [], hasLoc := true, location := b!"/c", intended := 2, ruleIdx := 0 },
     { path := b!"/c", redirect := false, status := 200, body := b!"sink", hasLoc := false, location := [], intended := -1, ruleIdx := -1 }]
    0 (obsOf (follow cfgChain 40 (clientGet b!"/a"))) = true := by decide

/-- the hop oracle accepts the model's hops on `cfgChain` (matched rule, then fallback) -/
example :
    let cs := (obsOf (follow cfgChain 40 (clientGet b!"/a"))).contacts
    (match cs with
     | [c0, c1, c2] => holdsHop cfgChain.rules c0 { path := b!"/b" } c1 && holdsHop cfgChain.rules c1 { path := b!"/c" } c2
     | _ => false) = true := by decide

end Props.C18
