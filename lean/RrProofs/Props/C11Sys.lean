import RrModel.KeySys
import RrModel.Spec.C11
/-
  C11 at system level, on the reference keyed cache `Model.KeySys` (sequential requests and
  overlapped pairs, coalescing hand-over of the key, Vary: Origin re-keying):

    every response the model serves carries the echo of the receiver's OWN request (it was
    fetched for it), or the echo of a request of the history that SHARES AN ENTRY NAME with the
    receiver — some key of the one and some key of the other have the same `FsName` — in the same
    cache storage.

  This is the system half of C11: the machinery around the keys (lookup order, which key a writer
  locks, what a woken waiter continues with, ChangeKey) adds no sharing beyond equality of entry
  names.  The other half is function level (`Props.C11.key_determines_resource_partial`): outside
  the classes C11-a/b/c equal names stand for equal resources.
-/
namespace Props.C11Sys
open Go Model Model.KeySys

/-- some own key of `x` has entry name `n` -/
def OwnName (x : Ctx) (n : Bytes) : Prop := ∃ k ∈ x.keys, nameOf k = n

/-- where an entry comes from: a request of the history, routed, whose echo the entry carries,
    stored in that request's storage under the name of one of that request's own keys -/
def Prov (rules : List Rule) (hist : List CReq) (c n : Bytes) (e : Entry) : Prop :=
  ∃ y ∈ hist, ∃ cy, route rules y = some cy ∧ cy.tag = e.tag ∧ cy.cache = c ∧ OwnName cy n

def Inv (rules : List Rule) (hist : List CReq) (s : St) : Prop :=
  ∀ c n e, ((c, n), e) ∈ s.disk → Prov rules hist c n e

/-- `t` is the echo of a request of the history that shares an entry name with `x` -/
def Shared (rules : List Rule) (hist : List CReq) (x : Ctx) (t : Tag) : Prop :=
  ∃ y ∈ hist, ∃ cy, route rules y = some cy ∧ cy.tag = t ∧ cy.cache = x.cache ∧
    ∃ kx ∈ x.keys, ∃ ky ∈ cy.keys, nameOf kx = nameOf ky

/-- what a response may carry -/
def Served (rules : List Rule) (hist : List CReq) (r : CReq) (resp : Resp) : Prop :=
  ∀ t, resp.tag = some t → ∃ x, route rules r = some x ∧ (t = x.tag ∨ Shared rules hist x t)

/-- **C11, system level, on the model** -/
def Statement : Prop :=
  ∀ (rules : List Rule) (steps : List Step),
    ∀ o ∈ (run rules steps).outs, ∀ p ∈ o.served, Served rules (requestsOf steps) p.1 p.2

/-! ### storage -/

theorem find_mem {s : St} {c n : Bytes} {e : Entry} (h : s.find c n = some e) :
    ((c, n), e) ∈ s.disk := by
  unfold St.find at h
  cases hf : s.disk.find? (fun e => e.1 == (c, n)) with
  | none => simp [hf] at h
  | some m =>
    simp only [hf, Option.map_some, Option.some.injEq] at h
    have hm := List.mem_of_find?_eq_some hf
    have hp := List.find?_some hf
    have h1 : m.1 = (c, n) := by simpa using hp
    have : m = ((c, n), e) := by
      cases m with
      | mk a b => simp only at h1 h; rw [h1, h]
    rw [← this]; exact hm

theorem put_mem {s : St} {c n : Bytes} {e : Entry} {m : (Bytes × Bytes) × Entry}
    (h : m ∈ (s.put c n e).disk) : m = ((c, n), e) ∨ m ∈ s.disk := by
  unfold St.put at h
  simp only [List.mem_cons, List.mem_filter] at h
  rcases h with h | ⟨h, _⟩
  · exact Or.inl h
  · exact Or.inr h

theorem lookup_some {s : St} {c : Bytes} {keys : List Key} {k : Key} {e : Entry}
    (h : lookup s c keys = some (k, e)) : k ∈ keys ∧ ((c, nameOf k), e) ∈ s.disk := by
  induction keys with
  | nil => simp [lookup] at h
  | cons k0 ks ih =>
    unfold lookup at h
    cases hf : s.find c (nameOf k0) with
    | some e0 =>
      simp only [hf, Option.some.injEq, Prod.mk.injEq] at h
      obtain ⟨h1, h2⟩ := h
      subst h1; subst h2
      exact ⟨List.mem_cons_self, find_mem hf⟩
    | none =>
      simp only [hf] at h
      obtain ⟨h1, h2⟩ := ih h
      exact ⟨List.mem_cons_of_mem _ h1, h2⟩

theorem preferred_mem {keys : List Key} {k : Key} (h : notFoundPreferredKey keys = .ok k) : k ∈ keys := by
  unfold notFoundPreferredKey at h
  cases hf : keys.find? (·.opaqueOrigin) with
  | some k' =>
    simp only [hf, Res.ok.injEq] at h
    subst h
    exact List.mem_of_find?_eq_some hf
  | none =>
    simp only [hf] at h
    cases keys with
    | nil => simp at h
    | cons k0 t =>
      simp only [Res.ok.injEq] at h
      subst h
      exact List.mem_cons_self

theorem foldl_changeKey_key (l : List Key) (w : Writer) :
    (l.foldl changeKey w).key = w.key ∨ (l.foldl changeKey w).key ∈ l := by
  induction l generalizing w with
  | nil => exact Or.inl rfl
  | cons k t ih =>
    simp only [List.foldl_cons]
    rcases ih (changeKey w k) with h | h
    · right; rw [h]; simp [changeKey]
    · right; exact List.mem_cons_of_mem _ h

/-! ### responses -/

theorem marker_tag (w : String) : (marker w).tag = none := rfl

theorem unrouted_tag (r : CReq) : (unroutedResp r).tag = none := rfl

theorem hitResp_tag {s : St} {x : Ctx} {e : Entry} {t : Tag} (h : (hitResp s x e).tag = some t) :
    e.tag = t := by
  unfold hitResp at h
  split at h
  · simpa using h
  · simp [marker] at h

/-! ### the writer branch -/

/-- what `fill` does, as far as provenance goes -/
structure FillSpec (s : St) (x : Ctx) (f : FillOut) : Prop where
  tag : ∀ t, f.resp.tag = some t → t = x.tag
  disk : ∀ m ∈ f.st.disk, m ∈ s.disk ∨ ∃ n, OwnName x n ∧ m.1 = (x.cache, n) ∧ m.2.tag = x.tag

theorem rekeyWriter_key (x : Ctx) (inHand : Key) (v : Bool) (h : OwnName x (nameOf inHand)) :
    OwnName x (nameOf (rekeyWriter x inHand v).key) := by
  unfold rekeyWriter
  split
  · rcases foldl_changeKey_key (x.keys.filter (·.hasFullOrigin)) { key := inHand } with hk | hk
    · rw [hk]; exact h
    · exact ⟨_, (List.mem_filter.mp hk).1, rfl⟩
  · exact h

theorem fill_spec (s : St) (x : Ctx) (inHand : Key) (h : OwnName x (nameOf inHand)) :
    FillSpec s x (fill s x inHand) := by
  unfold fill
  simp only []
  split
  · exact ⟨fun t ht => by simpa using ht.symm, fun m hm => Or.inl hm⟩
  · split
    · exact ⟨fun t ht => by simpa using ht.symm, fun m hm => Or.inl hm⟩
    · split
      · exact ⟨fun t ht => by simpa using ht.symm, fun m hm => Or.inl hm⟩
      · refine ⟨fun t ht => by simpa using ht.symm, fun m hm => ?_⟩
        rcases put_mem hm with hm | hm
        · right
          exact ⟨_, rekeyWriter_key x inHand _ h, by rw [hm], by rw [hm]⟩
        · exact Or.inl hm

/-! ### one request -/

theorem start_done {s : St} {x : Ctx} {locks : List Bytes} {r : Resp} {t : Tag}
    (h : start s x locks = .done r) (ht : r.tag = some t) :
    ∃ k ∈ x.keys, ∃ e, ((x.cache, nameOf k), e) ∈ s.disk ∧ e.tag = t := by
  unfold start at h
  split at h
  · simp only [Start.done.injEq] at h
    rw [← h] at ht; simp [marker] at ht
  · split at h
    · rename_i k e hl
      simp only [Start.done.injEq] at h
      rw [← h] at ht
      obtain ⟨h1, h2⟩ := lookup_some hl
      exact ⟨k, h1, e, h2, hitResp_tag ht⟩
    · split at h
      · simp only [Start.done.injEq] at h
        rw [← h] at ht; simp [marker] at ht
      · split at h <;> simp at h

theorem start_writer {s : St} {x : Ctx} {locks : List Bytes} {k : Key}
    (h : start s x locks = .writer k) : k ∈ x.keys := by
  unfold start at h
  split at h
  · simp at h
  · split at h
    · simp at h
    · split at h
      · simp at h
      · rename_i k' hp
        split at h
        · simp at h
        · simp only [Start.writer.injEq] at h
          subst h
          exact preferred_mem hp

theorem start_waiter {s : St} {x : Ctx} {locks : List Bytes} {n : Bytes}
    (h : start s x locks = .waiter n) : OwnName x n := by
  unfold start at h
  split at h
  · simp at h
  · split at h
    · simp at h
    · split at h
      · simp at h
      · rename_i k' hp
        split at h
        · simp only [Start.waiter.injEq] at h
          exact ⟨k', preferred_mem hp, h⟩
        · simp at h

theorem Inv.mono {rules : List Rule} {hist hist' : List CReq} {s : St}
    (hi : Inv rules hist s) (hs : ∀ y ∈ hist, y ∈ hist') : Inv rules hist' s := by
  intro c n e hm
  obtain ⟨y, hy, cy, h1, h2, h3, h4⟩ := hi c n e hm
  exact ⟨y, hs y hy, cy, h1, h2, h3, h4⟩

theorem Served.mono {rules : List Rule} {hist hist' : List CReq} {r : CReq} {resp : Resp}
    (h : Served rules hist r resp) (hs : ∀ y ∈ hist, y ∈ hist') : Served rules hist' r resp := by
  intro t ht
  obtain ⟨x, hx, h⟩ := h t ht
  refine ⟨x, hx, ?_⟩
  rcases h with h | ⟨y, hy, rest⟩
  · exact Or.inl h
  · exact Or.inr ⟨y, hs y hy, rest⟩

theorem served_of_none {rules : List Rule} {hist : List CReq} {r : CReq} {resp : Resp}
    (h : resp.tag = none) : Served rules hist r resp := by
  intro t ht; rw [h] at ht; simp at ht

/-- a response served from the disk of a state that satisfies the invariant -/
theorem served_of_entry {rules : List Rule} {hist : List CReq} {s : St} {r : CReq} {x : Ctx} {resp : Resp}
    (hi : Inv rules hist s) (hx : route rules r = some x)
    (h : ∀ t, resp.tag = some t → ∃ k ∈ x.keys, ∃ e, ((x.cache, nameOf k), e) ∈ s.disk ∧ e.tag = t) :
    Served rules hist r resp := by
  intro t ht
  obtain ⟨k, hk, e, hm, he⟩ := h t ht
  obtain ⟨y, hy, cy, h1, h2, h3, ky, hky, hn⟩ := hi _ _ _ hm
  exact ⟨x, hx, Or.inr ⟨y, hy, cy, h1, by rw [h2, he], h3, k, hk, ky, hky, hn.symm⟩⟩

/-- the invariant after a fill by a request of the history -/
theorem inv_of_fill {rules : List Rule} {hist : List CReq} {s : St} {r : CReq} {x : Ctx} {f : FillOut}
    (hi : Inv rules hist s) (hr : r ∈ hist) (hx : route rules r = some x) (hf : FillSpec s x f) :
    Inv rules hist f.st := by
  intro c n e hm
  rcases hf.disk _ hm with h | ⟨n', hn', h1, h2⟩
  · exact hi c n e h
  · simp only [Prod.mk.injEq] at h1
    obtain ⟨hc, hn⟩ := h1
    subst hc; subst hn
    exact ⟨r, hr, x, hx, h2.symm, rfl, hn'⟩

theorem served_of_fill {rules : List Rule} {hist : List CReq} {s : St} {r : CReq} {x : Ctx} {f : FillOut}
    (hx : route rules r = some x) (hf : FillSpec s x f) : Served rules hist r f.resp :=
  fun t ht => ⟨x, hx, Or.inl (hf.tag t ht)⟩

theorem single_spec {rules : List Rule} {hist : List CReq} {s : St} {r : CReq}
    (hi : Inv rules hist s) (hr : r ∈ hist) :
    Inv rules hist (single s r (route rules r)).st ∧ Served rules hist r (single s r (route rules r)).resp := by
  unfold single
  cases hx : route rules r with
  | none => exact ⟨hi, served_of_none (unrouted_tag r)⟩
  | some x =>
    simp only []
    cases hs : start s x [] with
    | done resp => exact ⟨hi, served_of_entry hi hx fun t ht => start_done hs ht⟩
    | writer k =>
      have hf := fill_spec s x k ⟨k, start_writer hs, rfl⟩
      exact ⟨inv_of_fill hi hr hx hf, served_of_fill hx hf⟩
    | waiter n => exact ⟨hi, served_of_none (marker_tag _)⟩

theorem resume_spec {rules : List Rule} {hist : List CReq} {s : St} {r : CReq} {x : Ctx} {d : Key}
    (hi : Inv rules hist s) (hr : r ∈ hist) (hx : route rules r = some x) (hd : OwnName x (nameOf d)) :
    Inv rules hist (resume s x d).st ∧ Served rules hist r (resume s x d).resp := by
  unfold resume
  cases hl : lookup s x.cache [d] with
  | some ke =>
    obtain ⟨k, e⟩ := ke
    simp only []
    refine ⟨hi, served_of_entry hi hx fun t ht => ?_⟩
    obtain ⟨h1, h2⟩ := lookup_some hl
    have hk : k = d := by simpa using h1
    subst hk
    obtain ⟨k', hk', hn⟩ := hd
    exact ⟨k', hk', e, by rw [hn]; exact h2, hitResp_tag ht⟩
  | none =>
    simp only []
    have hf := fill_spec s x d hd
    exact ⟨inv_of_fill hi hr hx hf, served_of_fill hx hf⟩

theorem pair_spec {rules : List Rule} {hist : List CReq} {s : St} {r1 r2 : CReq}
    (hi : Inv rules hist s) (h1 : r1 ∈ hist) (h2 : r2 ∈ hist) :
    let p := pair s r1 (route rules r1) r2 (route rules r2)
    Inv rules hist p.st ∧ Served rules hist r1 p.r1 ∧ Served rules hist r2 p.r2 := by
  simp only []
  unfold pair
  cases hx1 : route rules r1 with
  | none =>
    simp only []
    have hs := single_spec (rules := rules) hi h2
    exact ⟨hs.1, served_of_none (unrouted_tag r1), hs.2⟩
  | some c1 =>
    simp only []
    cases hs1 : start s c1 [] with
    | done resp1 =>
      simp only []
      have hs := single_spec (rules := rules) hi h2
      exact ⟨hs.1, served_of_entry hi hx1 fun t ht => start_done hs1 ht, hs.2⟩
    | waiter n => exact ⟨hi, served_of_none (marker_tag _), served_of_none (marker_tag _)⟩
    | writer k1 =>
      simp only []
      have hk1 : OwnName c1 (nameOf k1) := ⟨k1, start_writer hs1, rfl⟩
      cases hx2 : route rules r2 with
      | none =>
        simp only []
        have hf := fill_spec s c1 k1 hk1
        exact ⟨inv_of_fill hi h1 hx1 hf, served_of_fill hx1 hf, served_of_none (unrouted_tag r2)⟩
      | some c2 =>
        simp only []
        cases hs2 : start s c2 [nameOf k1] with
        | done resp2 =>
          simp only []
          have hf := fill_spec s c1 k1 hk1
          exact ⟨inv_of_fill hi h1 hx1 hf, served_of_fill hx1 hf,
                 served_of_entry hi hx2 fun t ht => start_done hs2 ht⟩
        | writer k2 =>
          simp only []
          have hf2 := fill_spec s c2 k2 ⟨k2, start_writer hs2, rfl⟩
          have hi2 := inv_of_fill hi h2 hx2 hf2
          have hf1 := fill_spec (fill s c2 k2).st c1 k1 hk1
          exact ⟨inv_of_fill hi2 h1 hx1 hf1, served_of_fill hx1 hf1, served_of_fill hx2 hf2⟩
        | waiter n =>
          simp only []
          have hf1 := fill_spec s c1 k1 hk1
          have hi1 := inv_of_fill hi h1 hx1 hf1
          cases hfd : (fill s c1 k1).notes.find? (fun k => nameOf k == n) with
          | none => exact ⟨hi1, served_of_fill hx1 hf1, served_of_none (marker_tag _)⟩
          | some d =>
            simp only []
            have hn : nameOf d = n := by simpa using List.find?_some hfd
            have hd : OwnName c2 (nameOf d) := by rw [hn]; exact start_waiter hs2
            have hr := resume_spec hi1 h2 hx2 hd
            exact ⟨hr.1, served_of_fill hx1 hf1, hr.2⟩

/-! ### histories -/

/-- all responses so far are accounted for by the history so far -/
def AllServed (rules : List Rule) (hist : List CReq) (outs : List Out) : Prop :=
  ∀ o ∈ outs, ∀ p ∈ o.served, Served rules hist p.1 p.2

theorem AllServed.mono {rules : List Rule} {hist hist' : List CReq} {outs : List Out}
    (h : AllServed rules hist outs) (hs : ∀ y ∈ hist, y ∈ hist') : AllServed rules hist' outs :=
  fun o ho p hp => (h o ho p hp).mono hs

theorem step_spec {rules : List Rule} {hist : List CReq} {acc : RunOut} (st : Step)
    (hi : Inv rules hist acc.st) (ha : AllServed rules hist acc.outs) :
    Inv rules (hist ++ st.requests) (step rules acc st).st ∧
    AllServed rules (hist ++ st.requests) (step rules acc st).outs := by
  have hsub : ∀ y ∈ hist, y ∈ hist ++ st.requests := fun y hy => List.mem_append_left _ hy
  cases st with
  | tick dt => exact ⟨by simpa [step, Step.requests, Inv] using hi, by simpa [step, Step.requests] using ha⟩
  | one r =>
    have hr : r ∈ hist ++ (Step.one r).requests := by simp [Step.requests]
    have hs := single_spec (rules := rules) (hi.mono hsub) hr
    refine ⟨hs.1, ?_⟩
    intro o ho p hp
    simp only [step, List.mem_append, List.mem_singleton] at ho
    rcases ho with ho | ho
    · exact (ha o ho p hp).mono hsub
    · subst ho
      simp only [Out.served, List.mem_singleton] at hp
      subst hp
      exact hs.2
  | two r1 r2 =>
    have hr1 : r1 ∈ hist ++ (Step.two r1 r2).requests := by simp [Step.requests]
    have hr2 : r2 ∈ hist ++ (Step.two r1 r2).requests := by simp [Step.requests]
    have hs := pair_spec (rules := rules) (hi.mono hsub) hr1 hr2
    simp only [] at hs
    refine ⟨hs.1, ?_⟩
    intro o ho p hp
    simp only [step, List.mem_append, List.mem_singleton] at ho
    rcases ho with ho | ho
    · exact (ha o ho p hp).mono hsub
    · subst ho
      simp only [Out.served, List.mem_cons, List.not_mem_nil, or_false] at hp
      rcases hp with hp | hp
      · subst hp; exact hs.2.1
      · subst hp; exact hs.2.2

theorem foldl_spec {rules : List Rule} (steps : List Step) {hist : List CReq} {acc : RunOut}
    (hi : Inv rules hist acc.st) (ha : AllServed rules hist acc.outs) :
    AllServed rules (hist ++ requestsOf steps) (steps.foldl (step rules) acc).outs := by
  induction steps generalizing hist acc with
  | nil => simpa [requestsOf] using ha
  | cons st t ih =>
    have hs := step_spec st hi ha
    have := ih hs.1 hs.2
    simpa [requestsOf, List.append_assoc] using this

/-- **C11 at system level holds on the model**: whatever the history — hits, fills, overlapped
    requests coalesced behind another request's fetch, re-keyed entries — a response carries the
    receiver's own echo or the echo of a request of the history that shares an entry name with
    the receiver in the same storage. -/
theorem holds_model : Statement := by
  intro rules steps o ho p hp
  have h := foldl_spec (rules := rules) steps (hist := []) (acc := {})
    (by intro c n e hm; simp at hm) (by intro o ho; simp at ho)
  rw [List.nil_append] at h
  exact h o ho p hp

/-! ### Bridge to the function level

  The keys of a routed request of this model are exactly the keys the function-level slice
  reasons about (`Spec.C11.modelKeys` of the request with its routing decision), so the shared
  entry name of `holds_model` is a shared name in the sense of `Props.C11`: there
  (`key_determines_resource_partial`) equal names stand for equal resources outside the classes
  C11-a, C11-b, C11-c (names as SHA-1 pre-images, SHA-1 assumed collision-free). -/

/-- a routed request of the system model as the function-level slice sees it -/
def routedOf (r : CReq) (x : Ctx) : Spec.C11.Routed :=
  { req := r.toReq, rule := x.rule, rScheme := b!"http", rHost := r.host, rUri := r.target }

theorem route_keys {rules : List Rule} {r : CReq} {x : Ctx} (h : route rules r = some x) :
    x.req = r ∧ x.keys = Spec.C11.modelKeys (routedOf r x) ∧ x.cache = (routedOf r x).rule.cacheId := by
  unfold route at h
  split at h
  · simp at h
  · split at h
    · simp at h
    · split at h
      · simp at h
      · simp only [Option.some.injEq] at h
        subst h
        exact ⟨rfl, rfl, rfl⟩

/-! ### Non-vacuity: the two-site history of seeded change C11-m2 -/

def ruleA : Rule := { path := b!"/a/*", wci := some 3, dest := b!"http://d0.test/$1", cacheId := b!"c1" }
def siteA : CReq := { method := b!"GET", host := b!"h", target := b!"/a/vo", lines := [(b!"Origin", b!"https://a.example")] }
def siteB : CReq := { method := b!"GET", host := b!"h", target := b!"/a/vo", lines := [(b!"Origin", b!"https://b.example")] }

/-- the overlapped pair parks site B behind site A, both fetch, both entries are re-keyed; the
    later request of site A is a hit that carries site A's echo -/
example :
    (run [ruleA] [.two siteA siteB, .one siteA]).outs.map (fun o => o.served.map fun p =>
      (p.2.cacheStatus, p.2.tag.map (·.origin))) =
    [[(b!"miss", some [b!"https://a.example"]), (b!"miss", some [b!"https://b.example"])],
     [(b!"hit", some [b!"https://a.example"])]] := by decide +kernel

end Props.C11Sys
