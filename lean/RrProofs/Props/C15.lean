import RrModel.Spec.C15
import RrProofs.Lemmas.RangeParse
import RrProofs.Lemmas.Strings
/-
  C15 — Range requests on cached resources return exactly the requested bytes.
  Only property theorems, their non-vacuity examples, and the lemmas local to them.
-/
namespace Props.C15
open Go Go.RangeParse Model.Range Spec.C15

/-! ### int64 arithmetic -/

theorem wrap64_id {x : Int} (h1 : -9223372036854775808 ≤ x) (h2 : x ≤ 9223372036854775807) :
    wrap64 x = x := by
  unfold wrap64; omega

/-! ### the code's parser against the RFC reading -/

/-- what the code's parser must have produced for a value the RFC reading classifies as a range -/
def Agrees (r : ReqRange) : RangeSpec → Prop
  | .fromTo a b => r = ⟨some (a : Int), some (b : Int)⟩ ∧ (b : Int) ≤ maxInt64 ∧ a ≤ b
  | .from_ a => r = ⟨some (a : Int), none⟩ ∧ (a : Int) ≤ maxInt64
  | .suffix k => r = ⟨none, some (-(k : Int))⟩ ∧ minInt64 ≤ -(k : Int)
  | .absent => True
  | .invalid => True

theorem decimal_some {s : Bytes} {v : Nat} (h : decimal s = some v) : s ≠ [] ∧ digitsVal s 0 = some v := by
  unfold decimal at h
  cases s with
  | nil => simp at h
  | cons c t => simp at h; exact ⟨by simp, h⟩

theorem optInt_digits {s : Bytes} {v : Nat} (h : decimal s = some v) :
    optInt s = if (v : Int) > maxInt64 then none else some (some (v : Int)) := by
  obtain ⟨hne, hd⟩ := decimal_some h
  unfold optInt
  have : s.length ≠ 0 := by
    intro e; exact hne (List.length_eq_zero_iff.1 e)
  rw [if_neg this, parseInt_digits s v hne hd]
  by_cases hv : (v : Int) > maxInt64 <;> simp [hv]

theorem head_digit_of_decimal {s : Bytes} {v : Nat} (h : decimal s = some v) :
    ∃ c t, s = c :: t ∧ isDigit c = true := by
  obtain ⟨hne, hd⟩ := decimal_some h
  cases s with
  | nil => exact absurd rfl hne
  | cons c t => exact ⟨c, t, rfl, digitsVal_all_digits _ _ _ hd c (by simp)⟩

theorem index_dash_head (c : Nat) (t : Bytes) : (index b!"-" (c :: t) = some 0) ↔ c = 45 := by
  rw [index_eq_some_zero_iff]
  simp [List.isPrefixOf]
  exact eq_comm

/-- `parseBounds` on a text the RFC reading accepts: the two parsers agree, or the code gives up
    (values beyond int64) -/
theorem parseBounds_agrees (rest : Bytes) (r : ReqRange) (h : parseBounds rest = some r) :
    Agrees r (parseSet rest) := by
  unfold parseSet
  split
  · rename_i A B hs
    obtain ⟨hrest, hA, hB⟩ := split1_eq_two 45 rest A B hs
    by_cases hAe : A.isEmpty = true
    · -- suffix form
      rw [if_pos hAe]
      have hA0 : A = [] := List.isEmpty_iff.1 hAe
      subst hA0
      cases hk : decimal B with
      | none => simp [Agrees]
      | some k =>
        simp only
        obtain ⟨hne, hd⟩ := decimal_some hk
        simp only [List.nil_append] at hrest
        subst hrest
        unfold parseBounds rangeTexts at h
        rw [if_pos ((index_dash_head 45 B).2 rfl)] at h
        have ho : optInt (45 :: B) = if -(k : Int) < minInt64 then none else some (some (-(k : Int))) := by
          unfold optInt
          rw [if_neg (by simp), parseInt_neg_digits B k hne hd]
          by_cases hv : -(k : Int) < minInt64 <;> simp [hv]
        have hn : optInt [] = some none := by simp [optInt]
        simp only [hn, ho] at h
        by_cases hv : -(k : Int) < minInt64
        · simp [hv] at h
        · simp [hv] at h
          refine ⟨h.symm, by omega⟩
    · rw [if_neg hAe]
      cases ha : decimal A with
      | none => simp [Agrees]
      | some a =>
        simp only
        obtain ⟨c, t, hAc, hc⟩ := head_digit_of_decimal ha
        have hc45 : c ≠ 45 := by have := isDigit_bounds hc; omega
        -- the code takes the split branch and finds the same two texts
        have hrt : rangeTexts rest = some (A, B) := by
          unfold rangeTexts
          have : ¬ (index b!"-" rest = some 0) := by
            rw [hrest, hAc]; simp only [List.cons_append]
            rw [index_dash_head]; exact hc45
          rw [if_neg this, hs]
        unfold parseBounds at h
        rw [hrt] at h
        simp only [optInt_digits ha] at h
        by_cases hav : (a : Int) > maxInt64
        · simp [hav] at h
        · simp only [hav, if_false] at h
          by_cases hBe : B.isEmpty = true
          · rw [if_pos hBe]
            have hB0 : B = [] := List.isEmpty_iff.1 hBe
            subst hB0
            have hn : optInt [] = some none := by simp [optInt]
            simp only [hn] at h
            simp at h
            exact ⟨h.symm, by omega⟩
          · rw [if_neg hBe]
            cases hb : decimal B with
            | none => simp [Agrees]
            | some b =>
              simp only
              simp only [optInt_digits hb] at h
              by_cases hbv : (b : Int) > maxInt64
              · simp [hbv] at h
              · simp only [hbv, if_false] at h
                by_cases hab : a ≤ b
                · rw [if_pos hab]
                  have : ¬ ((b : Int) < (a : Int)) := by omega
                  simp [this] at h
                  exact ⟨h.symm, by omega, hab⟩
                · rw [if_neg hab]; simp [Agrees]
  · simp [Agrees]

theorem decimal_bytes {s : Bytes} {v : Nat} (h : decimal s = some v) : ∀ c ∈ s, isDigit c = true :=
  digitsVal_all_digits _ _ _ (decimal_some h).2

/-- a value the RFC reading accepts consists of digits and one `-` -/
theorem parseSet_range_bytes (rest : Bytes) (h : (parseSet rest).isRange = true) :
    ∀ c ∈ rest, c = 45 ∨ isDigit c = true := by
  unfold parseSet at h
  split at h
  · rename_i A B hs
    obtain ⟨hrest, _, _⟩ := split1_eq_two 45 rest A B hs
    have key : (∀ c ∈ A, isDigit c = true) ∧ (∀ c ∈ B, isDigit c = true) := by
      by_cases hAe : A.isEmpty = true
      · rw [if_pos hAe] at h
        have hA0 : A = [] := List.isEmpty_iff.1 hAe
        cases hk : decimal B with
        | none => rw [hk] at h; simp [RangeSpec.isRange] at h
        | some k => exact ⟨(by rw [hA0]; intro c hc; cases hc), decimal_bytes hk⟩
      · rw [if_neg hAe] at h
        cases ha : decimal A with
        | none => rw [ha] at h; simp [RangeSpec.isRange] at h
        | some a =>
          rw [ha] at h
          simp only at h
          by_cases hBe : B.isEmpty = true
          · have hB0 : B = [] := List.isEmpty_iff.1 hBe
            exact ⟨decimal_bytes ha, (by rw [hB0]; intro c hc; cases hc)⟩
          · rw [if_neg hBe] at h
            cases hb : decimal B with
            | none => rw [hb] at h; simp [RangeSpec.isRange] at h
            | some b => exact ⟨decimal_bytes ha, decimal_bytes hb⟩
    intro c hc
    rw [hrest] at hc
    rcases List.mem_append.1 hc with m | m
    · exact Or.inr (key.1 c m)
    · cases m with
      | head => exact Or.inl rfl
      | tail _ m' => exact Or.inr (key.2 c m')
  · simp [RangeSpec.isRange] at h

theorem Agrees_of_not_range {r : ReqRange} {sp : RangeSpec} (h : sp.isRange = false) : Agrees r sp := by
  cases sp <;> simp [RangeSpec.isRange] at h <;> simp [Agrees]

theorem lower_ne_98 {p x : Nat} (h : lowerByte p = x) (hx : x ≠ 98) (hx2 : x ≠ 66) : p ≠ 98 := by
  intro e; subst e; simp [lowerByte] at h; omega

/-- **the two parsers agree**: whenever the code's `getRange` produces a range for a header value
    that RFC 9110 reads as a single byte range, it is that range -/
theorem getRangeValue_agrees (v : Bytes) (r : ReqRange) (h : getRangeValue v = some r) :
    Agrees r (parseRange (some v)) := by
  simp only [parseRange]
  by_cases hpre : toLower (v.take 6) = b!"bytes="
  · rw [if_pos hpre]
    by_cases hr : (parseSet (v.drop 6)).isRange = true
    · match v, hpre, hr, h with
      | p0 :: p1 :: p2 :: p3 :: p4 :: p5 :: rest, hpre, hr, h =>
        simp only [List.drop_succ_cons, List.drop_zero] at hr ⊢
        simp only [toLower, List.take_succ_cons, List.take_zero, List.map_cons, List.map_nil,
          List.cons.injEq, and_true] at hpre
        obtain ⟨_, h1, h2, h3, h4, h5⟩ := hpre
        have hb := parseSet_range_bytes rest hr
        have h98 : 98 ∉ p1 :: p2 :: p3 :: p4 :: p5 :: rest := by
          intro m
          simp only [List.mem_cons] at m
          rcases m with m | m | m | m | m | m
          · exact lower_ne_98 h1 (by decide) (by decide) m.symm
          · exact lower_ne_98 h2 (by decide) (by decide) m.symm
          · exact lower_ne_98 h3 (by decide) (by decide) m.symm
          · exact lower_ne_98 h4 (by decide) (by decide) m.symm
          · exact lower_ne_98 h5 (by decide) (by decide) m.symm
          · rcases hb 98 m with e | e
            · omega
            · simp [isDigit] at e
        unfold getRangeValue at h
        rw [if_neg (by simp), split_bytesEq p0 _ h98] at h
        by_cases hp : List.isPrefixOf b!"bytes=" (p0 :: p1 :: p2 :: p3 :: p4 :: p5 :: rest) = true
        · rw [if_pos hp] at h
          simp only [List.drop_succ_cons, List.drop_zero] at h
          exact parseBounds_agrees rest r h
        · rw [if_neg hp] at h
          simp at h
      | [], hpre, _, _ => simp [toLower] at hpre
      | [_], hpre, _, _ => simp [toLower] at hpre
      | [_, _], hpre, _, _ => simp [toLower] at hpre
      | [_, _, _], hpre, _, _ => simp [toLower] at hpre
      | [_, _, _, _], hpre, _, _ => simp [toLower] at hpre
      | [_, _, _, _, _], hpre, _, _ => simp [toLower] at hpre
    · exact Agrees_of_not_range (by simpa using hr)
  · rw [if_neg hpre]; simp [Agrees]

/-- `getRange` on a request that carries only the given `Range` line -/
theorem getRange_rangeOnly (rh : Option Bytes) :
    getRange (rangeOnlyHeader rh) = match rh with | none => none | some v => getRangeValue v := by
  cases rh with
  | none => simp [getRange, rangeOnlyHeader, Header.get, Header.values, Header.vals, getRangeValue]
  | some v =>
    have : Header.get [(b!"Range", [v])] b!"range" = v := by
      simp [Header.get, Header.values, Header.vals, canon, canonGo, isTokenByte, upperByte, lowerByte]
    simp [getRange, rangeOnlyHeader, this]

theorem getRange_agrees (rh : Option Bytes) (r : ReqRange) (h : getRange (rangeOnlyHeader rh) = some r) :
    Agrees r (parseRange rh) := by
  rw [getRange_rangeOnly] at h
  cases rh with
  | none => simp at h
  | some v => exact getRangeValue_agrees v r h

/-! ### arithmetic on the domain where the code is right -/

/-- the parsed ranges that select bytes of a resource of length `n`: `a-b` and `a-` inside it, and
    every suffix `-k` with `k ≥ 1` (a suffix longer than the resource selects all of it) -/
def InDomain (n : Int) (r : ReqRange) : Prop :=
  match r.s, r.e with
  | some s, some e => 0 ≤ s ∧ s ≤ e ∧ e ≤ n - 1
  | some s, none => 0 ≤ s ∧ s ≤ n - 1
  | none, some e => minInt64 ≤ e ∧ e ≤ -1
  | none, none => True

/-- **offset arithmetic**, for every length and every parsed range inside the resource:
    `0 ≤ start`, `start + size = end + 1 ≤ n`, `size ≥ 1` -/
theorem window_arith (n : Int) (r : ReqRange) (hn : 0 < n) (hmax : n ≤ maxInt64) (hd : InDomain n r) :
    0 ≤ r.start n ∧ r.start n + r.size n = r.end n + 1 ∧ r.end n + 1 ≤ n ∧ 1 ≤ r.size n := by
  obtain ⟨s, e⟩ := r
  unfold maxInt64 at hmax
  cases s <;> cases e <;>
    simp only [InDomain, ReqRange.start, ReqRange.end, ReqRange.size, wrap64, minInt64] at hd ⊢ <;>
    (try split) <;> omega

/-- the three values, form by form -/
theorem arith_fromTo (n : Int) (a b : Int) (h0 : 0 ≤ a) (hab : a ≤ b) (hb : b < maxInt64) :
    (ReqRange.mk (some a) (some b)).start n = a ∧ (ReqRange.mk (some a) (some b)).end n = b ∧
    (ReqRange.mk (some a) (some b)).size n = b - a + 1 := by
  unfold maxInt64 at hb
  refine ⟨?_, ?_, ?_⟩ <;> simp only [ReqRange.start, ReqRange.end, ReqRange.size, wrap64] <;> omega

theorem arith_from (n : Int) (a : Int) (hn : 0 < n) (hmax : n ≤ maxInt64) (h0 : 0 ≤ a) (ha : a ≤ n - 1) :
    (ReqRange.mk (some a) none).start n = a ∧ (ReqRange.mk (some a) none).end n = n - 1 ∧
    (ReqRange.mk (some a) none).size n = n - a := by
  unfold maxInt64 at hmax
  refine ⟨?_, ?_, ?_⟩ <;> simp only [ReqRange.start, ReqRange.end, ReqRange.size, wrap64] <;> omega

/-- every suffix `-k`, `0 ≤ k ≤ 2^63`: the window is the last `min k n` bytes (the start is clamped
    at the first byte when `k > n`) -/
theorem arith_suffix (n : Int) (k : Int) (hn : 0 < n) (hmax : n ≤ maxInt64) (h0 : 0 ≤ k) (hk : minInt64 ≤ -k) :
    (ReqRange.mk none (some (-k))).start n = n - min k n ∧ (ReqRange.mk none (some (-k))).end n = n - 1 ∧
    (ReqRange.mk none (some (-k))).size n = min k n := by
  unfold maxInt64 at hmax
  unfold minInt64 at hk
  refine ⟨?_, ?_, ?_⟩ <;> simp only [ReqRange.start, ReqRange.end, ReqRange.size, wrap64] <;>
    (try split) <;> omega

/-! ### `setRangedHeaders`, `sendBody` window -/

theorem setRanged_inside (r : ReqRange) (n : Int) (hn : 0 < n) (hmax : n ≤ maxInt64)
    (hs : ∀ s, r.s = some s → s ≤ n - 1) (he : ∀ e, r.e = some e → e ≤ n - 1) (h0 : emptySuffix r = false) :
    setRangedHeaders (some r) n 200 = (206, some (itoa (r.size n), r.contentRangeValue n)) := by
  unfold maxInt64 at hmax
  have hw : wrap64 (n - 1) = n - 1 := wrap64_id (by omega) (by omega)
  unfold setRangedHeaders
  simp only [ne_eq, not_true_eq_false, false_or]
  rw [if_neg (by omega), hw]
  have e1 : exceeds r.s (n - 1) = false := by
    unfold exceeds
    cases h : r.s with
    | none => rfl
    | some s => have := hs s h; simp; omega
  have e2 : exceeds r.e (n - 1) = false := by
    unfold exceeds
    cases h : r.e with
    | none => rfl
    | some e => have := he e h; simp; omega
  simp [e1, e2, h0]

/-- a suffix of length zero is unsatisfiable -/
theorem setRanged_emptySuffix (r : ReqRange) (n : Int) (hn : 0 < n) (h0 : emptySuffix r = true) :
    setRangedHeaders (some r) n 200 = (416, none) := by
  unfold setRangedHeaders
  simp only [ne_eq, not_true_eq_false, false_or]
  rw [if_neg (by omega)]
  simp [h0]

theorem setRanged_outside (r : ReqRange) (n : Int) (hn : 0 < n) (hmax : n ≤ maxInt64)
    (h : (∃ s, r.s = some s ∧ s > n - 1) ∨ (∃ e, r.e = some e ∧ e > n - 1)) :
    setRangedHeaders (some r) n 200 = (416, none) := by
  unfold maxInt64 at hmax
  have hw : wrap64 (n - 1) = n - 1 := wrap64_id (by omega) (by omega)
  unfold setRangedHeaders
  simp only [ne_eq, not_true_eq_false, false_or]
  rw [if_neg (by omega), hw]
  have : (exceeds r.s (n - 1) || exceeds r.e (n - 1)) = true := by
    rcases h with ⟨s, hs, hgt⟩ | ⟨e, he, hgt⟩
    · simp [exceeds, hs, hgt]
    · simp [exceeds, he, hgt]
  rw [if_pos this]

theorem window_slice (r : ReqRange) (body : Bytes) (first last : Nat)
    (hstart : r.start (body.length : Int) = (first : Int))
    (hsize : r.size (body.length : Int) = ((last + 1 - first : Nat) : Int)) (hfl : first ≤ last) :
    sendBodyWindow (some r) body = slice body first last := by
  unfold sendBodyWindow slice
  simp only [hstart, hsize]
  rw [if_neg (by omega), if_neg (by omega)]
  simp

theorem window_nil (rr : Option ReqRange) : sendBodyWindow rr [] = [] := by
  unfold sendBodyWindow
  cases rr with
  | none => rfl
  | some r =>
    simp only
    split
    · rfl
    · split <;> simp

/-! ### the two paths -/

theorem respondHit_none (st : Nat) (clh : Option Int) (body : Bytes) :
    respondHit st clh body none = ⟨st, clText clh, none, body⟩ := rfl

theorem respondFill_none (st : Nat) (clh : Option Int) (body : Bytes) (hg : cacheGate st = true) :
    respondFill st clh body none = ⟨st, clText clh, none, body⟩ := by
  simp [respondFill, hg, sendBodyWindow]

/-- with a parsed range, a `200` origin answer and a non-empty body the filling path computes
    exactly what the hit path computes -/
theorem respondFill_eq_hit (body : Bytes) (r : ReqRange) (hn : body.length ≠ 0) :
    respondFill 200 (some (body.length : Int)) body (some r) =
      respondHit 200 (some (body.length : Int)) body (some r) := by
  simp [respondFill, respondHit, hn, cacheGate]

theorem hit_inside (body : Bytes) (r : ReqRange) (hn : body.length ≠ 0) (hmax : (body.length : Int) ≤ maxInt64)
    (hs : ∀ s, r.s = some s → s ≤ (body.length : Int) - 1) (he : ∀ e, r.e = some e → e ≤ (body.length : Int) - 1)
    (h0 : emptySuffix r = false) :
    respondHit 200 (some (body.length : Int)) body (some r) =
      ⟨206, some (itoa (r.size body.length)), some (r.contentRangeValue body.length), sendBodyWindow (some r) body⟩ := by
  have hpos : (0 : Int) < body.length := by omega
  simp [respondHit, hn, setRanged_inside r _ hpos hmax hs he h0, mergedLength, mergedRange]

theorem hit_emptySuffix (body : Bytes) (r : ReqRange) (hn : body.length ≠ 0) (h0 : emptySuffix r = true) :
    respondHit 200 (some (body.length : Int)) body (some r) = bare 416 := by
  have hpos : (0 : Int) < body.length := by omega
  simp [respondHit, hn, setRanged_emptySuffix r _ hpos h0]

theorem hit_outside (body : Bytes) (r : ReqRange) (hn : body.length ≠ 0) (hmax : (body.length : Int) ≤ maxInt64)
    (h : (∃ s, r.s = some s ∧ s > (body.length : Int) - 1) ∨ (∃ e, r.e = some e ∧ e > (body.length : Int) - 1)) :
    respondHit 200 (some (body.length : Int)) body (some r) = bare 416 := by
  have hpos : (0 : Int) < body.length := by omega
  simp [respondHit, hn, setRanged_outside r _ hpos hmax h]

/-- a response computed inside the resource is the `206` the specification describes -/
theorem view_inside (body : Bytes) (r : ReqRange) (first last : Nat) (hn : body.length ≠ 0)
    (hmax : (body.length : Int) ≤ maxInt64)
    (hs : ∀ s, r.s = some s → s ≤ (body.length : Int) - 1) (he : ∀ e, r.e = some e → e ≤ (body.length : Int) - 1)
    (h0 : emptySuffix r = false)
    (hstart : r.start (body.length : Int) = (first : Int)) (hend : r.end (body.length : Int) = (last : Int))
    (hsize : r.size (body.length : Int) = ((last + 1 - first : Nat) : Int)) (hfl : first ≤ last) :
    partialHeaders body.length first last (respondHit 200 (some (body.length : Int)) body (some r)) = true ∧
    ((respondHit 200 (some (body.length : Int)) body (some r)).body == slice body first last) = true := by
  rw [hit_inside body r hn hmax hs he h0]
  refine ⟨?_, ?_⟩
  · simp only [partialHeaders, ReqRange.contentRangeValue, hstart, hend, hsize, itoa_natCast, contentRangeText]
    simp
  · simp only [window_slice r body first last hstart hsize hfl]
    simp

theorem allowed_full (st : Nat) (body : Bytes) (clh : Option Int) (sp : RangeSpec)
    (hcl : clh = none ∨ clh = some (body.length : Int)) :
    allowedSpec st body sp ⟨st, clText clh, none, body⟩ = true := by
  unfold allowedSpec allowedWith fullHeaders
  rcases hcl with h | h
  · simp [h, clText]
  · simp [h, clText, itoa_natCast]

/-- **the arithmetic core, on parsed ranges**: for every non-empty body and every parsed range that
    agrees with a specified range (all three forms, every `a`, `b`, `k` — also `-k` with `k` beyond the
    length and `-0`, the former classes C15-a and C15-b), the hit path's response is in the allowed set -/
theorem hit_parsed_allowed (body : Bytes) (r : ReqRange) (sp : RangeSpec) (hag : Agrees r sp)
    (hr : sp.isRange = true) (hn : body.length ≠ 0) (hmax : (body.length : Int) ≤ maxInt64) :
    allowedSpec 200 body sp (respondHit 200 (some (body.length : Int)) body (some r)) = true := by
  have hmax' := hmax
  unfold maxInt64 at hmax'
  cases sp with
  | absent => simp [RangeSpec.isRange] at hr
  | invalid => simp [RangeSpec.isRange] at hr
  | fromTo a b =>
    obtain ⟨rfl, hb, hab⟩ := hag
    by_cases hbn : b < body.length
    · have ar := arith_fromTo (body.length : Int) (a : Int) (b : Int) (by omega) (by omega) (by unfold maxInt64; omega)
      obtain ⟨h1, h2⟩ := view_inside body ⟨some (a : Int), some (b : Int)⟩ a b hn hmax
        (by intro s hs; simp at hs; omega) (by intro e he; simp at he; omega) rfl
        ar.1 ar.2.1 (by rw [ar.2.2]; omega) hab
      unfold allowedSpec allowedWith
      have hmin : min b (body.length - 1) = b := by omega
      simp [hab, show a < body.length by omega, hmin, h1, h2]
    · rw [hit_outside body _ hn hmax (Or.inr ⟨(b : Int), rfl, by omega⟩)]
      unfold allowedSpec allowedWith
      simp [hab, show body.length ≤ b by omega, bare]
  | from_ a =>
    obtain ⟨rfl, ha⟩ := hag
    by_cases han : a < body.length
    · have ar := arith_from (body.length : Int) (a : Int) (by omega) hmax (by omega) (by omega)
      obtain ⟨h1, h2⟩ := view_inside body ⟨some (a : Int), none⟩ a (body.length - 1) hn hmax
        (by intro s hs; simp at hs; omega) (by intro e he; simp at he) rfl
        ar.1 (by rw [ar.2.1]; omega) (by rw [ar.2.2]; omega) (by omega)
      unfold allowedSpec allowedWith
      simp [han, h1, h2]
    · rw [hit_outside body _ hn hmax (Or.inl ⟨(a : Int), rfl, by omega⟩)]
      unfold allowedSpec allowedWith
      simp [show body.length ≤ a by omega, bare]
  | suffix k =>
    obtain ⟨rfl, hkmin⟩ := hag
    by_cases hk0 : k = 0
    · -- `-0`: unsatisfiable
      subst hk0
      rw [hit_emptySuffix body _ hn (by simp [emptySuffix])]
      unfold allowedSpec allowedWith
      simp [bare]
    · -- `-k`, `k ≥ 1`: the last `min k n` bytes
      have ar := arith_suffix (body.length : Int) (k : Int) (by omega) hmax (by omega) hkmin
      obtain ⟨h1, h2⟩ := view_inside body ⟨none, some (-(k : Int))⟩ (body.length - min k body.length) (body.length - 1) hn hmax
        (by intro s hs; simp at hs) (by intro e he; simp at he; omega)
        (by simp only [emptySuffix, decide_eq_false_iff_not]; omega)
        (by rw [ar.1]; omega) (by rw [ar.2.1]; omega) (by rw [ar.2.2]; omega) (by omega)
      unfold allowedSpec allowedWith
      simp [show 0 < k by omega, show 0 < body.length by omega, h1, h2]

theorem parseSet_ne_absent (rest : Bytes) : parseSet rest ≠ .absent := by
  unfold parseSet
  repeat' split
  all_goals simp

theorem parseRange_some_ne_absent (v : Bytes) : parseRange (some v) ≠ .absent := by
  simp only [parseRange]
  split
  · exact parseSet_ne_absent _
  · simp

/-! ### the property, as stated -/

/-- **C15, hit path, as stated**: for every stored entry (any status, any body, `Content-Length`
    header absent or equal to the length) and every `Range` header the response is in the allowed set -/
def range_hit_exact : Prop :=
  ∀ (st : Nat) (clh : Option Int) (body : Bytes) (rh : Option Bytes),
    (clh = none ∨ clh = some (body.length : Int)) →
    holds ⟨.hit, st, clh, body, rh⟩ (respond .hit st clh body rh) = true

/-- **C15, filling path, as stated** (origin status within the statuses the store accepts) -/
def range_miss_exact : Prop :=
  ∀ (st : Nat) (clh : Option Int) (body : Bytes) (rh : Option Bytes),
    (clh = none ∨ clh = some (body.length : Int)) → cacheGate st = true →
    holds ⟨.fill, st, clh, body, rh⟩ (respond .fill st clh body rh) = true

/-- **C15, "the origin is always asked for the whole resource"** (filling path) -/
def origin_asked_for_whole : Prop := ∀ (rh : Option Bytes), originOk (forwardsRange rh) = true

def Statement : Prop := range_hit_exact ∧ range_miss_exact ∧ origin_asked_for_whole

/-- **C15 outside the known-finding classes, both paths, every input.**
    For every resource (status, body, `Content-Length` header absent or equal to the length, length
    within int64), every `Range` header value (any byte string) and both paths: if the input lies in
    none of the classes C15-c, -d, -f, -g, the model's response is in the allowed set.
    Missing for the full statement: exactly those classes (each refuted below by a witness).
    (The classes C15-a and C15-b — `bytes=-k` beyond the length, `bytes=-0` — were hypotheses here
    until the suffix arithmetic was repaired; those inputs are now covered.) -/
theorem range_exact_partial (x : Input)
    (hcl : x.clh = none ∨ x.clh = some (x.body.length : Int))
    (hmax : (x.body.length : Int) ≤ maxInt64)
    (hgate : x.path = .fill → cacheGate x.status = true)
    (hc : inViewClass x = false) :
    holds x (respond x.path x.status x.clh x.body x.range) = true := by
  obtain ⟨path, st, clh, body, rh⟩ := x
  simp only at hcl hmax hgate ⊢
  simp only [inViewClass, Bool.or_eq_false_iff] at hc
  obtain ⟨⟨⟨hcc, hd⟩, hf⟩, hg⟩ := hc
  unfold holds allowed respond respondParsed
  simp only
  cases hrr : getRange (rangeOnlyHeader rh) with
  | none =>
    cases path with
    | hit => exact allowed_full st body clh _ hcl
    | fill =>
      simp only
      rw [respondFill_none st clh body (hgate rfl)]
      exact allowed_full st body clh _ hcl
  | some r =>
    have hag := getRange_agrees rh r hrr
    have hrange : (parseRange rh).isRange = true := by
      cases hsp : parseRange rh with
      | absent =>
        cases rh with
        | none => rw [getRange_rangeOnly] at hrr; simp at hrr
        | some v => exact absurd hsp (parseRange_some_ne_absent v)
      | invalid => simp [inClass_C15_g, hsp, hrr] at hg
      | fromTo a b => rfl
      | from_ a => rfl
      | suffix k => rfl
    have hst : st = 200 := by
      simp only [inClass_C15_d, hrange, Bool.and_true, bne_eq_false_iff_eq] at hd
      exact hd
    subst hst
    -- Content-Length present, positive, hence the length; the body is not empty
    have hclen : clh = some (body.length : Int) ∧ body.length ≠ 0 := by
      simp only [inClass_C15_c, hrange, beq_self_eq_true, Bool.and_true, Bool.true_and] at hcc
      rcases hcl with h | h
      · simp [h] at hcc
      · rw [h] at hcc
        simp only [decide_eq_false_iff_not] at hcc
        exact ⟨h, by omega⟩
    obtain ⟨hcle, hn⟩ := hclen
    subst hcle
    have hhit := hit_parsed_allowed body r (parseRange rh) hag hrange hn hmax
    cases path with
    | hit => exact hhit
    | fill => simp only; rw [respondFill_eq_hit body r hn]; exact hhit

/-- hit path: `range_hit_exact` restricted to the complement of the known-finding classes -/
theorem range_hit_exact_partial (st : Nat) (clh : Option Int) (body : Bytes) (rh : Option Bytes)
    (hcl : clh = none ∨ clh = some (body.length : Int)) (hmax : (body.length : Int) ≤ maxInt64)
    (hc : inViewClass ⟨.hit, st, clh, body, rh⟩ = false) :
    holds ⟨.hit, st, clh, body, rh⟩ (respond .hit st clh body rh) = true :=
  range_exact_partial ⟨.hit, st, clh, body, rh⟩ hcl hmax (by intro h; cases h) hc

/-- filling path: `range_miss_exact` restricted to the complement of the known-finding classes -/
theorem range_miss_exact_partial (st : Nat) (clh : Option Int) (body : Bytes) (rh : Option Bytes)
    (hcl : clh = none ∨ clh = some (body.length : Int)) (hmax : (body.length : Int) ≤ maxInt64)
    (hg : cacheGate st = true) (hc : inViewClass ⟨.fill, st, clh, body, rh⟩ = false) :
    holds ⟨.fill, st, clh, body, rh⟩ (respond .fill st clh body rh) = true :=
  range_exact_partial ⟨.fill, st, clh, body, rh⟩ hcl hmax (fun _ => hg) hc

/-! ### refutation of the full statements (the code's defects, on the model) -/

-- former finding C15-a, repaired: `bytes=-99` on 4 bytes used to give `206`,
-- `Content-Range: bytes -95-3/4`, `Content-Length: 99` and no body; it now selects the whole resource,
-- on the hit path and on the filling path alike
example : respond .hit 200 (some 4) b!"abcd" (some b!"bytes=-99") =
    ⟨206, some b!"4", some b!"bytes 0-3/4", b!"abcd"⟩ := by decide
example : respond .fill 200 (some 4) b!"abcd" (some b!"bytes=-99") =
    ⟨206, some b!"4", some b!"bytes 0-3/4", b!"abcd"⟩ := by decide
example : holds ⟨.hit, 200, some 4, b!"abcd", some b!"bytes=-99"⟩
    (respond .hit 200 (some 4) b!"abcd" (some b!"bytes=-99")) = true := by decide
example : holds ⟨.fill, 200, some 12, b!"abcdefghijkl", some b!"bytes=-13"⟩
    (respond .fill 200 (some 12) b!"abcdefghijkl" (some b!"bytes=-13")) = true := by decide

-- former finding C15-b, repaired: `bytes=-0` used to give `206`, `Content-Range: bytes 4-3/4`,
-- `Content-Length: 0`; it is now unsatisfiable (`416`), both paths, and nothing is stored by the fill
example : respond .hit 200 (some 4) b!"abcd" (some b!"bytes=-0") = bare 416 := by decide
example : respond .fill 200 (some 4) b!"abcd" (some b!"bytes=-0") = bare 416 := by decide
example : holds ⟨.hit, 200, some 4, b!"abcd", some b!"bytes=-0"⟩
    (respond .hit 200 (some 4) b!"abcd" (some b!"bytes=-0")) = true := by decide
example : fillThenHit 200 (some 1) b!"a" (some b!"bytes=-0") = (bare 416, none) := by decide

/-- C15-c: entry without `Content-Length`: `200` whose body is only the slice — both paths -/
theorem witness_c_view : respond .hit 200 none b!"abcdef" (some b!"bytes=1-3") = ⟨200, none, none, b!"bcd"⟩ := by decide
theorem fails_witness_c : holds ⟨.hit, 200, none, b!"abcdef", some b!"bytes=1-3"⟩
    (respond .hit 200 none b!"abcdef" (some b!"bytes=1-3")) = false := by decide
theorem fails_witness_c_fill : holds ⟨.fill, 200, none, b!"abcdef", some b!"bytes=1-3"⟩
    (respond .fill 200 none b!"abcdef" (some b!"bytes=1-3")) = false := by decide

/-- C15-d: stored `404` + Range: slice of the error body under the full `Content-Length` -/
theorem witness_d_view : respond .hit 404 (some 6) b!"abcdef" (some b!"bytes=1-3") = ⟨404, some b!"6", none, b!"bcd"⟩ := by decide
theorem fails_witness_d : holds ⟨.hit, 404, some 6, b!"abcdef", some b!"bytes=1-3"⟩
    (respond .hit 404 (some 6) b!"abcdef" (some b!"bytes=1-3")) = false := by decide
theorem fails_witness_d_fill : holds ⟨.fill, 404, some 6, b!"abcdef", some b!"bytes=1-3"⟩
    (respond .fill 404 (some 6) b!"abcdef" (some b!"bytes=1-3")) = false := by decide

/-- C15-f: hit on a zero-length entry (a cached `404` without body) with a Range: bare `503` -/
theorem witness_f_view : respond .hit 404 (some 0) [] (some b!"bytes=0-3") = bare 503 := by decide
theorem fails_witness_f : holds ⟨.hit, 404, some 0, [], some b!"bytes=0-3"⟩
    (respond .hit 404 (some 0) [] (some b!"bytes=0-3")) = false := by decide

/-- C15-g: `xbytes=1-3` (another range unit) and `bytes=+1-3` are answered as `bytes=1-3` -/
theorem fails_witness_g : holds ⟨.hit, 200, some 6, b!"abcdef", some b!"xbytes=1-3"⟩
    (respond .hit 200 (some 6) b!"abcdef" (some b!"xbytes=1-3")) = false := by decide
theorem fails_witness_g_plus : holds ⟨.hit, 200, some 6, b!"abcdef", some b!"bytes=+1-3"⟩
    (respond .hit 200 (some 6) b!"abcdef" (some b!"bytes=+1-3")) = false := by decide

/-- C15-h: a multi-range request is not parsed, so its `Range` line stays on the origin request -/
theorem fails_witness_h : originOk (forwardsRange (some b!"bytes=0-1,3-4")) = false := by decide

/-- every witness lies in the class named after it -/
theorem witnesses_in_class :
    inClass_C15_c ⟨.hit, 200, none, b!"abcdef", some b!"bytes=1-3"⟩ = true ∧
    inClass_C15_d ⟨.hit, 404, some 6, b!"abcdef", some b!"bytes=1-3"⟩ = true ∧
    inClass_C15_f ⟨.hit, 404, some 0, [], some b!"bytes=0-3"⟩ = true ∧
    inClass_C15_g ⟨.hit, 200, some 6, b!"abcdef", some b!"xbytes=1-3"⟩ = true ∧
    inClass_C15_h ⟨.fill, 200, some 6, b!"abcdef", some b!"bytes=0-1,3-4"⟩ = true := by decide

theorem range_hit_exact_false : ¬ range_hit_exact := by
  intro h
  have := h 200 none b!"abcdef" (some b!"bytes=1-3") (Or.inl rfl)
  rw [fails_witness_c] at this
  cases this

theorem range_miss_exact_false : ¬ range_miss_exact := by
  intro h
  have := h 200 none b!"abcdef" (some b!"bytes=1-3") (Or.inl rfl) (by decide)
  rw [fails_witness_c_fill] at this
  cases this

theorem origin_asked_for_whole_false : ¬ origin_asked_for_whole := by
  intro h
  have := h (some b!"bytes=0-1,3-4")
  rw [fails_witness_h] at this
  cases this

theorem Statement_false : ¬ Statement := fun h => range_hit_exact_false h.1

/-- the origin request is free of `Range` whenever the client sent none or one the code can parse
    (the complement of class C15-h) -/
theorem origin_asked_for_whole_partial (st : Nat) (clh : Option Int) (body : Bytes) (rh : Option Bytes)
    (hc : inClass_C15_h ⟨.fill, st, clh, body, rh⟩ = false) : originOk (forwardsRange rh) = true := by
  simp only [inClass_C15_h, beq_self_eq_true, Bool.true_and] at hc
  simp only [originOk, forwardsRange, hc, Bool.not_false]

/-! ### what goes to the store -/

theorem natDigits_no (c : Nat) (hc : isDigit c = false) (a : Nat) : c ∉ natDigits a := by
  intro m
  have := natDigits_digits a c m
  rw [hc] at this; cases this

theorem itoa_no47 (x : Int) : 47 ∉ itoa x := by
  unfold itoa
  split
  · intro m
    cases m with
    | tail _ m' => exact natDigits_no 47 (by decide) _ m'
  · exact natDigits_no 47 (by decide) _

theorem atoi_natDigits (m : Nat) (h : (m : Int) ≤ maxInt64) : atoi (natDigits m) = some (m : Int) := by
  unfold atoi
  rw [parseInt_digits (natDigits m) m (natDigits_ne_nil m) (digitsVal_natDigits m)]
  rw [if_neg (by omega)]

/-- `contentLengthFromRange` recovers the total from every `Content-Range` value the code renders -/
theorem contentLengthFromRange_rendered (r : ReqRange) (m : Nat) (h : (m : Int) ≤ maxInt64) :
    contentLengthFromRange (r.contentRangeValue (m : Int)) = natDigits m := by
  unfold ReqRange.contentRangeValue
  rw [itoa_natCast]
  have e : b!"bytes " ++ itoa (r.start ↑m) ++ b!"-" ++ itoa (r.end ↑m) ++ b!"/" ++ natDigits m
      = (b!"bytes " ++ itoa (r.start ↑m) ++ b!"-" ++ itoa (r.end ↑m)) ++ 47 :: natDigits m := by simp
  rw [e]
  have hA : 47 ∉ b!"bytes " ++ itoa (r.start ↑m) ++ b!"-" ++ itoa (r.end ↑m) := by
    intro mm
    simp only [List.mem_append, List.mem_cons, List.not_mem_nil, or_false] at mm
    rcases mm with ((mm | mm) | mm) | mm
    · omega
    · exact itoa_no47 _ mm
    · omega
    · exact itoa_no47 _ mm
  unfold contentLengthFromRange
  rw [split1_append_sep 47 _ _ hA, split1_no_sep 47 _ (natDigits_no 47 (by decide) m)]
  simp only [atoi_natDigits m h]
  rw [if_neg (by omega)]

/-- **`stored_full`**: whatever `Range` the filling client sent, a `200` origin answer with
    `Content-Length: n` is either not stored at all (the early `416`) or stored as status `200` with
    `Content-Length: n` — the `206` sent to the client is rewritten with the total taken from its
    `Content-Range`, for every parsed range. (The stored bytes are the whole origin body by
    construction of the writer path.) -/
theorem stored_full (body : Bytes) (rh : Option Bytes) (hmax : (body.length : Int) ≤ maxInt64) :
    (respond .fill 200 (some (body.length : Int)) body rh).status = 416 ∨
    storeRewrite (respond .fill 200 (some (body.length : Int)) body rh) = (200, some (natDigits body.length)) := by
  unfold respond respondParsed
  simp only
  cases getRange (rangeOnlyHeader rh) with
  | none =>
    right
    rw [respondFill_none 200 _ body (by decide)]
    simp [storeRewrite, clText, itoa_natCast]
  | some r =>
    by_cases hn : body.length = 0
    · right
      have hb : body = [] := List.length_eq_zero_iff.1 hn
      subst hb
      simp [respondFill, setRangedHeaders, storeRewrite, mergedLength, mergedRange, clText]
      rfl
    · rw [respondFill_eq_hit body r hn]
      by_cases h : (∃ s, r.s = some s ∧ s > (body.length : Int) - 1) ∨ (∃ e, r.e = some e ∧ e > (body.length : Int) - 1)
      · left; rw [hit_outside body r hn hmax h]; rfl
      · by_cases h0 : emptySuffix r = true
        · left; rw [hit_emptySuffix body r hn h0]; rfl
        right
        have h0 : emptySuffix r = false := by simpa using h0
        have hs : ∀ s, r.s = some s → s ≤ (body.length : Int) - 1 := by
          intro s hs
          by_cases hgt : s ≤ (body.length : Int) - 1
          · exact hgt
          · exact absurd (Or.inl ⟨s, hs, by omega⟩) h
        have he : ∀ e, r.e = some e → e ≤ (body.length : Int) - 1 := by
          intro e he
          by_cases hgt : e ≤ (body.length : Int) - 1
          · exact hgt
          · exact absurd (Or.inr ⟨e, he, by omega⟩) h
        rw [hit_inside body r hn hmax hs he h0]
        simp only [storeRewrite, if_true, Option.getD_some, contentLengthFromRange_rendered r body.length hmax]
        have : (natDigits body.length).length > 0 := List.length_pos_iff.2 (natDigits_ne_nil _)
        simp [this]

/-! ### the well-formed renderings `bytes=a-b`, `bytes=a-`, `bytes=-k` (every a, b, k) -/

def textFromTo (a b : Nat) : Bytes := b!"bytes=" ++ (natDigits a ++ 45 :: natDigits b)
def textFrom (a : Nat) : Bytes := b!"bytes=" ++ (natDigits a ++ [45])
def textSuffix (k : Nat) : Bytes := b!"bytes=" ++ (45 :: natDigits k)

theorem decimal_natDigits (a : Nat) : decimal (natDigits a) = some a := by
  unfold decimal
  have : (natDigits a).isEmpty = false := by
    cases h : natDigits a with
    | nil => exact absurd h (natDigits_ne_nil a)
    | cons _ _ => rfl
  rw [this]; exact digitsVal_natDigits a

theorem parseRange_bytesEq (rest : Bytes) : parseRange (some (b!"bytes=" ++ rest)) = parseSet rest := by
  simp [parseRange, toLower, lowerByte]

theorem parseRange_textFromTo (a b : Nat) (hab : a ≤ b) : parseRange (some (textFromTo a b)) = .fromTo a b := by
  unfold textFromTo
  rw [parseRange_bytesEq]
  unfold parseSet
  rw [split1_append_sep 45 _ _ (natDigits_no 45 (by decide) a), split1_no_sep 45 _ (natDigits_no 45 (by decide) b)]
  have ea : (natDigits a).isEmpty = false := by
    cases h : natDigits a with
    | nil => exact absurd h (natDigits_ne_nil a)
    | cons _ _ => rfl
  have eb : (natDigits b).isEmpty = false := by
    cases h : natDigits b with
    | nil => exact absurd h (natDigits_ne_nil b)
    | cons _ _ => rfl
  simp [ea, eb, decimal_natDigits, hab]

theorem parseRange_textFrom (a : Nat) : parseRange (some (textFrom a)) = .from_ a := by
  unfold textFrom
  rw [parseRange_bytesEq]
  unfold parseSet
  rw [split1_append_sep 45 _ _ (natDigits_no 45 (by decide) a)]
  have ea : (natDigits a).isEmpty = false := by
    cases h : natDigits a with
    | nil => exact absurd h (natDigits_ne_nil a)
    | cons _ _ => rfl
  simp [split1, ea, decimal_natDigits]

theorem parseRange_textSuffix (k : Nat) : parseRange (some (textSuffix k)) = .suffix k := by
  unfold textSuffix
  rw [parseRange_bytesEq]
  unfold parseSet
  have := split1_append_sep 45 [] (natDigits k) (by simp)
  simp only [List.nil_append] at this
  rw [this, split1_no_sep 45 _ (natDigits_no 45 (by decide) k)]
  simp [decimal_natDigits]

/-- **C15 in the shape of DESIGN 5/C15**: for ALL `n > 0`, stored status `200` with `Content-Length = n`
    and every request `bytes=a-b` (`a ≤ b`; `b ≤ n-1` gives the `206`, `b ≥ n` the `416`) the hit
    response is in the allowed set -/
theorem range_hit_exact_fromTo (body : Bytes) (a b : Nat) (hn : body.length ≠ 0)
    (hmax : (body.length : Int) ≤ maxInt64) (hab : a ≤ b) :
    holds ⟨.hit, 200, some (body.length : Int), body, some (textFromTo a b)⟩
      (respond .hit 200 (some (body.length : Int)) body (some (textFromTo a b))) = true := by
  apply range_hit_exact_partial 200 _ body _ (Or.inr rfl) hmax
  have hne : body.isEmpty = false := by cases body with | nil => simp at hn | cons _ _ => rfl
  have hb0 : body ≠ [] := by intro e; subst e; simp at hn
  simp [inViewClass, inClass_C15_c, inClass_C15_d, inClass_C15_f, inClass_C15_g,
    parseRange_textFromTo a b hab, RangeSpec.isRange, hne, hb0]

/-- … every request `bytes=a-` -/
theorem range_hit_exact_from (body : Bytes) (a : Nat) (hn : body.length ≠ 0)
    (hmax : (body.length : Int) ≤ maxInt64) :
    holds ⟨.hit, 200, some (body.length : Int), body, some (textFrom a)⟩
      (respond .hit 200 (some (body.length : Int)) body (some (textFrom a))) = true := by
  apply range_hit_exact_partial 200 _ body _ (Or.inr rfl) hmax
  have hne : body.isEmpty = false := by cases body with | nil => simp at hn | cons _ _ => rfl
  have hb0 : body ≠ [] := by intro e; subst e; simp at hn
  simp [inViewClass, inClass_C15_c, inClass_C15_d, inClass_C15_f, inClass_C15_g,
    parseRange_textFrom a, RangeSpec.isRange, hne, hb0]

/-- … every request `bytes=-k`, EVERY `k` (`1 ≤ k ≤ n`: the last `k` bytes; `k > n`: the whole resource
    as `206 bytes 0-(n-1)/n`; `k = 0`: `416`; `k` beyond int64: the complete `200`) -/
theorem range_hit_exact_suffix (body : Bytes) (k : Nat) (hn : body.length ≠ 0)
    (hmax : (body.length : Int) ≤ maxInt64) :
    holds ⟨.hit, 200, some (body.length : Int), body, some (textSuffix k)⟩
      (respond .hit 200 (some (body.length : Int)) body (some (textSuffix k))) = true := by
  apply range_hit_exact_partial 200 _ body _ (Or.inr rfl) hmax
  have hne : body.isEmpty = false := by cases body with | nil => simp at hn | cons _ _ => rfl
  have hb0 : body ≠ [] := by intro e; subst e; simp at hn
  simp [inViewClass, inClass_C15_c, inClass_C15_d, inClass_C15_f, inClass_C15_g,
    parseRange_textSuffix k, RangeSpec.isRange, hne, hb0]

/-- … and every header value the code cannot parse (any status, any stored header): the complete response -/
theorem range_hit_exact_unparsable (st : Nat) (clh : Option Int) (body : Bytes) (rh : Option Bytes)
    (hcl : clh = none ∨ clh = some (body.length : Int)) (h : getRange (rangeOnlyHeader rh) = none) :
    holds ⟨.hit, st, clh, body, rh⟩ (respond .hit st clh body rh) = true := by
  unfold holds allowed respond respondParsed
  simp only [h]
  exact allowed_full st body clh _ hcl

/-! ### exactly the requested bytes: the response itself, for the rendering `bytes=a-b` -/

theorem getRangeValue_bytesEq (rest : Bytes) (h : 98 ∉ rest) :
    getRangeValue (b!"bytes=" ++ rest) = parseBounds rest := by
  unfold getRangeValue
  have e : (b!"bytes=" ++ rest) = 98 :: (b!"ytes=" ++ rest) := rfl
  have h98 : 98 ∉ b!"ytes=" ++ rest := by
    intro m
    simp only [List.mem_append, List.mem_cons, List.not_mem_nil, or_false] at m
    rcases m with m | m
    · omega
    · exact h m
  rw [e, if_neg (by simp), split_bytesEq 98 _ h98]
  simp [List.isPrefixOf]

theorem rangeTexts_two (A B : Bytes) (a : Nat) (ha : decimal A = some a) (hA : 45 ∉ A) (hB : 45 ∉ B) :
    rangeTexts (A ++ 45 :: B) = some (A, B) := by
  obtain ⟨c, t, hAc, hc⟩ := head_digit_of_decimal ha
  have hc45 : c ≠ 45 := by have := isDigit_bounds hc; omega
  unfold rangeTexts
  have : ¬ (index b!"-" (A ++ 45 :: B) = some 0) := by
    rw [hAc]; simp only [List.cons_append]
    rw [index_dash_head]; exact hc45
  rw [if_neg this, split1_append_sep 45 A B hA, split1_no_sep 45 B hB]

/-- the code's parser on the rendering `bytes=a-b` -/
theorem getRange_textFromTo (a b : Nat) (hab : a ≤ b) (hb : (b : Int) ≤ maxInt64) :
    getRange (rangeOnlyHeader (some (textFromTo a b))) = some ⟨some (a : Int), some (b : Int)⟩ := by
  rw [getRange_rangeOnly]
  simp only
  unfold textFromTo
  rw [getRangeValue_bytesEq]
  · unfold parseBounds
    rw [rangeTexts_two _ _ a (decimal_natDigits a) (natDigits_no 45 (by decide) a) (natDigits_no 45 (by decide) b)]
    simp only [optInt_digits (decimal_natDigits a), optInt_digits (decimal_natDigits b)]
    have h1 : ¬ ((a : Int) > maxInt64) := by omega
    have h2 : ¬ ((b : Int) > maxInt64) := by omega
    have h3 : ¬ ((b : Int) < (a : Int)) := by omega
    simp [h1, h2, h3]
  · intro m
    simp only [List.mem_append, List.mem_cons] at m
    rcases m with m | m | m
    · exact natDigits_no 98 (by decide) a m
    · omega
    · exact natDigits_no 98 (by decide) b m

/-- **exactly the requested bytes.** For ALL bodies of length `n > 0`, stored status `200` with
    `Content-Length: n`, and ALL `a ≤ b ≤ n-1`: the request `Range: bytes=a-b` is answered, on the hit
    path and on the filling path alike, with `206`, `Content-Length: b-a+1`,
    `Content-Range: bytes a-b/n` and the bytes `a..b` of the body. -/
theorem range_exact_bytes (path : Path) (body : Bytes) (a b : Nat) (hn : body.length ≠ 0)
    (hmax : (body.length : Int) ≤ maxInt64) (hab : a ≤ b) (hb : b < body.length) :
    respond path 200 (some (body.length : Int)) body (some (textFromTo a b)) =
      ⟨206, some (natDigits (b + 1 - a)), some (contentRangeText a b body.length), slice body a b⟩ := by
  have hmax' := hmax
  unfold maxInt64 at hmax'
  unfold respond respondParsed
  rw [getRange_textFromTo a b hab (by unfold maxInt64; omega)]
  have ar := arith_fromTo (body.length : Int) (a : Int) (b : Int) (by omega) (by omega) (by unfold maxInt64; omega)
  have hsz : (ReqRange.mk (some (a : Int)) (some (b : Int))).size (body.length : Int) = ((b + 1 - a : Nat) : Int) := by
    rw [ar.2.2]; omega
  have hhit : respondHit 200 (some (body.length : Int)) body (some ⟨some (a : Int), some (b : Int)⟩) =
      ⟨206, some (natDigits (b + 1 - a)), some (contentRangeText a b body.length), slice body a b⟩ := by
    rw [hit_inside body _ hn hmax (by intro s hs; simp at hs; omega) (by intro e he; simp at he; omega) rfl]
    rw [window_slice _ body a b ar.1 hsz hab]
    simp only [ReqRange.contentRangeValue, ar.1, ar.2.1, hsz, itoa_natCast, contentRangeText]
  cases path with
  | hit => exact hhit
  | fill => simp only; rw [respondFill_eq_hit body _ hn]; exact hhit

/-- **the suffix form, exactly (the repaired arithmetic).** For ALL bodies of length `n > 0`, stored
    status `200` with `Content-Length: n`, and ALL `k` with `1 ≤ k ≤ 2^63` (every suffix length the
    code's parser lets through): the parsed range `-k` is answered, on the hit path and on the
    filling path alike, with `206`, `Content-Length: min k n`, `Content-Range: bytes (n - min k n)-(n-1)/n`
    and exactly the last `min k n` bytes — for `k > n` the whole resource (former finding C15-a). -/
theorem range_exact_suffix_parsed (path : Path) (body : Bytes) (k : Nat) (hn : body.length ≠ 0)
    (hmax : (body.length : Int) ≤ maxInt64) (hk1 : 1 ≤ k) (hk : minInt64 ≤ -(k : Int)) :
    respondParsed path 200 (some (body.length : Int)) body (some ⟨none, some (-(k : Int))⟩) =
      ⟨206, some (natDigits (min k body.length)),
        some (contentRangeText (body.length - min k body.length) (body.length - 1) body.length),
        slice body (body.length - min k body.length) (body.length - 1)⟩ := by
  have hmax' := hmax
  unfold maxInt64 at hmax'
  have ar := arith_suffix (body.length : Int) (k : Int) (by omega) hmax (by omega) hk
  have hst : (ReqRange.mk none (some (-(k : Int)))).start (body.length : Int) =
      ((body.length - min k body.length : Nat) : Int) := by rw [ar.1]; omega
  have hen : (ReqRange.mk none (some (-(k : Int)))).end (body.length : Int) = ((body.length - 1 : Nat) : Int) := by
    rw [ar.2.1]; omega
  have hsz : (ReqRange.mk none (some (-(k : Int)))).size (body.length : Int) =
      ((body.length - 1 + 1 - (body.length - min k body.length) : Nat) : Int) := by rw [ar.2.2]; omega
  have hsz' : (ReqRange.mk none (some (-(k : Int)))).size (body.length : Int) = ((min k body.length : Nat) : Int) := by
    rw [ar.2.2]; omega
  have hhit : respondHit 200 (some (body.length : Int)) body (some ⟨none, some (-(k : Int))⟩) =
      ⟨206, some (natDigits (min k body.length)),
        some (contentRangeText (body.length - min k body.length) (body.length - 1) body.length),
        slice body (body.length - min k body.length) (body.length - 1)⟩ := by
    rw [hit_inside body _ hn hmax (by intro s hs; simp at hs) (by intro e he; simp at he; omega)
      (by simp only [emptySuffix, decide_eq_false_iff_not]; omega)]
    rw [window_slice _ body _ _ hst hsz (by omega)]
    simp only [ReqRange.contentRangeValue, hst, hen, hsz', itoa_natCast, contentRangeText]
  cases path with
  | hit => exact hhit
  | fill => simp only [respondParsed]; rw [respondFill_eq_hit body _ hn]; exact hhit

/-- … and the suffix of length zero is unsatisfiable: bare `416` on both paths, every non-empty body
    (former finding C15-b) -/
theorem range_suffix_zero_parsed (path : Path) (body : Bytes) (hn : body.length ≠ 0) :
    respondParsed path 200 (some (body.length : Int)) body (some ⟨none, some 0⟩) = bare 416 := by
  cases path with
  | hit => exact hit_emptySuffix body _ hn (by simp [emptySuffix])
  | fill =>
    simp only [respondParsed]
    rw [respondFill_eq_hit body _ hn]
    exact hit_emptySuffix body _ hn (by simp [emptySuffix])

/-- a parse fact for ALL header values: without the letter `b` (hence without `bytes=`) there is no range -/
theorem getRange_none_without_unit (v : Bytes) (h : 98 ∉ v) : getRangeValue v = none := by
  unfold getRangeValue
  split
  · rfl
  · unfold split
    rw [splitGo_bytesEq_none v [] h]

/-! ### non-vacuity -/

-- the hypotheses of `range_exact_partial` are met by ordinary requests, on both paths
example : inViewClass ⟨.hit, 200, some 6, b!"abcdef", some b!"bytes=1-3"⟩ = false := by decide
example : inViewClass ⟨.fill, 200, some 6, b!"abcdef", some b!"bytes=-2"⟩ = false := by decide
example : inViewClass ⟨.hit, 200, some 6, b!"abcdef", some b!"bytes=4-"⟩ = false := by decide
example : inViewClass ⟨.hit, 404, some 6, b!"abcdef", some b!"bytes=0-1,3-4"⟩ = false := by decide
example : inViewClass ⟨.fill, 200, none, b!"abcdef", none⟩ = false := by decide
-- … and the responses there are the non-trivial ones
example : respond .hit 200 (some 6) b!"abcdef" (some b!"bytes=1-3") = ⟨206, some b!"3", some b!"bytes 1-3/6", b!"bcd"⟩ := by decide
example : respond .fill 200 (some 6) b!"abcdef" (some b!"bytes=-2") = ⟨206, some b!"2", some b!"bytes 4-5/6", b!"ef"⟩ := by decide
example : respond .hit 200 (some 6) b!"abcdef" (some b!"bytes=4-") = ⟨206, some b!"2", some b!"bytes 4-5/6", b!"ef"⟩ := by decide
example : respond .hit 200 (some 6) b!"abcdef" (some b!"bytes=2-9") = bare 416 := by decide
example : textFromTo 1 3 = b!"bytes=1-3" ∧ textFrom 4 = b!"bytes=4-" ∧ textSuffix 2 = b!"bytes=-2" := by decide
-- the domain of the arithmetic lemma is inhabited by each of the three forms
example : InDomain 6 ⟨some 1, some 3⟩ ∧ InDomain 6 ⟨some 4, none⟩ ∧ InDomain 6 ⟨none, some (-2)⟩ ∧
    InDomain 6 ⟨none, some (-99)⟩ := by
  simp [InDomain, minInt64]
-- `Agrees` is not vacuous: the two parsers do meet on ordinary values
example : getRange (rangeOnlyHeader (some b!"bytes=1-3")) = some ⟨some 1, some 3⟩ ∧
    parseRange (some b!"bytes=1-3") = .fromTo 1 3 := by decide
example : getRange (rangeOnlyHeader (some b!"bytes=-2")) = some ⟨none, some (-2)⟩ ∧
    parseRange (some b!"bytes=-2") = .suffix 2 := by decide
-- the repaired suffix theorems on concrete values: `k` beyond the length, and the parser does produce these ranges
example : respondParsed .fill 200 (some 4) b!"abcd" (some ⟨none, some (-99)⟩) =
    ⟨206, some b!"4", some b!"bytes 0-3/4", b!"abcd"⟩ := by decide
example : getRange (rangeOnlyHeader (some b!"bytes=-99")) = some ⟨none, some (-99)⟩ ∧
    getRange (rangeOnlyHeader (some b!"bytes=-0")) = some ⟨none, some 0⟩ := by decide
-- `stored_full`: the rewrite on a concrete `206`
example : storeRewrite (respond .fill 200 (some 6) b!"abcdef" (some b!"bytes=1-3")) = (200, some b!"6") := by decide
-- parse facts
example : getRange (rangeOnlyHeader (some b!"items=0-1")) = none := by decide
example : getRange (rangeOnlyHeader (some b!"bytes=3-1")) = none := by decide
example : getRange (rangeOnlyHeader (some b!"bytes=0-99999999999999999999")) = none := by decide

end Props.C15
