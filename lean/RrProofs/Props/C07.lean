import RrModel.Spec.C07
import RrProofs.Lemmas.CodecAux
import RrProofs.Lemmas.StorePrep
/-
  C07 — A cache hit replays exactly what was stored.  Function level: the metadata codec
  (`encodeStorageMetadata` / `decodeStorageMetadata`) and the header preparation of
  `storageWriter.WriteHeader`.  Only property theorems, their local lemmas and non-vacuity examples.
-/
namespace Props.C07
open Go Model.Codec Spec.C07

/-! ## The codec round trip -/

/-- **C07 for the codec, as stated** (`codec_roundtrip` of DESIGN.md): whatever metadata is encoded — every name, every value, every
    repeated value, whatever bytes they contain — decoding the encoded form gives it back. -/
def Statement : Prop :=
  ∀ m : Meta, m.inRange = true → holdsCodec m (obsOf (decode (encode m))) = true

/-! ### It is false for the code: four witnesses (known finding C07-a), each by evaluation -/

def wMeta (resp : Header) : Meta :=
  { host := b!"h1.test", path := b!"/a", respHeader := resp, status := 200, created := 1700000000, size := 3 }

/-- two `Set-Cookie` lines -/
def wTwoCookies : Meta := wMeta [(b!"Set-Cookie", [b!"a=1", b!"b=2"])]
/-- a value in brackets -/
def wBrackets : Meta := wMeta [(b!"X-Json", [b!"[x]"])]
/-- a value containing `],` followed by something that looks like a header -/
def wInject : Meta := wMeta [(b!"X-A", [b!"a],X-Evil:[1"])]
/-- a value containing `|` -/
def wPipe : Meta := wMeta [(b!"Link", [b!"</a|b>; rel=next"])]
/-- an IPv6 redirect target (ends in `]`) next to an empty value -/
def wIPv6 : Meta := wMeta [(b!"Location", [b!"http://[::1]"]), (b!"Vary", [b!""])]

/-- the second `Set-Cookie` value is lost -/
theorem fails_witness_two_values :
    decode (encode wTwoCookies) = .ok (some (wMeta [(b!"Set-Cookie", [b!"a=1"])])) ∧
    holdsCodec wTwoCookies (obsOf (decode (encode wTwoCookies))) = false := by decide

/-- the brackets of `[x]` are lost: the hit serves `x` -/
theorem fails_witness_brackets :
    decode (encode wBrackets) = .ok (some (wMeta [(b!"X-Json", [b!"x"])])) ∧
    holdsCodec wBrackets (obsOf (decode (encode wBrackets))) = false := by decide

/-- a header the origin never sent (`X-Evil: 1`) is injected -/
theorem fails_witness_injection :
    decode (encode wInject) = .ok (some (wMeta [(b!"X-Evil", [b!"1"]), (b!"X-A", [b!"a"])])) ∧
    holdsCodec wInject (obsOf (decode (encode wInject))) = false := by decide

/-- a `|` in a value makes the entry undecodable -/
theorem fails_witness_pipe :
    decode (encode wPipe) = .ok none ∧ holdsCodec wPipe (obsOf (decode (encode wPipe))) = false := by decide

/-- `Location: http://[::1]` comes back as `http://[::1` -/
theorem fails_witness_ipv6 :
    decode (encode wIPv6) = .ok (some (wMeta [(b!"Vary", [b!""]), (b!"Location", [b!"http://[::1"])])) ∧
    holdsCodec wIPv6 (obsOf (decode (encode wIPv6))) = false := by decide

theorem Statement_false : ¬ Statement := by
  intro h
  have := h wInject (by decide)
  rw [fails_witness_injection.2] at this
  exact absurd this (by decide)

/-- every witness lies in the known-finding class (outside `Representable`) -/
example : [wTwoCookies, wBrackets, wInject, wPipe, wIPv6].all inClass_C07_a = true := by decide

/-! ### It holds on everything the format can represent -/

theorem encodeCustom_eq_join (m : Meta) :
    encodeCustom m = join [124] [m.host, m.path, headerToS m.reqHeader, headerToS m.respHeader,
      itoa m.status, m.redirect, itoa m.created, itoa m.revalidated, itoa m.size] := by
  simp [encodeCustom, join]

theorem pipe_not_mem_itoa (i : Int) : 124 ∉ itoa i := by
  intro h
  rcases mem_itoa h with h | h <;> omega

/-- the map the decoder rebuilds from the string written for `h` -/
def decodedHeader (h : Header) : Header :=
  (sortBytes (mapKeys h)).foldl (fun a k => a.set k (h.get k)) []

theorem inInt64_iff {i : Int} (h : inInt64 i = true) : minInt64 ≤ i ∧ i ≤ maxInt64 := by
  simpa [inInt64] using h

/-- the exact result of decoding an encoded representable entry: the same fields, and header
    maps rebuilt key by key in sorted order -/
theorem decode_encode_of_representable (m : Meta) (hr : m.inRange = true) (hrep : Representable m = true) :
    decode (encode m) = .ok (some { m with reqHeader := decodedHeader m.reqHeader,
                                           respHeader := decodedHeader m.respHeader }) := by
  simp only [Representable, Bool.and_eq_true, Bool.not_eq_true', List.contains_eq_mem,
    decide_eq_false_iff_not] at hrep
  obtain ⟨⟨⟨⟨hh, hp⟩, hrd⟩, hrq⟩, hrs⟩ := hrep
  simp only [Meta.inRange, Bool.and_eq_true] at hr
  obtain ⟨⟨⟨h1, h2⟩, h3⟩, h4⟩ := hr
  have hsplit : split1 124 (encode m) = [m.host, m.path, headerToS m.reqHeader, headerToS m.respHeader,
      itoa m.status, m.redirect, itoa m.created, itoa m.revalidated, itoa m.size] := by
    unfold encode
    rw [encodeCustom_eq_join]
    apply split1_join (by simp)
    intro p hp'
    simp only [List.mem_cons, List.not_mem_nil, or_false] at hp'
    rcases hp' with rfl | rfl | rfl | rfl | rfl | rfl | rfl | rfl | rfl
    · exact hh
    · exact hp
    · exact pipe_not_mem_headerToS hrq
    · exact pipe_not_mem_headerToS hrs
    · exact pipe_not_mem_itoa _
    · exact hrd
    · exact pipe_not_mem_itoa _
    · exact pipe_not_mem_itoa _
    · exact pipe_not_mem_itoa _
  unfold decode decodeCustom
  rw [hsplit]
  simp only [sToHeader_headerToS hrq, sToHeader_headerToS hrs, sToInt64,
    parseInt_itoa (inInt64_iff h1).1 (inInt64_iff h1).2, parseInt_itoa (inInt64_iff h2).1 (inInt64_iff h2).2,
    parseInt_itoa (inInt64_iff h3).1 (inInt64_iff h3).2, parseInt_itoa (inInt64_iff h4).1 (inInt64_iff h4).2]
  rfl

/-- **C07 for the codec, partial (finding C07-a).**  For every metadata value that is
    `Representable` — every header name has exactly one value; names are canonical, contain no `:`,
    no `|`, no `],` and do not start with `{`/`}`; values contain no `|` and no `],` and neither
    start nor end with `[` or `]`; host, path and redirect URL contain no `|` — decoding the encoded
    entry succeeds and returns the same host, path, status, redirect URL and numbers, and header
    maps with the same value list under every key.  Any number of headers, any lengths.
    What is missing for the full statement is exactly the complement of `Representable`. -/
theorem codec_roundtrip_partial (m : Meta) (hr : m.inRange = true) (hrep : inClass_C07_a m = false) :
    ∃ m', decode (encode m) = .ok (some m') ∧
      m'.host = m.host ∧ m'.path = m.path ∧ m'.status = m.status ∧ m'.redirect = m.redirect ∧
      m'.created = m.created ∧ m'.revalidated = m.revalidated ∧ m'.size = m.size ∧
      (∀ k, Header.vals m'.reqHeader k = Header.vals m.reqHeader k) ∧
      (∀ k, Header.vals m'.respHeader k = Header.vals m.respHeader k) := by
  have hrep' : Representable m = true := by simpa [inClass_C07_a] using hrep
  refine ⟨_, decode_encode_of_representable m hr hrep', rfl, rfl, rfl, rfl, rfl, rfl, rfl, ?_, ?_⟩
  · simp only [Representable, Bool.and_eq_true] at hrep'
    exact vals_decoded hrep'.1.2
  · simp only [Representable, Bool.and_eq_true] at hrep'
    exact vals_decoded hrep'.2

/-- the same, through the oracle: `Statement` restricted to the complement of class C07-a -/
theorem codec_roundtrip_holds_partial (m : Meta) (hr : m.inRange = true) (hrep : inClass_C07_a m = false) :
    holdsCodec m (obsOf (decode (encode m))) = true := by
  obtain ⟨m', hd, e1, e2, e3, e4, e5, e6, e7, e8, e9⟩ := codec_roundtrip_partial m hr hrep
  rw [hd]
  simp only [obsOf, holdsCodec, sameMeta, Bool.and_eq_true, beq_iff_eq]
  refine ⟨⟨⟨⟨⟨⟨⟨⟨e1, e2⟩, e3⟩, e4⟩, e5⟩, e6⟩, e7⟩, ?_⟩, ?_⟩
  · exact sameHeader_iff.2 (fun k => (e8 k).symm)
  · exact sameHeader_iff.2 (fun k => (e9 k).symm)

/-! Non-vacuity: an ordinary response with commas, spaces, `=`, `/`, `;`, `:`, quotes, digits,
    braces and inner brackets is representable, and a request header map as well. -/
def exMeta : Meta :=
  { host := b!"h1.test:8080", path := b!"/img/a.png?x=1&y=%7C",
    reqHeader := [(b!"Accept-Encoding", [b!"gzip, br"])],
    respHeader := [(b!"Content-Type", [b!"text/html; charset=utf-8"]),
                   (b!"Cache-Control", [b!"max-age=60, public"]),
                   (b!"Etag", [b!"W/\"abc-123\""]),
                   (b!"Set-Cookie", [b!"sid=abc; Path=/; Max-Age=3600"]),
                   (b!"Last-Modified", [b!"Mon, 02 Jan 2006 15:04:05 GMT"]),
                   (b!"X-Json", [b!"{\"b\":\"x\",\"a\":[1,2]}"]),
                   (b!"X-Empty", [b!""]),
                   (b!"Link", [b!"<https://h1.test/x>; rel=\"next\""])],
    status := 200, redirect := b!"https://h2.test/a?next=1", created := 1700000000,
    revalidated := -1, size := 9223372036854775807 }

example : exMeta.inRange = true ∧ inClass_C07_a exMeta = false := by decide
set_option maxRecDepth 100000 in
example : holdsCodec exMeta (obsOf (decode (encode exMeta))) = true := by decide

/-! ### A `|` never makes the decoder misreport: the entry is undecodable instead -/

theorem decodeCustom_badLength {bs : Bytes} (h : (split1 124 bs).length ≠ 9) :
    decodeCustom bs = .ok (.err .badLength) := by
  unfold decodeCustom
  split
  · rename_i heq
    rw [heq] at h
    simp at h
  · rfl

theorem pipe_mem_headerToS {h : Header} (hp : pipeInHeader h = true) : 124 ∈ headerToS h := by
  simp only [pipeInHeader, List.any_eq_true, Bool.or_eq_true, List.contains_eq_mem, decide_eq_true_eq] at hp
  obtain ⟨k, hk, hkv⟩ := hp
  unfold headerToS
  have hne : (mapKeys h).isEmpty = false := by
    cases hm : mapKeys h with
    | nil => rw [hm] at hk; simp at hk
    | cons _ _ => rfl
  simp only [hne, Bool.false_eq_true, if_false, List.mem_append]
  refine Or.inl (Or.inr ?_)
  apply mem_join_of_mem (p := item h k)
  · exact List.mem_map.2 ⟨k, mem_sortBytes.2 hk, rfl⟩
  · simp only [item, List.mem_append]
    rcases hkv with hkv | hkv
    · exact Or.inl (Or.inl (Or.inl hkv))
    · exact Or.inl (Or.inr hkv)

theorem count_pipe_encode (m : Meta) :
    (encode m).count 124 = 8 + m.host.count 124 + m.path.count 124 + (headerToS m.reqHeader).count 124 +
      (headerToS m.respHeader).count 124 + m.redirect.count 124 := by
  have hi : ∀ i : Int, (itoa i).count 124 = 0 := fun i => List.count_eq_zero.2 (pipe_not_mem_itoa i)
  simp only [encode, encodeCustom, List.count_append, hi, List.count_cons, List.count_nil]
  simp
  omega

/-- **undecodable, not misreported.**  If a `|` occurs anywhere in what the encoder emits — host,
    path, redirect URL, a header name, or the (first) value of a header — the encoded entry has more
    than nine `|`-separated parts and decoding returns an error: the entry is lost (a miss), it is
    never decoded into different metadata. -/
theorem undecodable_is_error (m : Meta) (hp : hasPipe m = true) : decode (encode m) = .ok none := by
  have hlen : (split1 124 (encode m)).length ≠ 9 := by
    rw [length_split1, count_pipe_encode]
    simp only [hasPipe, Bool.or_eq_true, List.contains_eq_mem, decide_eq_true_eq] at hp
    have pos : ∀ {l : Bytes}, 124 ∈ l → 0 < l.count 124 := fun h => List.count_pos_iff.2 h
    rcases hp with (((hp | hp) | hp) | hp) | hp
    · have := pos hp; omega
    · have := pos hp; omega
    · have := pos hp; omega
    · have := pos (pipe_mem_headerToS hp); omega
    · have := pos (pipe_mem_headerToS hp); omega
  unfold decode
  rw [decodeCustom_badLength hlen]

example : hasPipe wPipe = true := by decide
example : hasPipe { wPipe with respHeader := [(b!"X|y", [b!"v"])] } = true := by decide

/-! ### The decoder's run-time panic is not reachable from entries the encoder wrote -/

/-- **no panic on own output.**  For EVERY metadata value (representable or not), decoding what
    the encoder wrote returns a value or an error; the slice `p[:len(p)-1]` of `sToHeader`
    (`Res.panic`) can only be reached by xattr bytes that did not come from `encodeCustom`
    (stream `codec.raw` reaches it, e.g. `{a:[b],}`). -/
theorem decode_encode_never_panics (m : Meta) : ∃ r, decode (encode m) = .ok r := by
  by_cases hlen : (split1 124 (encode m)).length = 9
  · -- exactly nine parts: no `|` in any field, so the parts are the fields
    have hc := count_pipe_encode m
    rw [length_split1] at hlen
    have z : ∀ {l : Bytes}, l.count 124 = 0 → 124 ∉ l := fun h => List.count_eq_zero.1 h
    have hsplit : split1 124 (encode m) = [m.host, m.path, headerToS m.reqHeader, headerToS m.respHeader,
        itoa m.status, m.redirect, itoa m.created, itoa m.revalidated, itoa m.size] := by
      unfold encode
      rw [encodeCustom_eq_join]
      apply split1_join (by simp)
      intro p hp'
      simp only [List.mem_cons, List.not_mem_nil, or_false] at hp'
      rcases hp' with rfl | rfl | rfl | rfl | rfl | rfl | rfl | rfl | rfl
      · exact z (by omega)
      · exact z (by omega)
      · exact z (by omega)
      · exact z (by omega)
      · exact pipe_not_mem_itoa _
      · exact z (by omega)
      · exact pipe_not_mem_itoa _
      · exact pipe_not_mem_itoa _
      · exact pipe_not_mem_itoa _
    obtain ⟨r1, h1⟩ := sToHeader_headerToS_no_panic [] m.reqHeader
    obtain ⟨r2, h2⟩ := sToHeader_headerToS_no_panic [] m.respHeader
    unfold decode decodeCustom
    rw [hsplit]
    simp only [h1, h2]
    cases r1 with
    | err e => exact ⟨_, rfl⟩
    | val a =>
      cases r2 with
      | err e => exact ⟨_, rfl⟩
      | val b =>
        simp only
        cases sToInt64 (itoa m.status) <;> cases sToInt64 (itoa m.created) <;>
          cases sToInt64 (itoa m.revalidated) <;> cases sToInt64 (itoa m.size) <;> exact ⟨_, rfl⟩
  · exact ⟨none, by unfold decode; rw [decodeCustom_badLength hlen]⟩

/-- the panic itself is real: a foreign xattr value whose header field ends in `],` reaches it -/
example : sToHeader [] b!"{a:[b],}" = .panic "disk.go:85 p[:len(p)-1]" := by decide
example : decode b!"h|/p|{}|{a:[b],}|200||0|0|0" = .panic "disk.go:85 p[:len(p)-1]" := by decide

/-! ## What `storageWriter.WriteHeader` keeps of the header map it is given -/

theorem isCacheableError_iff (s : Int) : isCacheableError s = true ↔ 400 ≤ s ∧ s ≤ 404 := by
  simp only [isCacheableError, Facts.cacheableErrorLo, Facts.cacheableErrorHi, Bool.and_eq_true]
  constructor
  · intro ⟨a, b⟩; exact ⟨by simpa using of_decide_eq_true a, by simpa using of_decide_eq_true b⟩
  · intro ⟨a, b⟩; exact ⟨decide_eq_true (by simpa using a), decide_eq_true (by simpa using b)⟩

set_option linter.unusedSimpArgs false in
/-- **store-time preparation, key by key.**  For every status, every ETag suffix setting and every
    header map with at most one `Etag` line, the map that is stored holds under every key exactly
    what the documented differences allow: nothing under `Richie-Edge-Cache`; the ETag with the
    suffix stripped (an empty ETag untouched); the fixed 60-second `Cache-Control` when the status is
    400–404; under every other key the value list it was given, unchanged. -/
theorem store_transform (suffix : Option Bytes) (s : Int) (h : Header)
    (hetag : (Header.vals h b!"Etag").length ≤ 1) (k : Bytes) :
    Header.vals (storePrep suffix s h) k = expectedStored suffix s h k := by
  have hcc : canon b!"cache-control" = b!"Cache-Control" := by decide
  have het : canon b!"etag" = b!"Etag" := by decide
  have hlit : Facts.cacheable4xxCacheControl = Spec.cacheable4xxCacheControl := rfl
  -- the first ETag value as `WriteHeader` reads it, after the override and the first deny
  have hget : ∀ h1 : Header, (∀ k, k = b!"Etag" → Header.vals h1 k = Header.vals h k) →
      (denyHeaders h1 [Facts.cacheStatusHeader]).get b!"etag" = (Header.vals h b!"Etag").headD [] := by
    intro h1 hh
    simp only [Header.get, Header.values, het, vals_denyHeaders]
    rw [if_neg (by decide), hh _ rfl]
  unfold storePrep expectedStored
  by_cases hc : isCacheableError s = true
  · have hc' := (isCacheableError_iff s).1 hc
    simp only [hc, if_true]
    rw [hget _ (fun k hk => by rw [vals_set, hcc, hk]; simp)]
    by_cases hk1 : k = b!"Richie-Edge-Cache"
    · simp [hk1, vals_denyHeaders]
    · by_cases hk2 : k = b!"Etag"
      · subst hk2
        match hv : Header.vals h b!"Etag", hetag with
        | [], _ => simp [vals_denyHeaders, vals_set, hcc, het, hv]
        | [e], _ =>
          by_cases he : e = []
          · simp [vals_denyHeaders, vals_set, hcc, het, hv, he]
          · have : e.length > 0 := List.length_pos_iff.2 he
            simp [vals_denyHeaders, vals_set, hcc, het, hv, he, this, stripETagSuffix_eq]
      · by_cases hk3 : k = b!"Cache-Control"
        · subst hk3
          split <;> simp [vals_denyHeaders, vals_set, hcc, het, hlit, hc'.1, hc'.2]
        · split <;> simp [vals_denyHeaders, vals_set, hcc, het, hk1, hk2, hk3]
  · have hc' : ¬ (400 ≤ s ∧ s ≤ 404) := fun e => hc ((isCacheableError_iff s).2 e)
    simp only [hc, Bool.false_eq_true, if_false]
    rw [hget _ (fun _ _ => rfl)]
    by_cases hk1 : k = b!"Richie-Edge-Cache"
    · simp [hk1, vals_denyHeaders]
    · by_cases hk2 : k = b!"Etag"
      · subst hk2
        match hv : Header.vals h b!"Etag", hetag with
        | [], _ => simp [vals_denyHeaders, vals_set, het, hv]
        | [e], _ =>
          by_cases he : e = []
          · simp [vals_denyHeaders, vals_set, het, hv, he]
          · have : e.length > 0 := List.length_pos_iff.2 he
            simp [vals_denyHeaders, vals_set, het, hv, he, this, stripETagSuffix_eq]
      · have : ¬ (k = b!"Cache-Control" ∧ 400 ≤ s ∧ s ≤ 404) := fun e => hc' e.2
        split <;> simp [vals_denyHeaders, vals_set, het, hk1, hk2, this]

/-- the same through the oracle used on the implementation -/
theorem store_transform_holds (suffix : Option Bytes) (s : Int) (h : Header)
    (hetag : (Header.vals h b!"Etag").length ≤ 1) :
    holdsStore suffix s h (storePrep suffix s h) = true := by
  unfold holdsStore
  simp only [List.all_eq_true, beq_iff_eq]
  intro k _
  exact store_transform suffix s h hetag k

/-- every header other than the three documented ones is stored exactly as given -/
theorem store_keeps_other_headers (suffix : Option Bytes) (s : Int) (h : Header) (k : Bytes)
    (h1 : k ≠ b!"Richie-Edge-Cache") (h2 : k ≠ b!"Etag") (h3 : k ≠ b!"Cache-Control") :
    Header.vals (storePrep suffix s h) k = Header.vals h k := by
  have hcc : canon b!"cache-control" = b!"Cache-Control" := by decide
  have het : canon b!"etag" = b!"Etag" := by decide
  unfold storePrep
  simp only [vals_denyHeaders, h1, if_false]
  split <;> split <;> simp [vals_set, vals_denyHeaders, hcc, het, h1, h2, h3]

/-! Non-vacuity and the quirks: a 404 with suffix `-rr`; a second `Etag` line is dropped (outside
    the hypothesis of `store_transform`; the codec keeps first values only anyway, C07-a); a raw
    lower-case `richie-edge-cache` key (as server.go:272 builds one) survives `DenyHeaders`. -/
example : storePrep (some b!"-rr") 404
      [(b!"Etag", [b!"\"abc-rr\""]), (b!"Richie-Edge-Cache", [b!"miss"]), (b!"Cache-Control", [b!"no-cache"]),
       (b!"Content-Type", [b!"text/html"])]
    = [(b!"Etag", [b!"\"abc\""]), (b!"Cache-Control", [b!"s-maxage=60, max-age=60"]),
       (b!"Content-Type", [b!"text/html"])] := by decide
example : Header.vals (storePrep none 200 [(b!"Etag", [b!"a", b!"b"])]) b!"Etag" = [b!"a"] := by decide
example : Header.vals (storePrep none 200 [(b!"richie-edge-cache", [b!"uncacheable"])]) b!"richie-edge-cache"
    = [b!"uncacheable"] := by decide

end Props.C07
