import RrModel.Freshness
import RrModel.Spec.C09Get
import RrProofs.Lemmas.Etag
/-
  C09, clause "a client receives 304 only if it sent a matching validator; a client that sent
  no validator never receives 304" — at the level of `cache.Get` (caching.go:238-265).
  (The revalidation-304 path of the handler, finding C09-b, is System level.)
-/
namespace Props.C09Get
open Go Model Model.Freshness Spec.C09Get

/-- **the clause as stated**: for every stored entry, clock, rule setting, client validators and
    configured suffix (a non-empty token without a double quote), a 304 decision implies that
    the client sent a matching validator. -/
def Statement : Prop :=
  ∀ (m : Entry) (now : Int) (force : Nat) (skip : Bool) (inm ims : Bytes) (suffix : Option Bytes),
    suffixOk suffix = true →
    Freshness.decide m now force skip inm ims suffix = .ok .notModified304 →
    validatorMatches suffix inm ims m.header = true

/-! ## Regression instances: the former finding C09-a

  `normalizeEtag` used to be `strings.TrimLeft(s, "W/")`, a CUTSET trim, so unquoted entity-tags
  that differ by leading `W` / `/` characters compared equal and the client was answered 304 for
  a tag that does not match.  Repaired by a `fix:` commit (`strings.TrimPrefix`); the three
  witnesses of the finding (stream kf.C09-a) are now served in full. -/

/-- stored `Etag: abc`, client `If-None-Match: Wabc`: `Wabc` and `abc` are different entity-tags;
    the model (like the repaired code) no longer answers 304 (it used to: `TrimLeft("Wabc","W/")`
    is `abc`) and the oracle accepts the full answer -/
example :
    Freshness.decide { header := [(b!"Etag", [b!"abc"])], created := 1700000000, revalidated := 0 }
        1700000001 0 false b!"Wabc" [] none = .ok (.fresh 1) ∧
    validatorMatches none b!"Wabc" [] [(b!"Etag", [b!"abc"])] = false ∧
    holds none b!"Wabc" [] [(b!"Etag", [b!"abc"])] false = true := by
  decide +kernel

/-- stored `Etag: /abc`, client `If-None-Match: abc` -/
example :
    Freshness.decide { header := [(b!"Etag", [b!"/abc"])], created := 1700000000, revalidated := 0 }
        1700000001 0 false b!"abc" [] none = .ok (.fresh 1) ∧
    validatorMatches none b!"abc" [] [(b!"Etag", [b!"/abc"])] = false := by
  decide +kernel

/-- stored `Etag: Wabc`, `ETAG_SUFFIX=-rr`, client `If-None-Match: W/abc-rr`: the client's tag is
    trimmed to `abc-rr` and cut to `abc`; the STORED tag `Wabc` now stays `Wabc` -/
example :
    suffixOk (some b!"-rr") = true ∧
    Freshness.decide { header := [(b!"Etag", [b!"Wabc"])], created := 1700000000, revalidated := 0 }
        1700000001 0 false b!"W/abc-rr" [] (some b!"-rr") = .ok (.fresh 1) ∧
    validatorMatches (some b!"-rr") b!"W/abc-rr" [] [(b!"Etag", [b!"Wabc"])] = false := by
  decide +kernel

/-- … while the weak form of the very same unquoted tag still matches, with and without suffix -/
example :
    Freshness.decide { header := [(b!"Etag", [b!"Wabc"])], created := 1700000000, revalidated := 0 }
        1700000001 0 false b!"W/Wabc" [] none = .ok .notModified304 ∧
    validatorMatches none b!"W/Wabc" [] [(b!"Etag", [b!"Wabc"])] = true ∧
    Freshness.decide { header := [(b!"Etag", [b!"Wabc"])], created := 1700000000, revalidated := 0 }
        1700000001 0 false b!"W/Wabc-rr" [] (some b!"-rr") = .ok .notModified304 ∧
    validatorMatches (some b!"-rr") b!"W/Wabc-rr" [] [(b!"Etag", [b!"Wabc"])] = true := by
  decide +kernel

/-! ## From the decision back to the validator comparison -/

/-- the tail of `decide` (revalidate / stale / fresh) is never the 304 answer -/
theorem tail_ne_304 (sr' isStale : Bool) (r : Bool) (age : Int) :
    (if sr' = true then Res.ok (Decision.revalidate r age)
      else Res.ok (if isStale = true then Decision.staleServe age else Decision.fresh age))
      ≠ .ok .notModified304 := by
  cases sr' <;> cases isStale <;> simp

/-- `decide` answers 304 only through `clientCheck = ok true` (caching.go:238-265) -/
theorem decide_304_clientCheck {m : Entry} {now : Int} {force : Nat} {skip : Bool}
    {inm ims : Bytes} {suffix : Option Bytes}
    (h : Freshness.decide m now force skip inm ims suffix = .ok .notModified304) :
    clientCheck suffix inm ims m.header = .ok true := by
  unfold Freshness.decide at h
  simp only [] at h
  cases hsr : shouldRevalidate m now force with
  | true =>
    rw [hsr] at h
    rw [if_neg (by decide)] at h
    exact absurd h (tail_ne_304 _ _ _ _)
  | false =>
    rw [hsr] at h
    rw [if_pos (by decide)] at h
    cases hcc : clientCheck suffix inm ims m.header with
    | panic s => rw [hcc] at h; cases h
    | ok b =>
      cases b with
      | true => rfl
      | false =>
        rw [hcc] at h
        exact absurd h (tail_ne_304 _ _ _ _)

/-- `get` answers `found304` only when the top-level `decide` is `notModified304`; the
    stale-while-revalidate re-entry turns a 304 into `foundNoReader` -/
theorem get_304_decide {lockHeld : Bool} {m : Entry} {now : Int} {force : Nat} {skip : Bool}
    {inm ims : Bytes} {suffix : Option Bytes} {a : Int}
    (h : Freshness.get lockHeld m now force skip inm ims suffix = .ok (.found304 a)) :
    Freshness.decide m now force skip inm ims suffix = .ok .notModified304 := by
  unfold Freshness.get at h
  simp only [] at h
  cases hd : Freshness.decide m now force skip inm ims suffix with
  | panic s => rw [hd] at h; cases h
  | ok d =>
    cases d with
    | notModified304 => rfl
    | fresh x => rw [hd] at h; cases h
    | staleServe x => rw [hd] at h; cases h
    | revalidate swr x =>
      exfalso
      rw [hd] at h
      simp only [] at h
      cases lockHeld with
      | false => cases h
      | true =>
        cases swr with
        | false => cases h
        | true =>
          simp only [↓reduceIte] at h
          cases hd2 : Freshness.decide m now 0 true inm ims suffix with
          | panic s => rw [hd2] at h; cases h
          | ok d2 => cases d2 <;> (rw [hd2] at h; cases h)

/-! ## The ETag comparison -/

/-- `normalizeEtag` (`strings.TrimPrefix(·, "W/")` since the repair of C09-a) IS the opaque-tag of
    the specification -/
theorem normalizeEtag_eq_opaqueTag (t : Bytes) : normalizeEtag t = opaqueTag t := rfl

/-- a tag is an optional literal `W/` followed by its opaque-tag; without the `W/` the tag does
    not start with `W/` -/
theorem tag_decomp (t : Bytes) :
    ∃ p : Bytes, t = p ++ opaqueTag t ∧ ((p = [] ∧ hasPrefix t b!"W/" = false) ∨ p = b!"W/") := by
  by_cases hp : hasPrefix t b!"W/" = true
  · obtain ⟨t', ht'⟩ := (hasPrefix_iff _ _).1 hp
    subst ht'
    have ho : opaqueTag (b!"W/" ++ t') = t' := by
      unfold opaqueTag; rw [if_pos hp]; rfl
    exact ⟨b!"W/", by rw [ho], Or.inr rfl⟩
  · have ho : opaqueTag t = t := by unfold opaqueTag; rw [if_neg hp]
    exact ⟨[], by rw [ho]; rfl, Or.inl ⟨rfl, by simpa using hp⟩⟩

/-- a string that does not start with `W/` still does not after its tail `w` has been replaced
    by nothing or by a double quote -/
theorem hasPrefix_W_cut {x w r : Bytes} (h : hasPrefix (x ++ w) b!"W/" = false)
    (hr : r = [] ∨ r = [34]) : hasPrefix (x ++ r) b!"W/" = false := by
  match x, h with
  | [], _ => rcases hr with hr | hr <;> subst hr <;> decide
  | [a], _ => rcases hr with hr | hr <;> subst hr <;> simp [hasPrefix, List.isPrefixOf]
  | a :: b :: x', h =>
    simpa [hasPrefix, List.isPrefixOf] using h

/-- the candidate of `Spec.C09Get.stripCandidates` — the optional `W/`, the part `x` in front of
    the suffix, the closing quote if there was one — has the opaque-tag `x` (+ quote) -/
theorem opaqueTag_candidate {t p x w r : Bytes} (ht : t = p ++ (x ++ w))
    (hp : (p = [] ∧ hasPrefix t b!"W/" = false) ∨ p = b!"W/")
    (hr : r = [] ∨ r = [34]) : opaqueTag (p ++ (x ++ r)) = x ++ r := by
  rcases hp with ⟨hp, hpre⟩ | hp
  · subst hp
    subst ht
    rw [List.nil_append] at hpre ⊢
    have := hasPrefix_W_cut hpre hr
    unfold opaqueTag
    rw [if_neg (by rw [this]; decide)]
  · subst hp
    have : hasPrefix (b!"W/" ++ (x ++ r)) b!"W/" = true := (hasPrefix_iff _ _).2 ⟨x ++ r, rfl⟩
    unfold opaqueTag
    rw [if_pos this]
    rfl

theorem dropRight_append (y w : Bytes) {n : Nat} (hn : n = w.length) :
    dropRight n (y ++ w) = y := by
  subst hn
  unfold dropRight
  rw [List.length_append, Nat.add_sub_cancel, List.take_left]

theorem suffixOk_some {tok : Bytes} (h : suffixOk (some tok) = true) : tok ≠ [] ∧ 34 ∉ tok := by
  simp only [suffixOk, Bool.and_eq_true, bne_iff_ne, ne_eq, Bool.not_eq_eq_eq_not, Bool.not_true] at h
  refine ⟨h.1, ?_⟩
  intro hm
  have : tok.contains 34 = true := List.contains_iff_mem.2 hm
  rw [h.2] at this
  cases this

/-- **the If-None-Match comparison is sound**: `etagCheck = ok true` implies the declarative weak
    match with the suffix removed, for all tags (no class excluded since the repair of C09-a). -/
theorem etagCheck_sound {suffix : Option Bytes} {inm s : Bytes}
    (hs : suffixOk suffix = true)
    (h : etagCheck suffix inm s = .ok true) : etagMatches suffix inm s = true := by
  obtain ⟨p, hinm, hp⟩ := tag_decomp inm
  have hS : normalizeEtag s = opaqueTag s := normalizeEtag_eq_opaqueTag s
  have hn : normalizeEtag inm = opaqueTag inm := normalizeEtag_eq_opaqueTag inm
  generalize opaqueTag inm = c at hinm hn
  cases suffix with
  | none =>
    unfold etagCheck at h
    simp only [Res.ok.injEq, beq_iff_eq] at h
    unfold etagMatches stripCandidates
    simp only [List.any_cons, List.any_nil, Bool.or_false, beq_iff_eq]
    rw [← hS, ← h, normalizeEtag_eq_opaqueTag]
  | some tok =>
    obtain ⟨hne, h34⟩ := suffixOk_some hs
    unfold etagCheck at h
    simp only [hn, hS] at h
    by_cases hsuf : (hasSuffix inm tok || hasSuffix inm (tok ++ [34])) = true
    · rw [if_pos hsuf] at h
      cases hidx : lastIndex tok c with
      | none => rw [hidx] at h; cases h
      | some idx =>
        rw [hidx] at h
        simp only [Res.ok.injEq, beq_iff_eq] at h
        unfold etagMatches
        rw [List.any_eq_true]
        rw [Bool.or_eq_true] at hsuf
        rcases hsuf with hsuf | hsuf
        · -- the client's tag ends in the suffix
          have hsuf' : tok ++ [] <:+ p ++ c := by
            rw [List.append_nil, ← hinm]; exact (hasSuffix_iff _ _).1 hsuf
          obtain ⟨x, hx, hxl⟩ := lastIndex_of_suffix (z := 34) hne h34 (Or.inl rfl) hsuf' hidx
          rw [List.append_nil] at hx
          have hq : hasSuffix c [34] = false := by
            cases hq : hasSuffix c [34] with
            | false => rfl
            | true =>
              exfalso
              exact h34 (mem_of_suffix_of_suffix hne ⟨x, hx.symm⟩ ((hasSuffix_iff _ _).1 hq))
          rw [hq] at h
          simp only [Bool.false_eq_true, ↓reduceIte] at h
          have htake : c.take idx = x := by rw [hx]; exact List.take_left' hxl
          rw [htake] at h
          have hox : opaqueTag (p ++ x) = x := by
            have := opaqueTag_candidate (r := []) (hinm.trans (by rw [hx])) hp (Or.inl rfl)
            rwa [List.append_nil] at this
          refine ⟨p ++ x, ?_, ?_⟩
          · unfold stripCandidates
            simp only [hsuf, ↓reduceIte]
            apply List.mem_append_left
            rw [List.mem_singleton, hinm, hx, ← List.append_assoc]
            exact (dropRight_append _ _ rfl).symm
          · rw [hox, h]
            exact beq_self_eq_true _
        · -- the client's tag ends in the suffix followed by a quote
          have hsuf' : tok ++ [34] <:+ p ++ c := by
            rw [← hinm]; exact (hasSuffix_iff _ _).1 hsuf
          obtain ⟨x, hx, hxl⟩ := lastIndex_of_suffix (z := 34) hne h34 (Or.inr rfl) hsuf' hidx
          have hq : hasSuffix c [34] = true := by
            rw [hx]; exact hasSuffix_append _ _
          rw [hq] at h
          simp only [↓reduceIte] at h
          have htake : c.take idx = x := by
            rw [hx, List.append_assoc]; exact List.take_left' hxl
          rw [htake] at h
          have hox : opaqueTag (p ++ (x ++ [34])) = x ++ [34] :=
            opaqueTag_candidate (w := tok ++ [34]) (hinm.trans (by rw [hx, List.append_assoc])) hp
              (Or.inr rfl)
          refine ⟨p ++ (x ++ [34]), ?_, ?_⟩
          · unfold stripCandidates
            simp only [hsuf, ↓reduceIte]
            apply List.mem_append_right
            rw [List.mem_singleton, hinm, hx]
            have : p ++ (x ++ tok ++ [34]) = (p ++ x) ++ (tok ++ [34]) := by
              simp only [List.append_assoc]
            rw [this, dropRight_append _ _ (by simp), List.append_assoc]
          · rw [hox, h]
            exact beq_self_eq_true _
    · rw [if_neg hsuf] at h
      cases h

/-- the client-validator comparison is sound -/
theorem clientCheck_sound {suffix : Option Bytes} {inm ims : Bytes} {stored : Header}
    (hs : suffixOk suffix = true)
    (h : clientCheck suffix inm ims stored = .ok true) :
    validatorMatches suffix inm ims stored = true := by
  unfold clientCheck at h
  unfold validatorMatches
  by_cases h1 : inm.length > 0
  · rw [if_pos h1] at h
    have hne : inm ≠ [] := List.length_pos_iff.1 h1
    rw [etagCheck_sound hs h]
    simp [hne]
  · rw [if_neg h1] at h
    by_cases h2 : ims.length > 0
    · rw [if_pos h2] at h
      have hne : ims ≠ [] := List.length_pos_iff.1 h2
      simp only [Res.ok.injEq, beq_iff_eq] at h
      rw [h]
      simp [hne]
    · rw [if_neg h2] at h
      cases h

/-! ## The clause at full strength -/

/-- the entry of the non-vacuity examples: a quoted ETag and a Last-Modified date, stored one
    second before the request, no freshness information (never due for revalidation) -/
def exEntry : Entry :=
  { header := [(b!"Etag", [b!"\"abc\""]), (b!"Last-Modified", [b!"Mon, 02 Jan 2006 15:04:05 GMT"])],
    created := 1700000000, revalidated := 0 }

/-- an entry with an UNQUOTED ETag -/
def exEntryBare : Entry :=
  { header := [(b!"Etag", [b!"abc"])], created := 1700000000, revalidated := 0 }

/-- an entry with an unquoted ETag whose opaque part starts with `W` (the former class C09-a) -/
def exEntryBareW : Entry :=
  { header := [(b!"Etag", [b!"Wabc"])], created := 1700000000, revalidated := 0 }

/-- an entry that may be served stale while it is revalidated -/
def exEntrySwr : Entry :=
  { header := [(b!"Etag", [b!"\"abc\""]), (b!"Cache-Control", [b!"stale-while-revalidate=60"])],
    created := 1700000000, revalidated := 0 }

/-- **C09, client-304 clause — at full strength** (no class excluded since the repair of C09-a,
    whose extra hypothesis `inClass_C09_a … = false` this theorem used to carry as
    `client_304_only_if_match_partial`): for every stored entry, clock, rule setting, client
    validators and configured suffix (a non-empty token without a double quote), a 304 decision
    of `cache.Get` implies that the client sent a matching validator. -/
theorem client_304_only_if_match : Statement := by
  intro m now force skip inm ims suffix hs h
  exact clientCheck_sound hs (decide_304_clientCheck h)

/-! non-vacuity of `client_304_only_if_match`: concrete instances satisfying both hypotheses
    (and hence the conclusion) — suffix inside the quotes of a weak tag, suffix after the closing
    quote, no suffix configured, unquoted tags (also one that starts with `W`), and
    If-Modified-Since equal to the stored Last-Modified -/
example :
    suffixOk (some b!"-rr") = true ∧
    Freshness.decide exEntry 1700000001 0 false b!"W/\"abc-rr\"" [] (some b!"-rr")
      = .ok .notModified304 ∧
    validatorMatches (some b!"-rr") b!"W/\"abc-rr\"" [] exEntry.header = true := by
  decide +kernel
example :
    Freshness.decide exEntry 1700000001 0 false b!"\"abc\"-rr" [] (some b!"-rr")
      = .ok .notModified304 := by
  decide +kernel
example :
    suffixOk none = true ∧
    Freshness.decide exEntry 1700000001 0 false b!"W/\"abc\"" [] none = .ok .notModified304 := by
  decide +kernel
example :
    Freshness.decide exEntryBare 1700000001 0 false b!"abc-rr" [] (some b!"-rr")
      = .ok .notModified304 := by
  decide +kernel
example :
    Freshness.decide exEntryBareW 1700000001 0 false b!"Wabc-rr" [] (some b!"-rr")
      = .ok .notModified304 ∧
    validatorMatches (some b!"-rr") b!"Wabc-rr" [] exEntryBareW.header = true := by
  decide +kernel
example :
    Freshness.decide exEntry 1700000001 0 false [] b!"Mon, 02 Jan 2006 15:04:05 GMT" (some b!"-rr")
      = .ok .notModified304 ∧
    validatorMatches (some b!"-rr") [] b!"Mon, 02 Jan 2006 15:04:05 GMT" exEntry.header = true := by
  decide +kernel
/-! … and the comparison does discriminate: a tag without the required suffix, a different tag,
    a different date, and unquoted tags that differ by a leading `W` or `/` (the former finding
    C09-a) are not answered 304 -/
example :
    Freshness.decide exEntry 1700000001 0 false b!"W/\"abc\"" [] (some b!"-rr") = .ok (.fresh 1) ∧
    Freshness.decide exEntry 1700000001 0 false b!"\"abd-rr\"" [] (some b!"-rr") = .ok (.fresh 1) ∧
    Freshness.decide exEntry 1700000001 0 false [] b!"Mon, 02 Jan 2006 15:04:06 GMT" none
      = .ok (.fresh 1) ∧
    Freshness.decide exEntryBare 1700000001 0 false b!"Wabc" [] none = .ok (.fresh 1) ∧
    Freshness.decide exEntryBare 1700000001 0 false b!"/abc" [] none = .ok (.fresh 1) ∧
    Freshness.decide exEntryBareW 1700000001 0 false b!"abc" [] none = .ok (.fresh 1) := by
  decide +kernel

/-- the same through `cache.Get` with its lock-dependent tail: `found304` only arises from the
    top-level decision (full strength; was `get_304_only_if_match_partial`) -/
theorem get_304_only_if_match :
    ∀ (lockHeld : Bool) (m : Entry) (now : Int) (force : Nat) (skip : Bool) (inm ims : Bytes)
      (suffix : Option Bytes) (a : Int),
      suffixOk suffix = true →
      Freshness.get lockHeld m now force skip inm ims suffix = .ok (.found304 a) →
      validatorMatches suffix inm ims m.header = true := by
  intro lockHeld m now force skip inm ims suffix a hs h
  exact client_304_only_if_match m now force skip inm ims suffix hs (get_304_decide h)

/-! non-vacuity of `get_304_only_if_match`: `found304` is reached; and the re-entry of
    caching.go:299 (forced revalidation due, key locked, stale-while-revalidate allowed) turns
    the 304 of the inner `Get` into `foundNoReader`, never into `found304` -/
example :
    suffixOk (some b!"-rr") = true ∧
    Freshness.get false exEntry 1700000001 0 false b!"W/\"abc-rr\"" [] (some b!"-rr")
      = .ok (.found304 1) := by
  decide +kernel
example :
    Freshness.decide exEntrySwr 1700000005 1 false b!"\"abc\"" [] none = .ok (.revalidate true 5) ∧
    Freshness.decide exEntrySwr 1700000005 0 true b!"\"abc\"" [] none = .ok .notModified304 ∧
    Freshness.get true exEntrySwr 1700000005 1 false b!"\"abc\"" [] none
      = .ok (.foundNoReader 5) := by
  decide +kernel

/-- the oracle `Spec.C09Get.holds` accepts the model's decision on every input of the domain -/
theorem holds_model :
    ∀ (m : Entry) (now : Int) (force : Nat) (skip : Bool) (inm ims : Bytes) (suffix : Option Bytes),
      suffixOk suffix = true →
      holds suffix inm ims m.header
        (Freshness.decide m now force skip inm ims suffix == .ok .notModified304) = true := by
  intro m now force skip inm ims suffix hs
  unfold holds
  cases hd : (Freshness.decide m now force skip inm ims suffix == .ok .notModified304) with
  | false => rfl
  | true =>
    have := client_304_only_if_match m now force skip inm ims suffix hs (by simpa using hd)
    simp [this]

/-! ## No validator, no 304 — full strength -/

/-- **C09, "a client that sent no validator never receives 304"** — for every entry, clock,
    rule setting and suffix configuration, without any side condition. -/
theorem no_validator_no_304 :
    ∀ (m : Entry) (now : Int) (force : Nat) (skip : Bool) (suffix : Option Bytes),
      Freshness.decide m now force skip [] [] suffix ≠ .ok .notModified304 := by
  intro m now force skip suffix h
  have := decide_304_clientCheck h
  cases this

/-! non-vacuity of `no_validator_no_304`: the very entry and clock for which a validator IS
    answered 304 is served in full without one -/
example :
    Freshness.decide exEntry 1700000001 0 false b!"\"abc\"" [] none = .ok .notModified304 ∧
    Freshness.decide exEntry 1700000001 0 false [] [] none = .ok (.fresh 1) ∧
    Freshness.decide exEntry 1700000001 0 false [] [] (some b!"-rr") = .ok (.fresh 1) := by
  decide +kernel

/-- the same through `cache.Get` with its lock-dependent tail -/
theorem no_validator_no_304_get :
    ∀ (lockHeld : Bool) (m : Entry) (now : Int) (force : Nat) (skip : Bool)
      (suffix : Option Bytes) (a : Int),
      Freshness.get lockHeld m now force skip [] [] suffix ≠ .ok (.found304 a) := by
  intro lockHeld m now force skip suffix a h
  exact no_validator_no_304 m now force skip suffix (get_304_decide h)

example :
    Freshness.get false exEntry 1700000001 0 false [] [] none = .ok (.foundFresh 1) ∧
    Freshness.get true exEntrySwr 1700000005 1 false [] [] none = .ok (.foundFresh 5) := by
  decide +kernel

end Props.C09Get
