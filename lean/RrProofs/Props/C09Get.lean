import RrModel.Freshness
import RrModel.Spec.C09Get
import RrProofs.Lemmas.Etag
/-
  C09, clause "a client receives 304 only if it sent a matching validator; a client that sent
  no validator never receives 304" — at the level of `cache.Get` (caching.go:238-265).
  (The revalidation-304 path of the handler, finding C09-b, is System level.)
-/
namespace Props.C09Get
open Go Model Model.Freshness Spec.C09Get

/-- **the clause as stated**: for every stored entry, clock, rule setting, client validators and
    configured suffix (a non-empty token without a double quote), a 304 decision implies that
    the client sent a matching validator. -/
def Statement : Prop :=
  ∀ (m : Entry) (now : Int) (force : Nat) (skip : Bool) (inm ims : Bytes) (suffix : Option Bytes),
    suffixOk suffix = true →
    Freshness.decide m now force skip inm ims suffix = .ok .notModified304 →
    validatorMatches suffix inm ims m.header = true

/-! ## Finding C09-a: the clause as stated is false -/

/-- **C09-a, witness without a suffix.**  Stored `Etag: abc`, client `If-None-Match: Wabc`:
    `strings.TrimLeft("Wabc", "W/")` is `abc`, so the client is answered 304 although `Wabc`
    and `abc` are different entity-tags. -/
theorem fails_witness_a :
    Freshness.decide { header := [(b!"Etag", [b!"abc"])], created := 1700000000, revalidated := 0 }
        1700000001 0 false b!"Wabc" [] none = .ok .notModified304 ∧
    validatorMatches none b!"Wabc" [] [(b!"Etag", [b!"abc"])] = false := by
  decide +kernel

/-- **C09-a, witness with a configured suffix.**  Stored `Etag: Wabc`, `ETAG_SUFFIX=-rr`, client
    `If-None-Match: W/abc-rr`: the client's tag is trimmed to `abc-rr`, cut to `abc`, and the
    STORED tag `Wabc` is trimmed to `abc` as well. -/
theorem fails_witness_a_suffix :
    suffixOk (some b!"-rr") = true ∧
    Freshness.decide { header := [(b!"Etag", [b!"Wabc"])], created := 1700000000, revalidated := 0 }
        1700000001 0 false b!"W/abc-rr" [] (some b!"-rr") = .ok .notModified304 ∧
    validatorMatches (some b!"-rr") b!"W/abc-rr" [] [(b!"Etag", [b!"Wabc"])] = false := by
  decide +kernel

/-- both witnesses lie in the declared class of the finding -/
example : inClass_C09_a b!"Wabc" b!"abc" = true ∧ inClass_C09_a b!"W/abc-rr" b!"Wabc" = true := by
  decide

theorem Statement_false : ¬ Statement := by
  intro h
  have hw := fails_witness_a
  have := h _ _ _ _ _ _ _ rfl hw.1
  rw [hw.2] at this
  exact Bool.false_ne_true this

/-! ## From the decision back to the validator comparison -/

/-- the tail of `decide` (revalidate / stale / fresh) is never the 304 answer -/
theorem tail_ne_304 (sr' isStale : Bool) (r : Bool) (age : Int) :
    (if sr' = true then Res.ok (Decision.revalidate r age)
      else Res.ok (if isStale = true then Decision.staleServe age else Decision.fresh age))
      ≠ .ok .notModified304 := by
  cases sr' <;> cases isStale <;> simp

/-- `decide` answers 304 only through `clientCheck = ok true` (caching.go:238-265) -/
theorem decide_304_clientCheck {m : Entry} {now : Int} {force : Nat} {skip : Bool}
    {inm ims : Bytes} {suffix : Option Bytes}
    (h : Freshness.decide m now force skip inm ims suffix = .ok .notModified304) :
    clientCheck suffix inm ims m.header = .ok true := by
  unfold Freshness.decide at h
  simp only [] at h
  cases hsr : shouldRevalidate m now force with
  | true =>
    rw [hsr] at h
    rw [if_neg (by decide)] at h
    exact absurd h (tail_ne_304 _ _ _ _)
  | false =>
    rw [hsr] at h
    rw [if_pos (by decide)] at h
    cases hcc : clientCheck suffix inm ims m.header with
    | panic s => rw [hcc] at h; cases h
    | ok b =>
      cases b with
      | true => rfl
      | false =>
        rw [hcc] at h
        exact absurd h (tail_ne_304 _ _ _ _)

/-- `get` answers `found304` only when the top-level `decide` is `notModified304`; the
    stale-while-revalidate re-entry turns a 304 into `foundNoReader` -/
theorem get_304_decide {lockHeld : Bool} {m : Entry} {now : Int} {force : Nat} {skip : Bool}
    {inm ims : Bytes} {suffix : Option Bytes} {a : Int}
    (h : Freshness.get lockHeld m now force skip inm ims suffix = .ok (.found304 a)) :
    Freshness.decide m now force skip inm ims suffix = .ok .notModified304 := by
  unfold Freshness.get at h
  simp only [] at h
  cases hd : Freshness.decide m now force skip inm ims suffix with
  | panic s => rw [hd] at h; cases h
  | ok d =>
    cases d with
    | notModified304 => rfl
    | fresh x => rw [hd] at h; cases h
    | staleServe x => rw [hd] at h; cases h
    | revalidate swr x =>
      exfalso
      rw [hd] at h
      simp only [] at h
      cases lockHeld with
      | false => cases h
      | true =>
        cases swr with
        | false => cases h
        | true =>
          simp only [↓reduceIte] at h
          cases hd2 : Freshness.decide m now 0 true inm ims suffix with
          | panic s => rw [hd2] at h; cases h
          | ok d2 => cases d2 <;> (rw [hd2] at h; cases h)

/-! ## The ETag comparison outside the class of C09-a -/

/-- a tag on which the cutset trim equals the prefix trim: an optional literal `W/`, then a
    rest that is empty or starts with neither `W` nor `/`; both trims give that rest -/
theorem not_quirk_decomp {t : Bytes} (h : cutsetQuirk t = false) :
    ∃ p c : Bytes, t = p ++ c ∧ (p = [] ∨ p = b!"W/") ∧ clean b!"W/" c = true ∧
      trimLeft b!"W/" t = c ∧ opaqueTag t = c := by
  have heq : trimLeft b!"W/" t = opaqueTag t := by
    unfold cutsetQuirk at h
    cases hb : (trimLeft b!"W/" t != opaqueTag t) with
    | true => rw [hb] at h; cases h
    | false => simpa using hb
  by_cases hp : hasPrefix t b!"W/" = true
  · obtain ⟨t', ht'⟩ := (hasPrefix_iff _ _).1 hp
    subst ht'
    have ho : opaqueTag (b!"W/" ++ t') = t' := by
      unfold opaqueTag; rw [if_pos hp]; rfl
    have htl : trimLeft b!"W/" (b!"W/" ++ t') = trimLeft b!"W/" t' := by
      show trimLeft [87, 47] (87 :: 47 :: t') = _
      rw [trimLeft, if_pos (by decide), trimLeft, if_pos (by decide)]
    rw [ho, htl] at heq
    exact ⟨b!"W/", t', rfl, Or.inr rfl, clean_of_trimLeft_eq heq, by rw [htl, heq], ho⟩
  · have ho : opaqueTag t = t := by unfold opaqueTag; rw [if_neg hp]
    rw [ho] at heq
    exact ⟨[], t, rfl, Or.inl rfl, clean_of_trimLeft_eq heq, heq, ho⟩

/-- putting the optional `W/` back in front of a rest that starts with neither `W` nor `/`
    and taking the opaque-tag gives the rest -/
theorem opaqueTag_append {p z : Bytes} (hp : p = [] ∨ p = b!"W/") (hz : clean b!"W/" z = true) :
    opaqueTag (p ++ z) = z := by
  rcases hp with hp | hp
  · subst hp
    rw [List.nil_append]
    unfold opaqueTag
    have : ¬ hasPrefix z b!"W/" = true := by
      intro hpre
      obtain ⟨w, hw⟩ := (hasPrefix_iff _ _).1 hpre
      subst hw
      simp [clean] at hz
    rw [if_neg this]
  · subst hp
    have : hasPrefix (b!"W/" ++ z) b!"W/" = true := (hasPrefix_iff _ _).2 ⟨z, rfl⟩
    unfold opaqueTag
    rw [if_pos this]
    rfl

theorem dropRight_append (y w : Bytes) {n : Nat} (hn : n = w.length) :
    dropRight n (y ++ w) = y := by
  subst hn
  unfold dropRight
  rw [List.length_append, Nat.add_sub_cancel, List.take_left]

theorem suffixOk_some {tok : Bytes} (h : suffixOk (some tok) = true) : tok ≠ [] ∧ 34 ∉ tok := by
  simp only [suffixOk, Bool.and_eq_true, bne_iff_ne, ne_eq, Bool.not_eq_eq_eq_not, Bool.not_true] at h
  refine ⟨h.1, ?_⟩
  intro hm
  have : tok.contains 34 = true := List.contains_iff_mem.2 hm
  rw [h.2] at this
  cases this

/-- **the If-None-Match comparison is sound outside C09-a**: when neither tag is one on which
    the cutset trim misbehaves, `etagCheck = ok true` implies the declarative weak match with
    the suffix removed. -/
theorem etagCheck_sound {suffix : Option Bytes} {inm s : Bytes}
    (hs : suffixOk suffix = true) (hc : inClass_C09_a inm s = false)
    (h : etagCheck suffix inm s = .ok true) : etagMatches suffix inm s = true := by
  unfold inClass_C09_a at hc
  rw [Bool.or_eq_false_iff] at hc
  obtain ⟨p, c, hinm, hp, hclean, htrim, hopq⟩ := not_quirk_decomp hc.1
  obtain ⟨_, _, _, _, _, htrimS, hopqS⟩ := not_quirk_decomp hc.2
  have hS : normalizeEtag s = opaqueTag s := by unfold normalizeEtag; rw [htrimS, hopqS]
  have hn : normalizeEtag inm = c := htrim
  cases suffix with
  | none =>
    unfold etagCheck at h
    simp only [Res.ok.injEq, beq_iff_eq] at h
    unfold etagMatches stripCandidates
    simp only [List.any_cons, List.any_nil, Bool.or_false, beq_iff_eq]
    rw [hopq, ← hS, ← h, hn]
  | some tok =>
    obtain ⟨hne, h34⟩ := suffixOk_some hs
    unfold etagCheck at h
    simp only [hn, hS] at h
    by_cases hsuf : (hasSuffix inm tok || hasSuffix inm (tok ++ [34])) = true
    · rw [if_pos hsuf] at h
      cases hidx : lastIndex tok c with
      | none => rw [hidx] at h; cases h
      | some idx =>
        rw [hidx] at h
        simp only [Res.ok.injEq, beq_iff_eq] at h
        unfold etagMatches
        rw [List.any_eq_true]
        rw [Bool.or_eq_true] at hsuf
        rcases hsuf with hsuf | hsuf
        · -- the client's tag ends in the suffix
          have hsuf' : tok ++ [] <:+ p ++ c := by
            rw [List.append_nil, ← hinm]; exact (hasSuffix_iff _ _).1 hsuf
          obtain ⟨x, hx, hxl⟩ := lastIndex_of_suffix (z := 34) hne h34 (Or.inl rfl) hsuf' hidx
          rw [List.append_nil] at hx
          have hq : hasSuffix c [34] = false := by
            cases hq : hasSuffix c [34] with
            | false => rfl
            | true =>
              exfalso
              exact h34 (mem_of_suffix_of_suffix hne ⟨x, hx.symm⟩ ((hasSuffix_iff _ _).1 hq))
          rw [hq] at h
          simp only [Bool.false_eq_true, ↓reduceIte] at h
          have htake : c.take idx = x := by rw [hx]; exact List.take_left' hxl
          rw [htake] at h
          have hcx : clean b!"W/" x = true := by
            have := clean_append_of_clean (r := []) (hx ▸ hclean) rfl
            rwa [List.append_nil] at this
          refine ⟨p ++ x, ?_, ?_⟩
          · unfold stripCandidates
            simp only [hsuf, ↓reduceIte]
            apply List.mem_append_left
            rw [List.mem_singleton, hinm, hx, ← List.append_assoc]
            exact (dropRight_append _ _ rfl).symm
          · rw [opaqueTag_append hp hcx, h]
            exact beq_self_eq_true _
        · -- the client's tag ends in the suffix followed by a quote
          have hsuf' : tok ++ [34] <:+ p ++ c := by
            rw [← hinm]; exact (hasSuffix_iff _ _).1 hsuf
          obtain ⟨x, hx, hxl⟩ := lastIndex_of_suffix (z := 34) hne h34 (Or.inr rfl) hsuf' hidx
          have hq : hasSuffix c [34] = true := by
            rw [hx]; exact hasSuffix_append _ _
          rw [hq] at h
          simp only [↓reduceIte] at h
          have htake : c.take idx = x := by
            rw [hx, List.append_assoc]; exact List.take_left' hxl
          rw [htake] at h
          have hcx : clean b!"W/" (x ++ [34]) = true := by
            rw [hx, List.append_assoc] at hclean
            exact clean_append_of_clean hclean (by decide)
          refine ⟨p ++ (x ++ [34]), ?_, ?_⟩
          · unfold stripCandidates
            simp only [hsuf, ↓reduceIte]
            apply List.mem_append_right
            rw [List.mem_singleton, hinm, hx]
            have : p ++ (x ++ tok ++ [34]) = (p ++ x) ++ (tok ++ [34]) := by
              simp only [List.append_assoc]
            rw [this, dropRight_append _ _ (by simp), List.append_assoc]
          · rw [opaqueTag_append hp hcx, h]
            exact beq_self_eq_true _
    · rw [if_neg hsuf] at h
      cases h

/-- the client-validator comparison is sound outside C09-a -/
theorem clientCheck_sound {suffix : Option Bytes} {inm ims : Bytes} {stored : Header}
    (hs : suffixOk suffix = true) (hc : inClass_C09_a inm (stored.get b!"etag") = false)
    (h : clientCheck suffix inm ims stored = .ok true) :
    validatorMatches suffix inm ims stored = true := by
  unfold clientCheck at h
  unfold validatorMatches
  by_cases h1 : inm.length > 0
  · rw [if_pos h1] at h
    have hne : inm ≠ [] := List.length_pos_iff.1 h1
    rw [etagCheck_sound hs hc h]
    simp [hne]
  · rw [if_neg h1] at h
    by_cases h2 : ims.length > 0
    · rw [if_pos h2] at h
      have hne : ims ≠ [] := List.length_pos_iff.1 h2
      simp only [Res.ok.injEq, beq_iff_eq] at h
      rw [h]
      simp [hne]
    · rw [if_neg h2] at h
      cases h

/-! ## The clause, outside the class of finding C09-a -/

/-- the entry of the non-vacuity examples: a quoted ETag and a Last-Modified date, stored one
    second before the request, no freshness information (never due for revalidation) -/
def exEntry : Entry :=
  { header := [(b!"Etag", [b!"\"abc\""]), (b!"Last-Modified", [b!"Mon, 02 Jan 2006 15:04:05 GMT"])],
    created := 1700000000, revalidated := 0 }

/-- an entry with an UNQUOTED ETag that is outside the class all the same -/
def exEntryBare : Entry :=
  { header := [(b!"Etag", [b!"abc"])], created := 1700000000, revalidated := 0 }

/-- an entry that may be served stale while it is revalidated -/
def exEntrySwr : Entry :=
  { header := [(b!"Etag", [b!"\"abc\""]), (b!"Cache-Control", [b!"stale-while-revalidate=60"])],
    created := 1700000000, revalidated := 0 }

/-- **C09, client-304 clause — PARTIAL** because of finding C09-a (`normalizeEtag` is a cutset
    trim, `fails_witness_a`).  The extra hypothesis is exactly the complement of the declared
    class `inClass_C09_a`: on neither the client's tag nor the stored tag does
    `strings.TrimLeft(·, "W/")` differ from removing one `W/` prefix.  Under it, a 304 decision
    of `cache.Get` implies that the client sent a matching validator. -/
theorem client_304_only_if_match_partial :
    ∀ (m : Entry) (now : Int) (force : Nat) (skip : Bool) (inm ims : Bytes) (suffix : Option Bytes),
      suffixOk suffix = true →
      inClass_C09_a inm (m.header.get b!"etag") = false →
      Freshness.decide m now force skip inm ims suffix = .ok .notModified304 →
      validatorMatches suffix inm ims m.header = true := by
  intro m now force skip inm ims suffix hs hc h
  exact clientCheck_sound hs hc (decide_304_clientCheck h)

/-! non-vacuity of `client_304_only_if_match_partial`: concrete instances satisfying all three
    hypotheses (and hence the conclusion) — suffix inside the quotes of a weak tag, suffix after
    the closing quote, no suffix configured, an unquoted tag outside the class, and
    If-Modified-Since equal to the stored Last-Modified -/
example :
    suffixOk (some b!"-rr") = true ∧
    inClass_C09_a b!"W/\"abc-rr\"" (exEntry.header.get b!"etag") = false ∧
    Freshness.decide exEntry 1700000001 0 false b!"W/\"abc-rr\"" [] (some b!"-rr")
      = .ok .notModified304 ∧
    validatorMatches (some b!"-rr") b!"W/\"abc-rr\"" [] exEntry.header = true := by
  decide +kernel
example :
    inClass_C09_a b!"\"abc\"-rr" (exEntry.header.get b!"etag") = false ∧
    Freshness.decide exEntry 1700000001 0 false b!"\"abc\"-rr" [] (some b!"-rr")
      = .ok .notModified304 := by
  decide +kernel
example :
    suffixOk none = true ∧
    inClass_C09_a b!"W/\"abc\"" (exEntry.header.get b!"etag") = false ∧
    Freshness.decide exEntry 1700000001 0 false b!"W/\"abc\"" [] none = .ok .notModified304 := by
  decide +kernel
example :
    inClass_C09_a b!"abc-rr" (exEntryBare.header.get b!"etag") = false ∧
    Freshness.decide exEntryBare 1700000001 0 false b!"abc-rr" [] (some b!"-rr")
      = .ok .notModified304 := by
  decide +kernel
example :
    inClass_C09_a [] (exEntry.header.get b!"etag") = false ∧
    Freshness.decide exEntry 1700000001 0 false [] b!"Mon, 02 Jan 2006 15:04:05 GMT" (some b!"-rr")
      = .ok .notModified304 ∧
    validatorMatches (some b!"-rr") [] b!"Mon, 02 Jan 2006 15:04:05 GMT" exEntry.header = true := by
  decide +kernel
/-! … and the comparison does discriminate: a tag without the required suffix, a different tag
    and a different date are not answered 304 -/
example :
    Freshness.decide exEntry 1700000001 0 false b!"W/\"abc\"" [] (some b!"-rr") = .ok (.fresh 1) ∧
    Freshness.decide exEntry 1700000001 0 false b!"\"abd-rr\"" [] (some b!"-rr") = .ok (.fresh 1) ∧
    Freshness.decide exEntry 1700000001 0 false [] b!"Mon, 02 Jan 2006 15:04:06 GMT" none
      = .ok (.fresh 1) := by
  decide +kernel

/-- the same through `cache.Get` with its lock-dependent tail: `found304` only arises from the
    top-level decision (PARTIAL, finding C09-a) -/
theorem get_304_only_if_match_partial :
    ∀ (lockHeld : Bool) (m : Entry) (now : Int) (force : Nat) (skip : Bool) (inm ims : Bytes)
      (suffix : Option Bytes) (a : Int),
      suffixOk suffix = true →
      inClass_C09_a inm (m.header.get b!"etag") = false →
      Freshness.get lockHeld m now force skip inm ims suffix = .ok (.found304 a) →
      validatorMatches suffix inm ims m.header = true := by
  intro lockHeld m now force skip inm ims suffix a hs hc h
  exact client_304_only_if_match_partial m now force skip inm ims suffix hs hc (get_304_decide h)

/-! non-vacuity of `get_304_only_if_match_partial`: `found304` is reached; and the re-entry of
    caching.go:299 (forced revalidation due, key locked, stale-while-revalidate allowed) turns
    the 304 of the inner `Get` into `foundNoReader`, never into `found304` -/
example :
    suffixOk (some b!"-rr") = true ∧
    inClass_C09_a b!"W/\"abc-rr\"" (exEntry.header.get b!"etag") = false ∧
    Freshness.get false exEntry 1700000001 0 false b!"W/\"abc-rr\"" [] (some b!"-rr")
      = .ok (.found304 1) := by
  decide +kernel
example :
    Freshness.decide exEntrySwr 1700000005 1 false b!"\"abc\"" [] none = .ok (.revalidate true 5) ∧
    Freshness.decide exEntrySwr 1700000005 0 true b!"\"abc\"" [] none = .ok .notModified304 ∧
    Freshness.get true exEntrySwr 1700000005 1 false b!"\"abc\"" [] none
      = .ok (.foundNoReader 5) := by
  decide +kernel

/-! ### well-formed tags are outside the class -/

/-- a syntactically well-formed entity-tag (RFC 9110 §8.8.3: `[W/] DQUOTE … DQUOTE`) as far as
    its beginning goes, or no tag at all -/
def wellFormedTag (t : Bytes) : Bool :=
  t.isEmpty || hasPrefix t b!"\"" || hasPrefix t b!"W/\""

/-- a tag that is empty, starts with `"` or starts with `W/"` is not affected by the cutset trim -/
theorem wellFormed_not_in_class (t : Bytes)
    (h : t = [] ∨ (∃ r, t = 34 :: r) ∨ (∃ r, t = 87 :: 47 :: 34 :: r)) :
    cutsetQuirk t = false := by
  rcases h with h | ⟨r, h⟩ | ⟨r, h⟩
  · subst h; decide
  · subst h
    have h1 : trimLeft b!"W/" (34 :: r) = 34 :: r := by
      rw [trimLeft, if_neg (by decide)]
    have h2 : opaqueTag (34 :: r) = 34 :: r := by
      unfold opaqueTag
      rw [if_neg]
      intro hp
      obtain ⟨w, hw⟩ := (hasPrefix_iff _ _).1 hp
      simp at hw
    unfold cutsetQuirk
    rw [h1, h2]
    simp
  · subst h
    have h1 : trimLeft b!"W/" (87 :: 47 :: 34 :: r) = 34 :: r := by
      rw [trimLeft, if_pos (by decide), trimLeft, if_pos (by decide), trimLeft, if_neg (by decide)]
    have h2 : opaqueTag (87 :: 47 :: 34 :: r) = 34 :: r := by
      have hp : hasPrefix (87 :: 47 :: 34 :: r) b!"W/" = true :=
        (hasPrefix_iff _ _).2 ⟨34 :: r, rfl⟩
      unfold opaqueTag
      rw [if_pos hp]
      rfl
    unfold cutsetQuirk
    rw [h1, h2]
    simp

/-! non-vacuity of `wellFormed_not_in_class`, and the class is not empty -/
example : cutsetQuirk [] = false ∧ cutsetQuirk b!"\"Wabc\"" = false ∧
    cutsetQuirk b!"W/\"/abc\"" = false ∧ cutsetQuirk b!"Wabc" = true ∧
    cutsetQuirk b!"W/W/\"abc\"" = true := by decide

theorem wellFormedTag_iff (t : Bytes) :
    wellFormedTag t = true ↔
      (t = [] ∨ (∃ r, t = 34 :: r) ∨ (∃ r, t = 87 :: 47 :: 34 :: r)) := by
  unfold wellFormedTag
  rw [Bool.or_eq_true, Bool.or_eq_true, hasPrefix_iff, hasPrefix_iff, List.isEmpty_iff, or_assoc]
  constructor
  · rintro (h | ⟨r, h⟩ | ⟨r, h⟩)
    · exact Or.inl h
    · exact Or.inr (Or.inl ⟨r, h.symm⟩)
    · exact Or.inr (Or.inr ⟨r, h.symm⟩)
  · rintro (h | ⟨r, h⟩ | ⟨r, h⟩)
    · exact Or.inl h
    · exact Or.inr (Or.inl ⟨r, h.symm⟩)
    · exact Or.inr (Or.inr ⟨r, h.symm⟩)

theorem wellFormedTag_not_quirk {t : Bytes} (h : wellFormedTag t = true) : cutsetQuirk t = false :=
  wellFormed_not_in_class t ((wellFormedTag_iff t).1 h)

/-- **C09, client-304 clause for well-formed tags**: when the client's If-None-Match value and
    the stored ETag are each absent or begin like an entity-tag (`"` or `W/"`), a 304 decision
    implies a matching validator.  (Corollary of the partial theorem; the remaining gap to the
    clause as stated is finding C09-a.) -/
theorem client_304_only_if_match_wellformed :
    ∀ (m : Entry) (now : Int) (force : Nat) (skip : Bool) (inm ims : Bytes) (suffix : Option Bytes),
      suffixOk suffix = true →
      wellFormedTag inm = true →
      wellFormedTag (m.header.get b!"etag") = true →
      Freshness.decide m now force skip inm ims suffix = .ok .notModified304 →
      validatorMatches suffix inm ims m.header = true := by
  intro m now force skip inm ims suffix hs h1 h2 h
  refine client_304_only_if_match_partial m now force skip inm ims suffix hs ?_ h
  unfold inClass_C09_a
  rw [wellFormedTag_not_quirk h1, wellFormedTag_not_quirk h2]
  rfl

/-! non-vacuity of `client_304_only_if_match_wellformed` -/
example :
    suffixOk (some b!"-rr") = true ∧
    wellFormedTag b!"W/\"abc-rr\"" = true ∧
    wellFormedTag (exEntry.header.get b!"etag") = true ∧
    Freshness.decide exEntry 1700000001 0 false b!"W/\"abc-rr\"" [] (some b!"-rr")
      = .ok .notModified304 := by
  decide +kernel
example : wellFormedTag [] = true ∧ wellFormedTag b!"\"abc\"" = true ∧
    wellFormedTag b!"Wabc" = false ∧ wellFormedTag b!"abc" = false := by decide

/-! ## No validator, no 304 — full strength -/

/-- **C09, "a client that sent no validator never receives 304"** — for every entry, clock,
    rule setting and suffix configuration, without any side condition. -/
theorem no_validator_no_304 :
    ∀ (m : Entry) (now : Int) (force : Nat) (skip : Bool) (suffix : Option Bytes),
      Freshness.decide m now force skip [] [] suffix ≠ .ok .notModified304 := by
  intro m now force skip suffix h
  have := decide_304_clientCheck h
  cases this

/-! non-vacuity of `no_validator_no_304`: the very entry and clock for which a validator IS
    answered 304 is served in full without one -/
example :
    Freshness.decide exEntry 1700000001 0 false b!"\"abc\"" [] none = .ok .notModified304 ∧
    Freshness.decide exEntry 1700000001 0 false [] [] none = .ok (.fresh 1) ∧
    Freshness.decide exEntry 1700000001 0 false [] [] (some b!"-rr") = .ok (.fresh 1) := by
  decide +kernel

/-- the same through `cache.Get` with its lock-dependent tail -/
theorem no_validator_no_304_get :
    ∀ (lockHeld : Bool) (m : Entry) (now : Int) (force : Nat) (skip : Bool)
      (suffix : Option Bytes) (a : Int),
      Freshness.get lockHeld m now force skip [] [] suffix ≠ .ok (.found304 a) := by
  intro lockHeld m now force skip suffix a h
  exact no_validator_no_304 m now force skip suffix (get_304_decide h)

example :
    Freshness.get false exEntry 1700000001 0 false [] [] none = .ok (.foundFresh 1) ∧
    Freshness.get true exEntrySwr 1700000005 1 false [] [] none = .ok (.foundFresh 5) := by
  decide +kernel

end Props.C09Get
