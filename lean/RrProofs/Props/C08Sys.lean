import RrProofs.Props.SysCache
import RrProofs.Props.C08
import RrProofs.Lemmas.Fresh
import RrProofs.Lemmas.C08Sys
/-
  C08 at SYSTEM level — "served from the cache only while fresh, and then without origin traffic" —
  over the sequential system model `Model.SysCache` (one activation `stepOnce`, the whole request
  `cachingFunc`, histories `run`).  Every theorem is stated for an ARBITRARY disk, clock, origin map
  and request, hence holds in every state of every history (`run_all`, `history_*`).

    1. `found_rows_done`            the found rows never contact the origin and never write
    2. `no_contact_is_found_row`    an activation without a contact is a found row; `other_method_contacts`
    3. `served_without_contact`     answered without a contact ⇒ from an entry NOT due for revalidation
    4. `served_without_contact_is_fresh_partial`   … ⇒ `Spec.C08.isFresh` outside class C08-a
                                    (`ServedWithoutContactIsFreshStatement_false`: finding C08-a on a disk)
    5. `fresh_not_contacted`(`_partial`)  not due (fresh outside class C08-b) ⇒ no contact, no write
                                    (`FreshNotContactedStatement_false`: finding C08-b on a disk)
       `stepOnce_reenter_skip`, `stepOnce_reenter_skip_true`, `stepOnce_reenterLocked`   where the
                                    re-entries of `cachingFunc` come from (all with `skipRevalidate = true`)
       `stale_served_only_within_allowances`   a `…:stale` answer only after a revalidation IN THIS REQUEST
                                    that failed inside stale-if-error, or that the origin confirmed (304):
                                    recorded, or unrecorded (disk writes disabled: key held by the request)
                                    (`StaleOnlyAfterFailedRevalidationStatement_false`: the stale-if-error
                                    clause alone is false)
    6. `run_all`, `history_*`       the lift to histories
-/
namespace Props.C08Sys
open Go Model Model.SysCache Props.SysCache Lemmas.C08Sys

/-! ### concrete instances for the non-vacuity examples -/

/-- a disk with one file: `body` under the key string `h1.test/a`, metadata `m` (as `Codec.encode` writes it) -/
def diskOf (m : Codec.Meta) (body : Bytes) : Disk :=
  Disk.empty.upd b!"h1.test/a" (some { body := body, xattr := some (Codec.encode m) })

/-- `GET /a` without request headers -/
def exGet : Request := { method := b!"GET", path := b!"a", header := [] }
def exHead : Request := { exGet with method := b!"HEAD" }
def exPost : Request := { exGet with method := b!"POST" }
/-- `GET /a` with `If-Modified-Since: x` -/
def exGetIms : Request := { exGet with header := [(b!"If-Modified-Since", [b!"x"])] }
/-- `GET /a` with `Authorization: k` (disk writes disabled) -/
def exGetAuth : Request := { exGet with header := [(b!"Authorization", [b!"k"])] }

/-- `max-age=60, stale-if-error=300, stale-while-revalidate=90`, `Last-Modified: x`, filled at 1700000000 -/
def exMeta : Codec.Meta :=
  { host := b!"h1.test", path := b!"/a",
    respHeader := [(b!"Cache-Control", [b!"max-age=60, stale-if-error=300, stale-while-revalidate=90"]),
                   (b!"Last-Modified", [b!"x"])],
    status := 200, created := 1700000000, size := 2 }
def exDisk : Disk := diskOf exMeta b!"hi"

def noOrigin : Bytes → Option Origin := fun _ => none
/-- an origin that answers 503 -/
def badOrigin : Bytes → Option Origin := fun _ => some { status := 503, headers := [], body := b!"no" }
/-- an origin that answers 200 `max-age=60`, and 304 to `If-None-Match: "v"` -/
def condOrigin : Bytes → Option Origin :=
  fun _ => some { status := 200, headers := [(b!"Cache-Control", b!"max-age=60"), (b!"ETag", b!"\"v\"")],
                  body := b!"hi", cond := true }

example : IsGetHead exGet ∧ IsGetHead exHead ∧ ¬ IsGetHead exPost := by decide

/-! ### 1. the found rows never contact the origin and never write -/

/-- **found_rows_done**: when `cache.Get` answers with a found row (panic, 304, or the stored copy)
    the activation ends the request, logs no contact, and leaves the disk as `storage.Get` left it -/
theorem found_rows_done (cfg : Config) (origin : Bytes → Option Origin) (now : Int) (req : Request)
    (d : Disk) (client ai : Header) (skip : Bool) (cs : List Contact) (hm : IsGetHead req)
    (hf : Lookup.isFound (lookup cfg now (keysOf cfg req client) d client skip).2 = true) :
    ∃ a, stepOnce cfg origin now req d client ai skip cs = .done a ∧ a.contacts = cs
      ∧ a.disk = (storageGet d (keysOf cfg req client)).1 ∧ Shrinks a.disk d := by
  rw [stepOnce_getHead _ _ _ _ _ _ _ _ _ hm]
  have h1 := lookup_fst cfg now (keysOf cfg req client) d client skip
  have h2 := storageGet_shrinks (keysOf cfg req client) d
  generalize lookup cfg now (keysOf cfg req client) d client skip = r at hf h1
  rcases r with ⟨d', l⟩
  dsimp only at h1
  subst h1
  cases l with
  | panic => exact ⟨_, rfl, rfl, rfl, h2⟩
  | notModified s => exact ⟨_, rfl, rfl, rfl, h2⟩
  | serve s age stale => exact ⟨_, rfl, rfl, rfl, h2⟩
  | writer reval => cases hf

example : Lookup.isFound (lookup {} 1700000059 (keysOf {} exGet exGet.header) exDisk exGet.header false).2 = true
    ∧ Lookup.isFound (lookup {} 1700000060 (keysOf {} exGet exGet.header) exDisk exGet.header false).2 = false
    ∧ Lookup.isFound (lookup {} 1700000060 (keysOf {} exGet exGet.header) exDisk exGet.header true).2 = true := by
  decide +kernel

/-- the same in the form of the task: the three found constructors spelled out -/
theorem found_rows_done' (cfg : Config) (origin : Bytes → Option Origin) (now : Int) (req : Request)
    (d : Disk) (client ai : Header) (skip : Bool) (cs : List Contact) (hm : IsGetHead req)
    (hf : (lookup cfg now (keysOf cfg req client) d client skip).2 = .panic
      ∨ (∃ s, (lookup cfg now (keysOf cfg req client) d client skip).2 = .notModified s)
      ∨ (∃ s age stale, (lookup cfg now (keysOf cfg req client) d client skip).2 = .serve s age stale)) :
    ∃ a, stepOnce cfg origin now req d client ai skip cs = .done a ∧ a.contacts = cs
      ∧ a.disk = (storageGet d (keysOf cfg req client)).1 ∧ Shrinks a.disk d := by
  apply found_rows_done cfg origin now req d client ai skip cs hm
  rcases hf with h | ⟨s, h⟩ | ⟨s, age, stale, h⟩ <;> rw [h] <;> rfl

/-! ### 2. an activation without a contact is a found row -/

/-- a writer row always logs its contact (while the performer's watchdog lets it through) -/
theorem writer_row_contacts (cfg : Config) (origin : Bytes → Option Origin) (now : Int) (req : Request)
    (d : Disk) (client ai : Header) (skip : Bool) (cs : List Contact) (hm : IsGetHead req)
    (hl : cs.length < cfg.contactLimit) (reval : Option (Key × Stored × Int))
    (hw : (lookup cfg now (keysOf cfg req client) d client skip).2 = .writer reval) :
    Step.contacts (stepOnce cfg origin now req d client ai skip cs) =
      cs ++ [contactOf (surgeryOf (Range.getRange client) client reval).req] := by
  rw [stepOnce_getHead _ _ _ _ _ _ _ _ _ hm]
  generalize lookup cfg now (keysOf cfg req client) d client skip = r at hw
  rcases r with ⟨d', l⟩
  dsimp only at hw
  subst hw
  dsimp only
  rw [writerRow_contacts, logged_of_lt _ hl]

/-- **no_contact_is_found_row**: a GET/HEAD activation that leaves the performer's log as it was
    did not take a writer row: it is one of the found rows of `found_rows_done` -/
theorem no_contact_is_found_row (cfg : Config) (origin : Bytes → Option Origin) (now : Int) (req : Request)
    (d : Disk) (client ai : Header) (skip : Bool) (cs : List Contact) (hm : IsGetHead req)
    (hl : cs.length < cfg.contactLimit)
    (hc : Step.contacts (stepOnce cfg origin now req d client ai skip cs) = cs) :
    Lookup.isFound (lookup cfg now (keysOf cfg req client) d client skip).2 = true := by
  cases hw : (lookup cfg now (keysOf cfg req client) d client skip).2 with
  | writer reval =>
    exfalso
    rw [writer_row_contacts cfg origin now req d client ai skip cs hm hl reval hw] at hc
    exact append_singleton_ne_self _ _ hc
  | panic => rfl
  | notModified s => rfl
  | serve s age stale => rfl

example : (0 : Nat) < ({} : Config).contactLimit
    ∧ Step.contacts (stepOnce {} noOrigin 1700000059 exGet exDisk exGet.header [] false []) = []
    ∧ Step.contacts (stepOnce {} noOrigin 1700000060 exGet exDisk exGet.header [] false []) = [⟨[], b!"x", []⟩] := by
  decide +kernel

theorem no_contact_not_writer (cfg : Config) (origin : Bytes → Option Origin) (now : Int) (req : Request)
    (d : Disk) (client ai : Header) (skip : Bool) (cs : List Contact) (hm : IsGetHead req)
    (hl : cs.length < cfg.contactLimit)
    (hc : Step.contacts (stepOnce cfg origin now req d client ai skip cs) = cs)
    (reval : Option (Key × Stored × Int)) :
    (lookup cfg now (keysOf cfg req client) d client skip).2 ≠ .writer reval := by
  intro hw
  have := no_contact_is_found_row cfg origin now req d client ai skip cs hm hl hc
  rw [hw] at this
  cases this

/-- a request with another method is never answered without the origin (C10's method clause): the
    activation ends the request, leaves the disk alone and logs exactly one contact, carrying the
    client's own validators -/
theorem other_method_contacts (cfg : Config) (origin : Bytes → Option Origin) (now : Int) (req : Request)
    (d : Disk) (client ai : Header) (skip : Bool) (cs : List Contact) (hm : ¬ IsGetHead req)
    (hl : cs.length < cfg.contactLimit) :
    ∃ a, stepOnce cfg origin now req d client ai skip cs = .done a
      ∧ a.contacts = cs ++ [contactOf client] ∧ a.disk = d := by
  have hm' : req.method ≠ b!"GET" ∧ req.method ≠ b!"HEAD" := by
    rw [isGetHead_iff] at hm
    exact Classical.not_not.1 hm
  unfold stepOnce
  rw [if_pos hm']
  split
  · exact ⟨_, rfl, logged_of_lt _ hl, rfl⟩
  · exact ⟨_, rfl, logged_of_lt _ hl, rfl⟩

example : ¬ IsGetHead exPost
    ∧ Step.contacts (stepOnce {} noOrigin 1700000059 exPost exDisk exPost.header [] false []) = [⟨[], [], []⟩] := by
  decide +kernel

/-- … hence: whatever the method, an activation without a contact is a GET/HEAD found row -/
theorem no_contact_is_getHead (cfg : Config) (origin : Bytes → Option Origin) (now : Int) (req : Request)
    (d : Disk) (client ai : Header) (skip : Bool) (cs : List Contact)
    (hl : cs.length < cfg.contactLimit)
    (hc : Step.contacts (stepOnce cfg origin now req d client ai skip cs) = cs) : IsGetHead req := by
  by_cases hm : IsGetHead req
  · exact hm
  · exfalso
    obtain ⟨a, ha, hca, _⟩ := other_method_contacts cfg origin now req d client ai skip cs hm hl
    rw [ha] at hc
    change a.contacts = cs at hc
    rw [hca] at hc
    exact append_singleton_ne_self _ _ hc

/-! ### 3. answered without a contact ⇒ answered from an entry that is not due for revalidation -/

/-- the decision of `cache.Get` for the entry `s`, as `lookup` asks for it -/
abbrev decisionFor (cfg : Config) (now : Int) (client : Header) (skip : Bool) (s : Stored) : Res Freshness.Decision :=
  Freshness.decide (entryOf s) now cfg.force skip (client.get b!"if-none-match")
    (client.get b!"if-modified-since") cfg.sfx

/-- what an answer of a FOUND row is: the run-time panic (no response), or the answer made from the
    entry `s` that `storage.Get` found: the 304 (`f:304`), the stored copy (`f:hit…`), or the stored
    copy marked stale (`f:hit…:stale`) -/
def FoundAnswer (cfg : Config) (now : Int) (d : Disk) (req : Request) (client ai : Header) (skip : Bool)
    (a : Ans) : Prop :=
  (a.label = "g:panic" ∧ a.out = { wrote := false })
  ∨ ∃ d' k s, storageGet d (keysOf cfg req client) = (d', .found k s)
      ∧ ( (decisionFor cfg now client skip s = .ok .notModified304 ∧ a.label = "f:304" ∧ a.out.status = 304)
        ∨ (∃ age, decisionFor cfg now client skip s = .ok (.fresh age)
              ∧ a.out = (foundHit cfg s age false ai (Range.getRange client)).1
              ∧ a.label = (foundHit cfg s age false ai (Range.getRange client)).2)
        ∨ (∃ age, decisionFor cfg now client skip s = .ok (.staleServe age)
              ∧ a.out = (foundHit cfg s age true ai (Range.getRange client)).1
              ∧ a.label = (foundHit cfg s age true ai (Range.getRange client)).2 ++ ":stale") )

/-- `found_rows_done` with the answer spelled out -/
theorem found_rows_answer (cfg : Config) (origin : Bytes → Option Origin) (now : Int) (req : Request)
    (d : Disk) (client ai : Header) (skip : Bool) (cs : List Contact) (hm : IsGetHead req)
    (hf : Lookup.isFound (lookup cfg now (keysOf cfg req client) d client skip).2 = true) :
    ∃ a, stepOnce cfg origin now req d client ai skip cs = .done a ∧ a.contacts = cs
      ∧ a.disk = (storageGet d (keysOf cfg req client)).1
      ∧ FoundAnswer cfg now d req client ai skip a := by
  rw [stepOnce_getHead _ _ _ _ _ _ _ _ _ hm]
  have h1 := lookup_fst cfg now (keysOf cfg req client) d client skip
  generalize hr : lookup cfg now (keysOf cfg req client) d client skip = r at hf h1
  have h2 : (lookup cfg now (keysOf cfg req client) d client skip).2 = r.2 := by rw [hr]
  rcases r with ⟨d', l⟩
  dsimp only at h1 h2
  subst h1
  cases l with
  | panic => exact ⟨_, rfl, rfl, rfl, Or.inl ⟨rfl, rfl⟩⟩
  | notModified s =>
    obtain ⟨d', k, hs, hd⟩ := lookup_notModified_inv h2
    exact ⟨_, rfl, rfl, rfl, Or.inr ⟨d', k, s, hs, Or.inl ⟨hd, rfl, rfl⟩⟩⟩
  | serve s age stale =>
    obtain ⟨d', k, hs, hd⟩ := lookup_serve_inv h2
    cases stale with
    | false => exact ⟨_, rfl, rfl, rfl, Or.inr ⟨d', k, s, hs, Or.inr (Or.inl ⟨age, hd, rfl, rfl⟩)⟩⟩
    | true => exact ⟨_, rfl, rfl, rfl, Or.inr ⟨d', k, s, hs, Or.inr (Or.inr ⟨age, hd, rfl, rfl⟩)⟩⟩
  | writer reval => cases hf

/-- a request (any activation state) whose log did not grow was answered by its FIRST activation,
    from a found row of a GET/HEAD request -/
theorem answered_without_contact (cfg : Config) (origin : Bytes → Option Origin) (now : Int) (req : Request)
    (fuel : Nat) (d : Disk) (client ai : Header) (skip : Bool) (cs : List Contact)
    (hl : cs.length < cfg.contactLimit)
    (hc : (cachingFunc cfg origin now req (fuel + 1) d client ai skip cs).contacts = cs) :
    IsGetHead req
    ∧ stepOnce cfg origin now req d client ai skip cs =
        .done (cachingFunc cfg origin now req (fuel + 1) d client ai skip cs)
    ∧ (cachingFunc cfg origin now req (fuel + 1) d client ai skip cs).disk = (storageGet d (keysOf cfg req client)).1
    ∧ FoundAnswer cfg now d req client ai skip (cachingFunc cfg origin now req (fuel + 1) d client ai skip cs) := by
  have hp := step_contacts_prefix_answer cfg origin now req fuel d client ai skip cs
  rw [hc] at hp
  have hs : Step.contacts (stepOnce cfg origin now req d client ai skip cs) = cs :=
    prefix_antisymm hp (stepOnce_contacts_prefix cfg origin now req d client ai skip cs)
  have hm := no_contact_is_getHead cfg origin now req d client ai skip cs hl hs
  have hf := no_contact_is_found_row cfg origin now req d client ai skip cs hm hl hs
  obtain ⟨a, ha, _, hd, hfa⟩ := found_rows_answer cfg origin now req d client ai skip cs hm hf
  have he : cachingFunc cfg origin now req (fuel + 1) d client ai skip cs = a := by
    unfold cachingFunc
    rw [ha]
  rw [he]
  exact ⟨hm, ha, hd, hfa⟩

/-- the request was answered from an entry of the cache that is NOT due for revalidation: a run-time
    panic aside (no response at all), `storage.Get` found the entry `s`, `cache.Get`'s freshness test
    said "no revalidation due" for it, and the answer is the 304 or the stored copy made from `s` -/
def FromFreshEntry (cfg : Config) (now : Int) (d : Disk) (req : Request) (ai : Header) (a : Ans) : Prop :=
  (a.label = "g:panic" ∧ a.out = { wrote := false })
  ∨ ∃ d' k s, storageGet d (keysOf cfg req req.header) = (d', .found k s)
      ∧ Freshness.shouldRevalidate (entryOf s) now cfg.force = false
      ∧ ( (decisionFor cfg now req.header false s = .ok .notModified304 ∧ a.label = "f:304" ∧ a.out.status = 304)
        ∨ (∃ age, decisionFor cfg now req.header false s = .ok (.fresh age)
              ∧ a.out = (foundHit cfg s age false ai (Range.getRange req.header)).1
              ∧ a.label = (foundHit cfg s age false ai (Range.getRange req.header)).2) )

/-- without `skipRevalidate` a found row is never the stale copy, and the entry it was made from is
    not due for revalidation -/
theorem foundAnswer_no_skip {cfg : Config} {now : Int} {d : Disk} {req : Request} {ai : Header} {a : Ans}
    (h : FoundAnswer cfg now d req req.header ai false a) : FromFreshEntry cfg now d req ai a := by
  rcases h with h | ⟨d', k, s, hs, h⟩
  · exact Or.inl h
  · right
    refine ⟨d', k, s, hs, ?_⟩
    rcases h with ⟨hd, h⟩ | ⟨age, hd, h⟩ | ⟨age, hd, _⟩
    · exact ⟨Props.C08.not_stale_of_served hd (Or.inl rfl), Or.inl ⟨hd, h⟩⟩
    · exact ⟨Props.C08.not_stale_of_served hd (Or.inr ⟨age, rfl⟩), Or.inr ⟨age, hd, h⟩⟩
    · exact absurd (Props.C08.stale_only_when_asked _ _ _ _ _ _ _ _ hd).1 (by simp)

/-- **served_without_contact** (C08, "only while fresh"): a request, as `step` runs it, that is
    answered without any origin contact is a GET/HEAD request answered by the first activation of
    `cachingFunc` from a found row; the disk is as `storage.Get` left it; and, the run-time panic
    aside, the entry it was answered from is NOT due for revalidation (`shouldRevalidate = false`,
    decision `.notModified304` or `.fresh age`; never `.staleServe`) -/
theorem served_without_contact (cfg : Config) (origin : Bytes → Option Origin) (now : Int) (req : Request)
    (fuel : Nat) (d : Disk) (ai : Header)
    (hl : 0 < cfg.contactLimit)
    (hc : (cachingFunc cfg origin now req (fuel + 1) d req.header ai false []).contacts = []) :
    IsGetHead req
    ∧ (cachingFunc cfg origin now req (fuel + 1) d req.header ai false []).disk
        = (storageGet d (keysOf cfg req req.header)).1
    ∧ FromFreshEntry cfg now d req ai (cachingFunc cfg origin now req (fuel + 1) d req.header ai false []) := by
  obtain ⟨hm, _, hd, hf⟩ := answered_without_contact cfg origin now req fuel d req.header ai false [] hl hc
  exact ⟨hm, hd, foundAnswer_no_skip hf⟩

/-- non-vacuity: a disk with one entry (`max-age=60`, filled at 1700000000) 59 s later: answered from
    the cache without a contact, as the stored copy and — with a matching If-Modified-Since — as 304 -/
example : (cachingFunc {} noOrigin 1700000059 exGet 1 exDisk exGet.header [] false []).contacts = []
    ∧ (cachingFunc {} noOrigin 1700000059 exGet 1 exDisk exGet.header [] false []).label = "f:hit"
    ∧ (cachingFunc {} noOrigin 1700000059 exGetIms 1 exDisk exGetIms.header [] false []).contacts = []
    ∧ (cachingFunc {} noOrigin 1700000059 exGetIms 1 exDisk exGetIms.header [] false []).label = "f:304" := by
  decide +kernel

/-- the hypothesis `0 < cfg.contactLimit` is needed: a performer that refuses every contact logs none,
    and a miss is then "answered without a contact" (`502`, row `w:err`) -/
example : (cachingFunc { contactLimit := 0 } noOrigin 1700000059 exGet 1 Disk.empty exGet.header [] false []).contacts = []
    ∧ (cachingFunc { contactLimit := 0 } noOrigin 1700000059 exGet 1 Disk.empty exGet.header [] false []).label = "w:err" := by
  decide +kernel

/-- the form of the task: the decision is `.notModified304` or `.fresh age`, and the entry is not due
    for revalidation -/
theorem served_without_contact' (cfg : Config) (origin : Bytes → Option Origin) (now : Int) (req : Request)
    (fuel : Nat) (d : Disk) (ai : Header)
    (hl : 0 < cfg.contactLimit)
    (hc : (cachingFunc cfg origin now req (fuel + 1) d req.header ai false []).contacts = []) :
    IsGetHead req
    ∧ ((cachingFunc cfg origin now req (fuel + 1) d req.header ai false []).label = "g:panic"
      ∨ ∃ d' k s, storageGet d (keysOf cfg req req.header) = (d', .found k s)
          ∧ (Freshness.decide (entryOf s) now cfg.force false (req.header.get b!"if-none-match")
                (req.header.get b!"if-modified-since") cfg.sfx = .ok .notModified304
             ∨ ∃ age, Freshness.decide (entryOf s) now cfg.force false (req.header.get b!"if-none-match")
                (req.header.get b!"if-modified-since") cfg.sfx = .ok (.fresh age))
          ∧ Freshness.shouldRevalidate (entryOf s) now cfg.force = false) := by
  obtain ⟨hm, _, hf⟩ := served_without_contact cfg origin now req fuel d ai hl hc
  refine ⟨hm, ?_⟩
  rcases hf with h | ⟨d', k, s, hs, hsr, h⟩
  · exact Or.inl h.1
  · right
    refine ⟨d', k, s, hs, ?_, hsr⟩
    rcases h with ⟨hd, _⟩ | ⟨age, hd, _⟩
    · exact Or.inl hd
    · exact Or.inr ⟨age, hd⟩

/-! ### 4. link to the declarative spec `Spec.C08.isFresh` -/

/-- **served_without_contact_is_fresh as stated** (no class hypothesis): a request answered without
    any origin contact was answered from a stored entry whose age is below its lifetime -/
def ServedWithoutContactIsFreshStatement : Prop :=
  ∀ (cfg : Config) (origin : Bytes → Option Origin) (now : Int) (req : Request) (fuel : Nat) (d : Disk) (ai : Header),
    0 < cfg.contactLimit → Time.zeroTimeUnix < now →
    (cachingFunc cfg origin now req (fuel + 1) d req.header ai false []).contacts = [] →
    IsGetHead req
    ∧ ((cachingFunc cfg origin now req (fuel + 1) d req.header ai false []).label = "g:panic"
      ∨ ∃ d' k s, storageGet d (keysOf cfg req req.header) = (d', .found k s)
          ∧ Spec.C08.isFresh (Props.C08.st (entryOf s)) now cfg.force = true)

/-- finding C08-a on the disk: Expires only (= 1700000060), filled at 1700000000, revalidated at 1700000030 -/
def metaA : Codec.Meta :=
  { host := b!"h1.test", path := b!"/a", respHeader := [(b!"Expires", [b!"Tue, 14 Nov 2023 22:14:20 GMT"])],
    status := 200, created := 1700000000, revalidated := 1700000030, size := 2 }

/-- **finding C08-a at system level**: 99940 s after its Expires instant the entry is served without
    any origin contact -/
theorem fails_witness_a :
    (cachingFunc {} noOrigin 1700100000 exGet 1 (diskOf metaA b!"hi") exGet.header [] false []).contacts = []
    ∧ (cachingFunc {} noOrigin 1700100000 exGet 1 (diskOf metaA b!"hi") exGet.header [] false []).label = "f:hit"
    ∧ (foundEntry (storageGet (diskOf metaA b!"hi") (keysOf {} exGet exGet.header)).2).map
        (fun s => Spec.C08.isFresh (Props.C08.st (entryOf s)) 1700100000 0) = some false := by
  decide +kernel

theorem ServedWithoutContactIsFreshStatement_false : ¬ ServedWithoutContactIsFreshStatement := by
  intro h
  obtain ⟨hc, hl, hf⟩ := fails_witness_a
  have := (h {} noOrigin 1700100000 exGet 0 (diskOf metaA b!"hi") [] (by decide) (by decide) hc).2
  rcases this with h1 | ⟨d', k, s, hs, hfr⟩
  · rw [hl] at h1; exact absurd h1 (by decide)
  · rw [foundEntry_of_storageGet hs] at hf
    simp only [Option.map_some, Option.some.injEq] at hf
    change Spec.C08.isFresh (Props.C08.st (entryOf s)) 1700100000 0 = true at hfr
    rw [hf] at hfr
    cases hfr

/-- **served_without_contact_is_fresh_partial** (partial because of finding C08-a: the hypothesis
    `inClass_C08_a … = false` on the entry found is the complement of that finding's class): a request
    answered without any origin contact was answered — the run-time panic aside — from a stored entry
    whose age is below its lifetime (s-maxage, else max-age, else Expires, capped by force_revalidate) -/
theorem served_without_contact_is_fresh_partial (cfg : Config) (origin : Bytes → Option Origin) (now : Int)
    (req : Request) (fuel : Nat) (d : Disk) (ai : Header)
    (hl : 0 < cfg.contactLimit)
    (hz : Time.zeroTimeUnix < now)
    (ha : ∀ d' k s, storageGet d (keysOf cfg req req.header) = (d', .found k s) →
      Spec.C08.inClass_C08_a (Props.C08.st (entryOf s)) now = false)
    (hc : (cachingFunc cfg origin now req (fuel + 1) d req.header ai false []).contacts = []) :
    IsGetHead req
    ∧ ((cachingFunc cfg origin now req (fuel + 1) d req.header ai false []).label = "g:panic"
      ∨ ∃ d' k s, storageGet d (keysOf cfg req req.header) = (d', .found k s)
          ∧ Spec.C08.isFresh (Props.C08.st (entryOf s)) now cfg.force = true) := by
  obtain ⟨hm, _, hf⟩ := served_without_contact cfg origin now req fuel d ai hl hc
  refine ⟨hm, ?_⟩
  rcases hf with h | ⟨d', k, s, hs, hsr, _⟩
  · exact Or.inl h.1
  · right
    refine ⟨d', k, s, hs, ?_⟩
    rw [Props.C08.shouldRevalidate_eq_codeStale (entryOf s) cfg.force hz] at hsr
    exact Props.C08.fresh_of_not_codeStale _ now cfg.force (ha d' k s hs) hsr

/-- non-vacuity: the entry of `exDisk` at age 59 is outside class C08-a (and C08-b), not due, and fresh -/
example : Time.zeroTimeUnix < 1700000059
    ∧ (foundEntry (storageGet exDisk (keysOf {} exGet exGet.header)).2).map
        (fun s => (Spec.C08.inClass_C08_a (Props.C08.st (entryOf s)) 1700000059,
                   Spec.C08.inClass_C08_b (Props.C08.st (entryOf s)) 1700000059,
                   Freshness.shouldRevalidate (entryOf s) 1700000059 0,
                   Spec.C08.isFresh (Props.C08.st (entryOf s)) 1700000059 0)) = some (false, false, false, true) := by
  decide +kernel

/-! ### 5. the converse: while the entry is fresh the origin is not contacted -/

/-- an entry that is not due for revalidation is answered by a found row, whatever the activation state -/
theorem lookup_found_of_not_stale {cfg : Config} {now : Int} {keys : List Key} {d d' : Disk} {client : Header}
    {skip : Bool} {k : Key} {s : Stored} (hs : storageGet d keys = (d', .found k s))
    (hsr : Freshness.shouldRevalidate (entryOf s) now cfg.force = false) :
    Lookup.isFound (lookup cfg now keys d client skip).2 = true := by
  rw [lookup_of_found hs, Freshness.decide_of_not_stale skip _ _ _ hsr]
  cases Freshness.clientCheck cfg.sfx (client.get b!"if-none-match") (client.get b!"if-modified-since")
      (entryOf s).header with
  | panic site => rfl
  | ok b => cases b <;> rfl

/-- one activation on an entry that is not due for revalidation: no contact, no write -/
theorem not_stale_not_contacted (cfg : Config) (origin : Bytes → Option Origin) (now : Int) (req : Request)
    (fuel : Nat) (d : Disk) (client ai : Header) (skip : Bool) (cs : List Contact) (hm : IsGetHead req)
    {d' : Disk} {k : Key} {s : Stored}
    (hs : storageGet d (keysOf cfg req client) = (d', .found k s))
    (hsr : Freshness.shouldRevalidate (entryOf s) now cfg.force = false) :
    (cachingFunc cfg origin now req (fuel + 1) d client ai skip cs).contacts = cs
    ∧ (cachingFunc cfg origin now req (fuel + 1) d client ai skip cs).disk = d'
    ∧ FoundAnswer cfg now d req client ai skip (cachingFunc cfg origin now req (fuel + 1) d client ai skip cs) := by
  have hf := lookup_found_of_not_stale (client := client) (skip := skip) hs hsr
  obtain ⟨a, ha, hc, hd, hfa⟩ := found_rows_answer cfg origin now req d client ai skip cs hm hf
  have he : cachingFunc cfg origin now req (fuel + 1) d client ai skip cs = a := by
    unfold cachingFunc
    rw [ha]
  rw [he]
  rw [hs] at hd
  exact ⟨hc, hd, hfa⟩

/-- **fresh_not_contacted** (C08, "while it is fresh the origin is not contacted"): a GET/HEAD request
    whose entry `storage.Get` finds and for which no revalidation is due is answered without any origin
    contact and without a write (the disk is as `storage.Get` left it), from that entry (or by the
    run-time panic of the validator comparison) -/
theorem fresh_not_contacted (cfg : Config) (origin : Bytes → Option Origin) (now : Int) (req : Request)
    (fuel : Nat) (d : Disk) (ai : Header) (hm : IsGetHead req)
    {d' : Disk} {k : Key} {s : Stored}
    (hs : storageGet d (keysOf cfg req req.header) = (d', .found k s))
    (hsr : Freshness.shouldRevalidate (entryOf s) now cfg.force = false) :
    (cachingFunc cfg origin now req (fuel + 1) d req.header ai false []).contacts = []
    ∧ (cachingFunc cfg origin now req (fuel + 1) d req.header ai false []).disk = d'
    ∧ FromFreshEntry cfg now d req ai (cachingFunc cfg origin now req (fuel + 1) d req.header ai false []) := by
  obtain ⟨hc, hd, hf⟩ := not_stale_not_contacted cfg origin now req fuel d req.header ai false [] hm hs hsr
  exact ⟨hc, hd, foundAnswer_no_skip hf⟩

/-- non-vacuity: the hypotheses of `fresh_not_contacted` on `exDisk` at age 59 -/
example : IsGetHead exGet ∧ ∃ d' k s, storageGet exDisk (keysOf {} exGet exGet.header) = (d', .found k s)
    ∧ Freshness.shouldRevalidate (entryOf s) 1700000059 ({} : Config).force = false := by
  refine ⟨by decide, ?_⟩
  have h : (foundEntry (storageGet exDisk (keysOf {} exGet exGet.header)).2).map
      (fun s => Freshness.shouldRevalidate (entryOf s) 1700000059 0) = some false := by decide +kernel
  cases hg : foundEntry (storageGet exDisk (keysOf {} exGet exGet.header)).2 with
  | none => rw [hg] at h; cases h
  | some s =>
    rw [hg] at h
    obtain ⟨d', k, hs⟩ := storageGet_of_foundEntry hg
    exact ⟨d', k, s, hs, by simpa using h⟩

/-- … and when the validator comparison does not panic the answer IS the 304 or the stored copy made
    from that entry -/
theorem fresh_served_from_entry (cfg : Config) (origin : Bytes → Option Origin) (now : Int) (req : Request)
    (fuel : Nat) (d : Disk) (ai : Header) (hm : IsGetHead req)
    {d' : Disk} {k : Key} {s : Stored}
    (hs : storageGet d (keysOf cfg req req.header) = (d', .found k s))
    (hsr : Freshness.shouldRevalidate (entryOf s) now cfg.force = false)
    (hp : ∀ site, decisionFor cfg now req.header false s ≠ .panic site) :
    (decisionFor cfg now req.header false s = .ok .notModified304
        ∧ (cachingFunc cfg origin now req (fuel + 1) d req.header ai false []).label = "f:304"
        ∧ (cachingFunc cfg origin now req (fuel + 1) d req.header ai false []).out.status = 304)
    ∨ (decisionFor cfg now req.header false s = .ok (.fresh ((Props.C08.st (entryOf s)).age now))
        ∧ (cachingFunc cfg origin now req (fuel + 1) d req.header ai false []).out
            = (foundHit cfg s ((Props.C08.st (entryOf s)).age now) false ai (Range.getRange req.header)).1
        ∧ (cachingFunc cfg origin now req (fuel + 1) d req.header ai false []).label
            = (foundHit cfg s ((Props.C08.st (entryOf s)).age now) false ai (Range.getRange req.header)).2) := by
  have hl := lookup_of_found (cfg := cfg) (now := now) (client := req.header) (skip := false) hs
  have hdec := Freshness.decide_of_not_stale (m := entryOf s) false (req.header.get b!"if-none-match")
    (req.header.get b!"if-modified-since") cfg.sfx hsr
  rw [Props.C08.ageOf_fst_st] at hdec
  have hp' := hp
  unfold decisionFor at hp' ⊢
  rw [hdec] at hl hp' ⊢
  unfold cachingFunc
  rw [stepOnce_getHead _ _ _ _ _ _ _ _ _ hm, hl]
  cases hc : Freshness.clientCheck cfg.sfx (req.header.get b!"if-none-match")
      (req.header.get b!"if-modified-since") (entryOf s).header with
  | panic site => rw [hc] at hp'; exact absurd rfl (hp' site)
  | ok b =>
    cases b with
    | true => exact Or.inl ⟨rfl, rfl, rfl⟩
    | false => exact Or.inr ⟨rfl, rfl, rfl⟩

/-- **fresh_not_contacted as stated** over the declarative spec (no class hypothesis) -/
def FreshNotContactedStatement : Prop :=
  ∀ (cfg : Config) (origin : Bytes → Option Origin) (now : Int) (req : Request) (fuel : Nat) (d : Disk) (ai : Header)
    (d' : Disk) (k : Key) (s : Stored),
    IsGetHead req → Time.zeroTimeUnix < now →
    storageGet d (keysOf cfg req req.header) = (d', .found k s) →
    Spec.C08.isFresh (Props.C08.st (entryOf s)) now cfg.force = true →
    (cachingFunc cfg origin now req (fuel + 1) d req.header ai false []).contacts = []

/-- finding C08-b on the disk: `max-age=3600` next to `Expires: 0`, never revalidated -/
def metaB : Codec.Meta :=
  { host := b!"h1.test", path := b!"/a",
    respHeader := [(b!"Cache-Control", [b!"max-age=3600"]), (b!"Expires", [b!"0"])],
    status := 200, created := 1700000000, size := 2 }

/-- **finding C08-b at system level**: 10 s into a `max-age=3600` lifetime the origin is contacted -/
theorem fails_witness_b :
    (cachingFunc {} noOrigin 1700000010 exGet 1 (diskOf metaB b!"hi") exGet.header [] false []).contacts
      = [⟨[], [], []⟩]
    ∧ (foundEntry (storageGet (diskOf metaB b!"hi") (keysOf {} exGet exGet.header)).2).map
        (fun s => Spec.C08.isFresh (Props.C08.st (entryOf s)) 1700000010 0) = some true := by
  decide +kernel

theorem FreshNotContactedStatement_false : ¬ FreshNotContactedStatement := by
  intro h
  obtain ⟨hc, hf⟩ := fails_witness_b
  cases hg : foundEntry (storageGet (diskOf metaB b!"hi") (keysOf {} exGet exGet.header)).2 with
  | none => rw [hg] at hf; cases hf
  | some s =>
    rw [hg] at hf
    simp only [Option.map_some, Option.some.injEq] at hf
    obtain ⟨d', k, hs⟩ := storageGet_of_foundEntry hg
    have := h {} noOrigin 1700000010 exGet 0 (diskOf metaB b!"hi") [] d' k s (by decide) (by decide) hs hf
    rw [this] at hc
    cases hc

/-- **fresh_not_contacted_partial** (partial because of finding C08-b: the hypothesis
    `inClass_C08_b … = false` is the complement of that finding's class): while the stored entry is
    fresh in the sense of the declarative spec, the origin is not contacted and nothing is written -/
theorem fresh_not_contacted_partial (cfg : Config) (origin : Bytes → Option Origin) (now : Int) (req : Request)
    (fuel : Nat) (d : Disk) (ai : Header) (hm : IsGetHead req)
    {d' : Disk} {k : Key} {s : Stored}
    (hs : storageGet d (keysOf cfg req req.header) = (d', .found k s))
    (hz : Time.zeroTimeUnix < now)
    (hb : Spec.C08.inClass_C08_b (Props.C08.st (entryOf s)) now = false)
    (hf : Spec.C08.isFresh (Props.C08.st (entryOf s)) now cfg.force = true) :
    (cachingFunc cfg origin now req (fuel + 1) d req.header ai false []).contacts = []
    ∧ (cachingFunc cfg origin now req (fuel + 1) d req.header ai false []).disk = d'
    ∧ FromFreshEntry cfg now d req ai (cachingFunc cfg origin now req (fuel + 1) d req.header ai false []) :=
  fresh_not_contacted cfg origin now req fuel d ai hm hs (Props.C08.not_stale_of_fresh hz hb hf)

/-! ### 5b. the stale allowances -/

/-- with `skipRevalidate = false` `cache.Get` never hands out the copy marked stale
    (sequentially there is no stale-while-revalidate: nobody else holds the key) -/
theorem lookup_not_stale_of_no_skip (cfg : Config) (now : Int) (keys : List Key) (d : Disk) (client : Header)
    (s : Stored) (age : Int) :
    (lookup cfg now keys d client false).2 ≠ .serve s age true := by
  intro h
  obtain ⟨d', k, _, hd⟩ := lookup_serve_inv h
  exact absurd (Props.C08.stale_only_when_asked _ _ _ _ _ _ _ _ hd).1 (by simp)

example : Lookup.isFound (lookup {} 1700000100 (keysOf {} exGet exGet.header) exDisk exGet.header true).2 = true
    ∧ (cachingFunc {} noOrigin 1700000100 exGet 1 exDisk exGet.header [] true []).label = "f:hit:stale" := by
  decide +kernel

/-- the copy marked stale is the answer to `skipRevalidate = true` on an entry that IS due for revalidation -/
theorem lookup_stale_inv {cfg : Config} {now : Int} {keys : List Key} {d : Disk} {client : Header}
    {skip : Bool} {s : Stored} {age : Int}
    (h : (lookup cfg now keys d client skip).2 = .serve s age true) :
    skip = true ∧ Freshness.shouldRevalidate (entryOf s) now cfg.force = true
      ∧ age = (Props.C08.st (entryOf s)).age now := by
  obtain ⟨d', k, _, hd⟩ := lookup_serve_inv h
  exact Props.C08.stale_only_when_asked _ _ _ _ _ _ _ _ hd

/-- a revalidation of the stored entry `s` (found under `k`, `age` seconds old) that failed inside the
    entry's stale-if-error allowance: `cache.Get` asked for the revalidation because the entry is due,
    the origin was contacted and answered `resp` with a status ≥ 400, and the age is below the
    allowance the origin granted (the code's `stale-if-error > age`, inside the window of the spec) -/
structure FailedRevalidation (cfg : Config) (origin : Bytes → Option Origin) (now : Int) (req : Request)
    (d : Disk) (client : Header) (cs : List Contact) (k : Key) (s : Stored) (age : Int) (resp : Resp) : Prop where
  found : ∃ d', storageGet d (keysOf cfg req client) = (d', .found k s)
  due : Freshness.shouldRevalidate (entryOf s) now cfg.force = true
  age_eq : age = (Props.C08.st (entryOf s)).age now
  asked : ask cfg origin req cs (surgeryOf (Range.getRange client) client (some (k, s, age))).req = some resp
  status : resp.status ≥ 400
  allowance : (getCacheControlDirectives s.meta.respHeader).canStaleIfError age = true
  within : Spec.C08.withinStaleIfError (Props.C08.st (entryOf s)) now = true

/-- a revalidation of the stored entry `s` (found under `k`, due) that the origin CONFIRMED with a
    cacheable 304 to the validator the cache sent, and that was RECORDED: the request's disk writes are
    enabled and `SetRevalidatedAndClose` re-published the entry (`Revalidated := now`, headers merged with
    the 304's), leaving the disk `d1` -/
structure ConfirmedRevalidation (cfg : Config) (origin : Bytes → Option Origin) (now : Int) (req : Request)
    (d : Disk) (client : Header) (cs : List Contact) (k : Key) (s : Stored) (age : Int) (resp : Resp)
    (d1 : Disk) : Prop where
  found : ∃ d', storageGet d (keysOf cfg req client) = (d', .found k s)
  due : Freshness.shouldRevalidate (entryOf s) now cfg.force = true
  age_eq : age = (Props.C08.st (entryOf s)).age now
  asked : ask cfg origin req cs (surgeryOf (Range.getRange client) client (some (k, s, age))).req = some resp
  status : resp.status = 304
  cacheable : (getCacheControlDirectives resp.header).doNotCache = false
  validator : (surgeryOf (Range.getRange client) client (some (k, s, age))).used ≠ []
  writes_enabled : ¬ (client.get b!"authorization").length > 0
  recorded : republish (storageGet d (keysOf cfg req client)).1
      (writerOf (keysOf cfg req client) client (some (k, s, age))) now
      (some (Conditional.dropZeroContentLength resp.header)) = (d1, true)

/-- **the re-entries with `skipRevalidate = true`** have two origins: the row `w:stale` — a revalidation
    that failed inside the stale-if-error allowance, disk as `storage.Get` left it (the entry is
    untouched) — or (since the fix: commit for the two-values loop) the row `w:304` — a revalidation the origin confirmed
    and the request recorded, disk `d'` = the re-published one.  Either way the activation was itself NOT
    asked for the stale copy and logged exactly the one contact. -/
theorem stepOnce_reenter_skip {cfg : Config} {origin : Bytes → Option Origin} {now : Int} {req : Request}
    {d : Disk} {client ai : Header} {skip : Bool} {cs : List Contact}
    {d' : Disk} {client' ai' : Header} {cs' : List Contact} {tag : String}
    (h : stepOnce cfg origin now req d client ai skip cs = .reenter d' client' ai' true cs' tag) :
    IsGetHead req ∧ skip = false
    ∧ ∃ k s age resp,
        cs' = cs ++ [contactOf (surgeryOf (Range.getRange client) client (some (k, s, age))).req]
        ∧ ( (tag = "w:stale>" ∧ d' = (storageGet d (keysOf cfg req client)).1
              ∧ FailedRevalidation cfg origin now req d client cs k s age resp)
          ∨ (tag = "w:304>" ∧ ConfirmedRevalidation cfg origin now req d client cs k s age resp d') ) := by
  obtain ⟨hm, reval, resp, hl, hask, haa⟩ := stepOnce_reenter_inv h
  obtain ⟨hcs, _, hh⟩ := afterAnswer_reenter_inv haa
  rcases hh with ⟨htag, hd, _, hsie⟩ | ⟨htag, _, hst, hu, hdc, hw, hrep⟩
  · obtain ⟨k, s, age, hr, hst, hal⟩ := staleIfErrorOf_inv hsie
    subst hr
    obtain ⟨d1, c, hs, hdec⟩ := lookup_writer_inv hl
    obtain ⟨hskip, hdue, hage⟩ := revalidate_inv hdec
    rw [lookup_fst] at hd
    refine ⟨hm, hskip, k, s, age, resp, hcs, Or.inl ⟨htag, hd, ?_⟩⟩
    exact { found := ⟨d1, hs⟩, due := hdue, age_eq := hage, asked := hask, status := hst, allowance := hal,
            within := Props.C08.within_of_canStaleIfError (entryOf s) now (hage ▸ hal) }
  · obtain ⟨k, s, age, hr⟩ := surgeryOf_used_pos hu
    subst hr
    obtain ⟨d1, c, hs, hdec⟩ := lookup_writer_inv hl
    obtain ⟨hskip, hdue, hage⟩ := revalidate_inv hdec
    rw [lookup_fst] at hrep
    have hauth : ¬ (client.get b!"authorization").length > 0 := by
      intro hc
      have : (writerOf (keysOf cfg req client) client (some (k, s, age))).diskWritesDisabled = true := by
        unfold writerOf; exact decide_eq_true hc
      exact Bool.noConfusion (hw.symm.trans this)
    have hval : (surgeryOf (Range.getRange client) client (some (k, s, age))).used ≠ [] := by
      intro he; rw [he] at hu; exact absurd hu (by decide)
    refine ⟨hm, hskip, k, s, age, resp, hcs, Or.inr ⟨htag, ?_⟩⟩
    exact { found := ⟨d1, hs⟩, due := hdue, age_eq := hage, asked := hask, status := hst, cacheable := hdc,
            validator := hval, writes_enabled := hauth, recorded := hrep }

/-- **there is no re-entry with `skipRevalidate = false`** (since the fix: commit for the two-values loop): every re-entry
    of `cachingFunc` asks for the entry as it is -/
theorem stepOnce_reenter_skip_true {cfg : Config} {origin : Bytes → Option Origin} {now : Int} {req : Request}
    {d : Disk} {client ai : Header} {skip : Bool} {cs : List Contact}
    {d' : Disk} {client' ai' : Header} {skip' : Bool} {cs' : List Contact} {tag : String}
    (h : stepOnce cfg origin now req d client ai skip cs = .reenter d' client' ai' skip' cs' tag) :
    skip' = true := by
  obtain ⟨_, _, _, _, _, haa⟩ := stepOnce_reenter_inv h
  exact (afterAnswer_reenter_inv haa).2.1

/-- a revalidation of the stored entry `s` (found under `k`, due) that the origin CONFIRMED with a 304
    while the request's disk writes are disabled (it carries `Authorization`): `SetRevalidatedAndClose`
    writes nothing and does not close the writer, so the entry keeps its old `Revalidated` stamp and the
    key stays held by this very request -/
structure ConfirmedUnrecorded (cfg : Config) (origin : Bytes → Option Origin) (now : Int) (req : Request)
    (d : Disk) (client : Header) (cs : List Contact) (k : Key) (s : Stored) (age : Int) (resp : Resp) : Prop where
  found : ∃ d', storageGet d (keysOf cfg req client) = (d', .found k s)
  due : Freshness.shouldRevalidate (entryOf s) now cfg.force = true
  age_eq : age = (Props.C08.st (entryOf s)).age now
  asked : ask cfg origin req cs (surgeryOf (Range.getRange client) client (some (k, s, age))).req = some resp
  status : resp.status = 304
  cacheable : (getCacheControlDirectives resp.header).doNotCache = false
  authorization : (client.get b!"authorization").length > 0

/-- **the self-locked re-entry** follows a revalidation the origin confirmed but the request could not
    record: the activation was not asked for the stale copy, logged exactly the one contact and left the
    disk as `storage.Get` left it -/
theorem stepOnce_reenterLocked {cfg : Config} {origin : Bytes → Option Origin} {now : Int} {req : Request}
    {d : Disk} {client ai : Header} {skip : Bool} {cs : List Contact}
    {d' : Disk} {client' ai' : Header} {cs' : List Contact} {tag : String}
    (h : stepOnce cfg origin now req d client ai skip cs = .reenterLocked d' client' ai' cs' tag) :
    IsGetHead req ∧ skip = false ∧ tag = "w:304>"
    ∧ d' = (storageGet d (keysOf cfg req client)).1
    ∧ ∃ k s age resp, ConfirmedUnrecorded cfg origin now req d client cs k s age resp
        ∧ cs' = cs ++ [contactOf (surgeryOf (Range.getRange client) client (some (k, s, age))).req] := by
  obtain ⟨hm, reval, resp, hl, hask, haa⟩ := stepOnce_reenterLocked_inv h
  obtain ⟨hcs, hd, htag, _, hst, hu, hdc, hw⟩ := afterAnswer_reenterLocked_inv haa
  obtain ⟨k, s, age, hr⟩ := surgeryOf_used_pos hu
  subst hr
  obtain ⟨d1, c, hs, hdec⟩ := lookup_writer_inv hl
  obtain ⟨hskip, hdue, hage⟩ := revalidate_inv hdec
  rw [lookup_fst] at hd
  have hauth : (client.get b!"authorization").length > 0 := by
    unfold writerOf at hw; exact of_decide_eq_true hw
  exact ⟨hm, hskip, htag, hd, k, s, age, resp,
    { found := ⟨d1, hs⟩, due := hdue, age_eq := hage, asked := hask, status := hst, cacheable := hdc,
      authorization := hauth }, hcs⟩

/-- `cache.Get` asked for the entry as it is (`skipRevalidate = true`, key held by the request itself) hands out
    the entry `s` it finds marked stale: the entry is due for revalidation (the stale-while-revalidate
    window plays no part any more: with `skipRevalidate` the stale copy is handed out inside and outside it) -/
structure DueEntryServed (cfg : Config) (now : Int) (req : Request) (d : Disk) (client : Header)
    (s : Stored) (age : Int) : Prop where
  found : ∃ d' k, storageGet d (keysOf cfg req client) = (d', .found k s)
  decision : Freshness.get true (entryOf s) now cfg.force true (client.get b!"if-none-match")
    (client.get b!"if-modified-since") cfg.sfx = .ok (.foundStale age)
  due : Freshness.shouldRevalidate (entryOf s) now cfg.force = true
  age_eq : age = (Props.C08.st (entryOf s)).age now

/-- a `…:stale` answer of the self-locked re-entry: the entry found there is due -/
theorem lockedReentry_stale {cfg : Config} {origin : Bytes → Option Origin} {now : Int} {req : Request}
    {d : Disk} {client ai : Header} {cs : List Contact}
    (h : EndsStale (lockedReentry cfg origin now req d client ai cs).label) :
    ∃ s age, DueEntryServed cfg now req d client s age := by
  obtain ⟨d', k, s, age, hs, hg⟩ := lockedReentry_stale_inv h
  cases hsr : Freshness.shouldRevalidate (entryOf s) now cfg.force with
  | true =>
    refine ⟨s, age, ⟨d', k, hs⟩, hg, hsr, ?_⟩
    rw [Freshness.get_of_stale true true _ _ _ hsr, Props.C08.ageOf_fst_st] at hg
    simp only [if_true] at hg
    injection hg with hg
    injection hg with hg
    exact hg.symm
  | false =>
    exfalso
    rw [Freshness.get_of_not_stale true true _ _ _ hsr] at hg
    cases hc : Freshness.clientCheck cfg.sfx (client.get b!"if-none-match") (client.get b!"if-modified-since")
        (entryOf s).header with
    | panic site => rw [hc] at hg; cases hg
    | ok b => rw [hc] at hg; cases b <;> cases hg

/-- the state one activation of `cachingFunc` starts in -/
structure Act where
  disk : Disk
  client : Header
  ai : Header
  skip : Bool
  contacts : List Contact

/-- `a` is one of the activations `cachingFunc` passes through for this request when started in `a₀`
    (the re-entries of server.go:395 and server.go:418) -/
inductive Activation (cfg : Config) (origin : Bytes → Option Origin) (now : Int) (req : Request) (a₀ : Act) :
    Act → Prop where
  | first : Activation cfg origin now req a₀ a₀
  | next {a : Act} {d' : Disk} {client' ai' : Header} {skip' : Bool} {cs' : List Contact} {tag : String} :
      Activation cfg origin now req a₀ a →
      stepOnce cfg origin now req a.disk a.client a.ai a.skip a.contacts = .reenter d' client' ai' skip' cs' tag →
      Activation cfg origin now req a₀ ⟨d', client', ai', skip', cs'⟩

theorem Activation.cons {cfg : Config} {origin : Bytes → Option Origin} {now : Int} {req : Request}
    {a₀ a : Act} {d' : Disk} {client' ai' : Header} {skip' : Bool} {cs' : List Contact} {tag : String}
    (h0 : stepOnce cfg origin now req a₀.disk a₀.client a₀.ai a₀.skip a₀.contacts = .reenter d' client' ai' skip' cs' tag)
    (h : Activation cfg origin now req ⟨d', client', ai', skip', cs'⟩ a) : Activation cfg origin now req a₀ a := by
  induction h with
  | first => exact Activation.next Activation.first h0
  | next _ hs ih => exact Activation.next ih hs

/-- some activation of the request was a revalidation that failed inside the stale-if-error allowance,
    and its contact is in the request's log `log` -/
def HadFailedRevalidation (cfg : Config) (origin : Bytes → Option Origin) (now : Int) (req : Request)
    (a₀ : Act) (log : List Contact) : Prop :=
  ∃ (a : Act) (k : Key) (s : Stored) (age : Int) (resp : Resp),
    Activation cfg origin now req a₀ a
    ∧ FailedRevalidation cfg origin now req a.disk a.client a.contacts k s age resp
    ∧ (a.contacts ++ [contactOf (surgeryOf (Range.getRange a.client) a.client (some (k, s, age))).req]) <+: log

/-- some activation of the request was a revalidation the origin confirmed (304) and the request recorded
    on the disk (`d1`), and its contact is in the request's log `log` -/
def HadConfirmedRevalidation (cfg : Config) (origin : Bytes → Option Origin) (now : Int) (req : Request)
    (a₀ : Act) (log : List Contact) : Prop :=
  ∃ (a : Act) (k : Key) (s : Stored) (age : Int) (resp : Resp) (d1 : Disk),
    Activation cfg origin now req a₀ a
    ∧ ConfirmedRevalidation cfg origin now req a.disk a.client a.contacts k s age resp d1
    ∧ (a.contacts ++ [contactOf (surgeryOf (Range.getRange a.client) a.client (some (k, s, age))).req]) <+: log

/-- some activation of the request was a revalidation the origin confirmed (304) but the request could not
    record (disk writes disabled), its contact is in the request's log `log`, and the re-entry — on the disk
    as `storage.Get` left it, the key held by the request itself, asked for the entry as it is — was handed
    the entry it found, still due, marked stale -/
def HadUnrecordedRevalidation (cfg : Config) (origin : Bytes → Option Origin) (now : Int) (req : Request)
    (a₀ : Act) (log : List Contact) : Prop :=
  ∃ (a : Act) (k : Key) (s : Stored) (age : Int) (resp : Resp) (client' : Header) (s' : Stored) (age' : Int),
    Activation cfg origin now req a₀ a
    ∧ ConfirmedUnrecorded cfg origin now req a.disk a.client a.contacts k s age resp
    ∧ DueEntryServed cfg now req (storageGet a.disk (keysOf cfg req a.client)).1 client' s' age'
    ∧ (a.contacts ++ [contactOf (surgeryOf (Range.getRange a.client) a.client (some (k, s, age))).req]) <+: log

/-- whatever the activation state: an answer labelled `…:stale` was either asked for
    (`skipRevalidate = true` on entry), or THIS activation was a revalidation: failed inside stale-if-error,
    or confirmed and recorded, or confirmed and unrecorded (the witness activation is always the first one:
    every re-entry runs with `skipRevalidate = true`) -/
theorem stale_answer_inv (cfg : Config) (origin : Bytes → Option Origin) (now : Int) (req : Request)
    (fuel : Nat) (d : Disk) (client ai : Header) (skip : Bool) (cs : List Contact)
    (h : EndsStale (cachingFunc cfg origin now req fuel d client ai skip cs).label) :
    skip = true
    ∨ HadFailedRevalidation cfg origin now req ⟨d, client, ai, skip, cs⟩
        (cachingFunc cfg origin now req fuel d client ai skip cs).contacts
    ∨ HadConfirmedRevalidation cfg origin now req ⟨d, client, ai, skip, cs⟩
        (cachingFunc cfg origin now req fuel d client ai skip cs).contacts
    ∨ HadUnrecordedRevalidation cfg origin now req ⟨d, client, ai, skip, cs⟩
        (cachingFunc cfg origin now req fuel d client ai skip cs).contacts := by
  cases fuel with
  | zero => exact absurd h (by unfold cachingFunc; dsimp only; decide)
  | succ n =>
    unfold cachingFunc at h ⊢
    split at h
    · rename_i a heq
      obtain ⟨_, s, age, hl⟩ := stepOnce_done_stale_inv heq h
      exact Or.inl (lookup_stale_inv hl).1
    · rename_i d' c' ai' s' cs' tag heq
      dsimp only at h ⊢
      right
      have hs' := stepOnce_reenter_skip_true heq
      subst hs'
      obtain ⟨_, _, k, s, age, resp, hcs, hh⟩ := stepOnce_reenter_skip heq
      have hp : (cs ++ [contactOf (surgeryOf (Range.getRange client) client (some (k, s, age))).req]) <+:
          (cachingFunc cfg origin now req n d' c' ai' true cs').contacts := by
        rw [← hcs]
        exact cachingFunc_contacts_prefix cfg origin now req n d' c' ai' true cs'
      rcases hh with ⟨_, _, hfr⟩ | ⟨_, hcr⟩
      · exact Or.inl ⟨⟨d, client, ai, skip, cs⟩, k, s, age, resp, Activation.first, hfr, hp⟩
      · exact Or.inr (Or.inl ⟨⟨d, client, ai, skip, cs⟩, k, s, age, resp, d', Activation.first, hcr, hp⟩)
    · rename_i d' c' ai' cs' tag heq
      dsimp only at h ⊢
      right; right; right
      obtain ⟨_, _, htag, hd, k, s, age, resp, hcu, hcs⟩ := stepOnce_reenterLocked heq
      have h' := endsStale_of_tag_append (Or.inl htag) h
      obtain ⟨s', age', hdue⟩ := lockedReentry_stale h'
      refine ⟨⟨d, client, ai, skip, cs⟩, k, s, age, resp, c', s', age', Activation.first, hcu, hd ▸ hdue, ?_⟩
      dsimp only
      rw [← hcs]
      exact lockedReentry_contacts_prefix cfg origin now req d' c' ai' cs'

/-- **stale_served_only_within_allowances** (C08, "past that it is revalidated with the origin first,
    except within the stale-if-error and stale-while-revalidate allowances"): when the answer to a request,
    as `step` runs it, is made from the copy marked stale (label `…:stale`), then in an activation of this
    request the origin WAS contacted for a revalidation of a stored entry that was due, and
    * either it answered with a status ≥ 400 and the entry's age was inside its stale-if-error
      allowance (the code's `stale-if-error > age`, hence inside the window of the spec),
    * or it CONFIRMED the entry (cacheable 304 to the cache's validator) and the confirmation was
      recorded on the disk: the answer is the entry the origin has confirmed in this very request — which
      is what "revalidated with the origin first" asks for.  The stale MARK shows when the re-published
      entry still reads back as due: its lifetime is 0, the codec lost the longer of two values (finding
      C07-a), or `now = 0` (the stamp `Revalidated = 0` means "never");
    * or it confirmed the entry (304) for a request that cannot record it (disk writes disabled:
      `Authorization`), and the entry then found — the key being held by the request itself, hence asked
      for as it is — was still due: again an answer the origin has just confirmed. -/
theorem stale_served_only_within_allowances (cfg : Config) (origin : Bytes → Option Origin) (now : Int)
    (req : Request) (fuel : Nat) (d : Disk) (ai : Header)
    (h : EndsStale (cachingFunc cfg origin now req fuel d req.header ai false []).label) :
    HadFailedRevalidation cfg origin now req ⟨d, req.header, ai, false, []⟩
      (cachingFunc cfg origin now req fuel d req.header ai false []).contacts
    ∨ HadConfirmedRevalidation cfg origin now req ⟨d, req.header, ai, false, []⟩
        (cachingFunc cfg origin now req fuel d req.header ai false []).contacts
    ∨ HadUnrecordedRevalidation cfg origin now req ⟨d, req.header, ai, false, []⟩
        (cachingFunc cfg origin now req fuel d req.header ai false []).contacts := by
  rcases stale_answer_inv cfg origin now req fuel d req.header ai false [] h with hf | hf
  · cases hf
  · exact hf

/-- non-vacuity, stale-if-error: 100 s after the fill of `max-age=60, stale-if-error=300` the origin
    answers 503: one contact, then the stale copy; 400 s after the fill the 503 goes to the client -/
example : (cachingFunc {} badOrigin 1700000100 exGet 2 exDisk exGet.header [] false []).label = "w:stale>f:hit:stale"
    ∧ EndsStale (cachingFunc {} badOrigin 1700000100 exGet 2 exDisk exGet.header [] false []).label
    ∧ (cachingFunc {} badOrigin 1700000100 exGet 2 exDisk exGet.header [] false []).contacts = [⟨[], b!"x", []⟩]
    ∧ (cachingFunc {} badOrigin 1700000400 exGet 2 exDisk exGet.header [] false []).label = "w:nogate-body" := by
  decide +kernel

/-- in particular the log of such a request is not empty: a stale copy is never served without a contact -/
theorem stale_served_contacts_ne_nil (cfg : Config) (origin : Bytes → Option Origin) (now : Int)
    (req : Request) (fuel : Nat) (d : Disk) (ai : Header)
    (h : EndsStale (cachingFunc cfg origin now req fuel d req.header ai false []).label) :
    (cachingFunc cfg origin now req fuel d req.header ai false []).contacts ≠ [] := by
  intro hn
  rcases stale_served_only_within_allowances cfg origin now req fuel d ai h with
    ⟨_, _, _, _, _, _, _, hp⟩ | ⟨_, _, _, _, _, _, _, _, hp⟩ | ⟨_, _, _, _, _, _, _, _, _, _, _, hp⟩
  all_goals
    rw [hn, List.prefix_nil] at hp
    simp at hp

/-! #### the stale-if-error clause alone: false as stated -/

/-- **stale_served_only_after_failed_revalidation as stated**: a `…:stale` answer only after a contact
    answered with a status ≥ 400 inside the entry's stale-if-error allowance -/
def StaleOnlyAfterFailedRevalidationStatement : Prop :=
  ∀ (cfg : Config) (origin : Bytes → Option Origin) (now : Int) (req : Request) (fuel : Nat) (d : Disk) (ai : Header),
    EndsStale (cachingFunc cfg origin now req fuel d req.header ai false []).label →
    HadFailedRevalidation cfg origin now req ⟨d, req.header, ai, false, []⟩
      (cachingFunc cfg origin now req fuel d req.header ai false []).contacts

/-- an origin that answers 200 with `ETag: "v"` and nothing else, and a bare 304 to `If-None-Match: "v"` -/
def etagOrigin : Bytes → Option Origin :=
  fun _ => some { status := 200, headers := [(b!"ETag", b!"\"v\"")], body := b!"hi", cond := true }

/-- an entry with lifetime 0 (`max-age=0`) and ETag `"v"`, filled at 1700000000 -/
def exDiskZero : Disk :=
  diskOf { exMeta with respHeader := [(b!"Cache-Control", [b!"max-age=0"]), (b!"Etag", [b!"\"v\""])] } b!"hi"

/-- **witness** (confirmed and recorded, still due): an entry whose lifetime is 0; the origin CONFIRMS it
    (bare 304), the confirmation is recorded, the re-entry (`skipRevalidate = true`) serves the entry, which
    reads back as due at age 0: the stale mark after a successful revalidation, one contact, no error -/
theorem fails_witness_confirmed :
    (cachingFunc {} etagOrigin 1700000075 exGet 2 exDiskZero exGet.header [] false []).label = "w:304>f:hit:stale"
    ∧ EndsStale (cachingFunc {} etagOrigin 1700000075 exGet 2 exDiskZero exGet.header [] false []).label
    ∧ (cachingFunc {} etagOrigin 1700000075 exGet 2 exDiskZero exGet.header [] false []).contacts
      = [⟨b!"\"v\"", [], []⟩]
    ∧ exGet.header.get b!"authorization" = [] := by
  decide +kernel

/-- the entry of `exMeta` with an ETag, stored under the key of a request with `Authorization: k` -/
def exDiskAuth : Disk :=
  Disk.empty.upd b!"h1.test/aAuthorizationk"
    (some { body := b!"hi",
            xattr := some (Codec.encode { exMeta with respHeader :=
              [(b!"Cache-Control", [b!"max-age=60, stale-while-revalidate=90"]), (b!"Etag", [b!"\"v\""])] }) })

/-- **witness** (confirmed, unrecorded): a request with `Authorization` 75 s after the fill of
    `max-age=60, stale-while-revalidate=90`: the origin CONFIRMS the entry (304), nothing can be recorded
    (disk writes disabled), the self-locked re-entry is asked for the entry as it is and hands out the copy
    marked stale — inside the stale-while-revalidate window (75 s) and outside it (175 s) alike; the request
    no longer waits for itself (`hang = false`) -/
theorem fails_witness_selflocked :
    (cachingFunc {} condOrigin 1700000075 exGetAuth 2 exDiskAuth exGetAuth.header [] false []).label
      = "w:304>f:hit:stale"
    ∧ EndsStale (cachingFunc {} condOrigin 1700000075 exGetAuth 2 exDiskAuth exGetAuth.header [] false []).label
    ∧ (cachingFunc {} condOrigin 1700000075 exGetAuth 2 exDiskAuth exGetAuth.header [] false []).contacts
      = [⟨b!"\"v\"", [], []⟩]
    ∧ (cachingFunc {} condOrigin 1700000175 exGetAuth 2 exDiskAuth exGetAuth.header [] false []).label
      = "w:304>f:hit:stale"
    ∧ (cachingFunc {} condOrigin 1700000175 exGetAuth 2 exDiskAuth exGetAuth.header [] false []).contacts
      = [⟨b!"\"v\"", [], []⟩]
    ∧ (cachingFunc {} condOrigin 1700000175 exGetAuth 2 exDiskAuth exGetAuth.header [] false []).out.hang = false := by
  decide +kernel

/-- `etagOrigin` never answers with an error status -/
theorem etagOrigin_status {cfg : Config} {req : Request} {cs : List Contact} {h : Header} {resp : Resp}
    (ha : ask cfg etagOrigin req cs h = some resp) : resp.status = 304 ∨ resp.status = 200 := by
  unfold ask at ha
  split at ha
  · cases ha
  · simp only [etagOrigin, Option.map_some, Option.some.injEq] at ha
    subst ha
    unfold originAnswer
    repeat' first | split | (dsimp only; split)
    all_goals first | (left; rfl) | (right; rfl)

/-- the statement fails already for a request WITHOUT `Authorization` (witness `fails_witness_confirmed`) -/
theorem StaleOnlyAfterFailedRevalidationStatement_false : ¬ StaleOnlyAfterFailedRevalidationStatement := by
  intro h
  obtain ⟨_, _, _, _, resp, _, hfr, _⟩ :=
    h {} etagOrigin 1700000075 exGet 2 exDiskZero [] fails_witness_confirmed.2.1
  have h400 := hfr.status
  rcases etagOrigin_status hfr.asked with hs | hs <;> omega

/-- a request without `Authorization` has none in any of its activations: no self-locked re-entry -/
theorem activation_authorization {cfg : Config} {origin : Bytes → Option Origin} {now : Int} {req : Request}
    {a₀ a : Act} (h : Activation cfg origin now req a₀ a) :
    a.client.get b!"authorization" = a₀.client.get b!"authorization" := by
  induction h with
  | first => rfl
  | next _ hs ih => exact (stepOnce_reenter_authorization hs).trans ih

/-- **stale_served_only_after_failed_revalidation** (strongest true version for a request without
    `Authorization`, i.e. with disk writes enabled): when the answer is made from the copy marked stale,
    then in an activation of this request the origin was contacted for a revalidation of a stored entry
    that was due, and either it answered with a status ≥ 400 inside the entry's stale-if-error allowance,
    or it confirmed the entry and the confirmation was recorded -/
theorem stale_served_only_after_failed_revalidation (cfg : Config) (origin : Bytes → Option Origin) (now : Int)
    (req : Request) (fuel : Nat) (d : Disk) (ai : Header)
    (hauth : req.header.get b!"authorization" = [])
    (h : EndsStale (cachingFunc cfg origin now req fuel d req.header ai false []).label) :
    HadFailedRevalidation cfg origin now req ⟨d, req.header, ai, false, []⟩
      (cachingFunc cfg origin now req fuel d req.header ai false []).contacts
    ∨ HadConfirmedRevalidation cfg origin now req ⟨d, req.header, ai, false, []⟩
      (cachingFunc cfg origin now req fuel d req.header ai false []).contacts := by
  rcases stale_served_only_within_allowances cfg origin now req fuel d ai h with
    hf | hf | ⟨a, _, _, _, _, _, _, _, hact, hcu, _⟩
  · exact Or.inl hf
  · exact Or.inr hf
  · exfalso
    have := hcu.authorization
    rw [activation_authorization hact] at this
    dsimp only at this
    rw [hauth] at this
    exact absurd this (by decide)

example : exGet.header.get b!"authorization" = [] ∧ ¬ (exGetAuth.header.get b!"authorization" = []) := by decide

/-! ### 6. the lift to histories -/

/-- the answer `step` computes for request `r` in state `s` -/
abbrev answerOf (cfg : Config) (s : State) (r : Request) : Ans :=
  cachingFunc cfg s.origin s.now r defaultFuel s.disk r.header [] false []

/-- one served request of a history: the state it arrived in, the request, the answer -/
structure Served where
  state : State
  req : Request
  ans : Ans

/-- `run` with the states and the handler-level answers kept -/
def runPairs (cfg : Config) : State → List Op → List Served
  | _, [] => []
  | s, .req r :: ops => ⟨s, r, answerOf cfg s r⟩ :: runPairs cfg (step cfg s (.req r)).1 ops
  | s, .tick dt :: ops => runPairs cfg (step cfg s (.tick dt)).1 ops
  | s, .setOrigin p o :: ops => runPairs cfg (step cfg s (.setOrigin p o)).1 ops

theorem run_eq_runPairs (cfg : Config) : ∀ (ops : List Op) (s : State),
    run cfg s ops = (runPairs cfg s ops).map fun e => obsOf e.req e.ans
  | [], s => rfl
  | .req r :: ops, s => by
    unfold run runPairs
    simp only [step, List.map_cons]
    rw [run_eq_runPairs cfg ops]
  | .tick dt :: ops, s => by
    unfold run runPairs
    simp only [step]
    rw [run_eq_runPairs cfg ops]
  | .setOrigin p o :: ops, s => by
    unfold run runPairs
    simp only [step]
    rw [run_eq_runPairs cfg ops]

/-- every answer of a history is `cachingFunc` as `step` calls it, in SOME state -/
theorem runPairs_answer (cfg : Config) : ∀ (ops : List Op) (s : State),
    ∀ e ∈ runPairs cfg s ops, e.ans = answerOf cfg e.state e.req
  | [], s => by intro e he; cases he
  | .req r :: ops, s => by
    intro e he
    unfold runPairs at he
    rcases List.mem_cons.1 he with h | h
    · subst h; rfl
    · exact runPairs_answer cfg ops _ e h
  | .tick dt :: ops, s => by
    intro e he
    unfold runPairs at he
    exact runPairs_answer cfg ops _ e he
  | .setOrigin p o :: ops, s => by
    intro e he
    unfold runPairs at he
    exact runPairs_answer cfg ops _ e he

/-- **run_all** (state-dependent form): what holds of `cachingFunc`, as `step` calls it, in every
    state, holds of every served request of every history -/
theorem run_all_state (cfg : Config) (P : State → Request → Ans → Prop)
    (h : ∀ s r, P s r (cachingFunc cfg s.origin s.now r defaultFuel s.disk r.header [] false []))
    (s : State) (ops : List Op) : ∀ e ∈ runPairs cfg s ops, P e.state e.req e.ans := by
  intro e he
  rw [runPairs_answer cfg ops s e he]
  exact h e.state e.req

/-- **run_all**: every observation of a history is the wire image `obsOf r a` of a request and an
    answer with `P r a` -/
theorem run_all (cfg : Config) (P : Request → Ans → Prop)
    (h : ∀ (s : State) r, P r (cachingFunc cfg s.origin s.now r defaultFuel s.disk r.header [] false []))
    (s : State) (ops : List Op) : ∀ o ∈ run cfg s ops, ∃ r a, o = obsOf r a ∧ P r a := by
  intro o ho
  rw [run_eq_runPairs, List.mem_map] at ho
  obtain ⟨e, he, heo⟩ := ho
  exact ⟨e.req, e.ans, heo.symm, run_all_state cfg (fun _ => P) h s ops e he⟩

/-- a history: the origin is set, a request fills the cache, 59 s later a request is served from it,
    1 s later the next one revalidates -/
def exOps : List Op :=
  [.setOrigin b!"a" { status := 200, headers := [(b!"Cache-Control", b!"max-age=60")], body := b!"hi" },
   .req exGet, .tick 59, .req exGet, .tick 1, .req exGet]

example : (run {} (State.init 1700000000) exOps).map (fun o => (o.label, o.contacts.length))
    = [("w:fill", 1), ("f:hit", 0), ("w:fill", 1)] := by decide +kernel

theorem obsOf_contacts (r : Request) (a : Ans) : (obsOf r a).contacts = a.contacts := rfl
theorem obsOf_label (r : Request) (a : Ans) : (obsOf r a).label = a.label := rfl

theorem defaultFuel_succ : defaultFuel = 399 + 1 := rfl

/-- **history_served_without_contact**: in every history (any interleaving of requests, clock
    advances and origin changes, from any state), a request answered without any origin contact is a
    GET/HEAD request answered — the run-time panic aside — from an entry on the disk of that moment
    that is not due for revalidation at the clock of that moment; and it wrote nothing -/
theorem history_served_without_contact (cfg : Config) (hl : 0 < cfg.contactLimit) (s : State) (ops : List Op) :
    ∀ e ∈ runPairs cfg s ops, e.ans.contacts = [] →
      IsGetHead e.req
      ∧ e.ans.disk = (storageGet e.state.disk (keysOf cfg e.req e.req.header)).1
      ∧ FromFreshEntry cfg e.state.now e.state.disk e.req [] e.ans := by
  apply run_all_state cfg (fun st r a => a.contacts = [] →
      IsGetHead r ∧ a.disk = (storageGet st.disk (keysOf cfg r r.header)).1 ∧ FromFreshEntry cfg st.now st.disk r [] a)
  intro st r hc
  rw [defaultFuel_succ] at hc ⊢
  exact served_without_contact cfg st.origin st.now r 399 st.disk [] hl hc

/-- the same on the observations of `run` -/
theorem history_served_without_contact_obs (cfg : Config) (hl : 0 < cfg.contactLimit) (s : State) (ops : List Op) :
    ∀ o ∈ run cfg s ops, o.contacts = [] →
      ∃ (st : State) (r : Request) (a : Ans),
        o = obsOf r a ∧ IsGetHead r ∧ FromFreshEntry cfg st.now st.disk r [] a := by
  intro o ho hc
  rw [run_eq_runPairs, List.mem_map] at ho
  obtain ⟨e, he, heo⟩ := ho
  subst heo
  obtain ⟨hm, _, hf⟩ := history_served_without_contact cfg hl s ops e he hc
  exact ⟨e.state, e.req, e.ans, rfl, hm, hf⟩

/-- **history_served_without_contact_is_fresh_partial** (class C08-a excluded for the entry found) -/
theorem history_served_without_contact_is_fresh_partial (cfg : Config) (hl : 0 < cfg.contactLimit)
    (s : State) (ops : List Op) :
    ∀ e ∈ runPairs cfg s ops, e.ans.contacts = [] → Time.zeroTimeUnix < e.state.now →
      (∀ d' k st, storageGet e.state.disk (keysOf cfg e.req e.req.header) = (d', .found k st) →
        Spec.C08.inClass_C08_a (Props.C08.st (entryOf st)) e.state.now = false) →
      IsGetHead e.req
      ∧ (e.ans.label = "g:panic"
        ∨ ∃ d' k st, storageGet e.state.disk (keysOf cfg e.req e.req.header) = (d', .found k st)
            ∧ Spec.C08.isFresh (Props.C08.st (entryOf st)) e.state.now cfg.force = true) := by
  intro e he hc hz ha
  rw [runPairs_answer cfg ops s e he] at hc ⊢
  unfold answerOf at hc ⊢
  rw [defaultFuel_succ] at hc ⊢
  exact served_without_contact_is_fresh_partial cfg e.state.origin e.state.now e.req 399 e.state.disk [] hl hz ha hc

/-- **history_fresh_not_contacted**: in every history, a GET/HEAD request that finds an entry not due
    for revalidation makes no origin contact and writes nothing -/
theorem history_fresh_not_contacted (cfg : Config) (s : State) (ops : List Op) :
    ∀ e ∈ runPairs cfg s ops, IsGetHead e.req →
      ∀ d' k st, storageGet e.state.disk (keysOf cfg e.req e.req.header) = (d', .found k st) →
        Freshness.shouldRevalidate (entryOf st) e.state.now cfg.force = false →
        e.ans.contacts = [] ∧ e.ans.disk = d' ∧ FromFreshEntry cfg e.state.now e.state.disk e.req [] e.ans := by
  intro e he hm d' k st hs hsr
  rw [runPairs_answer cfg ops s e he]
  unfold answerOf
  rw [defaultFuel_succ]
  exact fresh_not_contacted cfg e.state.origin e.state.now e.req 399 e.state.disk [] hm hs hsr

/-- **history_stale_only_within_allowances** -/
theorem history_stale_only_within_allowances (cfg : Config) (s : State) (ops : List Op) :
    ∀ e ∈ runPairs cfg s ops, EndsStale e.ans.label →
      HadFailedRevalidation cfg e.state.origin e.state.now e.req ⟨e.state.disk, e.req.header, [], false, []⟩
        e.ans.contacts
      ∨ HadConfirmedRevalidation cfg e.state.origin e.state.now e.req ⟨e.state.disk, e.req.header, [], false, []⟩
        e.ans.contacts
      ∨ HadUnrecordedRevalidation cfg e.state.origin e.state.now e.req ⟨e.state.disk, e.req.header, [], false, []⟩
        e.ans.contacts := by
  intro e he hst
  rw [runPairs_answer cfg ops s e he] at hst ⊢
  exact stale_served_only_within_allowances cfg e.state.origin e.state.now e.req defaultFuel e.state.disk [] hst

/-- **history_stale_only_after_failed_revalidation**: for requests without `Authorization`: a failed
    revalidation inside stale-if-error, or a confirmed and recorded one -/
theorem history_stale_only_after_failed_revalidation (cfg : Config) (s : State) (ops : List Op) :
    ∀ e ∈ runPairs cfg s ops, e.req.header.get b!"authorization" = [] → EndsStale e.ans.label →
      HadFailedRevalidation cfg e.state.origin e.state.now e.req ⟨e.state.disk, e.req.header, [], false, []⟩
        e.ans.contacts
      ∨ HadConfirmedRevalidation cfg e.state.origin e.state.now e.req ⟨e.state.disk, e.req.header, [], false, []⟩
        e.ans.contacts := by
  intro e he hauth hst
  rw [runPairs_answer cfg ops s e he] at hst ⊢
  exact stale_served_only_after_failed_revalidation cfg e.state.origin e.state.now e.req defaultFuel e.state.disk []
    hauth hst

end Props.C08Sys
