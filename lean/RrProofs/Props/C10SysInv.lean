import RrProofs.Props.C10Sys
import RrProofs.Props.C07
import RrProofs.Lemmas.DirectivesMerge
/-
  C10 at system level, the INVARIANT (task item 7): "no entry on the disk decodes to a response header that
  says `DoNotCache`" is preserved by one activation of `cachingFunc` and by a whole request, under the
  hypothesis that the metadata codec gives back the `Cache-Control` values of the metadata values WRITTEN IN
  THIS ACTIVATION (true of everything the format represents: `Props.C07.codec_roundtrip_partial`; false in
  general: finding C07-a).  That `storageWriter.WriteHeader` keeps the Cache-Control values (except for the
  cacheable errors 400–404, stored with the fixed `s-maxage=60, max-age=60`) and that merging a 304 into the
  stored header map cannot produce `DoNotCache` are PROVED here (`Lemmas/DirectivesMerge.lean`), not assumed.
-/
namespace Props.C10Sys
open Go Model Model.SysCache Props.SysCache

/-! ### the invariant -/

/-- whatever the file's xattr decodes to does not say `DoNotCache` -/
def FileOK (f : File) : Prop :=
  ∀ x m, f.xattr = some x → Codec.decode x = .ok (some m) →
    (getCacheControlDirectives m.respHeader).doNotCache = false

/-- the invariant, as in the task text -/
def DiskOK (d : Disk) : Prop :=
  ∀ p f x m, d p = some f → f.xattr = some x → Codec.decode x = .ok (some m) →
    (getCacheControlDirectives m.respHeader).doNotCache = false

theorem diskOK_iff (d : Disk) : DiskOK d ↔ ∀ p f, d p = some f → FileOK f :=
  ⟨fun h p f hp x m hx hm => h p f x m hp hx hm, fun h p f x m hp hx hm => h p f hp x m hx hm⟩

theorem diskOK_empty : DiskOK Disk.empty := by
  intro p f x m hp; cases hp

/-- every file of `d'` is a file of `d` (in the same or another cell) -/
def Sub (d' d : Disk) : Prop := ∀ p f, d' p = some f → ∃ q, d q = some f

theorem Sub.refl (d : Disk) : Sub d d := fun p _ h => ⟨p, h⟩

theorem Sub.trans {a b c : Disk} (h1 : Sub a b) (h2 : Sub b c) : Sub a c := by
  intro p f hp
  obtain ⟨q, hq⟩ := h1 p f hp
  exact h2 q f hq

theorem sub_of_shrinks {d' d : Disk} (h : Shrinks d' d) : Sub d' d := by
  intro p f hp
  rcases h p with e | e
  · exact ⟨p, e ▸ hp⟩
  · rw [e] at hp; cases hp

theorem DiskOK.of_sub {d' d : Disk} (hd : DiskOK d) (hs : Sub d' d) : DiskOK d' := by
  intro p f x m hp hx hm
  obtain ⟨q, hq⟩ := hs p f hp
  exact hd q f x m hq hx hm

/-- `storageWriter.ChangeKey` only MOVES a file -/
theorem changeKey_sub (d : Disk) (w : Writer) (k : Key) : Sub (changeKey d w k).1 d := by
  unfold changeKey
  split
  · exact Sub.refl d
  · dsimp only
    split
    · exact Sub.refl d
    · split
      · rename_i f hf
        intro p g hp
        rw [upd_apply] at hp
        split at hp
        · cases hp; exact ⟨_, hf⟩
        · rw [upd_apply] at hp
          split at hp
          · cases hp
          · exact ⟨p, hp⟩
      · exact Sub.refl d

theorem rekey_sub (dirs : Directives) (keys : List Key) (d : Disk) (w : Writer) :
    Sub (rekey dirs keys d w).1 d := by
  unfold rekey
  split
  · have : ∀ (acc : Disk × Writer), Sub acc.1 d →
        Sub (keys.foldl (fun (acc : Disk × Writer) k =>
          if k.hasFullOrigin then changeKey acc.1 acc.2 k else acc) acc).1 d := by
      induction keys with
      | nil => intro acc h; exact h
      | cons k ks ih =>
        intro acc h
        rw [List.foldl_cons]
        apply ih
        split
        · exact Sub.trans (changeKey_sub _ _ _) h
        · exact h
    exact this (d, w) (Sub.refl d)
  · exact Sub.refl d

theorem changeKey_diskWritesDisabled (d : Disk) (w : Writer) (k : Key) :
    (changeKey d w k).2.diskWritesDisabled = w.diskWritesDisabled := by
  unfold changeKey
  split <;> rfl

/-- the re-keyed writer is as enabled or disabled as the writer was -/
theorem rekey_diskWritesDisabled (dirs : Directives) (keys : List Key) (d : Disk) (w : Writer) :
    (rekey dirs keys d w).2.diskWritesDisabled = w.diskWritesDisabled := by
  unfold rekey
  split
  · have : ∀ (acc : Disk × Writer), acc.2.diskWritesDisabled = w.diskWritesDisabled →
        (keys.foldl (fun (acc : Disk × Writer) k =>
          if k.hasFullOrigin then changeKey acc.1 acc.2 k else acc) acc).2.diskWritesDisabled
          = w.diskWritesDisabled := by
      induction keys with
      | nil => intro acc h; exact h
      | cons k ks ih =>
        intro acc h
        rw [List.foldl_cons]
        apply ih
        split
        · rw [changeKey_diskWritesDisabled]; exact h
        · exact h
    exact this (d, w) rfl
  · rfl

/-! ### the codec hypothesis -/

/-- decoding the encoded `m` gives back the `Cache-Control` values of `m` -/
def RoundTripsCC (m : Codec.Meta) : Prop :=
  ∀ m', Codec.decode (Codec.encode m) = .ok (some m') →
    m'.respHeader.values b!"cache-control" = m.respHeader.values b!"cache-control"

/-- … which is the case for everything the format represents (C07, partial: outside finding C07-a) -/
theorem roundTripsCC_of_representable (m : Codec.Meta) (hr : m.inRange = true)
    (hrep : Spec.C07.Representable m = true) : RoundTripsCC m := by
  intro m' hm'
  have hcls : Spec.C07.inClass_C07_a m = false := by simp [Spec.C07.inClass_C07_a, hrep]
  obtain ⟨m'', hd, _, _, _, _, _, _, _, _, hresp⟩ := Props.C07.codec_roundtrip_partial m hr hcls
  rw [hd] at hm'
  cases hm'
  exact hresp _

/-- a file published with the encoding of a metadata value that round-trips and does not say `DoNotCache` -/
theorem fileOK_encode {m : Codec.Meta} (hrt : RoundTripsCC m)
    (hm : (getCacheControlDirectives m.respHeader).doNotCache = false) (body : Bytes) :
    FileOK { body := body, xattr := some (Codec.encode m) } := by
  intro x m' hx hd
  cases hx
  rw [doNotCache_congr (hrt m' hd)]
  exact hm

/-! ### the writers -/

/-- `republish` (the row `w:304` and C09-e's `Close`) keeps the invariant: the re-encoded metadata carry the
    stored header map, with a 304's headers merged in — and a 304 that does not say `DoNotCache`, merged into a
    stored map that does not say it, cannot say it -/
theorem republish_diskOK (d : Disk) (w : Writer) (now : Int) (h304 : Option Header) (hd : DiskOK d)
    (hh : ∀ h, h304 = some h → Normal h ∧ (getCacheControlDirectives h).doNotCache = false)
    (hrt : ∀ f x m0, d w.path = some f → f.xattr = some x → Codec.decode x = .ok (some m0) →
      RoundTripsCC (republishedMeta m0 now h304)) :
    DiskOK (republish d w now h304).1 := by
  rw [diskOK_iff]
  intro p f hp
  rcases republish_cell d w now h304 p with e | e | ⟨hpw, _, f0, x0, m0, hf0, hx0, hm0, e⟩
  · rw [e] at hp; exact (diskOK_iff d).1 hd p f hp
  · rw [e] at hp; cases hp
  · rw [e] at hp
    cases hp
    subst hpw
    apply fileOK_encode (hrt f0 x0 m0 hf0 hx0 hm0)
    have hm0ok := hd _ f0 x0 m0 hf0 hx0 hm0
    unfold republishedMeta
    dsimp only
    cases h304 with
    | none => exact hm0ok
    | some h =>
      obtain ⟨hn, hdn⟩ := hh h rfl
      exact Conditional.doNotCache_merge304 hn _ hm0ok hdn

/-- the metadata values `cachingFill` may encode: the fill's own, or (C09-e) the old entry's with
    `Revalidated := now` -/
def FillWrites (cfg : Config) (d : Disk) (w : Writer) (now : Int) (status : Nat) (clientHeader : Header)
    (resp : Resp) (redirect : Bytes) (m : Codec.Meta) : Prop :=
  m = fillMeta cfg w now status clientHeader resp redirect ∨
  ∃ f x m0, d w.path = some f ∧ f.xattr = some x ∧ Codec.decode x = .ok (some m0) ∧
    m = { m0 with revalidated := now }

/-- the caching stack keeps the invariant: what it publishes passed the directive test of
    `storageWriter.WriteHeader`, and `WriteHeader`'s preparation keeps the `Cache-Control` values (or puts the
    fixed 60 s for a cacheable error) -/
theorem cachingFill_diskOK (cfg : Config) (d : Disk) (w : Writer) (now : Int) (status : Nat)
    (clientHeader : Header) (resp : Resp) (redirect : Bytes) (rr : Option Range.ReqRange) (hd : DiskOK d)
    (hrt : ∀ m, FillWrites cfg d w now status clientHeader resp redirect m → RoundTripsCC m) :
    DiskOK (cachingFill cfg d w now status clientHeader resp redirect rr).disk := by
  rw [diskOK_iff]
  intro p f hp
  rcases cachingFill_gate cfg d w now status clientHeader resp redirect rr p with
    e | e | ⟨_, _, hdn, _, _, e⟩ | ⟨_, _, _, _, _, f0, x0, m0, hf0, hx0, hm0, e⟩
  · rw [e] at hp; exact (diskOK_iff d).1 hd p f hp
  · rw [e] at hp; cases hp
  · rw [e] at hp
    cases hp
    apply fileOK_encode (hrt _ (Or.inl rfl))
    exact Codec.doNotCache_storePrep _ _ _ hdn
  · rw [e] at hp
    cases hp
    apply fileOK_encode (hrt _ (Or.inr ⟨f0, x0, m0, hf0, hx0, hm0, rfl⟩))
    exact hd _ f0 x0 m0 hf0 hx0 hm0

/-! ### one activation -/

/-- the `alwaysInclude` map of the filling rows (writer with disk writes enabled) -/
def fillAiOf (reval : Option (Key × Stored × Int)) (ai : Header) : Header :=
  (ai.set kStatus (if reval.isSome then b!"revalidated" else b!"miss")).set b!"Age" b!"0"

/-- the metadata values a writer row may encode after the origin answered `resp`:
    * the row `w:304` (writer with disk writes enabled): the entry under the writer's path with `Revalidated := now`
      and the 304's headers merged in;
    * the filling rows, on the disk and for the writer that the Vary: Origin re-keying leaves: the fill's own
      metadata (header map = what the client is sent), or C09-e's re-published old entry. -/
def AfterAnswerWrites (cfg : Config) (now : Int) (keys : List Key) (rr : Option Range.ReqRange) (d : Disk)
    (ai : Header) (reval : Option (Key × Stored × Int)) (w : Writer) (resp : Resp) (m : Codec.Meta) : Prop :=
  (∃ f x m0, d w.path = some f ∧ f.xattr = some x ∧ Codec.decode x = .ok (some m0) ∧
      m = republishedMeta m0 now (some (Conditional.dropZeroContentLength resp.header))) ∨
  FillWrites cfg (rekey (getCacheControlDirectives resp.header) keys d w).1
    (rekey (getCacheControlDirectives resp.header) keys d w).2 now
    ((rangeAdjust rr resp ai).2.1.getD resp.status)
    (Conditional.suffixETag cfg.sfx
      (Conditional.copyHeaders resp.header (fillAiOf reval (rangeAdjust rr resp ai).2.2)))
    resp [] m

theorem row304_diskOK (d : Disk) (ai : Header) (cs : List Contact) (w : Writer) (sg : Conditional.Surgery)
    (resp : Resp) (now : Int) (hd : DiskOK d) (hn : Normal resp.header)
    (hdn : (getCacheControlDirectives resp.header).doNotCache = false)
    (hrt : ∀ f x m0, d w.path = some f → f.xattr = some x → Codec.decode x = .ok (some m0) →
      RoundTripsCC (republishedMeta m0 now (some (Conditional.dropZeroContentLength resp.header)))) :
    DiskOK (Step.disk (row304 d ai cs w sg resp now)) := by
  have hrep : DiskOK (republish d w now (some (Conditional.dropZeroContentLength resp.header))).1 := by
    apply republish_diskOK d w now _ hd _ hrt
    intro h hh
    cases hh
    refine ⟨Conditional.normal_dropZeroContentLength hn, ?_⟩
    rw [doNotCache_congr (Conditional.values_dropZeroContentLength resp.header _ (by decide))]
    exact hdn
  unfold row304
  dsimp only
  split
  · exact hd
  · split
    · rename_i d1 heq; rw [heq] at hrep; exact hrep
    · rename_i d1 heq; rw [heq] at hrep; exact hrep

/-- **C10 (7), a writer row** keeps the invariant -/
theorem afterAnswer_diskOK (cfg : Config) (now : Int) (keys : List Key) (rr : Option Range.ReqRange) (d : Disk)
    (ai : Header) (cs : List Contact) (reval : Option (Key × Stored × Int)) (w : Writer)
    (sg : Conditional.Surgery) (resp : Resp) (hd : DiskOK d) (hn : Normal resp.header)
    (hrt : ∀ m, AfterAnswerWrites cfg now keys rr d ai reval w resp m → RoundTripsCC m) :
    DiskOK (Step.disk (afterAnswer cfg now keys rr d ai cs reval w sg resp)) := by
  have hsub := rekey_sub (getCacheControlDirectives resp.header) keys d w
  have hdis := rekey_diskWritesDisabled (getCacheControlDirectives resp.header) keys d w
  unfold afterAnswer
  unfold AfterAnswerWrites at hrt
  generalize rangeAdjust rr resp ai = ra at hrt
  rcases ra with ⟨_ | s2, so, ai'⟩
  · dsimp only at hrt ⊢
    split
    · rename_i h304
      apply row304_diskOK d ai' cs w sg resp now hd hn (by simpa using h304.2.2)
      intro f x m0 hf hx hm0
      exact hrt _ (Or.inl ⟨f, x, m0, hf, hx, hm0, rfl⟩)
    · split
      · exact hd
      · split
        · exact hd
        · generalize rekey (getCacheControlDirectives resp.header) keys d w = dw at hrt hsub hdis
          rcases dw with ⟨d2, w2⟩
          dsimp only at hrt hsub hdis ⊢
          have hd2 : DiskOK d2 := hd.of_sub hsub
          split
          · exact hd2
          · rename_i hwd
            split
            · exact hd2
            · apply cachingFill_diskOK cfg d2 w2 now _ _ resp [] rr hd2
              intro m hm
              apply hrt m (Or.inr ?_)
              have hw : ¬ w.diskWritesDisabled = true := by rw [← hdis]; exact hwd
              rw [if_neg hw] at hm
              exact hm
  · exact hd

/-- the metadata values ONE activation of `cachingFunc` may encode into an xattr: those of its writer row, when
    `cache.Get` hands out a writer and the origin answers -/
def StepWrites (cfg : Config) (origin : Bytes → Option Origin) (now : Int) (req : Request)
    (d : Disk) (client ai : Header) (skip : Bool) (cs : List Contact) (m : Codec.Meta) : Prop :=
  ∃ d1 reval resp,
    lookup cfg now (keysOf cfg req client) d client skip = (d1, .writer reval) ∧
    ask cfg origin req cs (surgeryOf (Range.getRange client) client reval).req = some resp ∧
    AfterAnswerWrites cfg now (keysOf cfg req client) (Range.getRange client) d1 ai reval
      (writerOf (keysOf cfg req client) client reval) resp m

/-- **C10 (7), one activation** `DiskOK` is preserved by one activation of `cachingFunc`, provided the codec gives
    back the `Cache-Control` values of the metadata values written in this activation -/
theorem stepOnce_diskOK (cfg : Config) (origin : Bytes → Option Origin) (now : Int) (req : Request)
    (d : Disk) (client ai : Header) (skip : Bool) (cs : List Contact) (hd : DiskOK d)
    (hrt : ∀ m, StepWrites cfg origin now req d client ai skip cs m → RoundTripsCC m) :
    DiskOK (Step.disk (stepOnce cfg origin now req d client ai skip cs)) := by
  rcases stepOnce_shape cfg origin now req d client ai skip cs with
    ⟨a, hea, hs⟩ | ⟨_, d1, reval, resp, hlk, hask, heq⟩
  · rw [hea]; exact hd.of_sub (sub_of_shrinks hs)
  · rw [heq]
    have hl := lookup_shrinks cfg now (keysOf cfg req client) d client skip
    rw [hlk] at hl
    apply afterAnswer_diskOK cfg now _ _ d1 ai _ reval _ _ resp (hd.of_sub (sub_of_shrinks hl)) (ask_normal hask)
    intro m hm
    exact hrt m ⟨d1, reval, resp, hlk, hask, hm⟩

/-- non-vacuity: for a GET of a cacheable answer on the empty disk the only metadata written are the fill's own,
    and they round-trip -/
example :
    let o : Origin := { status := 200, headers := [(b!"Cache-Control", b!"max-age=60")], body := b!"hello" }
    let r : Request := { method := b!"GET", path := b!"a", header := [] }
    ∀ m, StepWrites {} (fun _ => some o) 0 r Disk.empty [] [] false [] m → RoundTripsCC m := by
  intro o r
  rintro m ⟨d1, reval, resp, hlk, hask, hw⟩
  have h1 : lookup {} 0 (keysOf {} r []) Disk.empty [] false = (Disk.empty, .writer none) := by rfl
  rw [h1] at hlk
  cases hlk
  have h2 : ask {} (fun _ => some o) r [] (surgeryOf (Range.getRange []) [] none).req =
      some (originAnswer o b!"GET" [] none) := by rfl
  rw [h2] at hask
  cases hask
  rcases hw with ⟨f, x, m0, hf, _⟩ | rfl | ⟨f, x, m0, hf, _⟩
  · cases hf
  · exact roundTripsCC_of_representable _ (by decide) (by decide)
  · have hn : (rekey (getCacheControlDirectives (originAnswer o b!"GET" [] none).header) (keysOf {} r []) Disk.empty
        (writerOf (keysOf {} r []) [] none)).1
        (rekey (getCacheControlDirectives (originAnswer o b!"GET" [] none).header) (keysOf {} r []) Disk.empty
        (writerOf (keysOf {} r []) [] none)).2.path = none := by decide
    rw [hn] at hf; cases hf

/-- **C10 (7), whole request** whatever the fuel, provided the codec gives back the `Cache-Control` values of
    every metadata value an activation of this request may write from a disk that satisfies the invariant -/
theorem cachingFunc_diskOK (cfg : Config) (origin : Bytes → Option Origin) (now : Int) (req : Request)
    (hrt : ∀ d client ai skip cs m, DiskOK d → StepWrites cfg origin now req d client ai skip cs m →
      RoundTripsCC m) :
    ∀ (fuel : Nat) (d : Disk) (client ai : Header) (skip : Bool) (cs : List Contact),
      DiskOK d → DiskOK (cachingFunc cfg origin now req fuel d client ai skip cs).disk := by
  intro fuel
  induction fuel with
  | zero => intro d client ai skip cs hd; exact hd
  | succ n ih =>
    intro d client ai skip cs hd
    have hs := stepOnce_diskOK cfg origin now req d client ai skip cs hd
      (fun m hm => hrt d client ai skip cs m hd hm)
    cases hst : stepOnce cfg origin now req d client ai skip cs with
    | done a => rw [cachingFunc_succ_done hst]; rw [hst] at hs; exact hs
    | reenter d' c' ai' s' cs' tag =>
      rw [cachingFunc_succ_reenter hst]; rw [hst] at hs
      exact ih d' c' ai' s' cs' hs
    | reenterLocked d' c' ai' cs' tag =>
      rw [cachingFunc_succ_reenterLocked hst]; rw [hst] at hs
      exact DiskOK.of_sub hs (sub_of_shrinks (lockedReentry_shrinks cfg origin now req d' c' ai' cs'))

/-- **C10 (7), histories** the invariant holds in every state of every history that starts in a state
    satisfying it (the empty disk does), under the codec hypothesis for every request of the history -/
theorem step_diskOK (cfg : Config) (s : State) (op : Op) (hd : DiskOK s.disk)
    (hrt : ∀ r d client ai skip cs m, op = .req r → DiskOK d →
      StepWrites cfg s.origin s.now r d client ai skip cs m → RoundTripsCC m) :
    DiskOK (step cfg s op).1.disk := by
  cases op with
  | tick dt => exact hd
  | setOrigin p o => exact hd
  | req r =>
    exact cachingFunc_diskOK cfg s.origin s.now r (fun d client ai skip cs m => hrt r d client ai skip cs m rfl)
      defaultFuel s.disk r.header [] false [] hd

/-- non-vacuity of the codec hypothesis: the metadata of an ordinary fill are `Representable`, hence round-trip -/
example :
    let w : Writer := { key := ⟨[], b!"h", b!"/a", false, []⟩, path := b!"h/a", revalidating := false }
    let resp : Resp := { status := 200, header := [], contentLength := 2, body := b!"hi" }
    let h : Header := [(b!"Cache-Control", [b!"max-age=60"]), (b!"Etag", [b!"\"v1\""])]
    DiskOK Disk.empty ∧
    ∀ m, FillWrites {} Disk.empty w 0 200 h resp [] m → RoundTripsCC m := by
  intro w resp h
  refine ⟨diskOK_empty, ?_⟩
  rintro m (rfl | ⟨f, x, m0, hf, _⟩)
  · exact roundTripsCC_of_representable _ (by decide) (by decide)
  · cases hf

/-- the hypothesis is NEEDED (finding C07-a): a header value the format does not represent can smuggle a
    `Cache-Control: no-store` into what the decoder rebuilds, although the map that was written passes the
    directive test -/
example :
    let m : Codec.Meta := { respHeader := [(b!"X-A", [b!"a],Cache-Control:[no-store"])] }
    let m' : Codec.Meta := { respHeader := [(b!"Cache-Control", [b!"no-store"]), (b!"X-A", [b!"a"])] }
    (getCacheControlDirectives m.respHeader).doNotCache = false ∧
    Codec.decode (Codec.encode m) = .ok (some m') ∧
    (getCacheControlDirectives m'.respHeader).doNotCache = true := by
  decide

end Props.C10Sys
