import RrModel.Spec.C20
import RrProofs.Props.C01
/-
  C20 — Traffic copying is invisible to the client.  This file: the choice of the copy rule
  (function level).  The request-equality and invisibility theorems live with the executor
  model (RrProofs/Props/C20Exec.lean) once that slice exists.
-/
namespace Props.C20
open Go Model Spec.C01 Spec.C20 Props.C01

/-- once the copy slot is filled it is never overwritten -/
theorem matchLoop_copy_kept (q : Query) (rs : List Rule) (i : Nat) (c : Nat × Bytes) :
    (matchLoop q rs i (some c)).copy = some c := by
  induction rs generalizing i with
  | nil => simp [matchLoop]
  | cons r rs ih =>
    unfold matchLoop
    cases ruleHit q r with
    | skip => exact ih _
    | proxy t => rfl
    | copy t => exact ih _

theorem not_appliesProxy_of_hit {q : Query} {r : Rule} (h : ∀ t, ruleHit q r ≠ .proxy t) :
    appliesProxy q r = false := by
  cases hx : appliesProxy q r with
  | false => rfl
  | true => obtain ⟨t, ht⟩ := (ruleHit_proxy_iff q r).2 hx; exact absurd ht (h t)

theorem not_appliesCopy_of_hit {q : Query} {r : Rule} (h : ∀ t, ruleHit q r ≠ .copy t) :
    appliesCopy q r = false := by
  cases hx : appliesCopy q r with
  | false => rfl
  | true => obtain ⟨t, ht⟩ := (ruleHit_copy_iff q r).2 hx; exact absurd ht (h t)

theorem matchLoop_copy_idx (q : Query) (rs : List Rule) (i : Nat) :
    (matchLoop q rs i none).copy.map (·.1)
      = ((rs.take ((rs.findIdx? (appliesProxy q)).getD rs.length)).findIdx? (appliesCopy q)).map (· + i) := by
  induction rs generalizing i with
  | nil => simp [matchLoop]
  | cons r rs ih =>
    rw [List.findIdx?_cons]
    unfold matchLoop
    cases hh : ruleHit q r with
    | proxy t =>
      have : appliesProxy q r = true := (ruleHit_proxy_iff q r).1 ⟨t, hh⟩
      simp [this]
    | skip =>
      have hp : appliesProxy q r = false := not_appliesProxy_of_hit (by simp [hh])
      have hc : appliesCopy q r = false := not_appliesCopy_of_hit (by simp [hh])
      simp only [hp, Bool.false_eq_true, ↓reduceIte]
      rw [ih (i + 1)]
      cases hf : List.findIdx? (appliesProxy q) rs with
      | none =>
        simp only [Option.map_none, Option.getD_none, List.length_cons, List.take_succ_cons,
          List.findIdx?_cons, hc, Bool.false_eq_true, ↓reduceIte, Option.map_map]
        congr 1; funext x; simp only [Function.comp]; omega
      | some k =>
        simp only [Option.map_some, Option.getD_some, List.take_succ_cons,
          List.findIdx?_cons, hc, Bool.false_eq_true, ↓reduceIte, Option.map_map]
        congr 1; funext x; simp only [Function.comp]; omega
    | copy t =>
      have hp : appliesProxy q r = false := not_appliesProxy_of_hit (by simp [hh])
      have hc : appliesCopy q r = true := (ruleHit_copy_iff q r).1 ⟨t, hh⟩
      simp only [hp, Bool.false_eq_true, ↓reduceIte]
      rw [matchLoop_copy_kept]
      cases hf : List.findIdx? (appliesProxy q) rs with
      | none => simp [List.findIdx?_cons, hc]
      | some k => simp [List.findIdx?_cons, hc]

/-- **C20, choice.** The copy rule used is the first applicable copy rule that precedes the
    selected proxy rule (all of the list when no proxy rule applies). -/
theorem copy_rule_choice (rs : List Rule) (q : Query) :
    (matchRules rs q).copy.map (·.1) = firstCopyBeforeProxy rs q := by
  unfold matchRules firstCopyBeforeProxy firstProxy
  rw [matchLoop_copy_idx]
  simp

/-- the copy target is what `attemptMatch` computes for the copy rule -/
theorem matchLoop_copy_target (q : Query) (rs : List Rule) (i : Nat) (j : Nat) (t : Bytes)
    (h : (matchLoop q rs i none).copy = some (j, t)) :
    i ≤ j ∧ ∃ r, rs[j - i]? = some r ∧ attemptMatch r q.scheme q.host q.uri = some t := by
  induction rs generalizing i with
  | nil => simp [matchLoop] at h
  | cons r rs ih =>
    unfold matchLoop at h
    cases hh : ruleHit q r with
    | proxy t' => simp [hh] at h
    | skip =>
      simp only [hh] at h
      obtain ⟨hle, r', hr', hat⟩ := ih (i + 1) h
      refine ⟨by omega, r', ?_, hat⟩
      have : j - i = (j - (i + 1)) + 1 := by omega
      rw [this, List.getElem?_cons_succ]; exact hr'
    | copy t' =>
      simp only [hh] at h
      rw [matchLoop_copy_kept] at h
      simp only [Option.some.injEq, Prod.mk.injEq] at h
      obtain ⟨rfl, rfl⟩ := h
      exact ⟨Nat.le_refl _, r, by simp, ruleHit_target q r _ (Or.inr hh)⟩

theorem holds_choice_model (rs : List Rule) (q : Query) :
    holdsChoice rs q ((matchRules rs q).copy.map (·.1)) = true := by
  unfold holdsChoice
  rw [copy_rule_choice]; simp

/-! Non-vacuity: copy rules before and after the proxy rule; only the first one before counts. -/
def exRules : List Rule := [
  { path := b!"/a/*", wci := some 3, dest := b!"http://c0/$1", type := .copy, enabled := false },
  { path := b!"/a/*", wci := some 3, dest := b!"http://c1/$1", type := .copy },
  { path := b!"/*", wci := some 1, dest := b!"http://c2/$1", type := .copy },
  { path := b!"/a/*", wci := some 3, dest := b!"http://p3/$1" },
  { path := b!"/a/*", wci := some 3, dest := b!"http://c4/$1", type := .copy } ]

example : (matchRules exRules ⟨b!"http", b!"h", b!"/a/z", b!"GET"⟩)
    = { proxy := some (3, b!"http://p3/z"), copy := some (1, b!"http://c1/z") } := by decide
example : firstCopyBeforeProxy exRules ⟨b!"http", b!"h", b!"/b", b!"GET"⟩ = some 2 := by decide

end Props.C20
