import RrModel.Freshness
import RrModel.Spec.C08
import RrProofs.Lemmas.Fresh
/-
  C08 — "served from cache only while fresh, and then without origin traffic", at the level of
  `cache.Get` (caching.go:199-334): the decision function `Freshness.decide` and the
  lock-dependent tail `Freshness.get`.
-/
namespace Props.C08
open Go Model Model.Freshness Spec.C08

/-- the spec's view of a stored entry -/
abbrev st (m : Entry) : Stored := storedOf m.header m.created m.revalidated

/-- the observation a `get` outcome amounts to -/
def obsOf : Outcome → Obs
  | .foundFresh _ => .served
  | .found304 _ => .served
  | .foundStale _ => .served
  | .foundNoReader _ => .served
  | .revalidatingWriter _ => .contact
  | .revalidatingReader _ => .wait

/-- **fresh_sound as stated**: whenever `cache.Get` hands out the stored response as fresh (or a
    304 made from it) the entry's age is below its lifetime.  (`zeroTimeUnix < now`: the clock
    reads a date after year 1 — Go's zero `Time` stands for "unparsable".) -/
def FreshSoundStatement : Prop :=
  ∀ (m : Entry) (now : Int) (force : Nat) (skip : Bool) (inm ims : Bytes) (suffix : Option Bytes) (d : Decision),
    Time.zeroTimeUnix < now →
    Freshness.decide m now force skip inm ims suffix = .ok d →
    (d = .notModified304 ∨ ∃ a, d = .fresh a) →
    isFresh (st m) now force = true

/-- **fresh_complete as stated**: while the entry is fresh the origin is not contacted (and the
    entry is not marked stale). -/
def FreshCompleteStatement : Prop :=
  ∀ (m : Entry) (now : Int) (force : Nat) (skip : Bool) (inm ims : Bytes) (suffix : Option Bytes) (d : Decision),
    Time.zeroTimeUnix < now →
    isFresh (st m) now force = true →
    Freshness.decide m now force skip inm ims suffix = .ok d →
    (d = .notModified304 ∨ d = .fresh ((st m).age now))

/-! ### A. bridge: the model's three stale tests over the spec's view `st m` -/

theorem ageOf_fst_st (m : Entry) (now : Int) : (ageOf m now).1 = (st m).age now :=
  Freshness.ageOf_fst m now

theorem ageOf_snd_st (m : Entry) (now : Int) :
    (ageOf m now).2 = Decidable.decide (m.revalidated ≠ 0) := Freshness.ageOf_snd m now

/-- s-maxage, else max-age, compared with `≤` -/
theorem staleByDirectives_st (m : Entry) (age : Int) :
    staleByDirectives (getCacheControlDirectives m.header) age =
      match (st m).sMaxAge with
      | some s => Decidable.decide (s ≤ age)
      | none =>
        match (st m).maxAge with
        | some x => Decidable.decide (x ≤ age)
        | none => false := rfl

theorem staleByDirectives_of_sMaxAge {m : Entry} {s : Int} (h : (st m).sMaxAge = some s) (age : Int) :
    staleByDirectives (getCacheControlDirectives m.header) age = Decidable.decide (s ≤ age) := by
  rw [staleByDirectives_st, h]

theorem staleByDirectives_of_maxAge {m : Entry} {x : Int} (hs : (st m).sMaxAge = none)
    (h : (st m).maxAge = some x) (age : Int) :
    staleByDirectives (getCacheControlDirectives m.header) age = Decidable.decide (x ≤ age) := by
  rw [staleByDirectives_st, hs, h]

theorem staleByDirectives_of_none {m : Entry} (hs : (st m).sMaxAge = none)
    (h : (st m).maxAge = none) (age : Int) :
    staleByDirectives (getCacheControlDirectives m.header) age = false := by
  rw [staleByDirectives_st, hs, h]

/-- what `expiresOf` says about the raw header value and the code's `expiresUnix` -/
theorem expiresOf_none_iff (h : Header) : expiresOf h = none ↔ h.get b!"expires" = [] := by
  unfold expiresOf
  by_cases he : h.get b!"expires" = []
  · simp [he]
  · cases h1 : Time.parseRFC1123 (h.get b!"expires") <;>
      cases h2 : Time.parseRFC1123Z (h.get b!"expires") <;> simp [he, h1, h2]

theorem expiresOf_date {h : Header} {t : Int} (he : expiresOf h = some (some t)) :
    h.get b!"expires" ≠ [] ∧ Time.expiresUnix (h.get b!"expires") = t := by
  unfold expiresOf at he
  unfold Time.expiresUnix
  by_cases hn : h.get b!"expires" = []
  · simp [hn] at he
  · refine ⟨hn, ?_⟩
    cases h1 : Time.parseRFC1123 (h.get b!"expires") <;>
      cases h2 : Time.parseRFC1123Z (h.get b!"expires") <;> simp [hn, h1, h2] at he ⊢ <;> exact he

theorem expiresOf_invalid {h : Header} (he : expiresOf h = some none) :
    h.get b!"expires" ≠ [] ∧ Time.expiresUnix (h.get b!"expires") = Time.zeroTimeUnix := by
  unfold expiresOf at he
  unfold Time.expiresUnix
  by_cases hn : h.get b!"expires" = []
  · simp [hn] at he
  · refine ⟨hn, ?_⟩
    cases h1 : Time.parseRFC1123 (h.get b!"expires") <;>
      cases h2 : Time.parseRFC1123Z (h.get b!"expires") <;> simp [hn, h1, h2] at he ⊢

theorem length_pos_of_ne_nil {e : Bytes} (h : e ≠ []) : (Decidable.decide (e.length > 0)) = true := by
  cases e with
  | nil => exact absurd rfl h
  | cons c e => simp

/-- no Expires header: the test is off -/
theorem staleByExpires_of_none {m : Entry} (h : (st m).expires = none) (fr : Bool) (now : Int) :
    staleByExpires (m.header.get b!"expires") fr now = false := by
  have : m.header.get b!"expires" = [] := (expiresOf_none_iff m.header).1 h
  simp [staleByExpires, this]

/-- a parsable Expires: `Expires ≤ now`, but only for an entry that was never revalidated -/
theorem staleByExpires_of_date {m : Entry} {t : Int} (h : (st m).expires = some (some t))
    (fr : Bool) (now : Int) :
    staleByExpires (m.header.get b!"expires") fr now = (!fr && Decidable.decide (t ≤ now)) := by
  obtain ⟨hn, hu⟩ := expiresOf_date h
  unfold staleByExpires
  rw [hu, length_pos_of_ne_nil hn]
  cases fr <;> simp

/-- an Expires that is no date: Go's zero `Time`, which lies before any real clock reading -/
theorem staleByExpires_of_invalid {m : Entry} (h : (st m).expires = some none)
    (fr : Bool) {now : Int} (hz : Time.zeroTimeUnix < now) :
    staleByExpires (m.header.get b!"expires") fr now = !fr := by
  obtain ⟨hn, hu⟩ := expiresOf_invalid h
  unfold staleByExpires
  rw [hu, length_pos_of_ne_nil hn]
  have : Time.zeroTimeUnix ≤ now := by omega
  cases fr <;> simp [this]

/-- the three cases at once -/
theorem staleByExpires_st (m : Entry) (fr : Bool) {now : Int} (hz : Time.zeroTimeUnix < now) :
    staleByExpires (m.header.get b!"expires") fr now = (!fr && expiredByExpires (st m) now) := by
  unfold expiredByExpires
  cases h : (st m).expires with
  | none => rw [staleByExpires_of_none h]; simp
  | some o =>
    cases o with
    | none => rw [staleByExpires_of_invalid h fr hz]; simp
    | some t => rw [staleByExpires_of_date h]

/-- the code's `shouldRevalidate` written over the spec's view of the entry (for a clock after
    year 1): force_revalidate, or s-maxage else max-age, or — for an entry never revalidated —
    the stored Expires header saying "expired", whatever the directives say -/
def codeStale (s : Stored) (now : Int) (force : Nat) : Bool :=
  (force != 0 && Decidable.decide ((force : Int) ≤ s.age now))
  || (match s.sMaxAge with
      | some x => Decidable.decide (x ≤ s.age now)
      | none =>
        match s.maxAge with
        | some x => Decidable.decide (x ≤ s.age now)
        | none => false)
  || (s.revalidated == 0 && expiredByExpires s now)

theorem shouldRevalidate_eq_codeStale (m : Entry) {now : Int} (force : Nat)
    (hz : Time.zeroTimeUnix < now) :
    shouldRevalidate m now force = codeStale (st m) now force := by
  rw [shouldRevalidate_eq, ageOf_fst_st, ageOf_snd_st, staleByExpires_st m _ hz, staleByDirectives_st]
  unfold codeStale
  have h1 : staleByForce force ((st m).age now)
      = (force != 0 && Decidable.decide ((force : Int) ≤ (st m).age now)) := by
    unfold staleByForce
    by_cases hf : force = 0 <;> simp [hf]
  have h2 : (!Decidable.decide (m.revalidated ≠ 0)) = ((st m).revalidated == 0) := by
    show _ = (m.revalidated == 0)
    by_cases hr : m.revalidated = 0 <;> simp [hr]
  rw [h1, h2]

/-! ### the spec side, over an arbitrary `Stored` -/

/-- "capped by force_revalidate": the capped lifetime is exceeded exactly when the cap or the
    explicit lifetime is -/
theorem cap_exceeds_eq_false_iff (l : Life) (force : Nat) (age : Int) :
    (cap l force).exceeds age = false ↔ (force ≠ 0 ∧ (force : Int) ≤ age) ∨ l.exceeds age = false := by
  unfold cap
  by_cases hf : force = 0
  · simp [hf]
  · rw [if_neg hf]
    cases l with
    | unbounded => simp [Life.exceeds, hf]
    | secs n => simp [Life.exceeds, hf]; omega
    | expired => simp [Life.exceeds]

/-- sound direction: outside class C08-a, what the code calls "no revalidation due" is fresh -/
theorem fresh_of_not_codeStale (s : Stored) (now : Int) (force : Nat)
    (ha : inClass_C08_a s now = false) (h : codeStale s now force = false) :
    isFresh s now force = true := by
  obtain ⟨sm, ma, ex, sie, swr, cr, rv⟩ := s
  cases hx : isFresh ⟨sm, ma, ex, sie, swr, cr, rv⟩ now force with
  | true => rfl
  | false =>
    exfalso
    unfold isFresh lifetime at hx
    rw [cap_exceeds_eq_false_iff] at hx
    unfold codeStale at h
    unfold inClass_C08_a at ha
    rcases sm with _ | sm <;> rcases ma with _ | ma <;> rcases ex with _ | _ | t <;>
      simp [explicitLifetime, Life.exceeds, expiredByExpires, Stored.age, Stored.base] at hx h ha
    all_goals omega

/-- complete direction: outside class C08-b, a fresh entry is "no revalidation due" -/
theorem not_codeStale_of_fresh (s : Stored) (now : Int) (force : Nat)
    (hb : inClass_C08_b s now = false) (h : isFresh s now force = true) :
    codeStale s now force = false := by
  obtain ⟨sm, ma, ex, sie, swr, cr, rv⟩ := s
  cases hx : codeStale ⟨sm, ma, ex, sie, swr, cr, rv⟩ now force with
  | false => rfl
  | true =>
    exfalso
    have hn : ¬ (isFresh ⟨sm, ma, ex, sie, swr, cr, rv⟩ now force = false) := by rw [h]; simp
    unfold isFresh lifetime at hn
    rw [cap_exceeds_eq_false_iff] at hn
    unfold codeStale at hx
    unfold inClass_C08_b at hb
    rcases sm with _ | sm <;> rcases ma with _ | ma <;> rcases ex with _ | _ | t <;>
      simp [explicitLifetime, Life.exceeds, expiredByExpires, Stored.age, Stored.base] at hx hn hb
    all_goals omega

theorem codeStale_iff_not_fresh (s : Stored) (now : Int) (force : Nat)
    (ha : inClass_C08_a s now = false) (hb : inClass_C08_b s now = false) :
    codeStale s now force = true ↔ isFresh s now force = false := by
  constructor
  · intro h
    cases hx : isFresh s now force with
    | false => rfl
    | true => rw [not_codeStale_of_fresh s now force hb hx] at h; cases h
  · intro h
    cases hx : codeStale s now force with
    | true => rfl
    | false => rw [fresh_of_not_codeStale s now force ha hx] at h; cases h

/-! ### entries used by the witnesses and the non-vacuity examples -/

/-- finding C08-a: Expires only (= 1700000060), filled at 1700000000, revalidated at 1700000030 -/
def entryA : Entry :=
  { header := [(b!"Expires", [b!"Tue, 14 Nov 2023 22:14:20 GMT"])],
    created := 1700000000, revalidated := 1700000030 }

/-- finding C08-b: `max-age=3600` next to `Expires: 0`, never revalidated -/
def entryB : Entry :=
  { header := [(b!"Cache-Control", [b!"max-age=3600"]), (b!"Expires", [b!"0"])],
    created := 1700000000, revalidated := 0 }

/-- `max-age=60`, never revalidated -/
def exMaxAge : Entry :=
  { header := [(b!"Cache-Control", [b!"max-age=60"])], created := 1700000000, revalidated := 0 }

/-- `s-maxage=30` wins over `max-age=60`; revalidated once at 1700000100 -/
def exSMaxAge : Entry :=
  { header := [(b!"Cache-Control", [b!"max-age=60, s-maxage=30"])],
    created := 1700000000, revalidated := 1700000100 }

/-- Expires only (= 1700000060), never revalidated -/
def exExpires : Entry :=
  { header := [(b!"Expires", [b!"Tue, 14 Nov 2023 22:14:20 GMT"])],
    created := 1700000000, revalidated := 0 }

/-- `Expires: 0` alone (no date), never revalidated -/
def exInvalid : Entry :=
  { header := [(b!"Expires", [b!"0"])], created := 1700000000, revalidated := 0 }

/-- no lifetime information at all -/
def exBare : Entry :=
  { header := [(b!"Content-Type", [b!"text/plain"])], created := 1700000000, revalidated := 0 }

/-- `max-age=60` with both allowances -/
def exAllowances : Entry :=
  { header := [(b!"Cache-Control", [b!"max-age=60, stale-while-revalidate=90, stale-if-error=300"])],
    created := 1700000000, revalidated := 0 }

/-! ### B. fresh_sound: finding C08-a, and the theorem outside its class -/

/-- **finding C08-a**: an Expires-only entry that has been revalidated once is handed out as
    fresh 99940 s after its Expires instant -/
theorem fails_witness_a :
    Freshness.decide entryA 1700100000 0 false [] [] none = .ok (.fresh 99970)
      ∧ isFresh (st entryA) 1700100000 0 = false := by decide +kernel

example : expiresOf entryA.header = some (some 1700000060) := by decide +kernel
example : inClass_C08_a (st entryA) 1700100000 = true := by decide +kernel

theorem FreshSoundStatement_false : ¬ FreshSoundStatement := by
  intro h
  have hf := h entryA 1700100000 0 false [] [] none (.fresh 99970) (by decide)
    fails_witness_a.1 (Or.inr ⟨_, rfl⟩)
  rw [fails_witness_a.2] at hf
  cases hf

/-- a decision that is a 304 or the fresh copy comes from `shouldRevalidate = false` -/
theorem not_stale_of_served {m : Entry} {now : Int} {force : Nat} {skip : Bool} {inm ims : Bytes}
    {suffix : Option Bytes} {d : Decision}
    (hd : Freshness.decide m now force skip inm ims suffix = .ok d)
    (hk : d = .notModified304 ∨ ∃ a, d = .fresh a) : shouldRevalidate m now force = false := by
  cases hs : shouldRevalidate m now force with
  | false => rfl
  | true =>
    exfalso
    rw [decide_of_stale skip inm ims suffix hs] at hd
    by_cases hc : skip = true
    · rw [if_pos hc] at hd
      injection hd with hd
      rcases hk with hk | ⟨a, hk⟩ <;> (rw [hk] at hd; cases hd)
    · rw [if_neg hc] at hd
      injection hd with hd
      rcases hk with hk | ⟨a, hk⟩ <;> (rw [hk] at hd; cases hd)

/-- **fresh_sound, partial** because of finding C08-a (the hypothesis `inClass_C08_a … = false`
    is the complement of that finding's class): whenever `cache.Get` hands out the stored
    response as fresh, or a 304 made from it, the entry's age is below its lifetime. -/
theorem fresh_sound_partial (m : Entry) (now : Int) (force : Nat) (skip : Bool) (inm ims : Bytes)
    (suffix : Option Bytes) (d : Decision)
    (hz : Time.zeroTimeUnix < now)
    (ha : inClass_C08_a (st m) now = false)
    (hd : Freshness.decide m now force skip inm ims suffix = .ok d)
    (hk : d = .notModified304 ∨ ∃ a, d = .fresh a) :
    isFresh (st m) now force = true := by
  have hs := not_stale_of_served hd hk
  rw [shouldRevalidate_eq_codeStale m force hz] at hs
  exact fresh_of_not_codeStale (st m) now force ha hs

/-- non-vacuity: `max-age=60` at age 59 is handed out as fresh (and with a matching
    If-Modified-Since as 304); the revalidated `s-maxage=30` entry at age 29 -/
example : Time.zeroTimeUnix < 1700000059 ∧ inClass_C08_a (st exMaxAge) 1700000059 = false
    ∧ Freshness.decide exMaxAge 1700000059 0 false [] [] none = .ok (.fresh 59)
    ∧ isFresh (st exMaxAge) 1700000059 0 = true := by decide +kernel
example : inClass_C08_a (st exSMaxAge) 1700000129 = false
    ∧ Freshness.decide exSMaxAge 1700000129 0 false [] [] none = .ok (.fresh 29) := by decide +kernel
example :
    let m : Entry := { exMaxAge with header := (b!"Last-Modified", [b!"x"]) :: exMaxAge.header }
    inClass_C08_a (st m) 1700000059 = false
    ∧ Freshness.decide m 1700000059 0 false [] b!"x" none = .ok .notModified304 := by decide +kernel

/-! ### C. fresh_complete: finding C08-b, and the theorem outside its class -/

/-- **finding C08-b**: 10 s into a `max-age=3600` lifetime the entry is sent for revalidation
    because it carries `Expires: 0` -/
theorem fails_witness_b :
    Freshness.decide entryB 1700000010 0 false [] [] none = .ok (.revalidate false 10)
      ∧ isFresh (st entryB) 1700000010 0 = true := by decide +kernel

example : expiresOf entryB.header = some none := by decide +kernel
example : inClass_C08_b (st entryB) 1700000010 = true := by decide +kernel

theorem FreshCompleteStatement_false : ¬ FreshCompleteStatement := by
  intro h
  have hf := h entryB 1700000010 0 false [] [] none (.revalidate false 10) (by decide)
    fails_witness_b.2 fails_witness_b.1
  rcases hf with hf | hf <;> cases hf

/-- a fresh entry outside class C08-b has `shouldRevalidate = false` -/
theorem not_stale_of_fresh {m : Entry} {now : Int} {force : Nat}
    (hz : Time.zeroTimeUnix < now) (hb : inClass_C08_b (st m) now = false)
    (hf : isFresh (st m) now force = true) : shouldRevalidate m now force = false := by
  rw [shouldRevalidate_eq_codeStale m force hz]
  exact not_codeStale_of_fresh (st m) now force hb hf

/-- **fresh_complete, partial** because of finding C08-b (the hypothesis
    `inClass_C08_b … = false` is the complement of that finding's class): while the entry is
    fresh the decision is a 304 or the fresh copy with its age — never "revalidate", never the
    stale mark. -/
theorem fresh_complete_partial (m : Entry) (now : Int) (force : Nat) (skip : Bool) (inm ims : Bytes)
    (suffix : Option Bytes) (d : Decision)
    (hz : Time.zeroTimeUnix < now)
    (hb : inClass_C08_b (st m) now = false)
    (hf : isFresh (st m) now force = true)
    (hd : Freshness.decide m now force skip inm ims suffix = .ok d) :
    (d = .notModified304 ∨ d = .fresh ((st m).age now)) := by
  have hs := not_stale_of_fresh hz hb hf
  rw [decide_of_not_stale skip inm ims suffix hs, ageOf_fst_st] at hd
  cases hc : clientCheck suffix inm ims m.header with
  | panic s => rw [hc] at hd; cases hd
  | ok b =>
    rw [hc] at hd
    cases b with
    | true => injection hd with hd; exact Or.inl hd.symm
    | false => injection hd with hd; exact Or.inr hd.symm

/-- **fresh ⇒ no origin contact, partial** (same class hypothesis): a fresh entry is never sent
    for revalidation, and whatever `cache.Get` returns for it is the stored response. -/
theorem fresh_no_contact_partial (m : Entry) (now : Int) (force : Nat) (skip : Bool) (inm ims : Bytes)
    (suffix : Option Bytes)
    (hz : Time.zeroTimeUnix < now)
    (hb : inClass_C08_b (st m) now = false)
    (hf : isFresh (st m) now force = true) :
    (∀ c a, Freshness.decide m now force skip inm ims suffix ≠ .ok (.revalidate c a))
    ∧ (∀ lock o, Freshness.get lock m now force skip inm ims suffix = .ok o → obsOf o = .served) := by
  have hs := not_stale_of_fresh hz hb hf
  constructor
  · intro c a hd
    rcases fresh_complete_partial m now force skip inm ims suffix _ hz hb hf hd with h | h <;> cases h
  · intro lock o hg
    rw [get_of_not_stale lock skip inm ims suffix hs] at hg
    cases hc : clientCheck suffix inm ims m.header with
    | panic s => rw [hc] at hg; cases hg
    | ok b =>
      rw [hc] at hg
      cases b <;> (injection hg with hg; rw [← hg]; rfl)

/-- non-vacuity: fresh entries of each kind outside class C08-b, with and without the lock -/
example : Time.zeroTimeUnix < 1700000059 ∧ inClass_C08_b (st exMaxAge) 1700000059 = false
    ∧ isFresh (st exMaxAge) 1700000059 0 = true
    ∧ Freshness.decide exMaxAge 1700000059 0 true [] [] none = .ok (.fresh 59)
    ∧ Freshness.get true exMaxAge 1700000059 0 false [] [] none = .ok (.foundFresh 59) := by
  decide +kernel
example : inClass_C08_b (st exExpires) 1700000059 = false
    ∧ isFresh (st exExpires) 1700000059 0 = true
    ∧ Freshness.get false exExpires 1700000059 0 false [] [] none = .ok (.foundFresh 59) := by
  decide +kernel
example : inClass_C08_b (st exBare) 1800000000 = false
    ∧ isFresh (st exBare) 1800000000 0 = true
    ∧ Freshness.get false exBare 1800000000 0 false [] [] none = .ok (.foundFresh 100000000) := by
  decide +kernel

/-! ### D. the revalidation test against the spec's freshness, and its boundary -/

/-- **partial** (findings C08-a, C08-b): outside both classes the code's `shouldRevalidate` is
    exactly "not fresh". -/
theorem shouldRevalidate_iff_partial (m : Entry) (now : Int) (force : Nat)
    (hz : Time.zeroTimeUnix < now)
    (ha : inClass_C08_a (st m) now = false) (hb : inClass_C08_b (st m) now = false) :
    shouldRevalidate m now force = true ↔ isFresh (st m) now force = false := by
  rw [shouldRevalidate_eq_codeStale m force hz]
  exact codeStale_iff_not_fresh (st m) now force ha hb

/-- non-vacuity: an Expires-only entry before and at its instant; an unparsable Expires on a
    never-revalidated entry without directives is "expired" on both sides — the place where
    `zeroTimeUnix < now` is used; with a clock before year 1 the equivalence would fail -/
example : Time.zeroTimeUnix < 1700000060
    ∧ inClass_C08_a (st exExpires) 1700000060 = false ∧ inClass_C08_b (st exExpires) 1700000060 = false
    ∧ shouldRevalidate exExpires 1700000059 0 = false ∧ isFresh (st exExpires) 1700000059 0 = true
    ∧ shouldRevalidate exExpires 1700000060 0 = true ∧ isFresh (st exExpires) 1700000060 0 = false := by
  decide +kernel
example : inClass_C08_a (st exInvalid) 1700000001 = false ∧ inClass_C08_b (st exInvalid) 1700000001 = false
    ∧ shouldRevalidate exInvalid 1700000001 0 = true ∧ isFresh (st exInvalid) 1700000001 0 = false
    ∧ shouldRevalidate exInvalid (Time.zeroTimeUnix - 1) 0 = false
    ∧ isFresh (st exInvalid) (Time.zeroTimeUnix - 1) 0 = false := by
  decide +kernel

/-- the class of C08-a is no wider than the defect: inside it the entry is never fresh, yet the
    code revalidates only on account of force_revalidate -/
theorem class_a_behaviour (m : Entry) (now : Int) (force : Nat)
    (hz : Time.zeroTimeUnix < now) (ha : inClass_C08_a (st m) now = true) :
    isFresh (st m) now force = false
    ∧ (shouldRevalidate m now force = true ↔ force ≠ 0 ∧ (force : Int) ≤ (st m).age now) := by
  rw [shouldRevalidate_eq_codeStale m force hz]
  generalize st m = s at ha ⊢
  obtain ⟨sm, ma, ex, sie, swr, cr, rv⟩ := s
  unfold isFresh lifetime
  rw [cap_exceeds_eq_false_iff]
  unfold codeStale
  unfold inClass_C08_a at ha
  rcases sm with _ | sm <;> rcases ma with _ | ma <;> rcases ex with _ | _ | t <;>
    simp [explicitLifetime, Life.exceeds, expiredByExpires, Stored.age, Stored.base] at ha ⊢
  all_goals omega

/-- the class of C08-b is no wider than the defect: inside it the code always revalidates,
    whatever s-maxage / max-age say -/
theorem class_b_behaviour (m : Entry) (now : Int) (force : Nat)
    (hz : Time.zeroTimeUnix < now) (hb : inClass_C08_b (st m) now = true) :
    shouldRevalidate m now force = true := by
  rw [shouldRevalidate_eq_codeStale m force hz]
  generalize st m = s at hb ⊢
  obtain ⟨sm, ma, ex, sie, swr, cr, rv⟩ := s
  unfold codeStale
  unfold inClass_C08_b at hb
  rcases sm with _ | sm <;> rcases ma with _ | ma <;> rcases ex with _ | _ | t <;>
    simp [expiredByExpires, Stored.age, Stored.base] at hb ⊢
  all_goals omega

/-- **boundary, partial** (same classes): revalidation starts exactly at age = lifetime — the
    code's `<=`. -/
theorem boundary (m : Entry) (now : Int) (force : Nat) (L : Int)
    (hz : Time.zeroTimeUnix < now)
    (ha : inClass_C08_a (st m) now = false) (hb : inClass_C08_b (st m) now = false)
    (hl : lifetime (st m) force = .secs L) :
    shouldRevalidate m now force = true ↔ L ≤ (st m).age now := by
  rw [shouldRevalidate_iff_partial m now force hz ha hb]
  unfold isFresh
  rw [hl]
  simp only [Life.exceeds, decide_eq_false_iff_not]
  omega

/-- non-vacuity: `max-age=60` — fresh at age 59, revalidated at age 60 -/
example : Time.zeroTimeUnix < 1700000060
    ∧ inClass_C08_a (st exMaxAge) 1700000060 = false ∧ inClass_C08_b (st exMaxAge) 1700000060 = false
    ∧ lifetime (st exMaxAge) 0 = .secs 60
    ∧ (st exMaxAge).age 1700000059 = 59 ∧ shouldRevalidate exMaxAge 1700000059 0 = false
    ∧ (st exMaxAge).age 1700000060 = 60 ∧ shouldRevalidate exMaxAge 1700000060 0 = true
    ∧ Freshness.decide exMaxAge 1700000059 0 false [] [] none = .ok (.fresh 59)
    ∧ Freshness.decide exMaxAge 1700000060 0 false [] [] none = .ok (.revalidate false 60) := by
  decide +kernel
/-- non-vacuity: force_revalidate = 45 caps `max-age=60` (and `min` is what decides) -/
example : lifetime (st exMaxAge) 45 = .secs 45
    ∧ shouldRevalidate exMaxAge 1700000044 45 = false ∧ shouldRevalidate exMaxAge 1700000045 45 = true
    ∧ lifetime (st exMaxAge) 90 = .secs 60
    ∧ shouldRevalidate exMaxAge 1700000059 90 = false ∧ shouldRevalidate exMaxAge 1700000060 90 = true := by
  decide +kernel

/-- s-maxage (no force_revalidate, no Expires header): revalidate from `age = s-maxage` on -/
theorem boundary_smaxage (m : Entry) (now : Int) (L : Int)
    (hs : (getCacheControlDirectives m.header).sMaxAge = some L)
    (he : m.header.get b!"expires" = []) :
    shouldRevalidate m now 0 = true ↔ L ≤ (ageOf m now).1 := by
  rw [shouldRevalidate_eq]
  simp [staleByForce, staleByDirectives, staleByExpires, hs, he]

example : (getCacheControlDirectives exSMaxAge.header).sMaxAge = some 30
    ∧ exSMaxAge.header.get b!"expires" = []
    ∧ (ageOf exSMaxAge 1700000129).1 = 29 ∧ shouldRevalidate exSMaxAge 1700000129 0 = false
    ∧ (ageOf exSMaxAge 1700000130).1 = 30 ∧ shouldRevalidate exSMaxAge 1700000130 0 = true := by
  decide +kernel

/-- max-age without s-maxage (no force_revalidate, no Expires header) -/
theorem boundary_maxage (m : Entry) (now : Int) (L : Int)
    (hs : (getCacheControlDirectives m.header).sMaxAge = none)
    (hm : (getCacheControlDirectives m.header).maxAge = some L)
    (he : m.header.get b!"expires" = []) :
    shouldRevalidate m now 0 = true ↔ L ≤ (ageOf m now).1 := by
  rw [shouldRevalidate_eq]
  simp [staleByForce, staleByDirectives, staleByExpires, hs, hm, he]

example : (getCacheControlDirectives exMaxAge.header).sMaxAge = none
    ∧ (getCacheControlDirectives exMaxAge.header).maxAge = some 60
    ∧ exMaxAge.header.get b!"expires" = []
    ∧ (ageOf exMaxAge 1700000059).1 = 59 ∧ shouldRevalidate exMaxAge 1700000059 0 = false
    ∧ (ageOf exMaxAge 1700000060).1 = 60 ∧ shouldRevalidate exMaxAge 1700000060 0 = true := by
  decide +kernel

/-- Expires alone, entry never revalidated (no force_revalidate): revalidate from the Expires
    instant on, i.e. from `age = Expires − base` on -/
theorem boundary_expires (m : Entry) (now : Int) (t : Int)
    (hs : (getCacheControlDirectives m.header).sMaxAge = none)
    (hm : (getCacheControlDirectives m.header).maxAge = none)
    (hr : m.revalidated = 0)
    (he : expiresOf m.header = some (some t)) :
    (shouldRevalidate m now 0 = true ↔ t ≤ now)
    ∧ (shouldRevalidate m now 0 = true ↔ t - (st m).base ≤ (st m).age now) := by
  have h1 : shouldRevalidate m now 0 = true ↔ t ≤ now := by
    rw [shouldRevalidate_eq, ageOf_snd_st, staleByExpires_of_date (m := m) he]
    simp [staleByForce, staleByDirectives, hs, hm, hr]
  refine ⟨h1, ?_⟩
  rw [h1]
  unfold Stored.age
  omega

example : (getCacheControlDirectives exExpires.header).sMaxAge = none
    ∧ (getCacheControlDirectives exExpires.header).maxAge = none
    ∧ exExpires.revalidated = 0
    ∧ expiresOf exExpires.header = some (some 1700000060)
    ∧ shouldRevalidate exExpires 1700000059 0 = false
    ∧ shouldRevalidate exExpires 1700000060 0 = true := by
  decide +kernel

theorem explicitLifetime_unbounded {s : Stored} (h : explicitLifetime s = .unbounded) :
    s.sMaxAge = none ∧ s.maxAge = none ∧ s.expires = none := by
  obtain ⟨sm, ma, ex, sie, swr, cr, rv⟩ := s
  rcases sm with _ | sm <;> rcases ma with _ | ma <;> rcases ex with _ | _ | t <;>
    simp [explicitLifetime] at h ⊢

/-- force_revalidate on an entry without explicit lifetime: revalidate from `age = force` on -/
theorem boundary_force (m : Entry) (now : Int) (force : Nat)
    (hf : force ≠ 0)
    (hu : explicitLifetime (st m) = .unbounded) :
    shouldRevalidate m now force = true ↔ (force : Int) ≤ (ageOf m now).1 := by
  obtain ⟨hs, hm, he⟩ := explicitLifetime_unbounded hu
  rw [shouldRevalidate_eq, staleByDirectives_of_none hs hm, staleByExpires_of_none he]
  simp [staleByForce_eq_true_iff, hf]

example : explicitLifetime (st exBare) = .unbounded
    ∧ (ageOf exBare 1700000119).1 = 119 ∧ shouldRevalidate exBare 1700000119 120 = false
    ∧ (ageOf exBare 1700000120).1 = 120 ∧ shouldRevalidate exBare 1700000120 120 = true
    ∧ Freshness.decide exBare 1700000120 120 false [] [] none = .ok (.revalidate false 120)
    ∧ Freshness.decide exBare 1700000120 120 true [] [] none = .ok (.staleServe 120) := by
  decide +kernel

/-! ### E. a stale response only inside an allowance -/

theorem staleSince_nonneg {s : Stored} {l : Int} (h : staleSince s = some l) : 0 ≤ l := by
  unfold staleSince at h
  cases he : explicitLifetime s with
  | unbounded => rw [he] at h; cases h
  | secs n => rw [he] at h; injection h with h; rw [← h]; exact Int.le_max_right n 0
  | expired => rw [he] at h; injection h with h; rw [← h]; exact Int.le_refl 0

/-- the code's test `allowance > age` is narrower than the window of the spec -/
theorem withinWindow_of_gt (s : Stored) (now : Int) (n : Int) (h : n > s.age now) :
    withinWindow s now (some n) = true := by
  unfold withinWindow
  cases hl : staleSince s with
  | none => rfl
  | some l =>
    have := staleSince_nonneg hl
    simp only [decide_eq_true_eq]
    omega

theorem within_of_canStaleWhileRevalidate (m : Entry) (now : Int)
    (h : (getCacheControlDirectives m.header).canStaleWhileRevalidate ((st m).age now) = true) :
    withinStaleWhileRevalidate (st m) now = true := by
  unfold Directives.canStaleWhileRevalidate at h
  unfold withinStaleWhileRevalidate
  show withinWindow (st m) now (getCacheControlDirectives m.header).staleWhileRevalidate = true
  cases hn : (getCacheControlDirectives m.header).staleWhileRevalidate with
  | none => rw [hn] at h; cases h
  | some n =>
    rw [hn] at h
    exact withinWindow_of_gt (st m) now n (by simpa using h)

theorem within_of_canStaleIfError (m : Entry) (now : Int)
    (h : (getCacheControlDirectives m.header).canStaleIfError ((st m).age now) = true) :
    withinStaleIfError (st m) now = true := by
  unfold Directives.canStaleIfError at h
  unfold withinStaleIfError
  show withinWindow (st m) now (getCacheControlDirectives m.header).staleIfError = true
  cases hn : (getCacheControlDirectives m.header).staleIfError with
  | none => rw [hn] at h; cases h
  | some n =>
    rw [hn] at h
    exact withinWindow_of_gt (st m) now n (by simpa using h)

/-- the decision "stale copy" is only taken when the caller asked for it (`skipRevalidate`)
    and a revalidation is in fact due -/
theorem stale_only_when_asked (m : Entry) (now : Int) (force : Nat) (skip : Bool) (inm ims : Bytes)
    (suffix : Option Bytes) (a : Int)
    (hd : Freshness.decide m now force skip inm ims suffix = .ok (.staleServe a)) :
    skip = true ∧ shouldRevalidate m now force = true ∧ a = (st m).age now := by
  cases hs : shouldRevalidate m now force with
  | false =>
    exfalso
    rw [decide_of_not_stale skip inm ims suffix hs] at hd
    cases hc : clientCheck suffix inm ims m.header with
    | panic s => rw [hc] at hd; cases hd
    | ok b => rw [hc] at hd; cases b <;> cases hd
  | true =>
    rw [decide_of_stale skip inm ims suffix hs, ageOf_fst_st] at hd
    by_cases hc : skip = true
    · rw [if_pos hc] at hd
      injection hd with hd
      injection hd with hd
      exact ⟨hc, rfl, hd.symm⟩
    · rw [if_neg hc] at hd
      cases hd

example : Freshness.decide exAllowances 1700000100 0 true [] [] none = .ok (.staleServe 100) := by
  decide +kernel

/-- without `skipRevalidate` a stale copy leaves `cache.Get` only through the
    stale-while-revalidate re-entry: another request holds the key and the origin's allowance
    is larger than the age -/
theorem stale_only_within_swr (lock : Bool) (m : Entry) (now : Int) (force : Nat) (inm ims : Bytes)
    (suffix : Option Bytes) (a : Int)
    (hg : Freshness.get lock m now force false inm ims suffix = .ok (.foundStale a)) :
    lock = true ∧ withinStaleWhileRevalidate (st m) now = true := by
  cases hs : shouldRevalidate m now force with
  | false =>
    exfalso
    rw [get_of_not_stale lock false inm ims suffix hs] at hg
    cases hc : clientCheck suffix inm ims m.header with
    | panic s => rw [hc] at hg; cases hg
    | ok b => rw [hc] at hg; cases b <;> cases hg
  | true =>
    rw [get_of_stale lock false inm ims suffix hs, ageOf_fst_st] at hg
    have hc : ¬ (false = true) := by simp
    rw [if_neg hc] at hg
    cases lock with
    | false => cases hg
    | true =>
      cases hw : (getCacheControlDirectives m.header).canStaleWhileRevalidate ((st m).age now) with
      | false => rw [hw] at hg; cases hg
      | true => exact ⟨rfl, within_of_canStaleWhileRevalidate m now hw⟩

example : Freshness.get true exAllowances 1700000075 0 false [] [] none = .ok (.foundStale 75)
    ∧ withinStaleWhileRevalidate (st exAllowances) 1700000075 = true
    ∧ Freshness.get true exAllowances 1700000090 0 false [] [] none = .ok (.revalidatingReader 90)
    ∧ Freshness.get false exAllowances 1700000075 0 false [] [] none = .ok (.revalidatingWriter 75) := by
  decide +kernel

/-- the handler asks for the stale copy (`skipRevalidate = true`) only after an origin status
    ≥ 400 and inside the stale-if-error allowance -/
theorem stale_if_error_guard (status : Nat) (m : Entry) (now : Int)
    (h : staleIfErrorReentry status m.header ((st m).age now) = true) :
    status ≥ 400 ∧ withinStaleIfError (st m) now = true := by
  unfold staleIfErrorReentry at h
  simp only [Bool.and_eq_true, decide_eq_true_eq] at h
  exact ⟨h.1, within_of_canStaleIfError m now h.2⟩

example : staleIfErrorReentry 503 exAllowances.header ((st exAllowances).age 1700000100) = true
    ∧ staleIfErrorReentry 503 exAllowances.header ((st exAllowances).age 1700000300) = false
    ∧ staleIfErrorReentry 304 exAllowances.header ((st exAllowances).age 1700000100) = false := by
  decide +kernel

/-- since the fix: commit for finding C08-c a non-zero force_revalidate no longer cancels the caller's
    request for the stale copy (the line `skipRevalidate = false` of caching.go is gone): the
    stale-if-error re-entry of server.go is answered with the stored entry, on every rule.  Before the
    fix the re-entry was answered "revalidate" again and a rule with force_revalidate whose origin kept
    failing re-entered without bound (system level: `Props.SysCache`, witness stream kf.C08-c). -/
theorem skip_honoured_under_force (m : Entry) (now : Int) (force : Nat) (inm ims : Bytes)
    (suffix : Option Bytes) (hs : shouldRevalidate m now force = true) :
    Freshness.decide m now force true inm ims suffix = .ok (.staleServe (ageOf m now).1) := by
  rw [decide_of_stale true inm ims suffix hs]; simp

example : Freshness.decide exAllowances 1700000075 7 true [] [] none = .ok (.staleServe 75) := by
  decide +kernel

/-- **a stale response only within the allowances the origin granted** -/
theorem stale_only_within_allowance (m : Entry) (now : Int) (force : Nat) (inm ims : Bytes)
    (suffix : Option Bytes) :
    (∀ skip a, Freshness.decide m now force skip inm ims suffix = .ok (.staleServe a) →
        skip = true ∧ shouldRevalidate m now force = true ∧ a = (st m).age now)
    ∧ (∀ lock a, Freshness.get lock m now force false inm ims suffix = .ok (.foundStale a) →
        lock = true ∧ withinStaleWhileRevalidate (st m) now = true)
    ∧ (∀ status, staleIfErrorReentry status m.header ((st m).age now) = true →
        status ≥ 400 ∧ withinStaleIfError (st m) now = true) :=
  ⟨fun skip a h => stale_only_when_asked m now force skip inm ims suffix a h,
   fun lock a h => stale_only_within_swr lock m now force inm ims suffix a h,
   fun status h => stale_if_error_guard status m now h⟩

/-! ### F. the oracle accepts the model outside the two classes -/

/-- **holds, partial** (findings C08-a, C08-b): for every entry, clock, rule setting, request
    and lock state outside the two finding classes, the oracle `Spec.C08.holds` accepts what
    `cache.Get` does. -/
theorem holds_get_partial (lock : Bool) (m : Entry) (now : Int) (force : Nat) (skip : Bool)
    (inm ims : Bytes) (suffix : Option Bytes) (o : Outcome)
    (hz : Time.zeroTimeUnix < now)
    (ha : inClass_C08_a (st m) now = false) (hb : inClass_C08_b (st m) now = false)
    (hg : Freshness.get lock m now force skip inm ims suffix = .ok o) :
    Spec.C08.holds (st m) now force skip lock (obsOf o) = true := by
  cases hs : shouldRevalidate m now force with
  | false =>
    have hf : isFresh (st m) now force = true := by
      rw [shouldRevalidate_eq_codeStale m force hz] at hs
      exact fresh_of_not_codeStale (st m) now force ha hs
    rw [get_of_not_stale lock skip inm ims suffix hs] at hg
    cases hc : clientCheck suffix inm ims m.header with
    | panic s => rw [hc] at hg; cases hg
    | ok b =>
      rw [hc] at hg
      cases b <;> (injection hg with hg; rw [← hg]; simp [holds, obsOf, hf])
  | true =>
    have hf : isFresh (st m) now force = false :=
      (shouldRevalidate_iff_partial m now force hz ha hb).1 hs
    rw [get_of_stale lock skip inm ims suffix hs, ageOf_fst_st] at hg
    by_cases hc : skip = true
    · rw [if_pos hc] at hg
      injection hg with hg
      rw [← hg]; simp [holds, obsOf, hc]
    · rw [if_neg hc] at hg
      cases lock with
      | false =>
        simp only [Bool.false_eq_true, if_false] at hg
        injection hg with hg
        rw [← hg]; simp [holds, obsOf, hf]
      | true =>
        simp only [if_true] at hg
        cases hw' : (getCacheControlDirectives m.header).canStaleWhileRevalidate ((st m).age now) with
        | false =>
          rw [hw'] at hg
          simp only [Bool.false_eq_true, if_false] at hg
          injection hg with hg
          rw [← hg]; simp [holds, obsOf, hf]
        | true =>
          have hw := within_of_canStaleWhileRevalidate m now hw'
          rw [hw'] at hg
          simp only [if_true] at hg
          have hne := decide_reentry_ne_revalidate m now inm ims suffix
          cases hr : Freshness.decide m now 0 true inm ims suffix with
          | panic s => rw [hr] at hg; cases hg
          | ok d =>
            rw [hr] at hg
            cases d with
            | revalidate c a => exact absurd hr (hne c a)
            | fresh a => injection hg with hg; rw [← hg]; simp [holds, obsOf, hw]
            | notModified304 => injection hg with hg; rw [← hg]; simp [holds, obsOf, hw]
            | staleServe a => injection hg with hg; rw [← hg]; simp [holds, obsOf, hw]

/-- non-vacuity: every `Outcome` constructor is reached by an instance of the hypotheses
    (fresh; 304; stale on request; stale-while-revalidate with the lock held; 304 through the
    re-entry; first revalidator; waiting reader) -/
example : Time.zeroTimeUnix < 1700000075
    ∧ inClass_C08_a (st exAllowances) 1700000075 = false
    ∧ inClass_C08_b (st exAllowances) 1700000075 = false
    ∧ Freshness.get false exAllowances 1700000059 0 false [] [] none = .ok (.foundFresh 59)
    ∧ Freshness.get false exAllowances 1700000075 0 true [] [] none = .ok (.foundStale 75)
    ∧ Freshness.get true exAllowances 1700000075 0 false [] [] none = .ok (.foundStale 75)
    ∧ Freshness.get false exAllowances 1700000075 0 false [] [] none = .ok (.revalidatingWriter 75)
    ∧ Freshness.get true exAllowances 1700000095 0 false [] [] none = .ok (.revalidatingReader 95)
    ∧ Freshness.get true exAllowances 1700000075 7 false [] [] none = .ok (.foundStale 75) := by
  decide +kernel
example :
    let m : Entry := { exAllowances with header := (b!"Etag", [b!"\"v1\""]) :: exAllowances.header }
    inClass_C08_a (st m) 1700000075 = false ∧ inClass_C08_b (st m) 1700000075 = false
    ∧ Freshness.get false m 1700000059 0 false b!"W/\"v1\"" [] none = .ok (.found304 59)
    ∧ Freshness.get true m 1700000075 0 false b!"\"v1\"" [] none = .ok (.foundStale 75)
    ∧ Freshness.get true m 1700000030 10 false b!"\"v1\"" [] none = .ok (.foundNoReader 30)
    ∧ Freshness.get true m 1700000030 10 false [] [] none = .ok (.foundFresh 30) := by
  decide +kernel

end Props.C08
