import RrModel.CacheControl
import RrModel.Spec.C10
import RrProofs.Lemmas.CacheControl
/-
  C10 — "responses that must not be cached are never stored or shared", function level:
  directive recognition (`GetCacheControlDirectives` + `DoNotCache`), `shouldSkipCaching` and
  the method gate.  (That an unrecognised response is then really kept out of the store is the
  System-level half: `uncacheable_not_stored`, `never_shared`.)
-/
namespace Props.C10
open Go Model Spec.C10

/-! ### folding `applyPart` over the list elements -/

theorem foldl_pres {P : Directives → Prop} (l : List Bytes) (init : Directives)
    (hmono : ∀ p ∈ l, ∀ d, P d → P (applyPart d p)) (h0 : P init) : P (l.foldl applyPart init) := by
  induction l generalizing init with
  | nil => exact h0
  | cons a t ih =>
    simp only [List.foldl_cons]
    exact ih _ (fun p hp => hmono p (List.mem_cons_of_mem _ hp)) (hmono a List.mem_cons_self _ h0)

/-- if one element establishes `P` whatever came before, and every LATER element keeps it -/
theorem foldl_set {P : Directives → Prop} (l1 l2 : List Bytes) (t : Bytes) (init : Directives)
    (hset : ∀ d, P (applyPart d t)) (hmono : ∀ p ∈ l2, ∀ d, P d → P (applyPart d p)) :
    P ((l1 ++ t :: l2).foldl applyPart init) := by
  rw [List.foldl_append, List.foldl_cons]
  exact foldl_pres l2 _ hmono (hset _)

/-- the element the parser sees for a recognised directive: `strings.Trim(·, " \t")` removes
    exactly the optional white space (SP / HTAB) the token-level reading removes -/
theorem norm_of_isDirective {d : Directive} {e : Bytes} (hd : isDirective d e = true) :
    norm e = d.text := by
  unfold norm
  rw [trim_ows, toLower_eq_lower]
  exact beq_iff_eq.1 hd

theorem mem_allDirectives (d : Directive) : d ∈ allDirectives := by
  cases d <;> simp [allDirectives]

/-- outside class C10-b no element after a recognised zero directive is read as a non-zero
    value of the same directive -/
theorem later_of_not_zeroThenNonZero (d : Directive) (l1 l2 : List Bytes) (e : Bytes)
    (hz : zeroThenNonZero d (l1 ++ e :: l2) = false) (hd : isDirective d e = true) :
    ∀ e' ∈ l2, readsNonZero d e' = false := by
  induction l1 with
  | nil =>
    simp only [List.nil_append, zeroThenNonZero, hd, Bool.true_and, Bool.or_eq_false_iff] at hz
    intro e' he'
    exact (List.any_eq_false.1 hz.1) e' he' |> fun h => by simpa using h
  | cons a t ih =>
    simp only [List.cons_append, zeroThenNonZero, Bool.or_eq_false_iff] at hz
    exact ih hz.2

theorem partEffect_noStore : partEffect b!"no-store" = .noStore := by decide
theorem partEffect_noCache : partEffect b!"no-cache" = .noCache := by decide
theorem partEffect_private : partEffect b!"private" = .priv := by decide
theorem partEffect_maxAge0 : partEffect b!"max-age=0" = .maxAge 0 := by decide
theorem partEffect_sMaxAge0 : partEffect b!"s-maxage=0" = .sMaxAge 0 := by decide

/-- the flag / zero value that directive `d` stands for in `CacheControlDirectives` -/
def established (d : Directive) (dirs : Directives) : Prop :=
  match d with
  | .noStore => dirs.noStore = true
  | .noCache => dirs.noCache = true
  | .priv => dirs.priv = true
  | .maxAge0 => dirs.maxAge = some 0
  | .sMaxAge0 => dirs.sMaxAge = some 0

theorem established_doNotCache {d : Directive} {dirs : Directives} (h : established d dirs) :
    dirs.doNotCache = true := by
  unfold Directives.doNotCache
  cases d <;> simp only [established] at h <;> simp [h, nonPositive]

/-- the recognised spelling establishes the directive, whatever was parsed before -/
theorem established_set (d : Directive) (dirs : Directives) : established d (applyPart dirs d.text) := by
  cases d <;>
    simp only [established, Directive.text, applyPart, partEffect_noStore, partEffect_noCache,
      partEffect_private, partEffect_maxAge0, partEffect_sMaxAge0, PartEffect.apply]

/-- a later element keeps the directive established unless it is read as a non-zero value of
    the same numeric directive -/
theorem established_mono (d : Directive) (e' : Bytes) (hr : readsNonZero d e' = false)
    (dirs : Directives) (h : established d dirs) : established d (applyPart dirs (norm e')) := by
  cases d with
  | noStore => simp only [established] at h ⊢; rw [applyPart_noStore, h]; rfl
  | noCache => simp only [established] at h ⊢; rw [applyPart_noCache, h]; rfl
  | priv => simp only [established] at h ⊢; rw [applyPart_priv, h]; rfl
  | maxAge0 =>
    simp only [established] at h ⊢
    rw [applyPart_maxAge]
    simp only [readsNonZero] at hr
    unfold norm
    cases hm : (applyPart {} (toLower (trim b!" \t" e'))).maxAge with
    | none => simpa using h
    | some n =>
      rw [hm] at hr
      have : n = 0 := by simpa using hr
      simp [this]
  | sMaxAge0 =>
    simp only [established] at h ⊢
    rw [applyPart_sMaxAge]
    simp only [readsNonZero] at hr
    unfold norm
    cases hm : (applyPart {} (toLower (trim b!" \t" e'))).sMaxAge with
    | none => simpa using h
    | some n =>
      rw [hm] at hr
      have : n = 0 := by simpa using hr
      simp [this]

theorem readsNonZero_bare (d : Directive) (hd : d = .noStore ∨ d = .noCache ∨ d = .priv) (e : Bytes) :
    readsNonZero d e = false := by
  rcases hd with rfl | rfl | rfl <;> rfl

/-! ### the property -/

/-- **doNotCache_complete as stated**: a response that carries one of the five directives (read
    at RFC token level) is treated as "do not cache". -/
def CompleteStatement : Prop :=
  ∀ (d : Directive) (h : Header), carries d h = true → (getCacheControlDirectives h).doNotCache = true

/-- finding C10-a, REPAIRED (`fix:` commit: every trim of the parser is `strings.Trim(·, " \t")`):
    the former witness — a directive behind an HTAB — is now seen.  It runs against the real code
    as regression stream `kf.C10-a`. -/
example :
    carries .noStore [(b!"Cache-Control", [b!"max-age=10,\tno-store"])] = true ∧
    (getCacheControlDirectives [(b!"Cache-Control", [b!"max-age=10,\tno-store"])]).doNotCache = true := by
  decide
/-- the other three cases of the regression stream `kf.C10-a` -/
example : (getCacheControlDirectives [(b!"Cache-Control", [b!"no-cache\t"])]).doNotCache = true
    ∧ (getCacheControlDirectives [(b!"Cache-Control", [b!"public, \tprivate"])]).doNotCache = true
    ∧ (getCacheControlDirectives [(b!"Cache-Control", [b!"s-maxage=0\t, public"]), (b!"Vary", [b!"Accept-Encoding"])]).doNotCache = true := by
  decide

/-- finding C10-b: the last occurrence of a numeric directive wins, so a later non-zero
    duplicate hides `max-age=0` -/
theorem fails_witness_b :
    carries .maxAge0 [(b!"Cache-Control", [b!"max-age=0, max-age=10"])] = true ∧
    (getCacheControlDirectives [(b!"Cache-Control", [b!"max-age=0, max-age=10"])]).doNotCache = false := by
  decide

theorem CompleteStatement_false : ¬ CompleteStatement := by
  intro h
  have := h .maxAge0 _ fails_witness_b.1
  rw [fails_witness_b.2] at this
  exact Bool.false_ne_true this

/-- **doNotCache_complete, partial** (finding C10-b): for EVERY header — any number of
    Cache-Control lines, any position in the list, any letter case, any optional white space
    (SP and HTAB), any neighbours — that is outside the class, a carried directive makes
    `DoNotCache()` true.  The hypothesis is exactly the complement of the class.  (Until the fix
    for finding C10-a this theorem also had to exclude elements with an HTAB in their optional
    white space.) -/
theorem doNotCache_complete_partial (d : Directive) (h : Header)
    (hB : inClass_C10_b h = false)
    (hc : carries d h = true) : (getCacheControlDirectives h).doNotCache = true := by
  rw [getCacheControlDirectives_doNotCache]
  unfold carries at hc
  obtain ⟨e, he, hd⟩ := List.any_eq_true.1 hc
  obtain ⟨l1, l2, hl⟩ := List.append_of_mem he
  have hnorm := norm_of_isDirective hd
  -- later elements do not undo it
  have hlater : ∀ e' ∈ l2, readsNonZero d e' = false := by
    cases d with
    | noStore => exact fun e' _ => rfl
    | noCache => exact fun e' _ => rfl
    | priv => exact fun e' _ => rfl
    | maxAge0 =>
      unfold inClass_C10_b at hB
      simp only [Bool.or_eq_false_iff] at hB
      exact later_of_not_zeroThenNonZero _ l1 l2 e (hl ▸ hB.1) hd
    | sMaxAge0 =>
      unfold inClass_C10_b at hB
      simp only [Bool.or_eq_false_iff] at hB
      exact later_of_not_zeroThenNonZero _ l1 l2 e (hl ▸ hB.2) hd
  apply established_doNotCache (d := d)
  unfold parsed
  rw [hl, List.map_append, List.map_cons, hnorm]
  apply foldl_set (P := established d)
  · exact established_set d
  · intro p hp dirs hdirs
    obtain ⟨e', he', rfl⟩ := List.mem_map.1 hp
    exact established_mono d e' (hlater e' he') dirs hdirs

/-- the three flag directives need no hypothesis at all: `no-store`, `no-cache`, `private`
    are honoured at full strength (class C10-b concerns the two numeric directives only) -/
theorem doNotCache_complete_flags (d : Directive) (hd : d = .noStore ∨ d = .noCache ∨ d = .priv)
    (h : Header) (hc : carries d h = true) : (getCacheControlDirectives h).doNotCache = true := by
  rw [getCacheControlDirectives_doNotCache]
  unfold carries at hc
  obtain ⟨e, he, hde⟩ := List.any_eq_true.1 hc
  obtain ⟨l1, l2, hl⟩ := List.append_of_mem he
  have hnorm := norm_of_isDirective hde
  apply established_doNotCache (d := d)
  unfold parsed
  rw [hl, List.map_append, List.map_cons, hnorm]
  apply foldl_set (P := established d)
  · exact established_set d
  · intro p hp dirs hdirs
    obtain ⟨e', _, rfl⟩ := List.mem_map.1 hp
    exact established_mono d e' (readsNonZero_bare d hd e') dirs hdirs

/-- the oracle accepts the model on every header outside the class -/
theorem holds_model_partial (h : Header) (hB : inClass_C10_b h = false) :
    holds h (getCacheControlDirectives h).doNotCache = true := by
  unfold holds
  cases hc : carriesAny h with
  | false => rfl
  | true =>
    unfold carriesAny at hc
    obtain ⟨d, _, hd⟩ := List.any_eq_true.1 hc
    simp [doNotCache_complete_partial d h hB hd]

/-! non-vacuity: three lines, mixed case, spaces and HTABs, the directive in the middle of the
    second line -/
example : inClass_C10_b [(b!"Cache-Control", [b!"public", b!"max-age=60 , \t No-Store\t , x=1", b!"s-maxage=5"])] = false
    ∧ carries .noStore [(b!"Cache-Control", [b!"public", b!"max-age=60 , \t No-Store\t , x=1", b!"s-maxage=5"])] = true := by
  decide
example : carries .maxAge0 [(b!"Cache-Control", [b!"\tMAX-AGE=0"])] = true
    ∧ inClass_C10_b [(b!"Cache-Control", [b!"\tMAX-AGE=0"])] = false := by decide
/-- class C10-b follows what the repaired parser reads: a later duplicate behind an HTAB counts -/
example : inClass_C10_b [(b!"Cache-Control", [b!"max-age=0,\tmax-age=10"])] = true
    ∧ (getCacheControlDirectives [(b!"Cache-Control", [b!"max-age=0,\tmax-age=10"])]).doNotCache = false := by decide
/-- a duplicate that does not change the value stays outside the class -/
example : inClass_C10_b [(b!"Cache-Control", [b!"max-age=0, max-age=00, max-age=x"])] = false := by decide

/-! ### soundness: `DoNotCache()` always has a local reason -/

theorem foldl_doNotCache (l : List Bytes) (init : Directives)
    (h : (l.foldl applyPart init).doNotCache = true) :
    init.doNotCache = true ∨ ∃ p ∈ l, (applyPart {} p).doNotCache = true := by
  induction l generalizing init with
  | nil => exact Or.inl h
  | cons a t ih =>
    simp only [List.foldl_cons] at h
    rcases ih _ h with h1 | ⟨p, hp, hp2⟩
    · rcases applyPart_doNotCache init a h1 with h2 | h2
      · exact Or.inl h2
      · exact Or.inr ⟨a, List.mem_cons_self, h2⟩
    · exact Or.inr ⟨p, List.mem_cons_of_mem _ hp, hp2⟩

/-- **doNotCache_sound**: whenever the parser says "do not cache", ONE list element of some
    Cache-Control line is by itself the reason (no interplay between elements or lines). -/
theorem doNotCache_sound (h : Header) (hd : (getCacheControlDirectives h).doNotCache = true) :
    ∃ e ∈ elements h, (applyPart {} (norm e)).doNotCache = true := by
  rw [getCacheControlDirectives_doNotCache] at hd
  unfold parsed at hd
  rcases foldl_doNotCache _ _ hd with h0 | ⟨p, hp, hp2⟩
  · exact absurd h0 (by decide)
  · obtain ⟨e, he, rfl⟩ := List.mem_map.1 hp
    exact ⟨e, he, hp2⟩

/-- what such a reason looks like: a bare `private` / `no-cache` / `no-store` (SP / HTAB aside), or
    `max-age` / `s-maxage` with exactly one `=` and a value `strconv.Atoi` reads as a number ≤ 0
    (zero, or negative since the fix: commit for finding C09-g) -/
theorem reason_shape (p : Bytes) (h : (applyPart {} p).doNotCache = true) :
    (contains p b!"=" = false ∧
      (trim b!" \t" p = b!"private" ∨ trim b!" \t" p = b!"no-cache" ∨ trim b!" \t" p = b!"no-store")) ∨
    (∃ k0 v0, split1 61 p = [k0, v0] ∧ (trim b!" \t" k0 = b!"max-age" ∨ trim b!" \t" k0 = b!"s-maxage") ∧
      ∃ n : Int, n ≤ 0 ∧ atoi (trim b!" \t" v0) = some n) := by
  unfold applyPart at h
  unfold partEffect at h
  split at h
  · -- a part with `=`
    split at h
    · rename_i k0 v0 hs
      refine Or.inr ⟨k0, v0, hs, ?_⟩
      simp only [numericEffect] at h
      split at h
      · rename_i hk
        refine ⟨Or.inl hk, ?_⟩
        cases ha : atoi (trim b!" \t" v0) with
        | none => simp [ha, PartEffect.apply, Directives.doNotCache, nonPositive] at h
        | some n =>
          simp only [ha, PartEffect.apply, Directives.doNotCache] at h
          exact ⟨n, by simpa [nonPositive] using h, rfl⟩
      · split at h
        · rename_i hk
          refine ⟨Or.inr hk, ?_⟩
          cases ha : atoi (trim b!" \t" v0) with
          | none => simp [ha, PartEffect.apply, Directives.doNotCache, nonPositive] at h
          | some n =>
            simp only [ha, PartEffect.apply, Directives.doNotCache] at h
            exact ⟨n, by simpa [nonPositive] using h, rfl⟩
        · split at h
          · cases ha : atoi (trim b!" \t" v0) <;> simp [ha, PartEffect.apply, Directives.doNotCache, nonPositive] at h
          · split at h
            · cases ha : atoi (trim b!" \t" v0) <;> simp [ha, PartEffect.apply, Directives.doNotCache, nonPositive] at h
            · simp [PartEffect.apply, Directives.doNotCache, nonPositive] at h
    · simp [PartEffect.apply, Directives.doNotCache, nonPositive] at h
  · rename_i hc
    refine Or.inl ⟨by simpa using hc, ?_⟩
    dsimp only at h
    split at h
    · rename_i hp; exact Or.inl hp
    · split at h
      · rename_i hp; exact Or.inr (Or.inl hp)
      · split at h
        · rename_i hp; exact Or.inr (Or.inr hp)
        · simp [PartEffect.apply, Directives.doNotCache, nonPositive] at h

/-- a response without any Cache-Control line is never "do not cache" -/
theorem no_cache_control_cacheable (h : Header) (hv : h.values b!"cache-control" = []) :
    (getCacheControlDirectives h).doNotCache = false := by
  cases hd : (getCacheControlDirectives h).doNotCache with
  | false => rfl
  | true =>
    obtain ⟨e, he, _⟩ := doNotCache_sound h hd
    simp [elements, hv] at he

example : (getCacheControlDirectives [(b!"Cache-Control", [b!"public,  Max-Age = +0 "])]).doNotCache = true := by decide

/-! ### Authorization and the method gate -/

theorem overrideLookup_eq_find (ov : List (Bytes × Option Bytes)) (k : Bytes) :
    overrideLookup ov k = (ov.find? (fun kv => kv.1 == k)).map (·.2) := by
  induction ov with
  | nil => rfl
  | cons a t ih =>
    obtain ⟨k', v⟩ := a
    unfold overrideLookup
    by_cases h : k' = k
    · simp [h]
    · simp [h, ih]

/-- **skip_rule (1)**: `shouldSkipCaching` says "keep it out of the cache" exactly when the
    request carries credentials that the rule does not strip. -/
theorem skip_rule (req : Header) (ov : List (Bytes × Option Bytes)) :
    shouldSkipCaching req ov = (hasAuthorization req && !rulesStripAuthorization ov) := by
  unfold shouldSkipCaching hasAuthorization rulesStripAuthorization
  rw [← overrideLookup_eq_find]
  cases hg : req.get b!"authorization" with
  | nil => simp
  | cons a t =>
    simp only [List.length_cons, Nat.zero_lt_succ, if_true]
    cases hl : overrideLookup ov b!"authorization" with
    | none => simp
    | some v => cases v <;> simp

theorem holdsSkip_model (req : Header) (ov : List (Bytes × Option Bytes)) :
    holdsSkip req ov (shouldSkipCaching req ov) = true := by
  rw [skip_rule]; unfold holdsSkip
  cases hasAuthorization req && !rulesStripAuthorization ov <;> rfl

/-- **skip_rule (2)**, the gate of server.go:105: a request whose method is neither GET nor
    HEAD never reaches the cache (neither lookup nor store), whatever the rule says. -/
theorem method_gate (cacheId : Bytes) (hasStorage : Bool) (method : Bytes)
    (h1 : method ≠ b!"GET") (h2 : method ≠ b!"HEAD") : cacheBypassed cacheId hasStorage method = true := by
  unfold cacheBypassed
  simp [h1, h2]

theorem cacheBypassed_iff (cacheId : Bytes) (hasStorage : Bool) (method : Bytes) :
    cacheBypassed cacheId hasStorage method = true ↔
      cacheId = [] ∨ hasStorage = false ∨ (method ≠ b!"GET" ∧ method ≠ b!"HEAD") := by
  unfold cacheBypassed
  cases hasStorage <;> simp [List.length_eq_zero_iff]

/-- the request side of the property at function level: a request that must not be cached is
    either bypassed at the gate or has its disk writes disabled -/
theorem uncacheable_request_guarded (cacheId : Bytes) (hasStorage : Bool) (method : Bytes) (req : Header)
    (ov : List (Bytes × Option Bytes)) (h : mustNotCacheRequest method req ov = true) :
    cacheBypassed cacheId hasStorage method = true ∨ shouldSkipCaching req ov = true := by
  unfold mustNotCacheRequest at h
  rw [skip_rule]
  simp only [Bool.or_eq_true] at h
  rcases h with hm | ha
  · left
    simp only [Bool.and_eq_true, bne_iff_ne, ne_eq] at hm
    exact method_gate _ _ _ hm.1 hm.2
  · right; exact ha

example : shouldSkipCaching [(b!"Authorization", [b!"Bearer x"])] [] = true := by decide
example : shouldSkipCaching [(b!"Authorization", [b!"Bearer x"])] [(b!"authorization", none)] = false := by decide
example : cacheBypassed b!"c" true b!"POST" = true ∧ cacheBypassed b!"c" true b!"HEAD" = false := by decide

end Props.C10
