import RrProofs.Lemmas.SysCacheTerm
import RrProofs.Props.C07
/-
  Termination of the cached request path (`Model.SysCache`), UNCONDITIONAL since the repair of the
  two-values loop (after a successful `SetRevalidatedAndClose` the handler re-enters with
  `skipRevalidate = true`): ONE re-entry of `server.cachingFunc` is ALWAYS the last one.

  * `reenter_skip_true`: every `Step.reenter` carries `skipRevalidate = true` (both rows: `w:304>`,
    `w:stale>`).
  * `lookup_skip_not_revalidating`: with `skipRevalidate` `cache.Get` never hands out a RevalidatingWriter
    (`decide_skip_ne_revalidate`: the C08-c repair); `notFound_writer_done`: a NotFound writer row never
    re-enters; hence `skip_activation_answers`: EVERY activation with `skipRevalidate = true` answers —
    whatever disk, header, origin it sees (for the 304 re-entry the disk is the re-published one, and
    the second lookup may find the re-published entry, another key's entry, or nothing).
  * `reenter_then_done`, `cachingFunc_two`, `fuel_two_suffices`, `answered`, `step_fuel_irrelevant`,
    `step_answered`: no hypothesis at all.
  * `Step.reenterLocked` (304 for a writer with `diskWritesDisabled`): `reenterLocked_needs_no_fuel`,
    `lockedReentry_found_answers` (it hangs only when `storage.Get` finds NOTHING), `row304_reenter`,
    `row304_locked`, `reenter304_no_authorization`.
  Structure facts kept from the first round:
  A. `keysOf_client1Of`, `keysOf_client2Of`: both re-entries compute the SAME key list (full `Key` equality).
  B. `storageGet_idempotent`.
  C. `stale_reenter_finds_same_entry`: the `w:stale>` re-entry finds the entry it tried to revalidate.
  D. WHEN the `w:304>` re-entry serves the entry as fresh rather than stale-marked:
     `reenter304_fresh_when_settled` under `Settles304` (the re-published entry reads back fresh),
     `settles304_of` (H1 codec fidelity `CodecFaithful` / `codecFaithful_of_representable`, H2 `now ≠ 0`,
     stored header cacheable; H3 derived: `Lemmas.SysCacheTerm.doNotCache_merge304`).  Nothing
     unconditional depends on these.

  The repaired defect, for the record (namespace `Ex`, section 3): an origin that sends
  `Cache-Control: max-age=0` and `Cache-Control: max-age=5` as two lines.  All values are read, the
  later number wins, the answer is stored / the 304 taken; the codec writes only the FIRST value
  (C07-a), the entry reads back `max-age=0`, due at age 0.  BEFORE the repair (re-entry with
  `skipRevalidate = false`) every activation revalidated, got 304, re-published and re-entered:
  `cachingFunc … 3 …` had label `w:304>w:304>w:304>fuel` (300 contacts until the harness's watchdog;
  reproduced on the real server).  Now: `Ex.two_values_answered`, label `w:304>f:hit:stale`.
  Likewise the clock at 0 (`Ex.time_zero_answered`, was `w:304>w:304>w:304>fuel`) and a 304 that makes
  the re-published entry undecodable with two keys (`Ex.pipe_answered`, was three activations).
-/
namespace Props.SysCacheTerm
open Go Model Model.SysCache Props.SysCache Lemmas.SysCacheTerm

/-! ### A. the re-entry's client header has the same key list -/

/-- the request header after the cache's own validator has been removed again (server.go:383) -/
def client1Of (sg : Conditional.Surgery) : Header :=
  if sg.used.length > 0 then sg.req.del sg.used else sg.req

/-- … and the client's validator restored (server.go:391): the header of the 304 re-entry -/
def client2Of (sg : Conditional.Surgery) : Header :=
  if sg.clientKey.length > 0 ∧ sg.clientVal.length > 0 then (client1Of sg).set sg.clientKey sg.clientVal
  else client1Of sg

theorem revalidateHeaders_fst (h : Header) :
    (Conditional.revalidateHeaders h).1 = [] ∨ canon (Conditional.revalidateHeaders h).1 ∈ managed := by
  unfold Conditional.revalidateHeaders
  repeat' split
  all_goals first
    | (left; rfl)
    | (right; dsimp only; decide)

theorem surgery_used (kind : Conditional.WriterKind) (rp : Bool) (client stored : Header) :
    (Conditional.surgery kind rp client stored).used = [] ∨
      canon (Conditional.surgery kind rp client stored).used ∈ managed := by
  unfold Conditional.surgery
  cases kind
  · left; rfl
  · dsimp only
    split
    · exact revalidateHeaders_fst stored
    · left; rfl

theorem surgery_clientKey (kind : Conditional.WriterKind) (rp : Bool) (client stored : Header) :
    (Conditional.surgery kind rp client stored).clientKey = [] ∨
      canon (Conditional.surgery kind rp client stored).clientKey ∈ managed := by
  unfold Conditional.surgery
  cases kind
  · exact revalidateHeaders_fst _
  · dsimp only
    split
    · exact revalidateHeaders_fst _
    · exact revalidateHeaders_fst _

theorem keyPart_surgery_req (kind : Conditional.WriterKind) (rp : Bool) (client stored : Header) :
    keyPart (Conditional.surgery kind rp client stored).req = keyPart client := by
  have h0 : keyPart (if rp then client.del Conditional.kRange else client) = keyPart client := by
    cases rp
    · rfl
    · exact keyPart_del client (by decide)
  unfold Conditional.surgery
  cases kind
  · dsimp only
    rw [keyPart_del _ (by decide), keyPart_del _ (by decide), h0]
  · dsimp only
    split
    · rename_i hl
      rcases revalidateHeaders_fst stored with e | e
      · -- the key is "" only together with the value
        exfalso
        revert hl e
        unfold Conditional.revalidateHeaders
        repeat' split
        all_goals simp [Conditional.kINM, Conditional.kIMS]
      · rw [keyPart_set _ _ e, h0]
    · exact h0

theorem keyPart_client1Of (kind : Conditional.WriterKind) (rp : Bool) (client stored : Header) :
    keyPart (client1Of (Conditional.surgery kind rp client stored)) = keyPart client := by
  unfold client1Of
  split
  · rename_i hl
    rcases surgery_used kind rp client stored with e | e
    · rw [e] at hl; simp at hl
    · rw [keyPart_del _ e, keyPart_surgery_req]
  · exact keyPart_surgery_req ..

theorem keyPart_client2Of (kind : Conditional.WriterKind) (rp : Bool) (client stored : Header) :
    keyPart (client2Of (Conditional.surgery kind rp client stored)) = keyPart client := by
  unfold client2Of
  split
  · rename_i hl
    rcases surgery_clientKey kind rp client stored with e | e
    · rw [e] at hl; simp at hl
    · rw [keyPart_set _ _ e, keyPart_client1Of]
  · exact keyPart_client1Of ..

/-- **A.** both re-entries of `cachingFunc` compute the same key list as the activation they come from -/
theorem keysOf_client1Of (cfg : Config) (req : Request) (rr : Option Range.ReqRange) (client : Header)
    (reval : Option (Key × Stored × Int)) :
    keysOf cfg req (client1Of (surgeryOf rr client reval)) = keysOf cfg req client :=
  keysOf_congr cfg req (keyPart_client1Of ..)

theorem keysOf_client2Of (cfg : Config) (req : Request) (rr : Option Range.ReqRange) (client : Header)
    (reval : Option (Key × Stored × Int)) :
    keysOf cfg req (client2Of (surgeryOf rr client reval)) = keysOf cfg req client :=
  keysOf_congr cfg req (keyPart_client2Of ..)

/-! ### the shape of a re-entry -/

/-- the labels of `cachingFill` -/
def fillLabels : List String :=
  ["w:nogate-body", "w:nogate-readerr", "w:nogate-oldbody", "w:nogate-empty", "w:invalidated",
   "w:fill-readerr", "w:fill-empty", "w:fill"]

theorem cachingFill_label (cfg : Config) (d : Disk) (w : Writer) (now : Int) (status : Nat) (ch : Header)
    (resp : Resp) (redirect : Bytes) (rr : Option Range.ReqRange) :
    (cachingFill cfg d w now status ch resp redirect rr).label ∈ fillLabels := by
  unfold cachingFill
  repeat' first | split | (dsimp only; split)
  all_goals simp [fillLabels]

/-- the labels of the answering rows of `afterAnswer` other than the filling row -/
def afterLabels : List String := ["w:416", "w:304-closeerr", "w:uncacheable", "w:pass", "w:client304"]

/-- what a re-entry looks like, as a predicate on the outcome of an activation (and which labels an
    answer carries): ALWAYS `skipRevalidate = true` -/
def ReenterShape (d : Disk) (now : Int) (reval : Option (Key × Stored × Int)) (w : Writer)
    (sg : Conditional.Surgery) (resp : Resp) : Step → Prop
  | .done a => a.label ∈ afterLabels ∨ a.label ∈ fillLabels
  | .reenter d' c' _ skip' _ tag =>
    skip' = true ∧
    ((tag = "w:304>" ∧ c' = client2Of sg ∧ 0 < sg.used.length ∧ resp.status = 304 ∧
        (getCacheControlDirectives resp.header).doNotCache = false ∧ w.diskWritesDisabled = false ∧
        republish d w now (some (Conditional.dropZeroContentLength resp.header)) = (d', true)) ∨
     (tag = "w:stale>" ∧ d' = d ∧ c' = client1Of sg ∧ staleIfErrorOf reval resp = true))
  | .reenterLocked _ _ _ _ tag => tag = "w:304>"

/-- the row `w:304`: a re-entry through `Step.reenter` comes from a writer that WROTE
    (`diskWritesDisabled = false`: the request carries no Authorization) and whose `Close` succeeded -/
theorem row304_shape (d : Disk) (ai : Header) (cs : List Contact) (w : Writer) (sg : Conditional.Surgery)
    (resp : Resp) (now : Int) (reval : Option (Key × Stored × Int))
    (h : sg.used.length > 0 ∧ resp.status = 304 ∧ (!(getCacheControlDirectives resp.header).doNotCache) = true) :
    ReenterShape d now reval w sg resp (row304 d ai cs w sg resp now) := by
  unfold row304
  dsimp only
  split
  · rfl
  · rename_i hw
    split
    · left; simp [afterLabels]
    · rename_i d1 heq
      exact ⟨rfl, Or.inl ⟨rfl, rfl, h.1, h.2.1, by simpa using h.2.2, by simpa using hw, heq⟩⟩

/-- the two rows of a writer activation that re-enter `cachingFunc`, read off `afterAnswer` -/
theorem afterAnswer_shape (cfg : Config) (now : Int) (keys : List Key) (rr : Option Range.ReqRange) (d : Disk)
    (ai : Header) (cs : List Contact) (reval : Option (Key × Stored × Int)) (w : Writer)
    (sg : Conditional.Surgery) (resp : Resp) :
    ReenterShape d now reval w sg resp (afterAnswer cfg now keys rr d ai cs reval w sg resp) := by
  unfold afterAnswer
  split
  · left; simp [afterLabels]
  · dsimp only
    split
    · rename_i h
      exact row304_shape _ _ _ _ _ _ _ _ h
    · split
      · left; simp [afterLabels]
      · split
        · rename_i hs
          exact ⟨rfl, Or.inr ⟨rfl, rfl, rfl, hs⟩⟩
        · repeat' first | split | (dsimp only; split)
          all_goals first
            | (left; simp [afterLabels]; done)
            | (right; exact cachingFill_label ..)

theorem writerRow_reenter {cfg : Config} {origin : Bytes → Option Origin} {now : Int} {req : Request}
    {keys : List Key} {rr : Option Range.ReqRange} {d : Disk} {client ai : Header} {cs : List Contact}
    {reval : Option (Key × Stored × Int)} {d' : Disk} {c' ai' : Header} {skip' : Bool}
    {cs' : List Contact} {tag : String}
    (h : writerRow cfg origin now req keys rr d client ai cs reval = .reenter d' c' ai' skip' cs' tag) :
    ∃ resp, ask cfg origin req cs (surgeryOf rr client reval).req = some resp ∧
      ReenterShape d now reval (writerOf keys client reval) (surgeryOf rr client reval) resp
        (.reenter d' c' ai' skip' cs' tag) := by
  unfold writerRow at h
  simp only [] at h
  split at h
  · cases h
  · rename_i resp heq
    refine ⟨resp, heq, ?_⟩
    rw [← h]
    exact afterAnswer_shape ..

/-- a re-entry comes from a writer row of a GET/HEAD activation -/
theorem stepOnce_reenter {cfg : Config} {origin : Bytes → Option Origin} {now : Int} {req : Request}
    {d : Disk} {client ai : Header} {skip : Bool} {cs : List Contact} {d' : Disk} {c' ai' : Header}
    {skip' : Bool} {cs' : List Contact} {tag : String}
    (h : stepOnce cfg origin now req d client ai skip cs = .reenter d' c' ai' skip' cs' tag) :
    ¬ (req.method ≠ b!"GET" ∧ req.method ≠ b!"HEAD") ∧
    ∃ d1 reval, lookup cfg now (keysOf cfg req client) d client skip = (d1, .writer reval) ∧
      writerRow cfg origin now req (keysOf cfg req client) (Range.getRange client) d1 client ai cs reval =
        .reenter d' c' ai' skip' cs' tag := by
  unfold stepOnce at h
  split at h
  · split at h <;> cases h
  · rename_i hm
    refine ⟨hm, ?_⟩
    dsimp only at h
    split at h
    · cases h
    · cases h
    · cases h
    · rename_i d1 reval heq
      exact ⟨d1, reval, heq, h⟩

/-- an activation whose lookup is not a writer row answers -/
theorem stepOnce_done_of_lookup {cfg : Config} {origin : Bytes → Option Origin} {now : Int} {req : Request}
    {d : Disk} {client ai : Header} {skip : Bool} {cs : List Contact}
    (h : ∀ reval, (lookup cfg now (keysOf cfg req client) d client skip).2 ≠ .writer reval) :
    ∃ a, stepOnce cfg origin now req d client ai skip cs = .done a := by
  unfold stepOnce
  split
  · split <;> exact ⟨_, rfl⟩
  · dsimp only
    split
    · exact ⟨_, rfl⟩
    · exact ⟨_, rfl⟩
    · exact ⟨_, rfl⟩
    · rename_i d1 reval heq
      exact absurd (by rw [heq]) (h reval)

/-- a NotFound writer row never re-enters: no validator of the cache's own was sent (`used = ""`)
    and there is no entry whose stale-if-error allowance could apply -/
theorem reenterShape_none {d : Disk} {now : Int} {w : Writer} {rr : Option Range.ReqRange} {client : Header}
    {resp : Resp} {d' : Disk} {c' ai' : Header} {skip' : Bool} {cs' : List Contact} {tag : String}
    (h : ReenterShape d now none w (surgeryOf rr client none) resp (.reenter d' c' ai' skip' cs' tag)) : False := by
  rcases h with ⟨_, ⟨_, _, hu, _⟩ | ⟨_, _, _, hs⟩⟩
  · revert hu
    simp [surgeryOf, Conditional.surgery]
  · revert hs
    simp [staleIfErrorOf]

/-- an activation whose lookup finds nothing (`NotFoundWriter`) answers: it sends no validator of its
    own (`used = ""`), so the 304 row does not apply, and there is no entry whose stale-if-error
    allowance could -/
theorem notFound_writer_done (cfg : Config) (origin : Bytes → Option Origin) (now : Int) (req : Request)
    (keys : List Key) (rr : Option Range.ReqRange) (d : Disk) (client ai : Header) (cs : List Contact) :
    ∃ a, writerRow cfg origin now req keys rr d client ai cs none = .done a := by
  cases h : writerRow cfg origin now req keys rr d client ai cs none with
  | done a => exact ⟨a, rfl⟩
  | reenter d' c' ai' skip' cs' tag =>
    obtain ⟨resp, _, hsh⟩ := writerRow_reenter h
    exact absurd (reenterShape_none hsh) id
  | reenterLocked d' c' ai' cs' tag =>
    exfalso
    unfold writerRow at h
    simp only [] at h
    split at h
    · cases h
    · rename_i resp _
      unfold afterAnswer at h
      split at h
      · cases h
      · dsimp only at h
        split at h
        · rename_i hc
          revert hc
          simp [surgeryOf, Conditional.surgery]
        · repeat' first | split at h | (dsimp only at h; split at h)
          all_goals cases h

theorem lookup_writer_some {cfg : Config} {now : Int} {keys : List Key} {d d1 : Disk} {client : Header}
    {skip : Bool} {k : Key} {s : Stored} {age : Int}
    (h : lookup cfg now keys d client skip = (d1, .writer (some (k, s, age)))) :
    storageGet d keys = (d1, .found k s) := by
  unfold lookup at h
  generalize storageGet d keys = r at h
  obtain ⟨d2, g⟩ := r
  cases g with
  | panic site => cases h
  | notFound => cases h
  | found k2 s2 =>
    dsimp only at h
    split at h <;> cases h
    rfl

/-- with `skipRevalidate` the decision is never "revalidate", whatever `force_revalidate` says (this is
    the repair for C08-c) -/
theorem decide_skip_ne_revalidate (m : Freshness.Entry) (now : Int) (force : Nat) (inm ims : Bytes)
    (suffix : Option Bytes) (c : Bool) (a : Int) :
    Freshness.decide m now force true inm ims suffix ≠ .ok (.revalidate c a) := by
  cases h : Freshness.shouldRevalidate m now force with
  | false =>
    rw [Freshness.decide_of_not_stale true inm ims suffix h]
    cases Freshness.clientCheck suffix inm ims m.header with
    | panic s => intro hh; cases hh
    | ok b => cases b <;> (intro hh; cases hh)
  | true =>
    rw [Freshness.decide_of_stale true inm ims suffix h]
    intro hh; simp at hh

theorem decide_fresh_ne_revalidate {m : Freshness.Entry} {now : Int} {force : Nat}
    (h : Freshness.shouldRevalidate m now force = false) (skip : Bool) (inm ims : Bytes)
    (suffix : Option Bytes) (c : Bool) (a : Int) :
    Freshness.decide m now force skip inm ims suffix ≠ .ok (.revalidate c a) := by
  rw [Freshness.decide_of_not_stale skip inm ims suffix h]
  cases Freshness.clientCheck suffix inm ims m.header with
  | panic s => intro hh; cases hh
  | ok b => cases b <;> (intro hh; cases hh)

/-- a lookup that finds an entry is a writer row only if the decision is "revalidate" -/
theorem lookup_not_writer {cfg : Config} {now : Int} {keys : List Key} {d d1 : Disk} {client : Header}
    {skip : Bool} {k : Key} {s : Stored} (hg : storageGet d keys = (d1, .found k s))
    (hd : ∀ c a, Freshness.decide (entryOf s) now cfg.force skip (client.get b!"if-none-match")
      (client.get b!"if-modified-since") cfg.sfx ≠ .ok (.revalidate c a)) :
    ∀ reval, (lookup cfg now keys d client skip).2 ≠ .writer reval := by
  intro reval
  unfold lookup
  rw [hg]
  dsimp only
  split
  · intro h; cases h
  · intro h; cases h
  · intro h; cases h
  · intro h; cases h
  · rename_i heq
    exact absurd heq (hd _ _)

/-! ### every re-entry runs with `skipRevalidate`, and such an activation always answers -/

/-- **every re-entry of `cachingFunc` carries `skipRevalidate = true`** (the row `w:stale>` always did;
    the row `w:304>` does since the repair of the two-values loop) -/
theorem reenter_skip_true {cfg : Config} {origin : Bytes → Option Origin} {now : Int} {req : Request}
    {d : Disk} {client ai : Header} {skip : Bool} {cs : List Contact} {d' : Disk} {c' ai' : Header}
    {skip' : Bool} {cs' : List Contact} {tag : String}
    (h : stepOnce cfg origin now req d client ai skip cs = .reenter d' c' ai' skip' cs' tag) :
    skip' = true := by
  obtain ⟨_, d1, reval, _, hw⟩ := stepOnce_reenter h
  obtain ⟨resp, _, hsh⟩ := writerRow_reenter hw
  exact hsh.1

/-- with `skipRevalidate` `cache.Get` never hands out a RevalidatingWriter: the lookup is a panic, a
    found row, or the NotFound writer -/
theorem lookup_skip_not_revalidating (cfg : Config) (now : Int) (keys : List Key) (d : Disk) (client : Header)
    (x : Key × Stored × Int) : (lookup cfg now keys d client true).2 ≠ .writer (some x) := by
  unfold lookup
  generalize storageGet d keys = r
  obtain ⟨d2, g⟩ := r
  cases g with
  | panic site => intro h; cases h
  | notFound => intro h; cases h
  | found k s =>
    dsimp only
    split
    · intro h; cases h
    · intro h; cases h
    · intro h; cases h
    · intro h; cases h
    · rename_i heq
      exact absurd heq (decide_skip_ne_revalidate _ _ _ _ _ _ _ _)

/-- **an activation with `skipRevalidate = true` answers** — on every disk, for every header, origin,
    clock: its lookup is a found row (or a panic), or finds nothing, and a NotFound writer row never
    re-enters -/
theorem skip_activation_answers (cfg : Config) (origin : Bytes → Option Origin) (now : Int) (req : Request)
    (d : Disk) (client ai : Header) (cs : List Contact) :
    ∃ a, stepOnce cfg origin now req d client ai true cs = .done a := by
  unfold stepOnce
  split
  · split <;> exact ⟨_, rfl⟩
  · dsimp only
    split
    · exact ⟨_, rfl⟩
    · exact ⟨_, rfl⟩
    · exact ⟨_, rfl⟩
    · rename_i d1 reval heq
      cases reval with
      | none => exact notFound_writer_done ..
      | some x =>
        exact absurd (by rw [heq]) (lookup_skip_not_revalidating cfg now (keysOf cfg req client) d client x)

/-! ### E. one re-entry is the last: two activations always suffice.  No hypothesis. -/

/-- **one re-entry is the last.**  If an activation of `cachingFunc` re-enters, the re-entered
    activation answers. -/
theorem reenter_then_done {cfg : Config} {origin : Bytes → Option Origin} {now : Int} {req : Request}
    {d : Disk} {client ai : Header} {skip : Bool} {cs : List Contact} {d' : Disk} {c' ai' : Header}
    {skip' : Bool} {cs' : List Contact} {tag : String}
    (h : stepOnce cfg origin now req d client ai skip cs = .reenter d' c' ai' skip' cs' tag) :
    ∃ a, stepOnce cfg origin now req d' c' ai' skip' cs' = .done a := by
  rw [reenter_skip_true h]
  exact skip_activation_answers ..

/-- what `cachingFunc` returns with fuel for two activations or more: the answer of the first
    activation, or the answer of the second one (a plain activation, or the activation that finds its
    own lock: `lockedReentry`, which does not recurse) with the re-entry's tag in front of its label -/
theorem cachingFunc_two (cfg : Config) (origin : Bytes → Option Origin) (now : Int) (req : Request)
    (d : Disk) (client ai : Header) (skip : Bool) (cs : List Contact) (n : Nat) :
    (∃ a, stepOnce cfg origin now req d client ai skip cs = .done a ∧
        cachingFunc cfg origin now req (n + 2) d client ai skip cs = a) ∨
    (∃ d' c' ai' cs' tag a, stepOnce cfg origin now req d client ai skip cs = .reenter d' c' ai' true cs' tag ∧
        stepOnce cfg origin now req d' c' ai' true cs' = .done a ∧
        cachingFunc cfg origin now req (n + 2) d client ai skip cs = { a with label := tag ++ a.label }) ∨
    (∃ d' c' ai' cs' tag, stepOnce cfg origin now req d client ai skip cs = .reenterLocked d' c' ai' cs' tag ∧
        cachingFunc cfg origin now req (n + 2) d client ai skip cs =
          { lockedReentry cfg origin now req d' c' ai' cs' with
            label := tag ++ (lockedReentry cfg origin now req d' c' ai' cs').label }) := by
  cases hst : stepOnce cfg origin now req d client ai skip cs with
  | done a =>
    left
    refine ⟨a, rfl, ?_⟩
    rw [cachingFunc, hst]
  | reenter d' c' ai' skip' cs' tag =>
    right; left
    have hs := reenter_skip_true hst
    subst hs
    obtain ⟨a, ha⟩ := reenter_then_done hst
    refine ⟨d', c', ai', cs', tag, a, rfl, ha, ?_⟩
    rw [cachingFunc, hst]
    dsimp only
    rw [cachingFunc, ha]
  | reenterLocked d' c' ai' cs' tag =>
    right; right
    refine ⟨d', c', ai', cs', tag, rfl, ?_⟩
    rw [cachingFunc, hst]

/-- the arm `Step.reenterLocked` (304 for a writer with disk writes disabled) needs no fuel at all: one
    unit of fuel — for the activation that produces it — gives the same answer as any amount -/
theorem reenterLocked_needs_no_fuel {cfg : Config} {origin : Bytes → Option Origin} {now : Int} {req : Request}
    {d : Disk} {client ai : Header} {skip : Bool} {cs : List Contact} {d' : Disk} {c' ai' : Header}
    {cs' : List Contact} {tag : String}
    (h : stepOnce cfg origin now req d client ai skip cs = .reenterLocked d' c' ai' cs' tag) (n : Nat) :
    cachingFunc cfg origin now req (n + 1) d client ai skip cs =
      { lockedReentry cfg origin now req d' c' ai' cs' with
        label := tag ++ (lockedReentry cfg origin now req d' c' ai' cs').label } := by
  rw [cachingFunc, h]

/-- **two activations always suffice**: more fuel changes nothing -/
theorem fuel_two_suffices (cfg : Config) (origin : Bytes → Option Origin) (now : Int) (req : Request)
    (d : Disk) (client ai : Header) (skip : Bool) (cs : List Contact) {fuel : Nat} (h2 : 2 ≤ fuel) :
    cachingFunc cfg origin now req fuel d client ai skip cs =
      cachingFunc cfg origin now req 2 d client ai skip cs := by
  obtain ⟨n, rfl⟩ : ∃ n, fuel = n + 2 := ⟨fuel - 2, by omega⟩
  cases hst : stepOnce cfg origin now req d client ai skip cs with
  | done a =>
    rw [cachingFunc, hst, cachingFunc, hst]
  | reenter d' c' ai' skip' cs' tag =>
    obtain ⟨a, ha⟩ := reenter_then_done hst
    rw [cachingFunc, hst, cachingFunc, hst]
    dsimp only
    rw [cachingFunc, ha, cachingFunc, ha]
  | reenterLocked d' c' ai' cs' tag =>
    rw [cachingFunc, hst, cachingFunc, hst]

/-! ### the label `fuel` never shows -/

def hitLabels : List String := ["f:zero503", "f:416", "f:hit-range", "f:hit-range-n200", "f:hit"]

theorem foundHit_label (cfg : Config) (s : Stored) (age : Int) (stale : Bool) (ai : Header)
    (rr : Option Range.ReqRange) : (foundHit cfg s age stale ai rr).2 ∈ hitLabels := by
  unfold foundHit
  repeat' first | split | (dsimp only; split)
  all_goals simp [hitLabels]

/-- every label an ANSWERING activation of `cachingFunc` can carry (Appendix A of DESIGN.md), the
    activation that finds its own lock included -/
def doneLabels : List String :=
  ["u:err", "u:pass", "g:panic", "f:304", "w:err", "g:selfwait", "f:noreader-err", "f:noreader-pass", "f:noreader"] ++
    hitLabels ++ hitLabels.map (· ++ ":stale") ++ afterLabels ++ fillLabels

def LabelOK : Step → Prop
  | .done a => a.label ∈ doneLabels
  | .reenter _ _ _ _ _ tag => tag = "w:304>" ∨ tag = "w:stale>"
  | .reenterLocked _ _ _ _ tag => tag = "w:304>"

theorem writerRow_labelOK (cfg : Config) (origin : Bytes → Option Origin) (now : Int) (req : Request)
    (keys : List Key) (rr : Option Range.ReqRange) (d : Disk) (client ai : Header) (cs : List Contact)
    (reval : Option (Key × Stored × Int)) :
    LabelOK (writerRow cfg origin now req keys rr d client ai cs reval) := by
  unfold writerRow
  simp only []
  split
  · simp [LabelOK, doneLabels]
  · rename_i resp _
    have h := afterAnswer_shape cfg now keys rr d ai (logged cfg cs (surgeryOf rr client reval).req) reval
      (writerOf keys client reval) (surgeryOf rr client reval) resp
    revert h
    cases afterAnswer cfg now keys rr d ai (logged cfg cs (surgeryOf rr client reval).req) reval
      (writerOf keys client reval) (surgeryOf rr client reval) resp with
    | done a =>
      intro h
      simp only [ReenterShape] at h
      simp only [LabelOK, doneLabels, List.mem_append]
      rcases h with h | h
      · exact Or.inl (Or.inr h)
      · exact Or.inr h
    | reenter d' c' ai' skip' cs' tag =>
      intro h
      simp only [ReenterShape] at h
      simp only [LabelOK]
      rcases h with ⟨_, ⟨h, _⟩ | ⟨h, _⟩⟩
      · exact Or.inl h
      · exact Or.inr h
    | reenterLocked d' c' ai' cs' tag =>
      intro h
      exact h

theorem mem_doneLabels_of_hit {l : String} (h : l ∈ hitLabels) : l ∈ doneLabels := by
  simp only [doneLabels, List.mem_append]
  exact Or.inl (Or.inl (Or.inl (Or.inr h)))

theorem mem_doneLabels_of_hit_stale {l : String} (h : l ∈ hitLabels) : l ++ ":stale" ∈ doneLabels := by
  simp only [doneLabels, List.mem_append, List.mem_map]
  exact Or.inl (Or.inl (Or.inr ⟨l, h, rfl⟩))

theorem stepOnce_labelOK (cfg : Config) (origin : Bytes → Option Origin) (now : Int) (req : Request)
    (d : Disk) (client ai : Header) (skip : Bool) (cs : List Contact) :
    LabelOK (stepOnce cfg origin now req d client ai skip cs) := by
  unfold stepOnce
  split
  · split <;> simp [LabelOK, doneLabels]
  · dsimp only
    split
    · simp [LabelOK, doneLabels]
    · simp [LabelOK, doneLabels]
    · rename_i d1 s age stale _
      have h := foundHit_label cfg s age stale ai (Range.getRange client)
      revert h
      generalize foundHit cfg s age stale ai (Range.getRange client) = p
      obtain ⟨o, l⟩ := p
      intro h
      simp only [LabelOK]
      cases stale
      · exact mem_doneLabels_of_hit h
      · exact mem_doneLabels_of_hit_stale h
    · exact writerRow_labelOK ..

/-- the activation that finds its own lock answers (or hangs: `g:selfwait`) under one of the labels -/
theorem lockedReentry_label (cfg : Config) (origin : Bytes → Option Origin) (now : Int) (req : Request)
    (d : Disk) (client ai : Header) (cs : List Contact) :
    (lockedReentry cfg origin now req d client ai cs).label ∈ doneLabels := by
  unfold lockedReentry
  repeat' first | split | (dsimp only; split)
  all_goals first
    | (simp [doneLabels]; done)
    | exact mem_doneLabels_of_hit (foundHit_label ..)
    | exact mem_doneLabels_of_hit_stale (foundHit_label ..)

/-- "the run ended because the fuel ran out": the label ends in `fuel` -/
def OutOfFuel (label : String) : Prop := "fuel".toList <:+ label.toList

instance (label : String) : Decidable (OutOfFuel label) := by unfold OutOfFuel; infer_instance

theorem doneLabels_not_outOfFuel : ∀ l ∈ doneLabels, ¬ OutOfFuel l ∧ 4 ≤ l.toList.length := by decide

theorem not_outOfFuel_append {tag l : String} (h : ¬ OutOfFuel l) (hl : 4 ≤ l.toList.length) :
    ¬ OutOfFuel (tag ++ l) := by
  intro hs
  apply h
  unfold OutOfFuel at *
  rw [String.toList_append] at hs
  exact List.suffix_of_suffix_length_le hs (List.suffix_append _ _) hl

/-- **every request is answered**: with fuel for two activations the label never ends in `fuel` -/
theorem answered (cfg : Config) (origin : Bytes → Option Origin) (now : Int) (req : Request)
    (d : Disk) (client ai : Header) (skip : Bool) (cs : List Contact) {fuel : Nat} (h2 : 2 ≤ fuel) :
    ¬ OutOfFuel (cachingFunc cfg origin now req fuel d client ai skip cs).label := by
  obtain ⟨n, rfl⟩ : ∃ n, fuel = n + 2 := ⟨fuel - 2, by omega⟩
  rcases cachingFunc_two cfg origin now req d client ai skip cs n with
    ⟨a, h1, e⟩ | ⟨d', c', ai', cs', tag, a, h1, h2', e⟩ | ⟨d', c', ai', cs', tag, h1, e⟩
  · rw [e]
    have := stepOnce_labelOK cfg origin now req d client ai skip cs
    rw [h1] at this
    exact (doneLabels_not_outOfFuel _ this).1
  · rw [e]
    have := stepOnce_labelOK cfg origin now req d' c' ai' true cs'
    rw [h2'] at this
    exact not_outOfFuel_append (doneLabels_not_outOfFuel _ this).1 (doneLabels_not_outOfFuel _ this).2
  · rw [e]
    have := lockedReentry_label cfg origin now req d' c' ai' cs'
    exact not_outOfFuel_append (doneLabels_not_outOfFuel _ this).1 (doneLabels_not_outOfFuel _ this).2

/-- the converse, for orientation: without fuel there is no answer (and one unit is not always enough:
    `Ex.one_unit_not_enough`) -/
example (cfg : Config) (origin : Bytes → Option Origin) (now : Int) (req : Request) (d : Disk)
    (client ai : Header) (skip : Bool) (cs : List Contact) :
    OutOfFuel (cachingFunc cfg origin now req 0 d client ai skip cs).label := by
  show OutOfFuel "fuel"; decide

/-! ### the corollary for `step`: the driver's fuel is never used up -/

theorem step_fuel_irrelevant (cfg : Config) (s : State) (r : Request) :
    step cfg s (.req r) =
      (let a := cachingFunc cfg s.origin s.now r 2 s.disk r.header [] false []
       ({ s with disk := a.disk }, some (obsOf r a))) := by
  unfold step
  dsimp only
  rw [fuel_two_suffices _ _ _ _ _ _ _ _ _ (by decide : 2 ≤ defaultFuel)]

/-- **`step` never runs out of fuel**: for every configuration, state and request -/
theorem step_answered (cfg : Config) (s : State) (r : Request) :
    ∀ o, (step cfg s (.req r)).2 = some o → ¬ OutOfFuel o.label := by
  intro o ho
  unfold step at ho
  dsimp only at ho
  cases ho
  exact answered _ _ _ _ _ _ _ _ _ (by decide : 2 ≤ defaultFuel)

/-- … and so does every observation of a history -/
theorem run_answered (cfg : Config) : ∀ (ops : List Op) (s : State), ∀ o ∈ run cfg s ops, ¬ OutOfFuel o.label
  | [], _, o, h => by simp [run] at h
  | op :: ops, s, o, h => by
    unfold run at h
    split at h
    · rename_i s' o' heq
      rcases List.mem_cons.1 h with rfl | h
      · cases op with
        | req r => exact step_answered cfg s r o (by rw [heq])
        | tick dt => simp [step] at heq
        | setOrigin p oo => simp [step] at heq
      · exact run_answered cfg ops s' o h
    · rename_i s' heq
      exact run_answered cfg ops s' o h

/-! ### the arm `Step.reenterLocked` -/

theorem get_skip_ne_revalidating (lock : Bool) (m : Freshness.Entry) (now : Int) (force : Nat) (inm ims : Bytes)
    (suffix : Option Bytes) (a : Int) :
    Freshness.get lock m now force true inm ims suffix ≠ .ok (.revalidatingReader a) ∧
    Freshness.get lock m now force true inm ims suffix ≠ .ok (.revalidatingWriter a) := by
  cases h : Freshness.shouldRevalidate m now force with
  | false =>
    rw [Freshness.get_of_not_stale lock true inm ims suffix h]
    cases Freshness.clientCheck suffix inm ims m.header with
    | panic s => constructor <;> (intro hh; cases hh)
    | ok b => cases b <;> constructor <;> (intro hh; cases hh)
  | true =>
    rw [Freshness.get_of_stale lock true inm ims suffix h]
    simp

theorem foundHit_hang (cfg : Config) (s : Stored) (age : Int) (stale : Bool) (ai : Header)
    (rr : Option Range.ReqRange) : (foundHit cfg s age stale ai rr).1.hang = false := by
  unfold foundHit
  repeat' first | split | (dsimp only; split)
  all_goals rfl

theorem plainOut_hang (cfg : Config) (resp : Resp) (ai : Header) (so : Option Nat) :
    (plainOut cfg resp ai so).hang = false := by
  unfold plainOut
  dsimp only
  split <;> rfl

/-- **the activation that finds its own lock never hangs for a FOUND entry** (since the repair it runs
    with `skipRevalidate`: `cache.Get` serves the entry, stale-marked if need be, instead of waiting for
    the key): it hangs (`g:selfwait`) only when `storage.Get` finds nothing -/
theorem lockedReentry_found_answers {cfg : Config} {origin : Bytes → Option Origin} {now : Int} {req : Request}
    {d : Disk} {client ai : Header} {cs : List Contact}
    (h : (lockedReentry cfg origin now req d client ai cs).out.hang = true) :
    (storageGet d (keysOf cfg req client)).2 = .notFound := by
  revert h
  unfold lockedReentry
  dsimp only
  generalize storageGet d (keysOf cfg req client) = r
  obtain ⟨d2, g⟩ := r
  cases g with
  | panic site => intro h; cases h
  | notFound => intro _; rfl
  | found k s =>
    dsimp only
    split
    · intro h; cases h
    · intro h; cases h
    · intro h; exact absurd h (by rw [foundHit_hang]; decide)
    · intro h; exact absurd h (by rw [foundHit_hang]; decide)
    · split
      · split
        · intro h; cases h
        · intro h; exact absurd h (by rw [plainOut_hang]; decide)
      · intro h; cases h
    · rename_i heq; exact absurd heq (get_skip_ne_revalidating _ _ _ _ _ _ _ _).1
    · rename_i heq; exact absurd heq (get_skip_ne_revalidating _ _ _ _ _ _ _ _).2

/-- `Step.reenter` out of the row `w:304` comes from a writer with `diskWritesDisabled = false` whose
    `Close` succeeded; it carries `skipRevalidate = true` -/
theorem row304_reenter {d : Disk} {ai : Header} {cs : List Contact} {w : Writer} {sg : Conditional.Surgery}
    {resp : Resp} {now : Int} {d' : Disk} {c' ai' : Header} {skip' : Bool} {cs' : List Contact} {tag : String}
    (h : row304 d ai cs w sg resp now = .reenter d' c' ai' skip' cs' tag) :
    w.diskWritesDisabled = false ∧ skip' = true ∧
      republish d w now (some (Conditional.dropZeroContentLength resp.header)) = (d', true) := by
  unfold row304 at h
  dsimp only at h
  split at h
  · cases h
  · rename_i hw
    split at h
    · cases h
    · rename_i d1 heq
      cases h
      exact ⟨by simpa using hw, rfl, heq⟩

/-- … and a writer with `diskWritesDisabled` leaves the row through `Step.reenterLocked`, with the disk
    untouched -/
theorem row304_locked {d : Disk} {ai : Header} {cs : List Contact} {w : Writer} {sg : Conditional.Surgery}
    {resp : Resp} {now : Int} (hw : w.diskWritesDisabled = true) :
    ∃ c' ai', row304 d ai cs w sg resp now = .reenterLocked d c' ai' cs "w:304>" := by
  unfold row304
  dsimp only
  rw [if_pos hw]
  exact ⟨_, _, rfl⟩

/-- at the level of the request: a `w:304>` re-entry through `Step.reenter` means the request carried
    no `Authorization` -/
theorem reenter304_no_authorization {cfg : Config} {origin : Bytes → Option Origin} {now : Int} {req : Request}
    {d : Disk} {client ai : Header} {skip : Bool} {cs : List Contact} {d' : Disk} {c' ai' : Header}
    {skip' : Bool} {cs' : List Contact}
    (h : stepOnce cfg origin now req d client ai skip cs = .reenter d' c' ai' skip' cs' "w:304>") :
    client.get b!"authorization" = [] := by
  obtain ⟨_, d1, reval, _, hw⟩ := stepOnce_reenter h
  obtain ⟨resp, _, hsh⟩ := writerRow_reenter hw
  rcases hsh with ⟨_, ⟨_, _, _, _, _, hwd, _⟩ | ⟨ht, _⟩⟩
  · simp only [writerOf, decide_eq_false_iff_not, Nat.not_lt, Nat.le_zero, List.length_eq_zero_iff] at hwd
    exact hwd
  · exact absurd ht (by decide)

/-! ### B. `storage.Get` is idempotent.  C. the `w:stale>` re-entry finds the same entry -/

/-- **B.** a second `storage.Get` with the same keys on the disk the first one left changes nothing
    and returns the same result (files are only removed; a key that yielded nothing has an empty
    cell afterwards) -/
theorem storageGet_idempotent (keys : List Key) (d d' : Disk) (r : GetRes)
    (h : storageGet d keys = (d', r)) : storageGet d' keys = (d', r) :=
  storageGet_idem keys d d' r h

/-- **C.** the re-entry after a failed revalidation (`w:stale>`) computes the same keys and `storage.Get`
    finds, on the disk the first lookup left, the very entry the activation tried to revalidate -/
theorem stale_reenter_finds_same_entry {cfg : Config} {origin : Bytes → Option Origin} {now : Int} {req : Request}
    {d : Disk} {client ai : Header} {skip : Bool} {cs : List Contact} {d' : Disk} {c' ai' : Header}
    {skip' : Bool} {cs' : List Contact}
    (h : stepOnce cfg origin now req d client ai skip cs = .reenter d' c' ai' skip' cs' "w:stale>") :
    ∃ k s, storageGet d (keysOf cfg req client) = (d', .found k s) ∧
      storageGet d' (keysOf cfg req c') = (d', .found k s) := by
  obtain ⟨_, d1, reval, hl, hw⟩ := stepOnce_reenter h
  obtain ⟨resp, _, hsh⟩ := writerRow_reenter hw
  cases reval with
  | none => exact absurd (reenterShape_none hsh) id
  | some r =>
    obtain ⟨k, s, age⟩ := r
    rcases hsh with ⟨_, ⟨ht, _⟩ | ⟨_, hd', hc', _⟩⟩
    · exact absurd ht (by decide)
    · subst hd' hc'
      have hg := lookup_writer_some hl
      refine ⟨k, s, hg, ?_⟩
      rw [keysOf_client1Of]
      exact storageGet_idem _ _ _ _ hg

/-! ### D. when the `w:304>` re-entry serves the entry as FRESH (not stale-marked) -/

/-- the metadata `storageWriter.Close` re-publishes after a 304 with header `h304` at time `now`
    (before the codec): `Revalidated := now`, headers merged -/
def republishedMeta (m : Codec.Meta) (h304 : Header) (now : Int) : Codec.Meta :=
  { m with revalidated := now,
           respHeader := Conditional.merge304 m.respHeader (Conditional.dropZeroContentLength h304) }

/-- `SetRevalidatedAndClose` succeeded: the cell of the writer held a decodable entry whose size is the
    file's, and now holds the same body under the re-encoded, merged metadata -/
theorem republish_ok {d d' : Disk} {w : Writer} {now : Int} {h304 : Header}
    (hr : republish d w now (some (Conditional.dropZeroContentLength h304)) = (d', true)) :
    ∃ f x m, d w.path = some f ∧ f.xattr = some x ∧ Codec.decode x = .ok (some m) ∧
      (f.body.length : Int) = m.size ∧
      d' = d.upd w.path (some { f with xattr := some (Codec.encode (republishedMeta m h304 now)) }) := by
  unfold republish at hr
  split at hr
  · cases hr
  · rename_i f hf
    split at hr
    · rename_i m hm
      dsimp only at hr
      split at hr
      · cases hr
      · rename_i hsz
        split at hr
        · cases hr
        · cases hx : f.xattr with
          | none => rw [hx] at hm; cases hm
          | some x =>
            rw [hx] at hm
            simp only [Option.map_some, Option.some.injEq] at hm
            refine ⟨f, x, m, hf, hx, hm, Decidable.of_not_not hsz, ?_⟩
            cases hr
            rfl
    · cases hr

/-- what the second lookup must make of the re-published entry: the codec gives metadata back
    (H1), their size passes `storage.Get`'s check, and they are not due for revalidation at `now`
    (H2, H3) -/
def ReadsBackFresh (cfg : Config) (now : Int) (m' : Codec.Meta) : Prop :=
  ∃ m'', Codec.decode (Codec.encode m') = .ok (some m'') ∧
    ((m''.respHeader.get b!"content-length").length > 0 ∨ m''.size = m'.size) ∧
    Freshness.shouldRevalidate ⟨m''.respHeader, m''.created, m''.revalidated⟩ now cfg.force = false

theorem upd_ne {d : Disk} {p q : Bytes} {f : Option File} (h : q ≠ p) : d.upd p f q = d q := by
  unfold Disk.upd; rw [if_neg h]

theorem upd_self {d : Disk} {p : Bytes} {f : Option File} : d.upd p f p = f := by
  unfold Disk.upd; rw [if_pos rfl]

/-- a lookup that finds an entry which is not due for revalidation does not mark it stale -/
theorem lookup_not_stale_of_fresh {cfg : Config} {now : Int} {keys : List Key} {d d1 : Disk} {client : Header}
    {skip : Bool} {k : Key} {s : Stored} (hg : storageGet d keys = (d1, .found k s))
    (hf : Freshness.shouldRevalidate (entryOf s) now cfg.force = false) :
    (∀ reval, (lookup cfg now keys d client skip).2 ≠ .writer reval) ∧
    (∀ s' age, (lookup cfg now keys d client skip).2 ≠ .serve s' age true) := by
  unfold lookup
  rw [hg]
  dsimp only
  rw [Freshness.decide_of_not_stale skip _ _ _ hf]
  cases Freshness.clientCheck cfg.sfx (client.get b!"if-none-match") (client.get b!"if-modified-since")
      (entryOf s).header with
  | panic site =>
    constructor
    · intro _ h; cases h
    · intro _ _ h; cases h
  | ok b =>
    cases b
    · constructor
      · intro _ h; cases h
      · intro _ _ h; cases h
    · constructor
      · intro _ h; cases h
      · intro _ _ h; cases h

/-- **The hypothesis (H1–H3), on the activation that re-enters.**  Whenever this activation revalidates
    a stored entry `s` and the origin answers the revalidation request with a cacheable 304, the
    re-published metadata read back fresh (`ReadsBackFresh`; sufficient conditions:
    `readsBackFresh_of_faithful`, `codecFaithful_of_representable`, `settles304_of`).  Since the repair
    this is no longer needed for termination; it says when the re-entry's answer is NOT stale-marked. -/
def Settles304 (cfg : Config) (origin : Bytes → Option Origin) (now : Int) (req : Request)
    (d : Disk) (client : Header) (skip : Bool) (cs : List Contact) : Prop :=
  ∀ d1 k s age resp,
    lookup cfg now (keysOf cfg req client) d client skip = (d1, .writer (some (k, s, age))) →
    ask cfg origin req cs (surgeryOf (Range.getRange client) client (some (k, s, age))).req = some resp →
    resp.status = 304 → (getCacheControlDirectives resp.header).doNotCache = false →
    ReadsBackFresh cfg now (republishedMeta s.meta resp.header now)

/-- **D.** under `Settles304` the re-entry after a 304 finds the re-published entry and serves it as
    FRESH: its lookup is a found row (`f:304`, or a hit with `IsStale = false`, or the ETag-comparison
    panic) — neither a writer row nor a stale-marked hit -/
theorem reenter304_fresh_when_settled {cfg : Config} {origin : Bytes → Option Origin} {now : Int} {req : Request}
    {d : Disk} {client ai : Header} {skip : Bool} {cs : List Contact} {d' : Disk} {c' ai' : Header}
    {skip' : Bool} {cs' : List Contact}
    (hS : Settles304 cfg origin now req d client skip cs)
    (h : stepOnce cfg origin now req d client ai skip cs = .reenter d' c' ai' skip' cs' "w:304>") :
    (∀ reval, (lookup cfg now (keysOf cfg req c') d' c' skip').2 ≠ .writer reval) ∧
    (∀ s' age, (lookup cfg now (keysOf cfg req c') d' c' skip').2 ≠ .serve s' age true) := by
  obtain ⟨_, d1, reval, hl, hw⟩ := stepOnce_reenter h
  obtain ⟨resp, hask, hsh⟩ := writerRow_reenter hw
  cases reval with
  | none => exact absurd (reenterShape_none hsh) id
  | some r =>
    obtain ⟨k, s, age⟩ := r
    rcases hsh with ⟨_, ⟨_, hc', _, h304, hdnc, _, hrep⟩ | ⟨ht, _⟩⟩
    · subst hc'
      obtain ⟨m'', hdec, hsz, hfresh⟩ := hS d1 k s age resp hl hask h304 hdnc
      have hg := lookup_writer_some hl
      obtain ⟨pre, post, hkeys, hpre, hone⟩ := storageGet_found _ _ _ _ _ hg
      obtain ⟨_, hcell, x0, hx0, hd0, _⟩ := getOne_some hone
      have hwp : (writerOf (keysOf cfg req client) client (some (k, s, age))).path = keyString k := rfl
      obtain ⟨f, x, m, hf, hx, hm, hfs, hd'⟩ := republish_ok hrep
      rw [hwp] at hf hd'
      rw [hcell] at hf
      cases hf
      rw [hx0] at hx
      cases hx
      rw [hd0] at hm
      cases hm
      -- the second lookup
      rw [keysOf_client2Of, hkeys]
      have hpre' : ∀ k0 ∈ pre, d' (keyString k0) = none := by
        intro k0 hk0
        have hne : keyString k0 ≠ keyString k := by
          intro e
          have := hpre k0 hk0
          rw [e, hcell] at this
          cases this
        rw [hd', upd_ne hne]
        exact hpre k0 hk0
      have hone' : getOne d' k = (d', .ok (some ⟨m'', { s.file with xattr := some (Codec.encode (republishedMeta s.meta resp.header now)) }⟩)) := by
        apply getOne_of_cell (x := Codec.encode (republishedMeta s.meta resp.header now))
        · rw [hd', upd_self]
        · rfl
        · exact hdec
        · rcases hsz with hsz | hsz
          · exact Or.inl hsz
          · right
            rw [hsz]
            exact hfs
      have hg' : storageGet d' (pre ++ k :: post) = (d', .found k ⟨m'', { s.file with xattr := some (Codec.encode (republishedMeta s.meta resp.header now)) }⟩) := by
        rw [storageGet_skip pre _ hpre', storageGet, hone']
      exact lookup_not_stale_of_fresh hg' hfresh
    · exact absurd ht (by decide)

/-! ### sufficient conditions for the hypothesis: H1 (codec fidelity), H2 (`now ≠ 0`), H3 (directives) -/

theorem staleByDirectives_zero {dirs : Directives} (h : dirs.doNotCache = false) :
    Freshness.staleByDirectives dirs 0 = false := by
  simp only [Directives.doNotCache, Bool.or_eq_false_iff] at h
  obtain ⟨⟨_, hs⟩, hm⟩ := h
  unfold Freshness.staleByDirectives
  cases hs' : dirs.sMaxAge with
  | some x => rw [hs'] at hs; simpa [nonPositive] using hs
  | none =>
    cases hm' : dirs.maxAge with
    | some x => rw [hm'] at hm; simpa [nonPositive] using hm
    | none => rfl

/-- an entry revalidated at `now ≠ 0` whose directives give no do-not-cache reason is not due for
    revalidation at `now`: its age is 0, `force_revalidate` is ≥ 1 when set, lifetimes are positive,
    `Expires` is not consulted after a revalidation -/
theorem not_stale_just_revalidated {h : Header} {created now : Int} (force : Nat) (h2 : now ≠ 0)
    (h3 : (getCacheControlDirectives h).doNotCache = false) :
    Freshness.shouldRevalidate ⟨h, created, now⟩ now force = false := by
  rw [Freshness.shouldRevalidate_eq]
  have ha : Freshness.ageOf ⟨h, created, now⟩ now = (0, true) := by
    unfold Freshness.ageOf
    rw [if_pos h2]
    simp
  rw [ha]
  dsimp only
  rw [staleByDirectives_zero h3]
  have hf : Freshness.staleByForce force 0 = false := by
    unfold Freshness.staleByForce
    split
    · simp; omega
    · rfl
  rw [hf]
  simp [Freshness.staleByExpires]

/-- H1, as weak as the proof needs it: the codec gives metadata back whose size, revalidation time and
    Cache-Control values are the ones written -/
def CodecFaithful (m' : Codec.Meta) : Prop :=
  ∃ m'', Codec.decode (Codec.encode m') = .ok (some m'') ∧ m''.size = m'.size ∧
    m''.revalidated = m'.revalidated ∧
    m''.respHeader.values b!"cache-control" = m'.respHeader.values b!"cache-control"

/-- H1 ∧ H2 ∧ H3 ⇒ the re-published entry reads back fresh -/
theorem readsBackFresh_of_faithful {cfg : Config} {now : Int} {m' : Codec.Meta}
    (h1 : CodecFaithful m') (hrv : m'.revalidated = now) (h2 : now ≠ 0)
    (h3 : (getCacheControlDirectives m'.respHeader).doNotCache = false) : ReadsBackFresh cfg now m' := by
  obtain ⟨m'', hd, hsz, hr, hcc⟩ := h1
  refine ⟨m'', hd, Or.inr hsz, ?_⟩
  rw [hr, hrv]
  apply not_stale_just_revalidated cfg.force h2
  rw [doNotCache_eq_ccDirs, hcc, ← doNotCache_eq_ccDirs]
  exact h3

/-- the decidable sufficient condition for H1: the complement of finding C07-a -/
theorem codecFaithful_of_representable {m' : Codec.Meta} (hr : m'.inRange = true)
    (hrep : Spec.C07.Representable m' = true) : CodecFaithful m' := by
  refine ⟨_, Props.C07.decode_encode_of_representable m' hr hrep, rfl, rfl, ?_⟩
  simp only [Spec.C07.Representable, Bool.and_eq_true] at hrep
  unfold Header.values Props.C07.decodedHeader
  exact Codec.vals_decoded hrep.2 _

/-- **H1–H3 from their sources.**  `Settles304` holds when the clock is not at 0 (H2) and, for the entry
    the activation revalidates and the origin's cacheable 304, the stored header gives no do-not-cache
    reason (an invariant of the disk: such a header is never stored) and the codec is faithful on the
    re-published metadata (H1).  H3 — the MERGED header gives no do-not-cache reason — is derived:
    `doNotCache_merge304`, using that the origin's header is a parsed map (`WFHeader.ask`). -/
theorem settles304_of {cfg : Config} {origin : Bytes → Option Origin} {now : Int} {req : Request}
    {d : Disk} {client : Header} {skip : Bool} {cs : List Contact} (h2 : now ≠ 0)
    (hE : ∀ d1 k s age resp,
      lookup cfg now (keysOf cfg req client) d client skip = (d1, .writer (some (k, s, age))) →
      ask cfg origin req cs (surgeryOf (Range.getRange client) client (some (k, s, age))).req = some resp →
      resp.status = 304 → (getCacheControlDirectives resp.header).doNotCache = false →
      (getCacheControlDirectives s.meta.respHeader).doNotCache = false ∧
        CodecFaithful (republishedMeta s.meta resp.header now)) :
    Settles304 cfg origin now req d client skip cs := by
  intro d1 k s age resp hl hask h304 hdnc
  obtain ⟨hst, hcf⟩ := hE d1 k s age resp hl hask h304 hdnc
  exact readsBackFresh_of_faithful hcf rfl h2 (doNotCache_merge304 (WFHeader.ask hask) hst hdnc)

/-! ### non-vacuity and the repaired defect -/

/-- the entry a revalidating lookup hands out sits, encoded, in a cell of the disk it started from -/
theorem lookup_writer_cell {cfg : Config} {now : Int} {keys : List Key} {d d1 : Disk} {client : Header}
    {skip : Bool} {k : Key} {s : Stored} {age : Int}
    (hl : lookup cfg now keys d client skip = (d1, .writer (some (k, s, age)))) :
    ∃ x, d (keyString k) = some s.file ∧ s.file.xattr = some x ∧ Codec.decode x = .ok (some s.meta) := by
  have hg := lookup_writer_some hl
  obtain ⟨_, _, _, _, hone⟩ := storageGet_found _ _ _ _ _ hg
  obtain ⟨_, hcell, x, hx, hd, _⟩ := getOne_some hone
  have hs := storageGet_shrinks keys d
  rw [hg] at hs
  rcases hs (keyString k) with e | e
  · exact ⟨x, by rw [← e]; exact hcell, hx, hd⟩
  · dsimp only at e; rw [e] at hcell; cases hcell

/-- … so on a disk with ONE file it is that file -/
theorem lookup_writer_single {cfg : Config} {now : Int} {keys : List Key} {p : Bytes} {f0 : File} {x0 : Bytes}
    {m0 : Codec.Meta} {d1 : Disk} {client : Header} {skip : Bool} {k : Key} {s : Stored} {age : Int}
    (hx0 : f0.xattr = some x0) (hd0 : Codec.decode x0 = .ok (some m0))
    (hl : lookup cfg now keys (Disk.empty.upd p (some f0)) client skip = (d1, .writer (some (k, s, age)))) :
    s = ⟨m0, f0⟩ := by
  obtain ⟨x, hcell, hx, hd⟩ := lookup_writer_cell hl
  obtain ⟨m, f⟩ := s
  dsimp only at hcell hx hd
  have hf : f = f0 := by
    unfold Disk.upd Disk.empty at hcell
    split at hcell
    · exact (Option.some.inj hcell).symm
    · cases hcell
  subst hf
  rw [hx0] at hx
  have hx' := Option.some.inj hx
  subst hx'
  rw [hd0] at hd
  cases hd
  rfl

namespace Ex

def cfg : Config := {}
def req : Request := { method := b!"GET", path := b!"p", header := [] }
def originOf (o : Origin) : Bytes → Option Origin := fun p => if p = b!"p" then some o else none

/-- a stored 200 for `GET /p` with this Cache-Control, ETag `"v"`, a one-byte body -/
def entry (cc : Bytes) (created : Int) : Codec.Meta :=
  { host := b!"h1.test", path := b!"/p", respHeader := [(b!"Cache-Control", [cc]), (b!"Etag", [b!"\"v\""])],
    status := 200, created := created, size := 1 }
/-- the same as the decoder returns it (keys sorted) -/
def entryD (cc : Bytes) (created : Int) : Codec.Meta :=
  { entry cc created with respHeader := [(b!"Etag", [b!"\"v\""]), (b!"Cache-Control", [cc])] }
def fileOf (m : Codec.Meta) : File := { body := b!"x", xattr := some (Codec.encode m) }
def diskOf (m : Codec.Meta) : Disk := Disk.empty.upd b!"h1.test/p" (some (fileOf m))

/-- an origin that honours If-None-Match; its 304 carries `Cache-Control: max-age=60` -/
def oGood : Origin :=
  { status := 200, headers := [(b!"ETag", b!"\"v\""), (b!"Cache-Control", b!"max-age=60")], body := b!"x", cond := true }
def r304 : Resp :=
  { status := 304, header := [(b!"Cache-Control", [b!"max-age=60"]), (b!"Etag", [b!"\"v\""])], contentLength := 0, body := [] }
def o500 : Origin := { status := 500, headers := [], body := b!"e" }
def r500 : Resp :=
  { status := 500, header := [(b!"Content-Length", [b!"1"])], contentLength := 1, body := b!"e" }

def tagOf : Step → Option (Option Bool × String)
  | .done _ => none
  | .reenter _ _ _ s _ tag => some (some s, tag)
  | .reenterLocked _ _ _ _ tag => some (none, tag)

/-! #### 1. the 304 re-entry -/

/-- a stale entry (`max-age=1`, stored at 1, now 100) revalidated by a 304: the activation re-enters,
    with `skipRevalidate = true` … -/
example : tagOf (stepOnce cfg (originOf oGood) 100 req (diskOf (entry b!"max-age=1" 1)) [] [] false []) =
    some (some true, "w:304>") := by decide

/-- … and the request is answered from the re-published entry, whatever the fuel ≥ 2; the entry reads back
    fresh (`max-age=60`, age 0), so the hit is not stale-marked -/
example : (cachingFunc cfg (originOf oGood) 100 req defaultFuel (diskOf (entry b!"max-age=1" 1)) [] [] false []).label =
    "w:304>f:hit" := by
  rw [fuel_two_suffices _ _ _ _ _ _ _ _ _ (by decide)]
  decide

set_option maxRecDepth 100000 in
/-- `Settles304` holds here (through `settles304_of`: clock not 0, stored header cacheable, re-published
    metadata representable): `reenter304_fresh_when_settled` applies -/
theorem settles_good : Settles304 cfg (originOf oGood) 100 req (diskOf (entry b!"max-age=1" 1)) [] false [] := by
  apply settles304_of (by decide)
  intro d1 k s age resp hl hask _ _
  have hs := lookup_writer_single (x0 := Codec.encode (entry b!"max-age=1" 1)) (m0 := entryD b!"max-age=1" 1)
    rfl (by decide) hl
  subst hs
  have hr : resp = r304 := by
    have h1 : ask cfg (originOf oGood) req []
        (Conditional.surgery .revalidating false [] (entryD b!"max-age=1" 1).respHeader).req = some r304 := by decide
    have h2 : (surgeryOf (Range.getRange []) [] (some (k, ⟨entryD b!"max-age=1" 1, fileOf (entry b!"max-age=1" 1)⟩, age))).req =
        (Conditional.surgery .revalidating false [] (entryD b!"max-age=1" 1).respHeader).req := rfl
    rw [h2, h1] at hask
    exact (Option.some.inj hask).symm
  subst hr
  exact ⟨by decide, codecFaithful_of_representable (by decide) (by decide)⟩

/-- the bound 2 is sharp: with fuel for ONE activation this request is not answered -/
theorem one_unit_not_enough :
    OutOfFuel (cachingFunc cfg (originOf oGood) 100 req 1 (diskOf (entry b!"max-age=1" 1)) [] [] false []).label := by
  decide

/-! #### 2. the stale-if-error re-entry -/

example : tagOf (stepOnce cfg (originOf o500) 100 req (diskOf (entry b!"max-age=1, stale-if-error=1000" 1)) [] [] false []) =
    some (some true, "w:stale>") := by decide

example : (cachingFunc cfg (originOf o500) 100 req defaultFuel
    (diskOf (entry b!"max-age=1, stale-if-error=1000" 1)) [] [] false []).label = "w:stale>f:hit:stale" := by
  rw [fuel_two_suffices _ _ _ _ _ _ _ _ _ (by decide)]
  decide

/-! #### 3. THE REPAIRED DEFECT: two `Cache-Control` lines (see the header comment).
  The state is reachable: the first request (a miss) stores the answer; the codec keeps `max-age=0`. -/

def oTwo : Origin :=
  { status := 200, body := b!"x", cond := true,
    headers := [(b!"ETag", b!"\"v\""), (b!"Cache-Control", b!"max-age=0"), (b!"Cache-Control", b!"max-age=5")] }

/-- the disk after a first request (a miss, filled: `w:fill`) at time 100 -/
def diskTwo : Disk := (cachingFunc cfg (originOf oTwo) 100 req 2 Disk.empty [] [] false []).disk

example : (cachingFunc cfg (originOf oTwo) 100 req 2 Disk.empty [] [] false []).label = "w:fill" := by decide

/-- still true: the invariant "a stored header gives no do-not-cache reason" does NOT hold in reachable
    states: the entry the first request stored reads back as `max-age=0` (C07-a at fill time) -/
theorem stored_doNotCache_reachable :
    ((diskTwo b!"h1.test/p").bind fun f => f.xattr.map fun x =>
      match Codec.decode x with
      | .ok (some m) => (getCacheControlDirectives m.respHeader).doNotCache
      | _ => false) = some true := by decide

/-- the second request, one second later, IS answered with two activations: one revalidation, then the
    confirmed entry is served — stale-marked, because it reads back `max-age=0`
    (before the repair: `w:304>w:304>w:304>fuel` with fuel 3, and so on without end) -/
theorem two_values_answered :
    (cachingFunc cfg (originOf oTwo) 101 req 2 diskTwo [] [] false []).label = "w:304>f:hit:stale" ∧
    (cachingFunc cfg (originOf oTwo) 101 req 2 diskTwo [] [] false []).contacts.length = 1 := by decide

/-- the second activation's lookup marks the hit stale -/
def staleSecond : Step → Bool
  | .reenter d' c' _ skip' _ _ =>
    match (lookup cfg 101 (keysOf cfg req c') d' c' skip').2 with
    | .serve _ _ true => true
    | _ => false
  | _ => false

/-- `Settles304` still fails on this instance: that is why the hit is stale-marked -/
theorem not_settles_two_values : ¬ Settles304 cfg (originOf oTwo) 101 req diskTwo [] false [] := by
  intro hS
  have h1 : staleSecond (stepOnce cfg (originOf oTwo) 101 req diskTwo [] [] false []) = true := by decide
  have h2 : tagOf (stepOnce cfg (originOf oTwo) 101 req diskTwo [] [] false []) = some (some true, "w:304>") := by decide
  cases hst : stepOnce cfg (originOf oTwo) 101 req diskTwo [] [] false [] with
  | done a => rw [hst] at h1; cases h1
  | reenterLocked d' c' ai' cs' tag => rw [hst] at h1; cases h1
  | reenter d' c' ai' skip' cs' tag =>
    rw [hst] at h1 h2
    simp only [tagOf, Option.some.injEq, Prod.mk.injEq] at h2
    obtain ⟨_, ht⟩ := h2
    subst ht
    have h3 := (reenter304_fresh_when_settled hS hst).2
    -- the match of `staleSecond` cannot take its first arm (`h3`), so it says `false`
    simp only [staleSecond] at h1
    cases h1

/-! #### 4. the clock at Unix time 0 (`Revalidated := now` reads as "never revalidated"): answered
  (before the repair: `w:304>w:304>w:304>fuel`) -/

theorem time_zero_answered :
    (cachingFunc cfg (originOf oGood) 0 req 2 (diskOf (entry b!"max-age=1" (-100))) [] [] false []).label =
      "w:304>f:hit:stale" := by decide

/-! #### 5. a 304 whose header makes the re-published entry UNDECODABLE (a `|` in a value), two keys
  (request with `Origin`), both cells hold a stale entry: two activations (before the repair three) -/

def reqO : Request := { method := b!"GET", path := b!"p", header := [(b!"Origin", [b!"o"])] }
def oPipe : Origin := { oGood with cc304 := b!"max-age=60, x=|" }
def diskO : Disk :=
  (Disk.empty.upd b!"h1.test/pOrigino" (some (fileOf (entry b!"max-age=1" 1)))).upd
    b!"h1.test/popaqueOrigin" (some (fileOf (entry b!"max-age=1" 1)))

/-- the re-published first entry is undecodable and removed; the second activation serves the OTHER
    key's entry, stale-marked; one contact -/
theorem pipe_answered :
    (cachingFunc cfg (originOf oPipe) 100 reqO 2 diskO reqO.header [] false []).label = "w:304>f:hit:stale" ∧
    (cachingFunc cfg (originOf oPipe) 100 reqO 2 diskO reqO.header [] false []).contacts.length = 1 := by
  decide

/-! #### 6. the arm `Step.reenterLocked` (request with Authorization, entry under a colliding key string):
  no recursion, no fuel; since the repair the found entry is served, not waited for -/

def reqA : Request := { method := b!"GET", path := b!"p", header := [(b!"Authorization", [b!"t"])] }
def diskA : Disk := Disk.empty.upd b!"h1.test/pAuthorizationt" (some (fileOf (entry b!"max-age=1" 1)))

example : tagOf (stepOnce cfg (originOf oGood) 100 reqA diskA reqA.header [] false []) = some (none, "w:304>") := by
  decide

/-- (before the repair: `w:304>g:selfwait`, `hang = true`) -/
example : (cachingFunc cfg (originOf oGood) 100 reqA 1 diskA reqA.header [] false []).label = "w:304>f:hit:stale" ∧
    (cachingFunc cfg (originOf oGood) 100 reqA 1 diskA reqA.header [] false []).out.hang = false := by
  decide

end Ex

end Props.SysCacheTerm
