import RrModel.LimiterLoop
import RrProofs.Props.C16
/-
  C16 on the LOOP of `runSizeLimiter` (Model.LimiterLoop: receive, switch, real-clock gate as an
  input, pass) — the machine stream `limgo` compares the real goroutine with.

  (a) refinement: the loop iteration is the value-level op of `Model.Limiter` followed by its pass
      when the gate is open, and the op alone when it is closed; with the script-clock gate it IS
      `Model.Limiter.step`, so the value-level theorems of Props.C16 speak about the loop.
  (b) the accounting invariant (`Props.C16.Inv`: sizeBytes = Σ kb·1024 over both maps = bytes
      stored) is kept by every iteration, whatever the gates — induction over op lists.
  (c) an iteration with the gate open ends within the limit, or has freed the per-pass cap —
      under the finding classes C16-a…f as hypotheses, like the partial theorems of Props.C16.
-/
namespace Props.C16Loop
open Go Model.Limiter Model.LimiterLoop Spec.C16 Props.C16

/-! ### (a) refinement -/

/-- closed gate: the iteration ends after the switch -/
theorem tail_closed (st : LState) (fs : FS) (now : Int) (h : Hints) :
    tail false st fs now h = (st, fs, {}) := rfl

/-- open gate: the loop tail is the value-level pass whenever the script clock opens that one too -/
theorem tail_open_eq_pass (st : LState) (fs : FS) (now : Int) (h : Hints)
    (hg : ¬ now - st.lastRun < (Facts.purgeIntervalSec : Int)) :
    tail true st fs now h = pass st fs now h := by
  unfold tail pass passOpen
  simp only [hg, ↓reduceIte]

/-- … and the value-level pass with its gate closed is the closed loop tail -/
theorem pass_closed_eq_tail (st : LState) (fs : FS) (now : Int) (h : Hints)
    (hg : now - st.lastRun < (Facts.purgeIntervalSec : Int)) :
    pass st fs now h = tail false st fs now h := by
  unfold tail pass
  simp only [hg, ↓reduceIte, Bool.false_eq_true]

/-- the gate the script clock would compute for the iteration an op causes -/
def scriptGate (s : Sys) (op : Op) (sc : Sched) : Bool :=
  match applyOp s op sc with
  | .ok (s1, some now) => decide (¬ now - s1.st.lastRun < (Facts.purgeIntervalSec : Int))
  | _ => true

/-- **refinement**: with the script-clock gate the loop machine IS the value-level machine of
    `Model.Limiter`, for every state, op and map order -/
theorem stepG_eq_step (s : Sys) (op : Op) (sc : Sched) :
    stepG s op (scriptGate s op sc) sc = step s op sc := by
  unfold stepG scriptGate
  rw [Props.C16.step_eq]
  cases ha : applyOp s op sc with
  | panic site => rfl
  | ok r =>
    obtain ⟨s1, w⟩ := r
    cases w with
    | none => rfl
    | some now =>
      simp only
      by_cases hg : now - s1.st.lastRun < (Facts.purgeIntervalSec : Int)
      · simp only [hg, not_true_eq_false, decide_false]
        unfold tailSys passSys
        rw [pass_closed_eq_tail _ _ _ _ hg]
      · simp only [hg, not_false_eq_true, decide_true]
        unfold tailSys passSys
        rw [tail_open_eq_pass _ _ _ _ hg]

/-- **refinement**: an op of the combined machine is its own effect on the directory, then one
    iteration of the goroutine's loop on the item it sends -/
theorem stepG_eq_loopStep (s : Sys) (op : Op) (gate : Bool) (sc : Sched) {s0 : Sys} {it : Item} {now : Int}
    (h : itemOf s op = some (s0, it, now)) :
    stepG s op gate sc = .ok (loopStep s0 it gate now sc) := by
  cases op with
  | fill n size t =>
    unfold itemOf at h
    by_cases hh : s.fs.files.has n = true
    · simp [hh] at h
    · simp only [hh, Bool.false_eq_true, ↓reduceIte, Option.some.injEq, Prod.mk.injEq] at h
      obtain ⟨h1, h2, h3⟩ := h
      subst h1; subst h2; subst h3
      unfold stepG applyOp
      simp only [hh, Bool.false_eq_true, ↓reduceIte]
      rfl
  | hit n t =>
    unfold itemOf at h
    cases hg : s.fs.files.get n with
    | none => simp [hg] at h
    | some size =>
      simp only [hg, Option.some.injEq, Prod.mk.injEq] at h
      obtain ⟨h1, h2, h3⟩ := h
      subst h1; subst h2; subst h3
      unfold stepG applyOp
      simp only [hg]
      rfl
  | flush t ml =>
    simp only [itemOf, Option.some.injEq, Prod.mk.injEq] at h
    obtain ⟨h1, h2, h3⟩ := h
    subst h1; subst h2; subst h3
    rfl
  | regrow n size => simp [itemOf] at h
  | delete n => simp [itemOf] at h
  | restart t => simp [itemOf] at h

/-- the ops that send nothing do not wake the goroutine -/
theorem stepG_no_item (s : Sys) (op : Op) (gate : Bool) (sc : Sched) (h : itemOf s op = none)
    {s1 : Sys} {w : Option Int} (ha : applyOp s op sc = .ok (s1, w)) :
    w = none ∧ stepG s op gate sc = .ok (s1, {}) := by
  have hw : w = none := by
    cases op with
    | fill n size t =>
      unfold itemOf at h
      by_cases hh : s.fs.files.has n = true
      · unfold applyOp at ha
        simp only [hh, ↓reduceIte, Res.ok.injEq, Prod.mk.injEq] at ha
        exact ha.2.symm
      · simp [hh] at h
    | hit n t =>
      unfold itemOf at h
      cases hg : s.fs.files.get n with
      | none =>
        unfold applyOp at ha
        simp only [hg, Res.ok.injEq, Prod.mk.injEq] at ha
        exact ha.2.symm
      | some size => simp [hg] at h
    | flush t ml => simp [itemOf] at h
    | regrow n size =>
      unfold applyOp at ha
      by_cases hh : s.fs.files.has n = true
      · simp only [hh, ↓reduceIte, Res.ok.injEq, Prod.mk.injEq] at ha; exact ha.2.symm
      · simp only [hh, Bool.false_eq_true, ↓reduceIte, Res.ok.injEq, Prod.mk.injEq] at ha; exact ha.2.symm
    | delete n =>
      unfold applyOp at ha
      simp only [Res.ok.injEq, Prod.mk.injEq] at ha; exact ha.2.symm
    | restart t =>
      simp only [applyOp] at ha
      cases hs : startUp s.st.max t s.fs with
      | panic site => simp [hs] at ha
      | ok st => simp only [hs, Res.ok.injEq, Prod.mk.injEq] at ha; exact ha.2.symm
  subst hw
  refine ⟨rfl, ?_⟩
  unfold stepG
  rw [ha]

/-! ### the pass does not read `lastRun` -/

theorem subtractWith_lastRun (st : LState) (x : Int) (l : List Name) :
    subtractWith { st with lastRun := x } l = { subtractWith st l with lastRun := x } := by
  induction l generalizing st with
  | nil => rfl
  | cons n t ih =>
    simp only [subtractWith]
    exact ih { st with sizeBytes := st.sizeBytes - kbBytes (kbWithA st n), withA := st.withA.del n }

theorem subtractWithout_lastRun (st : LState) (x : Int) (l : List Name) :
    subtractWithout { st with lastRun := x } l = { subtractWithout st l with lastRun := x } := by
  induction l generalizing st with
  | nil => rfl
  | cons n t ih =>
    simp only [subtractWithout]
    exact ih { st with sizeBytes := st.sizeBytes - kbBytes (kbWithout st n), without := st.without.del n }

theorem passOpen_lastRun (st : LState) (x : Int) (fs : FS) (now : Int) (h : Hints) :
    passOpen { st with lastRun := x } fs now h = passOpen st fs now h := by
  unfold passOpen
  have hsel : passSel { st with lastRun := x } h = passSel st h := rfl
  rw [hsel]
  by_cases he : (passSel st h).withA.length = 0 ∧ (passSel st h).without.length = 0
  · simp only [he, and_self, ↓reduceIte]
  · simp only [he, ↓reduceIte]
    rw [subtractWith_lastRun, subtractWithout_lastRun]

/-- the open loop tail is the value-level pass run on the same state with `lastRun` far enough back -/
theorem tailSys_open_eq_passSys (s : Sys) (now : Int) (sc : Sched) :
    tailSys s true now sc =
      passSys { st := { s.st with lastRun := now - (Facts.purgeIntervalSec : Int) }, fs := s.fs } now (fun _ => sc s.st) := by
  unfold tailSys passSys
  have hg : ¬ now - (now - (Facts.purgeIntervalSec : Int)) < (Facts.purgeIntervalSec : Int) := by omega
  rw [← tail_open_eq_pass _ _ _ _ hg]
  unfold tail
  simp only [↓reduceIte]
  have := passOpen_lastRun s.st (now - (Facts.purgeIntervalSec : Int)) s.fs now (sc s.st)
  rw [this]

/-! ### (b) the invariant along the loop, (c) what an open gate achieves -/

/-- one loop tail, gate open or closed: the accounting invariant is kept, and what an observer of
    the directory sees satisfies the oracle -/
theorem tailSys_ok {s : Sys} (hi : Inv s) (gate : Bool) (now : Int) (sc : Sched)
    (hv : validHints s.st (sc s.st) = true) :
    Inv (tailSys s gate now sc).1 ∧ ∀ p, obsPass s (tailSys s gate now sc) = some p → passOk p = true := by
  cases gate with
  | false =>
    refine ⟨hi, ?_⟩
    intro p hp
    simp [obsPass, tailSys, tail] at hp
  | true =>
    rw [tailSys_open_eq_passSys]
    have hi' := hi.setLastRun (now - (Facts.purgeIntervalSec : Int))
    have hv' : validHints ({ s.st with lastRun := now - (Facts.purgeIntervalSec : Int) }) ((fun _ => sc s.st) { s.st with lastRun := now - (Facts.purgeIntervalSec : Int) }) = true := hv
    exact passSys_ok hi' now (fun _ => sc s.st) hv'

/-- the limiter log of a run of the loop machine -/
def runLogG : Sys → List (Op × Bool × Sched) → List Pass
  | _, [] => []
  | s, (op, gate, sc) :: t =>
    match applyOp s op sc with
    | .panic _ => []
    | .ok (s1, none) => runLogG s1 t
    | .ok (s1, some now) => (obsPass s1 (tailSys s1 gate now sc)).toList ++ runLogG (tailSys s1 gate now sc).1 t

/-- `H` along a run of the loop machine: no step in a class C16-a…f -/
def cleanRunG : Sys → List (Op × Bool × Sched) → Bool
  | _, [] => true
  | s, (op, gate, sc) :: t =>
    cleanStep s op && (match stepG s op gate sc with
      | .panic _ => true
      | .ok r => cleanRunG r.1 t)

def ValidSchedsG (ops : List (Op × Bool × Sched)) : Prop := ∀ x ∈ ops, Sched.Valid x.2.2

theorem stepG_eq (s : Sys) (op : Op) (gate : Bool) (sc : Sched) :
    stepG s op gate sc = match applyOp s op sc with
      | .panic site => .panic site
      | .ok (s1, none) => .ok (s1, {})
      | .ok (s1, some now) => .ok (tailSys s1 gate now sc) := rfl

/-- the invariant and the oracle along a clean run of the LOOP, for every sequence of gates -/
theorem runG_clean {s : Sys} (hi : Inv s) (ops : List (Op × Bool × Sched)) (hv : ValidSchedsG ops)
    (hc : cleanRunG s ops = true) :
    (∀ p ∈ runLogG s ops, passOk p = true) ∧ ∀ s', runG s ops = .ok s' → Inv s' := by
  induction ops generalizing s with
  | nil =>
    refine ⟨by simp [runLogG], ?_⟩
    intro s' h; simp only [runG, Res.ok.injEq] at h; rw [← h]; exact hi
  | cons x t ih =>
    obtain ⟨op, gate, sc⟩ := x
    simp only [cleanRunG, Bool.and_eq_true] at hc
    have hsc : Sched.Valid sc := hv (op, gate, sc) (by simp)
    have hvt : ValidSchedsG t := fun y hy => hv y (by simp [hy])
    simp only [runLogG, runG]
    rw [stepG_eq] at hc ⊢
    cases ha : applyOp s op sc with
    | panic site => simp
    | ok r =>
      obtain ⟨s1, w⟩ := r
      have hi1 := applyOp_inv hi op sc hc.1 ha
      cases w with
      | none =>
        simp only [ha] at hc ⊢
        exact ih hi1 hvt hc.2
      | some now =>
        simp only [ha] at hc ⊢
        obtain ⟨hi2, hok⟩ := tailSys_ok hi1 gate now sc (hsc s1.st)
        obtain ⟨ih1, ih2⟩ := ih hi2 hvt hc.2
        refine ⟨?_, ih2⟩
        intro p hp
        rcases List.mem_append.1 hp with h | h
        · exact hok p (by simpa using h)
        · exact ih1 p h

/-- **(b) loop_accounting_partial**: from every state satisfying the invariant, after EVERY sequence
    of ops of the loop machine with ANY gates (the real clock is not constrained) and every valid
    map order, no step in a class C16-a…f: the limiter's `sizeBytes` equals the accounted KiB of the
    two maps summed, and that equals the bytes stored. -/
theorem loop_accounting_partial {s : Sys} (hi : Inv s) (ops : List (Op × Bool × Sched)) (hv : ValidSchedsG ops)
    (hc : cleanRunG s ops = true) (s' : Sys) (hrun : runG s ops = .ok s') :
    s'.st.sizeBytes = total (acctA s'.st) s'.fs.files.keys + total (acctU s'.st) s'.fs.files.keys ∧
    s'.st.sizeBytes = stored s'.fs ∧
    (∀ n, s'.fs.files.get n = none → s'.st.withA.get n = none ∧ s'.st.without.get n = none) := by
  have h := (runG_clean hi ops hv hc).2 s' hrun
  exact ⟨h.sum, h.exact, h.absent⟩

/-- the same from a start-up of the goroutine (readFiles, readStorableAccessTimes) on a clean directory -/
theorem loop_accounting_from_start {fs0 : FS} (hd : CleanDir fs0) (max start : Int) (hmax : 0 ≤ max)
    (ops : List (Op × Bool × Sched)) (hv : ValidSchedsG ops) :
    ∃ st, startUp max start fs0 = .ok st ∧
      (cleanRunG { st := st, fs := fs0 } ops = true →
        ∀ s', runG { st := st, fs := fs0 } ops = .ok s' → s'.st.sizeBytes = stored s'.fs) := by
  obtain ⟨st, h1, h2⟩ := startUp_inv hd max start hmax
  exact ⟨st, h1, fun hc s' hr => (loop_accounting_partial h2 ops hv hc s' hr).2.1⟩

/-- **loop_holds_partial**: the oracle accepts the log of every clean run of the loop -/
theorem loop_holds_partial {s : Sys} (hi : Inv s) (ops : List (Op × Bool × Sched)) (hv : ValidSchedsG ops)
    (hc : cleanRunG s ops = true) : holds (runLogG s ops) = true := by
  unfold holds
  simp only [List.all_eq_true]
  exact (runG_clean hi ops hv hc).1

/-- **(c) open_gate_returns_partial**: under the invariant (i.e. outside C16-a…f so far), one
    iteration with the gate open leaves `sizeBytes` — and the bytes stored — within the limit, or
    has freed at least min(excess, maxPurgeBytes). -/
theorem open_gate_returns_partial {s : Sys} (hi : Inv s) (now : Int) (sc : Sched)
    (hv : validHints s.st (sc s.st) = true) :
    let r := tailSys s true now sc
    r.1.st.sizeBytes = stored r.1.fs ∧
    (r.1.st.sizeBytes ≤ s.st.max ∨
      s.st.sizeBytes - r.1.st.sizeBytes ≥ min (s.st.sizeBytes - s.st.max) (Spec.maxPurgeBytes : Int)) := by
  intro r
  obtain ⟨hinv, hok⟩ := tailSys_ok hi true now sc hv
  refine ⟨hinv.exact, ?_⟩
  show (tailSys s true now sc).1.st.sizeBytes ≤ s.st.max ∨
    s.st.sizeBytes - (tailSys s true now sc).1.st.sizeBytes ≥ min (s.st.sizeBytes - s.st.max) (Spec.maxPurgeBytes : Int)
  by_cases hover : s.st.sizeBytes ≤ s.st.max
  · -- within the limit: the pass selects nothing
    left
    rw [tailSys_open_eq_passSys]
    have := (passSys_idle { st := { s.st with lastRun := now - (Facts.purgeIntervalSec : Int) }, fs := s.fs } now (fun _ => sc s.st) hover).2.1
    rw [this]; exact hover
  · have hran : (tailSys s true now sc).2.ran = true := by
      unfold tailSys tail passOpen
      simp only [↓reduceIte]
      split <;> rfl
    have hp := hok { max := s.st.max, before := stored s.fs, after := stored (tailSys s true now sc).1.fs,
                     removed := ((tailSys s true now sc).2.sel.without ++ (tailSys s true now sc).2.sel.withA).filter fun n => s.fs.files.has n }
      (by simp only [obsPass, hran, ↓reduceIte])
    unfold passOk progress at hp
    simp only [Bool.and_eq_true, Bool.or_eq_true, decide_eq_true_eq] at hp
    have e1 := hi.exact
    have e2 : (tailSys s true now sc).1.st.sizeBytes = stored (tailSys s true now sc).1.fs := hinv.exact
    rcases hp.2 with (h | h) | h
    · exfalso; rw [e1] at hover; exact hover h
    · left; rw [e2]; exact h
    · right; rw [e1, e2]; exact h

/-! ### non-vacuity -/
section Witnesses


/-- a clean history on the loop machine: every iteration with the gate open (period 1 ns) -/
def wOpen : List (Op × Bool × Sched) := wClean.map fun x => (x.1, true, x.2)
/-- the same with the gate open only at the first iteration of each storage's life (period 24 h) -/
def wOnce : List (Op × Bool × Sched) :=
  [(.fill n1 4096 (t0+1), true, c), (.fill n2 4096 (t0+2), false, c), (.fill n3 4096 (t0+8), false, c),
   (.hit n1 (t0+9), false, c), (.restart (t0+10), false, c), (.flush (t0+11) ml, true, c), (.fill n4 4096 (t0+12), false, c)]

theorem valid_wOpen : ValidSchedsG wOpen := by
  intro x hx
  simp only [wOpen, List.mem_map] at hx
  obtain ⟨y, hy, rfl⟩ := hx
  exact valid_withC _ y hy

example : cleanRunG { st := newState 8192 t0, fs := emptyFS } wOpen = true := by decide
example : (runLogG { st := newState 8192 t0, fs := emptyFS } wOpen).map (fun p => (p.before, p.after, p.removed.length))
    = [(4096, 4096, 0), (8192, 8192, 0), (8192, 8192, 0), (12288, 8192, 1), (1056768, 0, 3), (4096, 4096, 0), (4096, 4096, 0)] := by decide
example : cleanRunG { st := newState 8192 t0, fs := emptyFS } wOnce = true := by decide
/-- with the gate closed the directory stays over the limit (12 KiB on an 8 KiB cache) until the next
    storage's first iteration: the loop theorems hold for this run as well -/
example : (runLogG { st := newState 8192 t0, fs := emptyFS } wOnce).map (fun p => (p.before, p.after, p.removed.length))
    = [(4096, 4096, 0), (12288, 8192, 1)] := by decide
example : (itemOf { st := newState 8192 t0, fs := emptyFS } (.fill n1 4096 (t0+1))).map (fun x => (x.2.1, x.2.2)) =
    some (.add n1 { atime := 1, kb := 4 }, t0+1) := by decide
/-- a state over its limit: the open iteration of (c) does evict -/
example : (tailSys { st := stOver, fs := { files := (KMap.empty.set n1 4096).set n2 4096 } } true (t0+3) c).2.sel.withA = [n1] := by decide

end Witnesses

end Props.C16Loop
