import RrModel.SysCacheRH
/-
  Theorems about `Model.SysCacheRH` (the cached request path for a rule with `response_headers`).

  1. Refinement: with no response headers the wrapper IS `Model.SysCache` (`stepOnceRH_nil`, `cachingFuncRH_nil`,
     `runRH_nil`): every theorem about the base model (Props.C07Sys, C08Sys, C10Sys, SysCacheTerm) speaks about this
     model at `rh = []`, and stream `syscrh` ties both to the code.
  2. C05 for rule headers that forbid storing (finding C05-e, repaired): `rule_forbids_passes_body` — whatever the disk,
     the clock, the writer and the origin's answer, a writer row under such a rule never goes through the storage writer:
     the client is handed the origin's status and EVERY byte the origin's body reader hands out, and the disk is left
     exactly as it was.
  3. The defect as it was: `Ex.prefix_drops_body` — the row WITHOUT the repair's branch (`Model.SysCache.afterAnswer`
     handed the same alwaysInclude map) sends a `200` whose header promises ten bytes and whose body is empty.
-/
namespace Props.SysCacheRH
open Go Model Model.SysCache Model.SysCacheRH

theorem applyRH_nil (ai : Header) : applyRH [] ai = ai := rfl

theorem ruleForbids_nil : ruleForbids [] = false := by decide

theorem afterAnswerRH_nil (cfg : Config) (now : Int) (keys : List Key) (rr : Option Range.ReqRange) (d : Disk)
    (ai : Header) (cs : List Contact) (reval : Option (Key × Stored × Int)) (w : Writer)
    (sg : Conditional.Surgery) (resp : Resp) :
    afterAnswerRH cfg [] now keys rr d ai cs reval w sg resp = afterAnswer cfg now keys rr d ai cs reval w sg resp := by
  unfold afterAnswerRH
  split
  · rfl
  · simp only [ruleForbids_nil, Bool.false_eq_true, and_false, ↓reduceIte, ite_self]

theorem writerRowRH_nil (cfg : Config) (origin : Bytes → Option Origin) (now : Int) (req : Request)
    (keys : List Key) (rr : Option Range.ReqRange) (d : Disk) (client ai : Header) (cs : List Contact)
    (reval : Option (Key × Stored × Int)) :
    writerRowRH cfg [] origin now req keys rr d client ai cs reval = writerRow cfg origin now req keys rr d client ai cs reval := by
  unfold writerRowRH writerRow
  simp only [afterAnswerRH_nil]
  split <;> split <;> simp_all

/-- with no response headers on the rule, one activation of the wrapper is one activation of the base model -/
theorem stepOnceRH_nil (cfg : Config) (origin : Bytes → Option Origin) (now : Int) (req : Request)
    (d : Disk) (client ai : Header) (skip : Bool) (cs : List Contact) :
    stepOnceRH cfg [] origin now req d client ai skip cs = stepOnce cfg origin now req d client ai skip cs := by
  unfold stepOnceRH stepOnce
  simp only [applyRH_nil, writerRowRH_nil]
  split
  · split <;> split <;> simp_all
  · split <;> split <;> simp_all

theorem cachingFuncRH_nil (cfg : Config) (origin : Bytes → Option Origin) (now : Int) (req : Request) (fuel : Nat) :
    ∀ (d : Disk) (client ai : Header) (skip : Bool) (cs : List Contact),
      cachingFuncRH cfg [] origin now req fuel d client ai skip cs = cachingFunc cfg origin now req fuel d client ai skip cs := by
  induction fuel with
  | zero => intros; rfl
  | succ n ih =>
    intro d client ai skip cs
    unfold cachingFuncRH cachingFunc
    rw [stepOnceRH_nil]
    generalize stepOnce cfg origin now req d client ai skip cs = st
    cases st <;> simp only [ih, lockedReentryRH]

theorem stepRH_nil (cfg : Config) (s : State) (op : Op) : stepRH cfg [] s op = step cfg s op := by
  cases op <;> simp only [stepRH, step, cachingFuncRH_nil]

/-- … and so is every history -/
theorem runRH_nil (cfg : Config) (ops : List Op) : ∀ s : State, runRH cfg [] s ops = run cfg s ops := by
  induction ops with
  | nil => intro s; rfl
  | cons op ops ih =>
    intro s
    unfold runRH run
    rw [stepRH_nil]
    generalize step cfg s op = r
    obtain ⟨s', o⟩ := r
    cases o <;> simp only [ih]

/-! ### C05 under a rule whose response headers forbid storing -/

/-- the writes of the plain stack are everything the origin's body reader handed out (one `ReadFrom`) -/
def passesBody (resp : Resp) (o : HandlerOut) (statusOverride : Option Nat) : Prop :=
  o.wrote = true ∧ o.hang = false ∧ o.status = statusOverride.getD resp.status ∧
    (o.status ≠ 304 → o.writes = plainBody resp)

theorem plainOut_passesBody (cfg : Config) (resp : Resp) (ai : Header) (so : Option Nat) :
    passesBody resp (plainOut cfg resp ai so) so := by
  unfold plainOut passesBody
  simp only
  by_cases h : so.getD resp.status = 304
  · simp [h]
  · simp [h]

/-- FULL STATEMENT (C05, rule headers forbidding storage): for every configuration, clock, key list, disk, alwaysInclude
    map, contact log, writer (fresh or revalidating, disk writes on or off), header surgery and origin answer — unless the
    answer is the 304 that confirms a stored entry (that row re-enters and serves the stored entry) or a Range request is
    answered 416 — the writer row ends the request at once, leaves the disk untouched, and hands the client the status and
    all the bytes of the origin's answer. -/
def RuleForbidsStatement : Prop :=
  ∀ (cfg : Config) (rh : List (Bytes × Bytes)) (now : Int) (keys : List Key) (rr : Option Range.ReqRange) (d : Disk)
    (ai : Header) (cs : List Contact) (reval : Option (Key × Stored × Int)) (w : Writer) (sg : Conditional.Surgery) (resp : Resp),
    ruleForbids rh = true →
    ¬ (sg.used.length > 0 ∧ resp.status = 304 ∧ (getCacheControlDirectives resp.header).doNotCache = false) →
    (rangeAdjust rr resp ai).1 = none →
    ∃ a, afterAnswerRH cfg rh now keys rr d ai cs reval w sg resp = .done a ∧ a.disk = d ∧ a.contacts = cs ∧
      passesBody resp a.out (rangeAdjust rr resp ai).2.1

theorem rule_forbids_passes_body : RuleForbidsStatement := by
  intro cfg rh now keys rr d ai cs reval w sg resp hrule hno304 hra
  unfold afterAnswerRH
  generalize hadj : rangeAdjust rr resp ai = adj at hra ⊢
  obtain ⟨e, so, ai'⟩ := adj
  simp only at hra
  subst hra
  simp only
  have h304 : ¬ (sg.used.length > 0 ∧ resp.status = 304 ∧ (!(getCacheControlDirectives resp.header).doNotCache) = true) := by
    intro h; apply hno304; refine ⟨h.1, h.2.1, ?_⟩; simpa using h.2.2
  rw [if_neg h304]
  by_cases hd : (getCacheControlDirectives resp.header).doNotCache = true
  · -- the origin itself forbids storing: the base model's `w:uncacheable` row
    have : ¬ ((!(getCacheControlDirectives resp.header).doNotCache) = true ∧ ruleForbids rh = true) := by simp [hd]
    rw [if_neg this]
    unfold afterAnswer
    rw [hadj]
    simp only
    rw [if_neg h304, if_pos hd]
    exact ⟨_, rfl, rfl, rfl, plainOut_passesBody _ _ _ _⟩
  · have : (!(getCacheControlDirectives resp.header).doNotCache) = true ∧ ruleForbids rh = true := by
      refine ⟨?_, hrule⟩; simpa using hd
    rw [if_pos this]
    exact ⟨_, rfl, rfl, rfl, plainOut_passesBody _ _ _ _⟩

namespace Ex
/-- non-vacuity, and the defect as it was: rule header `Cache-Control: no-store`, a cacheable `200` with ten bytes -/
def rh : List (Bytes × Bytes) := [(b!"Cache-Control", b!"no-store")]
def resp : Resp := { status := 200, header := [(b!"Cache-Control", [b!"max-age=60"]), (b!"Content-Length", [b!"10"])], contentLength := 10, body := b!"hello-body" }
def key : Key := ⟨[], b!"h1.test", b!"/x", false, []⟩
def w : Writer := { key := key, path := keyString key, revalidating := false }
def sg : Conditional.Surgery := Conditional.surgery .notFound false [] []
def ai : Header := applyRH rh []

example : ruleForbids rh = true := by decide
example : ¬ (sg.used.length > 0 ∧ resp.status = 304 ∧ (getCacheControlDirectives resp.header).doNotCache = false) := by decide
example : (rangeAdjust none resp ai).1 = none := by decide

/-- with the repair: the whole body goes out, nothing is stored -/
theorem repaired_passes_body :
    ∃ a, afterAnswerRH {} rh 0 [key] none Disk.empty ai [] none w sg resp = .done a ∧ a.out.writes = [b!"hello-body"] ∧
      a.out.status = 200 ∧ a.label = "w:uncacheable-rule" := by
  refine ⟨_, rfl, ?_, ?_, ?_⟩ <;> decide

/-- WITHOUT the repair's branch (the base row, handed the same alwaysInclude map): a `200` whose header says
    `Content-Length: 10` and whose body is empty — the storage writer was `invalidated` by the rule's header, dropped every
    write, and `WrittenFile` had nothing to send (finding C05-e) -/
theorem prefix_drops_body :
    ∃ a, afterAnswer {} 0 [key] none Disk.empty ai [] none w sg resp = .done a ∧ a.out.writes = [] ∧ a.out.status = 200 ∧
      a.out.header.get b!"Content-Length" = b!"10" ∧ a.label = "w:invalidated" := by
  refine ⟨_, rfl, ?_, ?_, ?_, ?_⟩ <;> decide
end Ex

end Props.SysCacheRH
