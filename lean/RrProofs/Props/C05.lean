import RrModel.Exec
import RrModel.Spec.Sys
import RrModel.Spec.Tables
/-
  C05 — Every request gets one complete, well-formed response mirroring the origin: the clauses
  that live on the executor model (rules without a cache; slice S1).  The cached writer stacks are
  covered by the range / conditional / codec slices and by the history oracles of stream `sysc`.
-/
namespace Props.C05
open Go Model Spec.Sys

/-- **mirror_plain.** On a rule without cache, an origin answer whose body arrives completely is
    handed on with its status and its full body (none for HEAD), well framed. -/
theorem mirror_plain (method : Bytes) (e : OriginEntry) (h : e.readErrAt = none) :
    passView method e =
      { status := e.status, framing := "complete", body := .inl (if method = b!"HEAD" then [] else e.body) } := by
  unfold passView
  by_cases hm : method = b!"HEAD"
  · simp [hm]
  · simp [hm, h]

/-- a body that breaks off is never re-framed as complete when the origin declared its length -/
theorem broken_body_is_cut_short (method : Bytes) (e : OriginEntry) (n : Nat)
    (hm : method ≠ b!"HEAD") (h : e.readErrAt = some n) (hn : n < e.body.length) (hc : e.chunked = false) :
    (passView method e).framing = "cutshort" := by
  unfold passView
  simp [hm, h, hn, hc]

/-- what one pass can decide by itself -/
def selfCodes : List Nat := [404, 407, 502]

theorem buildErrRes_cases (e : BuildErr) :
    (∃ msg, buildErrRes e = .userError 407 msg) ∨ buildErrRes e = .panicked ∨ buildErrRes e = .plainError := by
  cases e <;> simp [buildErrRes]

theorem mainStage_done (cfg : ExecCfg) (m : Bytes) (hr : Bool) (mh : Option (Option Bytes)) (idx : Option Nat)
    (src : BodySrc) (st : ExecState) (r : RouteRes) (h : (mainStage cfg m hr mh idx src st).2 = .done r) :
    ∃ msg, r = .userError 404 msg := by
  unfold mainStage at h
  split at h
  · split at h <;> simp at h
  · simp only [Stage.done.injEq] at h
    exact ⟨_, h.symm⟩

/-- the two performs decide nothing but the 404 by themselves -/
theorem performBoth_done (cfg : ExecCfg) (m : Bytes) (hr : Bool)
    (main : Option (Rule × Bytes × Option Nat)) (copy : Option (Rule × Bytes)) (st : ExecState) (r : RouteRes)
    (h : (performBoth cfg m hr main copy st).2 = .done r) : ∃ msg, r = .userError 404 msg := by
  unfold performBoth at h
  simp only at h
  split at h <;> exact mainStage_done _ _ _ _ _ _ _ _ h

/-- one pass: whatever it decides without a main response is the 404, a 407, a plain error or the
    `secrets[0]` panic — nothing else; a 407 / plain error can only come from building the MAIN
    request (a copy request that cannot be built is dropped) -/
theorem routeOnce_done (cfg : ExecCfg) (m : Bytes) (hr : Bool)
    (main : Option (Rule × Bytes × Option Nat)) (copy : Option (Rule × Bytes)) (st : ExecState) (r : RouteRes)
    (h : (routeOnce cfg m hr main copy st).2 = .done r) :
    (∃ c msg, r = .userError c msg ∧ c ∈ selfCodes) ∨ r = .plainError ∨ r = .panicked := by
  unfold routeOnce at h
  simp only at h
  split at h
  · simp only [Stage.done.injEq] at h; exact Or.inr (Or.inl h.symm)
  · split at h
    · simp only [Stage.done.injEq] at h
      rename_i e _
      rcases buildErrRes_cases e with ⟨msg, he⟩ | he | he
      · exact Or.inl ⟨407, msg, by rw [← h, he], by simp [selfCodes]⟩
      · exact Or.inr (Or.inr (by rw [← h, he]))
      · exact Or.inr (Or.inl (by rw [← h, he]))
    · split at h
      · simp only [Stage.done.injEq] at h; exact Or.inr (Or.inr h.symm)
      · obtain ⟨msg, hm⟩ := performBoth_done _ _ _ _ _ _ _ h
        exact Or.inl ⟨404, msg, hm, by simp [selfCodes]⟩

/-- the 407 of a pass is the MAIN request's: when the main request can be built (or there is
    none) a pass decides only the 404, the plain error of an unparsable target, or the panic -/
theorem routeOnce_done_main_builds (cfg : ExecCfg) (m : Bytes) (hr : Bool)
    (main : Option (Rule × Bytes × Option Nat)) (copy : Option (Rule × Bytes)) (st : ExecState) (r : RouteRes)
    (hb : (main.bind fun x => cfg.build x.1.internal) = none)
    (h : (routeOnce cfg m hr main copy st).2 = .done r) :
    (∃ msg, r = .userError 404 msg) ∨ r = .plainError ∨ r = .panicked := by
  unfold routeOnce at h
  simp only [hb] at h
  split at h
  · simp only [Stage.done.injEq] at h; exact Or.inr (Or.inl h.symm)
  · split at h
    · simp only [Stage.done.injEq] at h; exact Or.inr (Or.inr h.symm)
    · exact Or.inl (performBoth_done _ _ _ _ _ _ _ h)

/-- **one response, of a known kind.** For every rule pair, retry chain, fault script: the routing
    half ends in exactly one of: the answer of a scripted origin; a user error 404 / 407 / 502;
    a plain error (bare 500); the `secrets[0]` panic (finding class C05-b / configuration). -/
theorem route_outcome (cfg : ExecCfg) (q : Query) (m : Bytes) (chain : List Rule)
    (main : Option (Rule × Bytes × Option Nat)) (copy : Option (Rule × Bytes)) (st : ExecState) :
    (∃ e idx, (routeRequest cfg q m chain main copy st).2 = .response e idx) ∨
    (∃ c msg, (routeRequest cfg q m chain main copy st).2 = .userError c msg ∧ c ∈ selfCodes) ∨
    (routeRequest cfg q m chain main copy st).2 = .plainError ∨
    (routeRequest cfg q m chain main copy st).2 = .panicked := by
  induction chain generalizing main copy st with
  | nil =>
    unfold routeRequest
    cases hro : routeOnce cfg m false main copy st with
    | mk st' stage =>
      cases stage with
      | done r =>
        have := routeOnce_done cfg m false main copy st r (by rw [hro])
        rcases this with ⟨c, msg, hr, hc⟩ | hr | hr
        · exact Or.inr (Or.inl ⟨c, msg, by simp [hr], hc⟩)
        · exact Or.inr (Or.inr (Or.inl (by simp [hr])))
        · exact Or.inr (Or.inr (Or.inr (by simp [hr])))
      | answered e idx =>
        simp only
        split
        · exact Or.inr (Or.inr (Or.inl rfl))
        · exact Or.inl ⟨e, idx, rfl⟩
      | unreachable => exact Or.inr (Or.inl ⟨502, _, rfl, by simp [selfCodes]⟩)
  | cons rr rest ih =>
    unfold routeRequest
    cases hro : routeOnce cfg m true main copy st with
    | mk st' stage =>
      cases stage with
      | done r =>
        have := routeOnce_done cfg m true main copy st r (by rw [hro])
        rcases this with ⟨c, msg, hr, hc⟩ | hr | hr
        · exact Or.inr (Or.inl ⟨c, msg, by simp [hr], hc⟩)
        · exact Or.inr (Or.inr (Or.inl (by simp [hr])))
        · exact Or.inr (Or.inr (Or.inr (by simp [hr])))
      | answered e idx =>
        simp only
        split
        · exact Or.inr (Or.inr (Or.inl rfl))
        · split
          · exact ih _ _ _
          · exact Or.inl ⟨e, idx, rfl⟩
      | unreachable => exact ih _ _ _

/-- **self_errors_wellformed.** Whatever rrrouter answers by itself on this path is an error
    status (≥ 400) from the pinned list of user-error codes, or the bare 500 — never a success. -/
theorem self_errors_wellformed (r : RouteRes)
    (hr : (∃ c msg, r = .userError c msg ∧ c ∈ selfCodes) ∨ r = .plainError) :
    (errorView r).status ≥ 400 ∧ ((errorView r).status ∈ Spec.userErrorCodes ∨ (errorView r).status = 500) := by
  rcases hr with ⟨c, msg, rfl, hc⟩ | rfl
  · simp only [selfCodes, List.mem_cons, List.not_mem_nil, or_false] at hc
    rcases hc with rfl | rfl | rfl <;> simp [errorView, Spec.userErrorCodes]
  · simp [errorView]

/-- the codes the executor can produce are among the pinned `CreateError` codes -/
theorem selfCodes_pinned : ∀ c ∈ selfCodes, c ∈ Spec.userErrorCodes := by decide

/-! Non-vacuity -/
example : (passView b!"GET" { host := b!"d", status := 201, headers := [], body := b!"created", chunked := true, connectErrors := 0, readErrAt := none }).status = 201 := by decide
example : (errorView (.userError 404 b!"No destination found for request target")).status = 404 := rfl

end Props.C05
