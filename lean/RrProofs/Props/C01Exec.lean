import RrModel.Exec
/-
  C01 — the system clause on the executor model: if no proxy rule matches, the client gets 404
  and no destination receives a proxied request (a matching copy rule is still sent its copy —
  README rule 4 — and only that).
-/
namespace Props.C01Exec
open Go Model

/-- contacts only ever go to the host a `performRequest` was asked to contact -/
def OnlyHosts (hosts : List Bytes) (st : ExecState) : Prop := ∀ c ∈ st.contacts, c.host ∈ hosts

theorem doOnce_hosts (script : List OriginEntry) (st : ExecState) (host m b : Bytes) (hosts : List Bytes)
    (hh : host ∈ hosts) (h : OnlyHosts hosts st) : OnlyHosts hosts (doOnce script st host m b).1 := by
  unfold doOnce
  cases hf : script.find? (·.host = host) with
  | none =>
    intro c hc
    simp only [bumpFail, List.mem_append, List.mem_singleton] at hc
    rcases hc with hc | hc
    · exact h c hc
    · subst hc; exact hh
  | some e =>
    by_cases hlt : failCount st host < e.connectErrors
    · simp only [hlt, ↓reduceIte]
      intro c hc
      simp only [bumpFail, List.mem_append, List.mem_singleton] at hc
      rcases hc with hc | hc
      · exact h c hc
      · subst hc; exact hh
    · simp only [hlt, ↓reduceIte]
      intro c hc
      simp only [List.mem_append, List.mem_singleton] at hc
      rcases hc with hc | hc
      · exact h c hc
      · subst hc; exact hh

theorem attemptLoop_hosts (script : List OriginEntry) (host m b : Bytes) (hosts : List Bytes) (hh : host ∈ hosts)
    (n : Nat) (st : ExecState) (h : OnlyHosts hosts st) :
    OnlyHosts hosts (attemptLoop script host m b n st).1 := by
  induction n generalizing st with
  | zero => exact h
  | succ n ih =>
    unfold attemptLoop
    have h1 := doOnce_hosts script st host m b hosts hh h
    cases hd : doOnce script st host m b with
    | mk st' r =>
      rw [hd] at h1
      cases r with
      | some e => exact h1
      | none => exact ih st' h1

theorem performRequest_hosts (script : List OriginEntry) (retries : Nat) (excl : Bytes)
    (st : ExecState) (host m : Bytes) (src : BodySrc) (ra : Bool) (hosts : List Bytes)
    (hh : host ∈ hosts) (h : OnlyHosts hosts st) :
    OnlyHosts hosts (performRequest script retries excl st host m src ra).1 := by
  unfold performRequest
  by_cases hc : m ≠ excl ∧ ra = true
  · rw [if_pos hc]
    cases src with
    | buffered d => exact attemptLoop_hosts script host m d hosts hh _ st h
    | client => exact attemptLoop_hosts script host m _ hosts hh _ _ (fun c hc' => h c hc')
  · rw [if_neg hc]
    cases src with
    | buffered d => exact doOnce_hosts script st host m d hosts hh h
    | client => exact doOnce_hosts script _ host m _ hosts hh (fun c hc' => h c hc')

/-- the host the copy (if any) is sent to -/
def copyHosts (copy : Option (Rule × Bytes)) : List Bytes :=
  match copy.map fun x => destHost x.2 with
  | some (some h) => [h]
  | _ => []

/-- **no_match_404.** With no proxy match, one pass ends without a main response, its verdict is
    the 404 of proxy.go:262-265 unless building/parsing the COPY request already failed, and the
    only destination contacted is the copy rule's — for every copy behaviour and fault script. -/
theorem routeOnce_no_proxy (cfg : ExecCfg) (m : Bytes) (hasRetry : Bool) (copy : Option (Rule × Bytes))
    (st : ExecState) (h0 : OnlyHosts (copyHosts copy) st) :
    OnlyHosts (copyHosts copy) (routeOnce cfg m hasRetry none copy st).1 ∧
    (((routeOnce cfg m hasRetry none copy st).2 matches .done (.userError 404 _)) ∨
     ((routeOnce cfg m hasRetry none copy st).2 matches .done .plainError) ∨
     (∃ e, (copy.bind fun x => cfg.build x.1.internal) = some e ∧
        (routeOnce cfg m hasRetry none copy st).2 matches .done _)) := by
  unfold routeOnce
  simp only [Option.map_none, Option.bind_none, Option.isSome_none, Bool.false_and, Bool.false_or]
  split
  · exact ⟨h0, Or.inr (Or.inl rfl)⟩
  · cases hb : (copy.bind fun x => cfg.build x.1.internal) with
    | some e => exact ⟨h0, Or.inr (Or.inr ⟨e, rfl, rfl⟩)⟩
    | none =>
      simp only
      have hcs : ∀ src st', OnlyHosts (copyHosts copy) st' →
          OnlyHosts (copyHosts copy) (copyStage cfg m hasRetry (copy.map fun x => destHost x.2) src st') := by
        intro src st' hst
        unfold copyStage
        split
        · rename_i h heq
          exact performRequest_hosts _ _ _ _ _ _ _ _ _ (by simp [copyHosts, heq]) hst
        · exact hst
      split
      · exact ⟨by simp only [mainStage]; exact hcs _ _ (fun c hc => h0 c hc), Or.inl rfl⟩
      · exact ⟨by simp only [mainStage]; exact hcs _ _ h0, Or.inl rfl⟩

/-- lifted to `routeRequest`: the client-visible result and the contacts, for every retry chain -/
theorem no_match_404 (cfg : ExecCfg) (q : Query) (m : Bytes) (chain : List Rule) (copy : Option (Rule × Bytes))
    (b : Bytes) (hbuild : (copy.bind fun x => cfg.build x.1.internal) = none)
    (hparse : (copy.map fun x => destHost x.2) ≠ some none) :
    (∃ msg, (routeRequest cfg q m chain none copy { remaining := b }).2 = .userError 404 msg) ∧
    OnlyHosts (copyHosts copy) (routeRequest cfg q m chain none copy { remaining := b }).1 := by
  have h0 : OnlyHosts (copyHosts copy) ({ remaining := b } : ExecState) := by intro c hc; simp at hc
  have key : ∀ hr, OnlyHosts (copyHosts copy) (routeOnce cfg m hr none copy { remaining := b }).1 ∧
      ∃ msg, (routeOnce cfg m hr none copy { remaining := b }).2 = .done (.userError 404 msg) := by
    intro hr
    refine ⟨(routeOnce_no_proxy cfg m hr copy _ h0).1, ?_⟩
    unfold routeOnce
    simp only [Option.map_none, Option.bind_none, Option.isSome_none, Bool.false_and, Bool.false_or]
    have : ¬ (False ∨ (copy.map fun x => destHost x.2) = some none) := by simp [hparse]
    simp only [reduceCtorEq, false_or] at this ⊢
    rw [if_neg this, hbuild]
    simp only [mainStage]
    split <;> exact ⟨_, rfl⟩
  cases chain with
  | nil =>
    obtain ⟨hh, msg, hd⟩ := key false
    unfold routeRequest
    cases hro : routeOnce cfg m false none copy { remaining := b } with
    | mk st' stage =>
      rw [hro] at hh hd
      simp only at hd
      subst hd
      exact ⟨⟨msg, rfl⟩, hh⟩
  | cons rr rest =>
    obtain ⟨hh, msg, hd⟩ := key true
    unfold routeRequest
    cases hro : routeOnce cfg m true none copy { remaining := b } with
    | mk st' stage =>
      rw [hro] at hh hd
      simp only at hd
      subst hd
      exact ⟨⟨msg, rfl⟩, hh⟩

/-! Non-vacuity: a copy rule matches, no proxy rule does: the copy is sent, the client gets 404 -/
example : (routeRequest { script := [ { host := b!"c0.test", status := 200, headers := [], body := b!"x", chunked := false, connectErrors := 0, readErrAt := none } ],
                          retries := 0, excluded := b!"POST", build := fun _ => none, is4xx := fun _ => false,
                          isRedirect := fun _ => false, locationOk := fun _ => true }
            ⟨b!"http", b!"h", b!"/m/a", b!"GET"⟩ b!"GET" [] none
            (some ({ path := b!"/m/*", wci := some 3, dest := b!"http://c0.test/$1", type := .copy }, b!"http://c0.test/a")) { remaining := [] }).1.contacts
    = [⟨b!"c0.test", b!"GET", false, []⟩] := by decide

end Props.C01Exec
