import RrModel.Exec
/-
  C01 — the system clause on the executor model: if no proxy rule matches, the client gets 404
  and no destination receives a proxied request (a matching copy rule is still sent its copy —
  README rule 4 — and only that).
-/
namespace Props.C01Exec
open Go Model

/-- contacts only ever go to the host a `performRequest` was asked to contact -/
def OnlyHosts (hosts : List Bytes) (st : ExecState) : Prop := ∀ c ∈ st.contacts, c.host ∈ hosts

theorem doOnce_hosts (script : List OriginEntry) (st : ExecState) (host m b : Bytes) (hosts : List Bytes)
    (hh : host ∈ hosts) (h : OnlyHosts hosts st) : OnlyHosts hosts (doOnce script st host m b).1 := by
  unfold doOnce
  cases hf : script.find? (·.host = host) with
  | none =>
    intro c hc
    simp only [bumpFail, List.mem_append, List.mem_singleton] at hc
    rcases hc with hc | hc
    · exact h c hc
    · subst hc; exact hh
  | some e =>
    by_cases hlt : failCount st host < e.connectErrors
    · simp only [hlt, ↓reduceIte]
      intro c hc
      simp only [bumpFail, List.mem_append, List.mem_singleton] at hc
      rcases hc with hc | hc
      · exact h c hc
      · subst hc; exact hh
    · simp only [hlt, ↓reduceIte]
      intro c hc
      simp only [List.mem_append, List.mem_singleton] at hc
      rcases hc with hc | hc
      · exact h c hc
      · subst hc; exact hh

theorem attemptLoop_hosts (script : List OriginEntry) (host m b : Bytes) (hosts : List Bytes) (hh : host ∈ hosts)
    (n : Nat) (st : ExecState) (h : OnlyHosts hosts st) :
    OnlyHosts hosts (attemptLoop script host m b n st).1 := by
  induction n generalizing st with
  | zero => exact h
  | succ n ih =>
    unfold attemptLoop
    have h1 := doOnce_hosts script st host m b hosts hh h
    cases hd : doOnce script st host m b with
    | mk st' r =>
      rw [hd] at h1
      cases r with
      | some e => exact h1
      | none => exact ih st' h1

theorem performRequest_hosts (script : List OriginEntry) (retries : Nat) (excl : Bytes)
    (st : ExecState) (host m : Bytes) (src : BodySrc) (ra : Bool) (hosts : List Bytes)
    (hh : host ∈ hosts) (h : OnlyHosts hosts st) :
    OnlyHosts hosts (performRequest script retries excl st host m src ra).1 := by
  unfold performRequest
  by_cases hc : m ≠ excl ∧ ra = true
  · rw [if_pos hc]
    cases src with
    | buffered d => exact attemptLoop_hosts script host m d hosts hh _ st h
    | client => exact attemptLoop_hosts script host m _ hosts hh _ _ (fun c hc' => h c hc')
  · rw [if_neg hc]
    cases src with
    | buffered d => exact doOnce_hosts script st host m d hosts hh h
    | client => exact doOnce_hosts script _ host m _ hosts hh (fun c hc' => h c hc')

/-- the host the copy (if any) is sent to -/
def copyHosts (copy : Option (Rule × Bytes)) : List Bytes :=
  match copy.map fun x => destHost x.2 with
  | some (some h) => [h]
  | _ => []

/-- a copy request that was dropped contacts nobody; one that was built goes to the copy rule's host -/
theorem copyHosts_builtCopy (cfg : ExecCfg) (copy : Option (Rule × Bytes)) :
    ∀ h ∈ copyHosts (builtCopy cfg copy), h ∈ copyHosts copy := by
  intro h hh
  cases copy with
  | none => exact hh
  | some x =>
    by_cases hb : (cfg.build x.1.internal).isSome = true
    · simp [builtCopy, hb, copyHosts] at hh
    · simpa [builtCopy, hb] using hh

/-- the two performs without a main request: 404, and only the copy's host is contacted -/
theorem performBoth_no_proxy (cfg : ExecCfg) (m : Bytes) (hasRetry : Bool) (copy : Option (Rule × Bytes))
    (hosts : List Bytes) (hsub : ∀ h ∈ copyHosts copy, h ∈ hosts)
    (st : ExecState) (h0 : OnlyHosts hosts st) :
    OnlyHosts hosts (performBoth cfg m hasRetry none copy st).1 ∧
    ∃ msg, (performBoth cfg m hasRetry none copy st).2 = .done (.userError 404 msg) := by
  unfold performBoth
  simp only [Option.map_none, Option.bind_none, Option.isSome_none, Bool.false_and, Bool.false_or]
  have hcs : ∀ src st', OnlyHosts hosts st' →
      OnlyHosts hosts (copyStage cfg m hasRetry (copy.map fun x => destHost x.2) src st') := by
    intro src st' hst
    unfold copyStage
    split
    · rename_i h heq
      exact performRequest_hosts _ _ _ _ _ _ _ _ _ (hsub _ (by simp [copyHosts, heq])) hst
    · exact hst
  split
  · exact ⟨by simp only [mainStage]; exact hcs _ _ (fun c hc => h0 c hc), _, rfl⟩
  · exact ⟨by simp only [mainStage]; exact hcs _ _ h0, _, rfl⟩

/-- **no_match_404.** With no proxy match, one pass ends without a main response, its verdict is
    the 404 of proxy.go:262-265 unless the COPY target does not parse (plain error) or building the
    copy request panics (`secrets[0]` on an empty list), and the only destination contacted is the
    copy rule's — for every copy behaviour and fault script.  A copy request that merely cannot be
    built (407) no longer shows: the copy is dropped and the verdict is the 404. -/
theorem routeOnce_no_proxy (cfg : ExecCfg) (m : Bytes) (hasRetry : Bool) (copy : Option (Rule × Bytes))
    (st : ExecState) (h0 : OnlyHosts (copyHosts copy) st) :
    OnlyHosts (copyHosts copy) (routeOnce cfg m hasRetry none copy st).1 ∧
    (((routeOnce cfg m hasRetry none copy st).2 matches .done (.userError 404 _)) ∨
     ((routeOnce cfg m hasRetry none copy st).2 matches .done .plainError) ∨
     ((copy.bind fun x => cfg.build x.1.internal) = some .panicNoSecrets ∧
        (routeOnce cfg m hasRetry none copy st).2 matches .done .panicked)) := by
  unfold routeOnce
  simp only [Option.map_none, Option.bind_none]
  split
  · exact ⟨h0, Or.inr (Or.inl rfl)⟩
  · split
    · rename_i hp
      exact ⟨h0, Or.inr (Or.inr ⟨hp, rfl⟩)⟩
    · obtain ⟨hh, msg, hd⟩ := performBoth_no_proxy cfg m hasRetry (builtCopy cfg copy) (copyHosts copy)
        (copyHosts_builtCopy cfg copy) st h0
      exact ⟨hh, Or.inl (by rw [hd]; rfl)⟩

/-- lifted to `routeRequest`: the client-visible result and the contacts, for every retry chain.
    No hypothesis on whether the copy request can be built: an error while building it is logged
    and the copy dropped.  What remains excluded is a copy target that does not parse and the
    `secrets[0]` run-time panic (empty, non-nil secret list). -/
theorem no_match_404 (cfg : ExecCfg) (q : Query) (m : Bytes) (chain : List Rule) (copy : Option (Rule × Bytes))
    (b : Bytes) (hpanic : (copy.bind fun x => cfg.build x.1.internal) ≠ some .panicNoSecrets)
    (hparse : (copy.map fun x => destHost x.2) ≠ some none) :
    (∃ msg, (routeRequest cfg q m chain none copy { remaining := b }).2 = .userError 404 msg) ∧
    OnlyHosts (copyHosts copy) (routeRequest cfg q m chain none copy { remaining := b }).1 := by
  have h0 : OnlyHosts (copyHosts copy) ({ remaining := b } : ExecState) := by intro c hc; simp at hc
  have key : ∀ hr, OnlyHosts (copyHosts copy) (routeOnce cfg m hr none copy { remaining := b }).1 ∧
      ∃ msg, (routeOnce cfg m hr none copy { remaining := b }).2 = .done (.userError 404 msg) := by
    intro hr
    refine ⟨(routeOnce_no_proxy cfg m hr copy _ h0).1, ?_⟩
    unfold routeOnce
    simp only [Option.map_none, Option.bind_none]
    have : ¬ (False ∨ (copy.map fun x => destHost x.2) = some none) := by simp [hparse]
    simp only [reduceCtorEq, false_or] at this ⊢
    rw [if_neg this, if_neg hpanic]
    exact (performBoth_no_proxy cfg m hr (builtCopy cfg copy) (copyHosts copy)
      (copyHosts_builtCopy cfg copy) _ h0).2
  cases chain with
  | nil =>
    obtain ⟨hh, msg, hd⟩ := key false
    unfold routeRequest
    cases hro : routeOnce cfg m false none copy { remaining := b } with
    | mk st' stage =>
      rw [hro] at hh hd
      simp only at hd
      subst hd
      exact ⟨⟨msg, rfl⟩, hh⟩
  | cons rr rest =>
    obtain ⟨hh, msg, hd⟩ := key true
    unfold routeRequest
    cases hro : routeOnce cfg m true none copy { remaining := b } with
    | mk st' stage =>
      rw [hro] at hh hd
      simp only at hd
      subst hd
      exact ⟨⟨msg, rfl⟩, hh⟩

/-! Non-vacuity: a copy rule matches, no proxy rule does: the copy is sent, the client gets 404 -/
example : (routeRequest { script := [ { host := b!"c0.test", status := 200, headers := [], body := b!"x", chunked := false, connectErrors := 0, readErrAt := none } ],
                          retries := 0, excluded := b!"POST", build := fun _ => none, is4xx := fun _ => false,
                          isRedirect := fun _ => false, locationOk := fun _ => true }
            ⟨b!"http", b!"h", b!"/m/a", b!"GET"⟩ b!"GET" [] none
            (some ({ path := b!"/m/*", wci := some 3, dest := b!"http://c0.test/$1", type := .copy }, b!"http://c0.test/a")) { remaining := [] }).1.contacts
    = [⟨b!"c0.test", b!"GET", false, []⟩] := by decide

/-- Regression instance (the former finding C20-a seen from C01): no proxy rule matches, the copy
    rule is internal and the client sent Richie-Request-ID without a secret — the copy request cannot
    be built; the copy is dropped (nobody is contacted) and the client gets the 404, not a 407 -/
example : (routeRequest { script := [ { host := b!"c0.test", status := 200, headers := [], body := b!"x", chunked := false, connectErrors := 0, readErrAt := none } ],
                          retries := 0, excluded := b!"POST", build := fun internal => if internal then some .idOrIpNoSecret else none,
                          is4xx := fun _ => false, isRedirect := fun _ => false, locationOk := fun _ => true }
            ⟨b!"http", b!"h", b!"/m/a", b!"GET"⟩ b!"GET" [] none
            (some ({ path := b!"/m/*", wci := some 3, dest := b!"http://c0.test/$1", internal := true, type := .copy }, b!"http://c0.test/a")) { remaining := [] })
    matches ({ contacts := [], .. }, .userError 404 _) := by decide

end Props.C01Exec
