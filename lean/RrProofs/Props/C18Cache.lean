import RrModel.RedirectCache
import RrModel.Spec.C18Cache
import RrModel.Spec.Tables
/-
  C18 on cache-enabled rules (model RrModel/RedirectCache.lean).

  * `found_reentry` (full): the Found site of cachingFunc is a re-entry that only COUNTS — no URL
    is compared with any other, no contact, no lock, the cache unchanged, `alwaysInclude` reset,
    the redirect counter one higher.
  * `found_bound_508` (full): when the counter is exhausted the Found site answers 508 Loop
    detected, without contact, the cache unchanged.
  * `found_loop_508` (full; was `found_cycle_runs_away`, finding C18-c): a run of Found re-entries
    that is still going on when the counter is exhausted ends in that 508 — not one origin contact
    is made, for every fuel that covers the counter.
  * `cycle2_508`, `self_508` (the former witnesses `cycle2_runs_away`, `self_runs_away`): a 2-cycle
    and a plain self-redirect, stored hop by hop through a non-restarting rule that shares the
    cache, read through the restarting one: 508 for every fuel from `maxRedirects + 1` on.
  * `step_ok`, `skip_never_revalidates`, `no_304_row_under_skip`: every re-entry of cachingFunc is
    a counted redirect or the re-entry after a 304; the latter runs with `skipRevalidate`, is never
    handed a RevalidatingWriter and so is never followed by another one of its kind.
  * `run_not_runaway`, `cached_terminates : CachedTerminationStatement` (FULL strength since the
    repair of findings C18-a / C18-c; was `CachedTerminationStatement_false`): no request of any
    history on any rule set, origin (conditional or not), store and lock set is cut as `runaway`
    once the fuel covers `need` = two activations per redirect the counter still allows
    (`2 · (maxRedirects + 1)` for a client request; attained up to one: the ring example).
  * `revalidation_reenters`, `revalidated_hop_keeps_target`, `revalidated_hop_followed`,
    `revalidated_final_served`, `revalidation_request_conditional` (full): a stale stored hop that
    the origin confirms with 304 keeps its target, status and body; the request is the warm request
    on the revalidated store with exactly one conditional contact in front.
  * `fails_witness_09b` (witness): finding C09-b seen from C18 — a 304 that forbids storing is
    handed to the client instead of the chain's final response.
  * `hit_replays_entry` (full): a fresh stored non-redirect answer is replayed (status, body)
    without contact and without touching the cache.
  * `fill_then_hit` (full): warm = cold for a request answered by its first hop: whatever rule
    set, origin and state — if the cold run fills the cache from a non-redirect answer and the
    entry is fresh, the immediate repeat returns the same status and body without any contact.
  * `uncacheable_redirect_not_followed` (full, finding C18-d): in the writer branch a redirect
    with a do-not-cache directive is handed to the client, whatever restart_on_redirect says.
  * `fails_witness_d` (witness): the oracle rejects the model's outcome; the former
    `fails_witness_c` is an `example` of the oracle accepting the 508.
-/
namespace Props.C18Cache
open Go Model Model.Redirect Model.RedirectCache

/-! ## The Found site -/

/-- the conditions under which an activation is answered by the Found site, and the activation it
    re-enters with when the counter allows (server.go:96-106, 140-141, 213-226) -/
def foundNext (cfg : RedirectCache.Cfg) (now : Int) (locks : List Bytes) (store : Store) (a : Act) : Option Act :=
  match query a.req with
  | .panic _ => none
  | .ok q1 =>
    let matched := matchedRule cfg.rules q1
    let r : Redirect.Req := { a.req with headers := preprocess a.req.headers ((matched.map (·.requestHeaders)).getD []) }
    let rf := effectiveRule matched a.frf
    let cacheId := (rf.map (·.cacheId)).getD []
    if cacheId.length = 0 ∨ ¬ cfg.hasStorage cacheId ∨ ¬ (r.method = b!"GET" ∨ r.method = b!"HEAD") then none
    else
      match rf with
      | none => none
      | some rule =>
        match cacheGet store (cacheId, keyOf rule r) (locks.contains (keyOf rule r)) now rule.forceRevalidate a.skipRevalidate with
        | .found e _ _ =>
          if rule.restartOnRedirect ∧ cfg.isRedirect e.status then
            (RedirectCache.requestWithRedirect r e.redirectedURL).map fun rr =>
              { req := rr, overrideURL := some rr.url, frf := some rule, inc := {}, hops := a.hops + 1 }
          else none
        | _ => none

/-- the prologue every cached branch shares (server.go:102-153): the effective rule with its cache,
    the request after the header overrides, and the storage key -/
def Prologue (cfg : RedirectCache.Cfg) (a : Act) (rule : Rule) (r : Redirect.Req) : Prop :=
  ∃ q : Query, query a.req = .ok q ∧
    r = { a.req with headers := preprocess a.req.headers ((Option.map (·.requestHeaders) (matchedRule cfg.rules q)).getD []) } ∧
    effectiveRule (matchedRule cfg.rules q) a.frf = some rule ∧
    ¬ (rule.cacheId.length = 0 ∨ ¬ cfg.hasStorage rule.cacheId ∨ ¬ (r.method = b!"GET" ∨ r.method = b!"HEAD"))

/-- one activation behind the prologue: what `cache.Get` hands out decides the row -/
theorem step_of_prologue (cfg : RedirectCache.Cfg) (now : Int) (locks : List Bytes) (store : Store) (a : Act)
    (rule : Rule) (r : Redirect.Req) (hp : Prologue cfg a rule r) :
    step cfg now locks store a =
      match cacheGet store (rule.cacheId, keyOf rule r) (locks.contains (keyOf rule r)) now rule.forceRevalidate a.skipRevalidate with
      | .outside => .done (.done { sent := .outside, contacts := [], store := store })
      | .wait => .done (.selfwait [])
      | .found e age stale => foundRow cfg locks store a r rule e age stale
      | .writer revalidating => writerRow cfg now locks store a r (some rule) (keyOf rule r) (rule.cacheId, keyOf rule r) revalidating := by
  obtain ⟨q, hq, hr, hrf, hcache⟩ := hp
  subst hr
  unfold step
  simp only [hq, hrf, Option.map_some, Option.getD_some]
  rw [if_neg hcache]
  rfl

/-- `foundNext` says: the prologue holds, `cache.Get` answers Found with a redirect to follow -/
theorem foundNext_spec (cfg : RedirectCache.Cfg) (now : Int) (locks : List Bytes) (store : Store) (a a' : Act)
    (h : foundNext cfg now locks store a = some a') :
    ∃ rule r e age stale rr, Prologue cfg a rule r ∧
      cacheGet store (rule.cacheId, keyOf rule r) (locks.contains (keyOf rule r)) now rule.forceRevalidate a.skipRevalidate = .found e age stale ∧
      (rule.restartOnRedirect ∧ cfg.isRedirect e.status) ∧
      RedirectCache.requestWithRedirect r e.redirectedURL = some rr ∧
      a' = { req := rr, overrideURL := some rr.url, frf := some rule, inc := {}, hops := a.hops + 1 } := by
  unfold foundNext at h
  cases hq : query a.req with
  | panic s => rw [hq] at h; simp at h
  | ok q1 =>
    rw [hq] at h
    simp only at h
    split at h
    · simp at h
    · rename_i hc
      cases hrf : effectiveRule (matchedRule cfg.rules q1) a.frf with
      | none => rw [hrf] at h; simp at h
      | some rule =>
        rw [hrf] at h hc
        simp only [Option.map_some, Option.getD_some] at h hc
        split at h
        · rename_i e age stale hg
          split at h
          · rename_i hr
            simp only [Option.map_eq_some_iff] at h
            obtain ⟨rr, hrr, rfl⟩ := h
            exact ⟨rule, _, e, age, stale, rr, ⟨q1, hq, rfl, hrf, hc⟩, hg, hr, hrr, rfl⟩
          · simp at h
        all_goals simp at h

/-- what the Found site does, given that it applies: re-enter when the counter allows, else 508 -/
theorem found_site (cfg : RedirectCache.Cfg) (now : Int) (n : Nat) (locks : List Bytes) (store : Store) (a a' : Act)
    (h : foundNext cfg now locks store a = some a') :
    run cfg now (n + 1) locks store a =
      if a.hops + 1 > cfg.maxRedirects then
        .done { sent := .userError 508 b!"Loop detected", contacts := [], store := store }
      else run cfg now n locks store a' := by
  obtain ⟨rule, r, e, age, stale, rr, hp, hg, hr, hrr, rfl⟩ := foundNext_spec cfg now locks store a a' h
  conv => lhs; unfold run
  rw [step_of_prologue cfg now locks store a rule r hp, hg]
  simp only [foundRow, hr, and_self, if_true, hrr]
  by_cases hm : a.hops + 1 > cfg.maxRedirects
  · simp only [if_pos hm]
  · simp only [if_neg hm]; rfl

/-- **found_reentry**: whenever the Found site applies and the counter allows another redirect,
    one activation of `cachingFunc` is EXACTLY the next one, the counter one higher: no URL is
    compared with any other (no `urlEquals`), nothing is contacted, no lock is taken, the store is
    untouched -/
theorem found_reentry (cfg : RedirectCache.Cfg) (now : Int) (n : Nat) (locks : List Bytes) (store : Store) (a a' : Act)
    (h : foundNext cfg now locks store a = some a') (hb : a.hops + 1 ≤ cfg.maxRedirects) :
    run cfg now (n + 1) locks store a = run cfg now n locks store a' := by
  rw [found_site cfg now n locks store a a' h, if_neg (by omega)]

/-- **found_bound_508**: the Found site with the counter exhausted: 508 Loop detected, nothing
    contacted, the store untouched -/
theorem found_bound_508 (cfg : RedirectCache.Cfg) (now : Int) (n : Nat) (locks : List Bytes) (store : Store) (a a' : Act)
    (h : foundNext cfg now locks store a = some a') (hb : cfg.maxRedirects < a.hops + 1) :
    run cfg now (n + 1) locks store a =
      .done { sent := .userError 508 b!"Loop detected", contacts := [], store := store } := by
  rw [found_site cfg now n locks store a a' h, if_pos (by omega)]

theorem foundNext_hops (cfg : RedirectCache.Cfg) (now : Int) (locks : List Bytes) (store : Store) (a a' : Act)
    (h : foundNext cfg now locks store a = some a') : a'.hops = a.hops + 1 := by
  unfold foundNext at h
  split at h
  · simp at h
  · simp only at h
    split at h
    · simp at h
    · split at h
      · simp at h
      · split at h
        · split at h
          · simp only [Option.map_eq_some_iff] at h
            obtain ⟨_, _, rfl⟩ := h
            rfl
          · simp at h
        · simp at h

/-- `k` Found re-entries in a row (the counter is not looked at) -/
def foundAt (cfg : RedirectCache.Cfg) (now : Int) (locks : List Bytes) (store : Store) : Nat → Act → Option Act
  | 0, a => some a
  | k + 1, a =>
    match foundNext cfg now locks store a with
    | none => none
    | some a' => foundAt cfg now locks store k a'

theorem run_foundAt (cfg : RedirectCache.Cfg) (now : Int) (locks : List Bytes) (store : Store) (k n : Nat) (a s : Act)
    (h : foundAt cfg now locks store k a = some s) (hb : a.hops + k ≤ cfg.maxRedirects) :
    run cfg now (n + k) locks store a = run cfg now n locks store s ∧ s.hops = a.hops + k := by
  induction k generalizing a with
  | zero => simp only [foundAt, Option.some.injEq] at h; subst h; exact ⟨rfl, rfl⟩
  | succ k ih =>
    unfold foundAt at h
    cases hf : foundNext cfg now locks store a with
    | none => rw [hf] at h; simp at h
    | some a' =>
      rw [hf] at h
      simp only at h
      have hh := foundNext_hops cfg now locks store a a' hf
      rw [show n + (k + 1) = (n + k) + 1 by omega, found_reentry cfg now (n + k) locks store a a' hf (by omega)]
      obtain ⟨h1, h2⟩ := ih a' h (by omega)
      exact ⟨h1, by omega⟩

/-- **found_loop_508** (was `found_cycle_runs_away`, finding C18-c): a run of Found re-entries
    that is still going on when the counter is exhausted — after `maxRedirects - a.hops` of them
    the activation reached is again answered by a stored redirect to follow — ends in 508 Loop
    detected for EVERY fuel that covers the counter; not one origin contact is made and the store
    is untouched.  (Before the repair such a request was never answered.) -/
theorem found_loop_508 (cfg : RedirectCache.Cfg) (now : Int) (locks : List Bytes) (store : Store) (a s s' : Act)
    (ha : a.hops ≤ cfg.maxRedirects)
    (h : foundAt cfg now locks store (cfg.maxRedirects - a.hops) a = some s)
    (hs : foundNext cfg now locks store s = some s') (fuel : Nat) (hfuel : cfg.maxRedirects + 1 ≤ fuel + a.hops) :
    run cfg now fuel locks store a =
      .done { sent := .userError 508 b!"Loop detected", contacts := [], store := store } := by
  obtain ⟨h1, h2⟩ := run_foundAt cfg now locks store (cfg.maxRedirects - a.hops) (fuel - (cfg.maxRedirects - a.hops)) a s h (by omega)
  rw [show fuel - (cfg.maxRedirects - a.hops) + (cfg.maxRedirects - a.hops) = fuel by omega] at h1
  rw [h1]
  obtain ⟨m, hm⟩ : ∃ m, fuel - (cfg.maxRedirects - a.hops) = m + 1 := ⟨fuel - (cfg.maxRedirects - a.hops) - 1, by omega⟩
  rw [hm]
  exact found_bound_508 cfg now m locks store s s' hs (by omega)

/-! ## A hit, and warm = cold for a request answered by its first hop -/

/-- **hit_replays_entry**: a fresh stored answer that is not a redirect to be followed is
    replayed as it was stored — status, body, Location — without any contact, and the cache
    stays as it is -/
theorem hit_replays_entry (cfg : RedirectCache.Cfg) (now : Int) (n : Nat) (locks : List Bytes) (store : Store) (a : Act)
    (rule : Rule) (r : Redirect.Req) (e : Entry) (age : Int) (stale : Bool)
    (hp : Prologue cfg a rule r)
    (hg : cacheGet store (rule.cacheId, keyOf rule r) (locks.contains (keyOf rule r)) now rule.forceRevalidate a.skipRevalidate = .found e age stale)
    (hnr : ¬ (rule.restartOnRedirect ∧ cfg.isRedirect e.status)) :
    run cfg now (n + 1) locks store a =
      .done { sent := .response e.status e.body (e.header.get b!"Location") { status := hitStatus a.inc stale, age := some age },
              contacts := [], store := store } := by
  unfold run
  rw [step_of_prologue cfg now locks store a rule r hp, hg]
  simp only [foundRow, if_neg hnr]

/-- the request a writer-kind cache result sends to the destination (server.go:346-357): the
    stored validator on it for a RevalidatingWriter -/
def writerReq (store : Store) (rule : Rule) (r : Redirect.Req) (reval : Bool) : Redirect.Req :=
  { r with headers := (surgeryOf reval r.headers (store.headerOf (rule.cacheId, keyOf rule r))).req }

/-- the 304 row's guard (server.go:382-384) -/
def Is304Row (store : Store) (rule : Rule) (r : Redirect.Req) (reval : Bool) (rt : Routed) : Prop :=
  (surgeryOf reval r.headers (store.headerOf (rule.cacheId, keyOf rule r))).used.length > 0 ∧ rt.resp.status = 304 ∧
    (getCacheControlDirectives rt.resp.header).doNotCache = false

instance (store : Store) (rule : Rule) (r : Redirect.Req) (reval : Bool) (rt : Routed) :
    Decidable (Is304Row store rule r reval rt) := by unfold Is304Row; infer_instance

/-- what the writer branch does with a cacheable answer that is not a redirect (server.go
    311-457 for this case): the entry it publishes -/
theorem fill_stores_entry (cfg : RedirectCache.Cfg) (now : Int) (n : Nat) (locks : List Bytes) (store : Store) (a : Act)
    (rule : Rule) (r : Redirect.Req) (reval : Bool) (rt : Routed)
    (hp : Prologue cfg a rule r)
    (hg : cacheGet store (rule.cacheId, keyOf rule r) (locks.contains (keyOf rule r)) now rule.forceRevalidate a.skipRevalidate = .writer reval)
    (hroute : route cfg (writerReq store rule r reval) a.overrideURL (some rule) = .ok rt)
    (hn304 : ¬ Is304Row store rule r reval rt)
    (hdnc : (getCacheControlDirectives rt.resp.header).doNotCache = false)
    (hsie : (reval && decide (rt.resp.status ≥ 400) && staleIfErrorGranted store (rule.cacheId, keyOf rule r)) = false)
    (hgate : ¬ (¬ inGate cfg rt.resp.status ∨ (rt.resp.status = 200 ∧ rt.resp.body = [])))
    (hnored : rt.redir = none) :
    run cfg now (n + 1) locks store a =
      .done { sent := .response rt.resp.status rt.resp.body rt.resp.location
                        { status := if reval then b!"revalidated" else b!"miss", age := some 0 },
              contacts := [rt.contact],
              store := store.put (rule.cacheId, keyOf rule r) (entryOf rt.resp [] now reval) } := by
  unfold writerReq at hroute
  unfold Is304Row at hn304
  unfold run
  rw [step_of_prologue cfg now locks store a rule r hp, hg]
  simp only [writerRow, hroute, afterAnswer]
  rw [if_neg hn304]
  simp only [hdnc, hsie, if_neg hgate, hnored]
  simp

theorem store_get_put (s : Store) (k : StoreKey) (e : Entry) : (s.put k e).get k = some e := by
  simp [Store.get, Store.put]

/-- **fill_then_hit** (warm = cold, one hop): for every rule set, origin, cache state and
    activation — if the cold run fills the cache from a non-redirect answer and that entry counts
    as fresh at the same instant, the immediate repeat answers with the SAME status and body,
    contacts nobody and leaves the cache as the fill left it -/
theorem fill_then_hit (cfg : RedirectCache.Cfg) (now : Int) (n m : Nat) (store : Store) (a : Act)
    (rule : Rule) (r : Redirect.Req) (reval : Bool) (rt : Routed)
    (hp : Prologue cfg a rule r)
    (hg : cacheGet store (rule.cacheId, keyOf rule r) false now rule.forceRevalidate a.skipRevalidate = .writer reval)
    (hroute : route cfg (writerReq store rule r reval) a.overrideURL (some rule) = .ok rt)
    (hn304 : ¬ Is304Row store rule r reval rt)
    (hdnc : (getCacheControlDirectives rt.resp.header).doNotCache = false)
    (hsie : (reval && decide (rt.resp.status ≥ 400) && staleIfErrorGranted store (rule.cacheId, keyOf rule r)) = false)
    (hgate : ¬ (¬ inGate cfg rt.resp.status ∨ (rt.resp.status = 200 ∧ rt.resp.body = [])))
    (hnored : rt.redir = none)
    (hnr : cfg.isRedirect rt.resp.status = false)
    (age : Int)
    (hfresh : Freshness.get false { header := (entryOf rt.resp [] now reval).header, created := now,
                                    revalidated := if reval then now else 0 } now rule.forceRevalidate a.skipRevalidate [] [] none
              = .ok (.foundFresh age)) :
    ∃ d d', run cfg now (n + 1) [] store a = .done d ∧ run cfg now (m + 1) [] d.store a = .done d' ∧
      (∃ inc inc', d.sent = .response rt.resp.status rt.resp.body rt.resp.location inc ∧
                   d'.sent = .response rt.resp.status rt.resp.body (((entryOf rt.resp [] now reval).header).get b!"Location") inc') ∧
      d'.contacts = [] ∧ d'.store = d.store := by
  have hcold := fill_stores_entry cfg now n [] store a rule r reval rt hp (by simpa using hg) hroute hn304 hdnc hsie hgate hnored
  let st' := store.put (rule.cacheId, keyOf rule r) (entryOf rt.resp [] now reval)
  have hg' : cacheGet st' (rule.cacheId, keyOf rule r) (([] : List Bytes).contains (keyOf rule r)) now rule.forceRevalidate a.skipRevalidate
      = .found (entryOf rt.resp [] now reval) age false := by
    simp only [cacheGet, st', store_get_put, List.contains_nil]
    have : (entryOf rt.resp [] now reval).created = now ∧ (entryOf rt.resp [] now reval).revalidated = (if reval then now else 0) := by
      simp [entryOf]
    rw [this.1, this.2, hfresh]
  have hwarm := hit_replays_entry cfg now m [] st' a rule r (entryOf rt.resp [] now reval) age false hp hg'
    (by intro ⟨_, h2⟩; simp [entryOf, hnr] at h2)
  refine ⟨_, _, hcold, hwarm, ⟨{ status := if reval then b!"revalidated" else b!"miss", age := some 0 },
    { status := hitStatus a.inc false, age := some age }, rfl, ?_⟩, rfl, rfl⟩
  simp [entryOf]

/-! ## The do-not-cache branch (finding C18-d) -/

/-- **uncacheable_redirect_not_followed**: in the writer branch an answer with a do-not-cache
    directive goes to the client as it is — also a redirect under restart_on_redirect; the
    re-entry of server.go:418-426 sits in the other branch -/
theorem uncacheable_redirect_not_followed (cfg : RedirectCache.Cfg) (now : Int) (n : Nat) (locks : List Bytes) (store : Store) (a : Act)
    (rule : Rule) (r : Redirect.Req) (reval : Bool) (rt : Routed)
    (hp : Prologue cfg a rule r)
    (hg : cacheGet store (rule.cacheId, keyOf rule r) (locks.contains (keyOf rule r)) now rule.forceRevalidate a.skipRevalidate = .writer reval)
    (hroute : route cfg (writerReq store rule r reval) a.overrideURL (some rule) = .ok rt)
    (hdnc : (getCacheControlDirectives rt.resp.header).doNotCache = true) :
    run cfg now (n + 1) locks store a =
      .done { sent := .response rt.resp.status rt.resp.body rt.resp.location { a.inc with status := b!"uncacheable" },
              contacts := [rt.contact], store := store } := by
  unfold writerReq at hroute
  unfold run
  rw [step_of_prologue cfg now locks store a rule r hp, hg]
  simp only [writerRow, hroute, afterAnswer, hdnc]
  simp

/-! ## Concrete configurations (former witnesses, witnesses and non-vacuity) -/

/-- two prefixes, one destination, one cache; only `/f/*` restarts -/
def ruleP : Rule := { path := b!"/p/*", wci := some 3, dest := b!"http://d0.test/$1", cacheId := b!"c1" }
def ruleF : Rule := { path := b!"/f/*", wci := some 3, dest := b!"http://d0.test/$1", cacheId := b!"c1", restartOnRedirect := true }

/-- an origin keyed by request path; only `d0.test` answers -/
def originOf (tbl : List (Bytes × OResp)) (c : Contact) : Option OResp :=
  if c.url.scheme = b!"http" ∧ c.url.host = b!"d0.test" then
    match tbl.lookup c.url.path with
    | some r => some r
    | none => some { status := 404, body := b!"unknown" }
  else none

def cfgOf (rules : List Rule) (tbl : List (Bytes × OResp)) : RedirectCache.Cfg :=
  { rules := rules, origin := originOf tbl, isRedirect := fun s => Spec.redirectStatuses.contains s,
    hasStorage := fun id => id == b!"c1", maxRedirects := Spec.maxRedirects }

def t0 : Int := 1700000000
def edge : Bytes := b!"h.test"

/-- the 2-cycle `/a → /b → /a`, Locations absolute and back through the restarting prefix -/
def cfgC : RedirectCache.Cfg := cfgOf [ruleP, ruleF]
  [(b!"/a", { status := 302, location := b!"http://h.test/f/b", body := b!"moved-0" }),
   (b!"/b", { status := 302, location := b!"http://h.test/f/a", body := b!"moved-1" })]

def clientGet (target : Bytes) : Act :=
  { req := { url := { path := target }, host := edge, headers := [], method := b!"GET" } }

example : clientAct b!"/f/a" edge = some (clientGet b!"/f/a") := by rfl

/-- a request re-entered from the Found site under `/f/*`, the counter at `hops` -/
def reentered (path : Bytes) (hops : Nat := 1) : Act :=
  { req := { url := { scheme := b!"http", host := edge, path := path }, host := edge, headers := [], method := b!"GET" },
    overrideURL := some { scheme := b!"http", host := edge, path := path }, frf := some ruleF, hops := hops }

def doneOf : RedirectCache.Outcome → Done
  | .done d => d
  | _ => { sent := .outside, contacts := [], store := [] }

/-- the cache after `/p/a`, and after `/p/a` and `/p/b`: both hops asked for through the
    NON-restarting prefix (each request: one activation, one contact, the 302 handed to the client
    and stored) — computed by the model itself -/
def storeA : Store := (doneOf (run cfgC t0 1 [] [] (clientGet b!"/p/a"))).store
def storeC : Store := (doneOf (run cfgC t0 1 [] storeA (clientGet b!"/p/b"))).store

example : storeC.length = 2 := by decide
example : (storeC.map (·.2.redirectedURL)) = [b!"http://h.test/f/a", b!"http://h.test/f/b"] := by decide

def loop508 (store : Store) : RedirectCache.Outcome :=
  .done { sent := .userError 508 b!"Loop detected", contacts := [], store := store }

theorem cycle2_first : foundNext cfgC t0 [] storeC (clientGet b!"/f/a") = some (reentered b!"/f/b") := by rfl
theorem cycle2_round : foundAt cfgC t0 [] storeC 10 (clientGet b!"/f/a") = some (reentered b!"/f/a" 10) := by rfl
theorem cycle2_still : foundNext cfgC t0 [] storeC (reentered b!"/f/a" 10) = some (reentered b!"/f/b" 11) := by rfl

/-- **cycle2_508** (the former witness `cycle2_runs_away` of finding C18-c, repaired): with both
    hops of the loop in the cache, `GET /f/a` is answered 508 Loop detected for every fuel from
    `maxRedirects + 1` = 11 on — the origin is never contacted, the cache stays as it is -/
theorem cycle2_508 : ∀ n, 11 ≤ n → run cfgC t0 n [] storeC (clientGet b!"/f/a") = loop508 storeC := by
  intro n hn
  exact found_loop_508 cfgC t0 [] storeC (clientGet b!"/f/a") _ _ (by decide) cycle2_round cycle2_still n
    (by show Spec.maxRedirects + 1 ≤ n + 0; simp [Spec.maxRedirects]; omega)

/-- a plain self-redirect: on the writer path `urlEquals` would see nothing either (absolute
    Location, origin-form request), on the Found path no URL is compared — the counter ends it -/
def cfgS : RedirectCache.Cfg := cfgOf [ruleP, ruleF]
  [(b!"/a", { status := 301, location := b!"http://h.test/f/a", body := b!"moved-0" })]

def storeS : Store := (doneOf (run cfgS t0 1 [] [] (clientGet b!"/p/a"))).store

theorem self_round : foundAt cfgS t0 [] storeS 10 (clientGet b!"/f/a") = some (reentered b!"/f/a" 10) := by rfl
theorem self_still : foundNext cfgS t0 [] storeS (reentered b!"/f/a" 10) = some (reentered b!"/f/a" 11) := by rfl

/-- **self_508** (the former witness `self_runs_away`, repaired) -/
theorem self_508 : ∀ n, 11 ≤ n → run cfgS t0 n [] storeS (clientGet b!"/f/a") = loop508 storeS := by
  intro n hn
  exact found_loop_508 cfgS t0 [] storeS (clientGet b!"/f/a") _ _ (by decide) self_round self_still n
    (by show Spec.maxRedirects + 1 ≤ n + 0; simp [Spec.maxRedirects]; omega)

/-! ## Termination on the cached path: stated at full strength, proved -/

def isRunaway : RedirectCache.Outcome → Bool
  | .runaway _ => true
  | _ => false

theorem isRunaway_prepend (c : Contact) (o : RedirectCache.Outcome) : isRunaway (o.prepend c) = isRunaway o := by
  cases o <;> rfl

/-! ### The measure: counted redirects, and at most one uncounted re-entry between two of them -/

/-- `Freshness.decide` with `skipRevalidate` never asks for a revalidation (caching.go:266-271) -/
theorem decide_skip_not_revalidate (m : Freshness.Entry) (now : Int) (force : Nat) (inm ims : Bytes) (sfx : Option Bytes)
    (c : Bool) (age : Int) : Freshness.decide m now force true inm ims sfx ≠ .ok (.revalidate c age) := by
  unfold Freshness.decide
  cases Freshness.shouldRevalidate m now force <;> simp <;> (repeat' split) <;> simp

/-- `cache.Get` with `skipRevalidate` never hands out a RevalidatingWriter (nor a RevalidatingReader) -/
theorem get_skip_not_writer (l : Bool) (m : Freshness.Entry) (now : Int) (force : Nat) (age : Int) :
    Freshness.get l m now force true [] [] none ≠ .ok (.revalidatingWriter age) := by
  unfold Freshness.get
  have h := decide_skip_not_revalidate m now force [] [] none
  cases hd : Freshness.decide m now force true [] [] none with
  | panic s => simp
  | ok d =>
    cases d with
    | revalidate c a => exact absurd hd (h c a)
    | _ => simp

/-- **skip_never_revalidates**: an activation that runs with `skipRevalidate` (the re-entry after a
    304) is never handed a RevalidatingWriter — a writer it gets is a NotFoundWriter -/
theorem skip_never_revalidates (store : Store) (sk : StoreKey) (l : Bool) (now : Int) (force : Nat) (rv : Bool)
    (h : cacheGet store sk l now force true = .writer rv) : rv = false := by
  unfold cacheGet at h
  split at h
  · split at h <;> simp_all
  · rename_i e _
    have hn := get_skip_not_writer l { header := e.header, created := e.created, revalidated := e.revalidated } now force
    split at h
    · simp at h
    · simp at h
    · rename_i age hg; exact absurd hg (hn age)
    · simp at h
    · simp at h

/-- a NotFoundWriter injects no validator: `usedRevalidateHeader` stays empty -/
theorem surgery_notFound_used (client stored : Header) : (surgeryOf false client stored).used = [] := by
  simp [surgeryOf, Conditional.surgery]

/-- hence the 304 row cannot be taken under `skipRevalidate` -/
theorem no_304_row_under_skip (store : Store) (sk : StoreKey) (l : Bool) (now : Int) (force : Nat) (rv : Bool)
    (client stored : Header) (h : cacheGet store sk l now force true = .writer rv) :
    ¬ ((surgeryOf rv client stored).used.length > 0) := by
  rw [skip_never_revalidates store sk l now force rv h, surgery_notFound_used]
  simp

/-- what a re-entry of `cachingFunc` is: a COUNTED redirect (the counter allowed it; the new
    activation revalidates as usual), or the re-entry after a 304 (same counter; it runs with
    `skipRevalidate`, and the activation that makes it did not) -/
def Next (maxRedirects : Nat) (a a' : Act) : Prop :=
  (a'.hops = a.hops + 1 ∧ a.hops + 1 ≤ maxRedirects ∧ a'.skipRevalidate = false) ∨
  (a'.hops = a.hops ∧ a'.skipRevalidate = true ∧ a.skipRevalidate = false)

/-- a step is in order: it ends by itself, or re-enters in one of the two ways -/
def StepOK (maxRedirects : Nat) (a : Act) : Step → Prop
  | .done o => isRunaway o = false
  | .reenter _ _ a' _ _ => Next maxRedirects a a'

theorem uncachedRow_ok (cfg : RedirectCache.Cfg) (locks : List Bytes) (store : Store) (a : Act) (r : Redirect.Req) (rf : Option Rule) :
    StepOK cfg.maxRedirects a (uncachedRow cfg locks store a r rf) := by
  unfold uncachedRow
  repeat' first | split | (dsimp only; split)
  all_goals first
    | rfl
    | (left; exact ⟨rfl, by omega, rfl⟩)

theorem foundRow_ok (cfg : RedirectCache.Cfg) (locks : List Bytes) (store : Store) (a : Act) (r : Redirect.Req) (rule : Rule)
    (e : Entry) (age : Int) (stale : Bool) :
    StepOK cfg.maxRedirects a (foundRow cfg locks store a r rule e age stale) := by
  unfold foundRow
  repeat' first | split | (dsimp only; split)
  all_goals first
    | rfl
    | (left; exact ⟨rfl, by omega, rfl⟩)

theorem afterAnswer_ok (cfg : RedirectCache.Cfg) (now : Int) (locks : List Bytes) (store : Store) (a : Act) (r : Redirect.Req)
    (ks : Bytes) (sk : StoreKey) (reval : Bool) (sg : Conditional.Surgery) (rt : Routed)
    (hskip : sg.used.length > 0 → a.skipRevalidate = false) :
    StepOK cfg.maxRedirects a (afterAnswer cfg now locks store a r ks sk reval sg rt) := by
  unfold afterAnswer
  repeat' first | split | (dsimp only; split)
  all_goals first
    | rfl
    | (left; exact ⟨rfl, by omega, rfl⟩)
    | (right; rename_i h; exact ⟨rfl, rfl, hskip h.1⟩)

theorem writerRow_ok (cfg : RedirectCache.Cfg) (now : Int) (locks : List Bytes) (store : Store) (a : Act) (r : Redirect.Req)
    (rf : Option Rule) (ks : Bytes) (sk : StoreKey) (reval : Bool) (hskip : reval = true → a.skipRevalidate = false) :
    StepOK cfg.maxRedirects a (writerRow cfg now locks store a r rf ks sk reval) := by
  unfold writerRow
  dsimp only
  split
  · rfl
  · apply afterAnswer_ok
    intro hu
    cases reval with
    | true => exact hskip rfl
    | false => rw [surgery_notFound_used] at hu; simp at hu

/-- **step_ok**: every activation either ends by itself or re-enters as a counted redirect or as
    the (single) re-entry after a 304 -/
theorem step_ok (cfg : RedirectCache.Cfg) (now : Int) (locks : List Bytes) (store : Store) (a : Act) :
    StepOK cfg.maxRedirects a (step cfg now locks store a) := by
  unfold step
  repeat' first | split | (dsimp only; split)
  · rfl
  · exact uncachedRow_ok ..
  · rfl
  · rfl
  · rfl
  · exact foundRow_ok ..
  · rename_i hg
    apply writerRow_ok
    intro hrv
    subst hrv
    cases hs : a.skipRevalidate with
    | false => rfl
    | true =>
      rw [hs] at hg
      exact absurd (skip_never_revalidates _ _ _ _ _ _ hg) (by simp)

theorem isRunaway_finish (c : Option Contact) (p : Option (StoreKey × Entry)) (o : RedirectCache.Outcome) :
    isRunaway (Step.finish c p o) = isRunaway o := by
  unfold Step.finish
  cases c with
  | none => rfl
  | some c =>
    cases p with
    | none => exact isRunaway_prepend c o
    | some p => cases o <;> rfl

/-- the number of nested activations an activation may still need: two per redirect the counter
    still allows (the hop itself and, when its stored entry is confirmed by a 304, the uncounted
    re-entry that serves it) plus two for itself — one if it is such a re-entry already -/
def need (maxRedirects hops : Nat) (skip : Bool) : Nat := 2 * (maxRedirects - hops) + (if skip then 1 else 2)

theorem need_next (M n : Nat) (a a' : Act) (h : Next M a a') (hb : need M a.hops a.skipRevalidate ≤ n + 1) :
    need M a'.hops a'.skipRevalidate ≤ n := by
  unfold need at *
  rcases h with ⟨h1, h2, h3⟩ | ⟨h1, h2, h3⟩
  · rw [h1, h3]
    cases hs : a.skipRevalidate <;> rw [hs] at hb <;> simp at hb ⊢ <;> omega
  · rw [h1, h2]; rw [h3] at hb; simp at *; omega

theorem need_pos (M h : Nat) (s : Bool) : 0 < need M h s := by
  unfold need; cases s <;> simp

/-- **run_not_runaway** (the fuel bound, 304 re-entries included): for every rule set, origin,
    clock, lock set, store and activation: once the fuel covers `need` — two activations per
    redirect the counter still allows, plus the activation's own (and its possible 304 re-entry) —
    the run is not cut.  Every re-entry of `cachingFunc` in this slice is either a counted redirect
    or the re-entry after a 304, and the latter runs with `skipRevalidate`, so it cannot be
    followed by another one of its kind (`step_ok`, `no_304_row_under_skip`) -/
theorem run_not_runaway (cfg : RedirectCache.Cfg) (now : Int) :
    ∀ (fuel : Nat) (locks : List Bytes) (store : Store) (a : Act),
      need cfg.maxRedirects a.hops a.skipRevalidate ≤ fuel → isRunaway (run cfg now fuel locks store a) = false := by
  intro fuel
  induction fuel with
  | zero => intro _ _ a h; have := need_pos cfg.maxRedirects a.hops a.skipRevalidate; omega
  | succ n ih =>
    intro locks store a hb
    unfold run
    have hok := step_ok cfg now locks store a
    cases hst : step cfg now locks store a with
    | done o => rw [hst] at hok; exact hok
    | reenter l s a' c p =>
      rw [hst] at hok
      simp only
      rw [isRunaway_finish]
      exact ih l s a' (need_next _ _ _ _ hok hb)

/-- the nesting that serves a client request: `2 · (maxRedirects + 1)` -/
theorem need_client (M : Nat) : need M 0 false = 2 * (M + 1) := by
  unfold need; simp; omega

/-- "Redirect chains that loop, … whether or not the hops are cached, end in an error response
    after a bounded number of hops": the nesting `2 · (maxRedirects + 1)` — every redirect the
    counter allows, each hop possibly confirmed by a 304 first — serves every request of every
    history, on every rule set and origin: no request is cut as `runaway` -/
def CachedTerminationStatement : Prop :=
  ∀ (cfg : RedirectCache.Cfg) (host : Bytes) (N : Nat), 2 * (cfg.maxRedirects + 1) ≤ N →
    ∀ (now : Int) (store : Store) (ops : List Op), ∀ o ∈ history cfg host N now store ops, isRunaway o = false

/-- **cached_terminates** (full strength since the repair of findings C18-a / C18-c; was
    `CachedTerminationStatement_false`; the bound counts the 304 re-entries) -/
theorem cached_terminates : CachedTerminationStatement := by
  intro cfg host N hN now store ops
  induction ops generalizing now store with
  | nil => intro o ho; simp [history] at ho
  | cons op rest ih =>
    intro o ho
    cases op with
    | tick dt => exact ih (now + dt) store o (by simpa [history] using ho)
    | request target =>
      unfold history at ho
      cases hc : clientAct target host with
      | none => rw [hc] at ho; simp at ho
      | some a =>
        rw [hc] at ho
        simp only at ho
        have ha : a.hops = 0 ∧ a.skipRevalidate = false := by
          unfold clientAct at hc
          simp only [Option.map_eq_some_iff] at hc
          obtain ⟨_, _, rfl⟩ := hc
          exact ⟨rfl, rfl⟩
        have hr := run_not_runaway cfg now N [] store a (by rw [ha.1, ha.2, need_client]; exact hN)
        cases hrun : run cfg now N [] store a with
        | done d =>
          rw [hrun] at ho
          simp only [List.mem_cons] at ho
          rcases ho with rfl | ho
          · rfl
          · exact ih now d.store o ho
        | runaway cs => rw [hrun] at hr; simp [isRunaway] at hr
        | selfwait cs =>
          rw [hrun] at ho
          simp only [List.mem_singleton] at ho
          subst ho; rfl

/-! ## Validators: a stored hop that the origin confirms with 304 -/

/-- the activation `cachingFunc` re-enters with after a 304 (server.go:390-396): the same request
    (the injected validator deleted, the client's own restored), no `overrideURL`, the final
    routing flavors as fallback, "revalidated", the SAME redirect counter, `skipRevalidate` -/
def act304 (store : Store) (a : Act) (rule : Rule) (r : Redirect.Req) (reval : Bool) (rt : Routed) : Act :=
  { req := { r with headers := afterRestore (surgeryOf reval r.headers (store.headerOf (rule.cacheId, keyOf rule r))) },
    overrideURL := none, frf := some rt.rule, inc := { a.inc with status := b!"revalidated" }, hops := a.hops,
    skipRevalidate := true }

/-- the 304 row is a RevalidatingWriter's: a NotFoundWriter sends no validator -/
theorem is304Row_reval (store : Store) (rule : Rule) (r : Redirect.Req) (reval : Bool) (rt : Routed)
    (h : Is304Row store rule r reval rt) : reval = true := by
  cases reval with
  | true => rfl
  | false => have := h.1; rw [surgery_notFound_used] at this; simp at this

/-- **revalidation_reenters**: the writer row on a 304 that does not forbid caching
    (server.go:382-397): the entry is re-published by `SetRevalidatedAndClose`, and the activation
    IS the re-entry `act304` on that store, after its one contact — nothing is handed to the
    client by this activation, no lock is kept, the redirect counter is not touched -/
theorem revalidation_reenters (cfg : RedirectCache.Cfg) (now : Int) (n : Nat) (locks : List Bytes) (store : Store) (a : Act)
    (rule : Rule) (r : Redirect.Req) (reval : Bool) (rt : Routed)
    (hp : Prologue cfg a rule r)
    (hg : cacheGet store (rule.cacheId, keyOf rule r) (locks.contains (keyOf rule r)) now rule.forceRevalidate a.skipRevalidate = .writer reval)
    (hroute : route cfg (writerReq store rule r reval) a.overrideURL (some rule) = .ok rt)
    (h304 : Is304Row store rule r reval rt) :
    run cfg now (n + 1) locks store a =
      (run cfg now n locks (store.revalidate (rule.cacheId, keyOf rule r) rt.resp.header now)
        (act304 store a rule r reval rt)).prepend rt.contact := by
  unfold writerReq at hroute
  unfold Is304Row at h304
  conv => lhs; unfold run
  rw [step_of_prologue cfg now locks store a rule r hp, hg]
  simp only [writerRow, hroute, afterAnswer]
  rw [if_pos h304]
  rfl

theorem store_get_put_ne (s : Store) (k k' : StoreKey) (e : Entry) (h : k' ≠ k) : (s.put k e).get k' = s.get k' := by
  unfold Store.get Store.put
  rw [List.find?_cons_of_neg (by simpa using fun h' => h h'.symm)]
  congr 1
  rw [List.find?_filter]
  congr 1
  funext x
  by_cases hx : x.1 = k'
  · have hk : ¬ x.1 = k := fun h' => h (hx.symm.trans h')
    simp [hx, hk, h]
  · simp [hx]

/-- **revalidated_hop_keeps_target** (`storageWriter.Close`, branch `sw.fd == nil &&
    sw.wasRevalidated`): after a 304 revalidation the stored entry keeps its `redirectedURL`, its
    status, its body and its fill time; `revalidated` is the instant of the 304, the header is the
    stored one with the 304's lines merged in; every other entry of the cache is untouched -/
theorem revalidated_hop_keeps_target (store : Store) (sk : StoreKey) (e : Entry) (h304 : Header) (now : Int)
    (h : store.get sk = some e) :
    (∃ e', (store.revalidate sk h304 now).get sk = some e' ∧
       e'.redirectedURL = e.redirectedURL ∧ e'.status = e.status ∧ e'.body = e.body ∧ e'.created = e.created ∧
       e'.revalidated = now ∧ e'.header = Conditional.merge304 e.header (Conditional.dropZeroContentLength h304)) ∧
    (∀ k, k ≠ sk → (store.revalidate sk h304 now).get k = store.get k) := by
  unfold Store.revalidate
  rw [h]
  refine ⟨⟨e.after304 h304 now, store_get_put _ _ _, rfl, rfl, rfl, rfl, rfl, rfl⟩, ?_⟩
  intro k hk
  exact store_get_put_ne _ _ _ _ hk

/-- the performer is asked exactly the request the handler prepared -/
theorem route_contact_headers (cfg : RedirectCache.Cfg) (r : Redirect.Req) (o : Option RUrl) (f : Option Rule) (rt : Routed)
    (h : route cfg r o f = .ok rt) : rt.contact.headers = r.headers := by
  unfold route at h
  repeat' first | split at h | (dsimp only at h; split at h)
  all_goals first
    | (simp only [Except.ok.injEq] at h; subst h; rfl)
    | simp at h

theorem header_get_set (h : Header) (k v : Bytes) : Header.get (Header.set h k v) k = v := by
  simp [Header.get, Header.values, Header.set, Header.setRaw, Header.vals]

/-- the request of a RevalidatingWriter that sends a validator carries the stored validator under
    the header `util.RevalidateHeaders` names (for a stored ETag: `If-None-Match: <ETag>`) -/
theorem revalidation_request_conditional (client stored : Header)
    (hu : (surgeryOf true client stored).used.length > 0) :
    (surgeryOf true client stored).used = (Conditional.revalidateHeaders stored).1 ∧
    Header.get (surgeryOf true client stored).req (Conditional.revalidateHeaders stored).1 = (Conditional.revalidateHeaders stored).2.2 := by
  unfold surgeryOf Conditional.surgery at hu ⊢
  simp only [if_true, Bool.false_eq_true, if_false] at hu ⊢
  split
  · exact ⟨rfl, header_get_set _ _ _⟩
  · rename_i hn; rw [if_neg hn] at hu; simp at hu

/-- **revalidated_hop_followed**: a request whose stale stored redirect hop is confirmed by a 304:
    the re-entry after the 304 is answered by the Found site from the STORED target (`hnext`), and
    the whole request equals what a request `w` that finds the hop fresh and follows it to the same
    activation (the warm request: `hw`) does on the revalidated store — plus exactly one contact in
    front, the conditional request, which carries the stored validator.  In particular (`.2.1`):
    the client is sent the same `Sent`. -/
theorem revalidated_hop_followed (cfg : RedirectCache.Cfg) (now : Int) (n : Nat) (locks : List Bytes) (store : Store) (a : Act)
    (rule : Rule) (r : Redirect.Req) (rt : Routed)
    (hp : Prologue cfg a rule r)
    (hg : cacheGet store (rule.cacheId, keyOf rule r) (locks.contains (keyOf rule r)) now rule.forceRevalidate a.skipRevalidate = .writer true)
    (hroute : route cfg (writerReq store rule r true) a.overrideURL (some rule) = .ok rt)
    (h304 : Is304Row store rule r true rt)
    (hb : a.hops + 1 ≤ cfg.maxRedirects)
    (a'' : Act)
    (hnext : foundNext cfg now locks (store.revalidate (rule.cacheId, keyOf rule r) rt.resp.header now)
               (act304 store a rule r true rt) = some a'')
    (w : Act) (hwh : w.hops = a.hops)
    (hw : foundNext cfg now locks (store.revalidate (rule.cacheId, keyOf rule r) rt.resp.header now) w = some a'') :
    run cfg now (n + 2) locks store a =
      (run cfg now (n + 1) locks (store.revalidate (rule.cacheId, keyOf rule r) rt.resp.header now) w).prepend rt.contact ∧
    (∀ d, run cfg now (n + 1) locks (store.revalidate (rule.cacheId, keyOf rule r) rt.resp.header now) w = .done d →
       run cfg now (n + 2) locks store a = .done { sent := d.sent, contacts := rt.contact :: d.contacts, store := d.store }) ∧
    Header.get rt.contact.headers (Conditional.revalidateHeaders (store.headerOf (rule.cacheId, keyOf rule r))).1
      = (Conditional.revalidateHeaders (store.headerOf (rule.cacheId, keyOf rule r))).2.2 := by
  have h1 := revalidation_reenters cfg now (n + 1) locks store a rule r true rt hp hg hroute h304
  have h2 := found_reentry cfg now n locks _ _ a'' hnext (by show a.hops + 1 ≤ cfg.maxRedirects; exact hb)
  have h3 := found_reentry cfg now n locks _ w a'' hw (by omega)
  have hmain : run cfg now (n + 2) locks store a =
      (run cfg now (n + 1) locks (store.revalidate (rule.cacheId, keyOf rule r) rt.resp.header now) w).prepend rt.contact := by
    rw [h1, h2, h3]
  refine ⟨hmain, ?_, ?_⟩
  · intro d hd
    rw [hmain, hd]; rfl
  · have hc := route_contact_headers cfg _ _ _ rt hroute
    rw [hc]
    exact (revalidation_request_conditional _ _ h304.1).2

/-- **revalidated_final_served**: the same for a stored answer that is NOT a redirect to follow
    (the final hop of a chain, or any hop under a rule without restart_on_redirect): confirmed by
    a 304 it is replayed as stored — status, body, Location — under "revalidated", at the age the
    re-published entry has, after the one conditional contact -/
theorem revalidated_final_served (cfg : RedirectCache.Cfg) (now : Int) (n : Nat) (locks : List Bytes) (store : Store) (a : Act)
    (rule : Rule) (r : Redirect.Req) (rt : Routed)
    (hp : Prologue cfg a rule r)
    (hg : cacheGet store (rule.cacheId, keyOf rule r) (locks.contains (keyOf rule r)) now rule.forceRevalidate a.skipRevalidate = .writer true)
    (hroute : route cfg (writerReq store rule r true) a.overrideURL (some rule) = .ok rt)
    (h304 : Is304Row store rule r true rt)
    (rule' : Rule) (r' : Redirect.Req) (e : Entry) (age : Int) (stale : Bool)
    (hp' : Prologue cfg (act304 store a rule r true rt) rule' r')
    (hg' : cacheGet (store.revalidate (rule.cacheId, keyOf rule r) rt.resp.header now) (rule'.cacheId, keyOf rule' r')
             (locks.contains (keyOf rule' r')) now rule'.forceRevalidate true = .found e age stale)
    (hnr : ¬ (rule'.restartOnRedirect ∧ cfg.isRedirect e.status)) :
    run cfg now (n + 2) locks store a =
      .done { sent := .response e.status e.body (e.header.get b!"Location") { status := b!"revalidated", age := some age },
              contacts := [rt.contact], store := store.revalidate (rule.cacheId, keyOf rule r) rt.resp.header now } := by
  rw [revalidation_reenters cfg now (n + 1) locks store a rule r true rt hp hg hroute h304,
      hit_replays_entry cfg now n locks _ _ rule' r' e age stale hp' hg' hnr]
  rfl

def opsC : List Op := [.request b!"/p/a", .request b!"/p/b", .request b!"/f/a"]

/-- the former `historyC`: the history that fills the 2-cycle hop by hop and then asks for it
    through the restarting prefix ends with the 508 (it used to end with `runaway []`), for every
    fuel from 11 on -/
example : (history cfgC edge 40 t0 [] opsC).map (fun o => (Spec.C18Cache.obsOf o).status) = [302, 302, 508] := by decide

/-! ## The oracle on the model's outcomes -/

open Spec.C18Cache in
def nodesC : List CNode :=
  [{ path := b!"/a", redirect := true, status := 302, body := b!"moved-0", location := b!"http://h.test/f/b", cc := [], intended := 1, ruleIdx := -1 },
   { path := b!"/b", redirect := true, status := 302, body := b!"moved-1", location := b!"http://h.test/f/a", cc := [], intended := 0, ruleIdx := -1 }]

open Spec.C18Cache in
def reqOpsC : List ReqOp := [.request b!"/p/a" 0, .request b!"/p/b" 1, .request b!"/f/a" 0]

/-- the former `fails_witness_c`, repaired: the oracle ACCEPTS what the model does on the stored
    2-cycle (regression stream kf.C18-c, case 0; fuel 40 = the harness guard): the request through
    the restarting prefix is judged and found in order, no contact is made for it -/
example :
    let obs := (history cfgC edge 40 t0 [] opsC).map Spec.C18Cache.obsOf
    let st := Spec.C18Cache.holds nodesC [ruleP, ruleF] edge {} reqOpsC obs
    st.bad = [] ∧ st.oks = 1 ∧ obs.map (·.cut) = [none, none, none] ∧ obs.map (·.contacts.length) = [1, 1, 0] := by decide

/-- `/a` answers 302 with `no-store` on a cache-enabled restarting rule; `/b` is the target -/
def rootRule : Rule :=
  { host := b!"h.test", path := b!"/*", wci := some 1, dest := b!"http://d0.test/$1", cacheId := b!"c1", restartOnRedirect := true }

def cfgD : RedirectCache.Cfg := cfgOf [rootRule]
  [(b!"/a", { status := 302, location := b!"/b", cacheControl := b!"no-store", body := b!"moved-0" }),
   (b!"/b", { status := 200, cacheControl := b!"max-age=60", body := b!"target" })]

open Spec.C18Cache in
def nodesD : List CNode :=
  [{ path := b!"/a", redirect := true, status := 302, body := b!"moved-0", location := b!"/b", cc := b!"no-store", intended := 1, ruleIdx := -1 },
   { path := b!"/b", redirect := false, status := 200, body := b!"target", location := [], cc := b!"max-age=60", intended := -1, ruleIdx := -1 }]

/-- the model hands the 302 to the client, cold and again on the repeat -/
example : (history cfgD edge 40 t0 [] [.request b!"/a", .request b!"/a"]).map (fun o => (Spec.C18Cache.obsOf o).status) = [302, 302] := by decide

/-- **fails_witness_d**: the oracle rejects it (the chain ends at `/b`: 200 "target") -/
theorem fails_witness_d :
    (Spec.C18Cache.holds nodesD [rootRule] edge {} [.request b!"/a" 0, .request b!"/a" 0]
      ((history cfgD edge 40 t0 [] [.request b!"/a", .request b!"/a"]).map Spec.C18Cache.obsOf)).bad
      = ["bad:C18:final-response-is-not-the-sinks", "bad:C18:final-response-is-not-the-sinks"] := by decide

/-- the same graph without the directive: followed, stored, and the repeat is served from the
    cache without any contact — the oracle accepts both requests (non-vacuity of `holds`, and an
    instance of warm = cold over two hops) -/
def cfgOK : RedirectCache.Cfg := cfgOf [rootRule]
  [(b!"/a", { status := 302, location := b!"/b", body := b!"moved-0" }),
   (b!"/b", { status := 200, cacheControl := b!"max-age=60", body := b!"target" })]

open Spec.C18Cache in
def nodesOK : List CNode :=
  [{ path := b!"/a", redirect := true, status := 302, body := b!"moved-0", location := b!"/b", cc := [], intended := 1, ruleIdx := -1 },
   { path := b!"/b", redirect := false, status := 200, body := b!"target", location := [], cc := b!"max-age=60", intended := -1, ruleIdx := -1 }]

example :
    let obs := (history cfgOK edge 40 t0 [] [.request b!"/a", .request b!"/a"]).map Spec.C18Cache.obsOf
    let st := Spec.C18Cache.holds nodesOK [rootRule] edge {} [.request b!"/a" 0, .request b!"/a" 0] obs
    st.bad = [] ∧ st.oks = 2 ∧ obs.map (·.status) = [200, 200] ∧ obs.map (·.contacts.length) = [2, 0] := by decide

/-! ## Non-vacuity of the general theorems -/

def contactAt (path : Bytes) : Contact :=
  { url := { scheme := b!"http", host := b!"d0.test", path := path }, hostField := b!"d0.test", headers := [] }

def queryOf (target : Bytes) : Query := { scheme := b!"http", host := edge, uri := target, method := b!"GET" }

/-- `fill_then_hit`, `fill_stores_entry`, `hit_replays_entry`: `GET /b` (200, max-age=60) on the
    cache-enabled root rule meets every hypothesis -/
example : ∃ d d', run cfgOK t0 1 [] [] (clientGet b!"/b") = .done d ∧ run cfgOK t0 1 [] d.store (clientGet b!"/b") = .done d' ∧
    d'.contacts = [] ∧ d'.store = d.store := by
  obtain ⟨d, d', h1, h2, _, h3, h4⟩ :=
    fill_then_hit cfgOK t0 0 0 [] (clientGet b!"/b") rootRule (clientGet b!"/b").req false
      { rule := rootRule, contact := contactAt b!"/b", resp := { status := 200, cacheControl := b!"max-age=60", body := b!"target" }, redir := none }
      ⟨queryOf b!"/b", rfl, rfl, rfl, by decide⟩ rfl rfl (by decide) rfl rfl (by decide) rfl rfl 0 rfl
  exact ⟨d, d', h1, h2, h3, h4⟩

/-- `uncacheable_redirect_not_followed`: `GET /a` (302, no-store) on the restarting root rule -/
example : run cfgD t0 40 [] [] (clientGet b!"/a") =
    .done { sent := .response 302 b!"moved-0" b!"/b" { status := b!"uncacheable" }, contacts := [contactAt b!"/a"], store := [] } :=
  uncacheable_redirect_not_followed cfgD t0 39 [] [] (clientGet b!"/a") rootRule (clientGet b!"/a").req false
    { rule := rootRule, contact := contactAt b!"/a",
      resp := { status := 302, location := b!"/b", cacheControl := b!"no-store", body := b!"moved-0" }, redir := some { path := b!"/b" } }
    ⟨queryOf b!"/a", rfl, rfl, rfl, by decide⟩ rfl rfl rfl

/-- `found_reentry` / `found_bound_508` / `found_loop_508`: `cycle2_first`, `cycle2_round`,
    `cycle2_still`, `self_round`, `self_still` are instances; the store is reachable (`storeC` is
    what two requests leave behind) -/
example : history cfgC edge 1 t0 [] [.request b!"/p/a", .request b!"/p/b"] =
    [.done (doneOf (run cfgC t0 1 [] [] (clientGet b!"/p/a"))), .done (doneOf (run cfgC t0 1 [] storeA (clientGet b!"/p/b")))] := by rfl

/-- the bound also ends a loop that runs below a writer: `/x → /a` is fetched (cold) while the
    2-cycle `/a ↔ /b` is in the cache; the 508 written at the Found site is the client's answer,
    and `/x`'s own hop is stored while the stack unwinds (one contact, three entries) -/
def cfgX : RedirectCache.Cfg := cfgOf [ruleP, ruleF]
  [(b!"/a", { status := 302, location := b!"http://h.test/f/b", body := b!"moved-0" }),
   (b!"/b", { status := 302, location := b!"http://h.test/f/a", body := b!"moved-1" }),
   (b!"/x", { status := 302, location := b!"http://h.test/f/a", body := b!"moved-x" })]

example :
    let outs := history cfgX edge 40 t0 [] [.request b!"/p/a", .request b!"/p/b", .request b!"/f/x", .request b!"/f/x"]
    outs.map (fun o => (Spec.C18Cache.obsOf o).status) = [302, 302, 508, 508] ∧
    outs.map (fun o => (Spec.C18Cache.obsOf o).contacts.length) = [1, 1, 1, 0] ∧
    outs.map (fun o => (doneOf o).store.length) = [1, 2, 3, 3] := by decide

/-- the counter below nested WRITER activations (regression stream kf.C18-c, case 3): a 12-cycle
    fetched cold through a cache-enabled restarting rule.  Ten writers nest, the eleventh answer is
    a redirect again: 508 from the writer site after 11 contacts, and the ten hops are stored while
    the stack unwinds (the eleventh is not).  The repeat follows the ten stored hops, fetches the
    eleventh and is answered 508 after that one contact. -/
def ringName (i : Nat) : Bytes := b!"/c" ++ (Nat.toDigits 10 i).map Char.toNat

def cfgRing : RedirectCache.Cfg := cfgOf [rootRule]
  ((List.range 12).map fun i => (ringName i, ({ status := 302, location := ringName ((i + 1) % 12), body := b!"moved" } : OResp)))

example :
    let outs := history cfgRing edge 40 t0 [] [.request b!"/c0", .request b!"/c0"]
    outs.map (fun o => (Spec.C18Cache.obsOf o).status) = [508, 508] ∧
    outs.map (fun o => (Spec.C18Cache.obsOf o).cut) = [none, none] ∧
    outs.map (fun o => (Spec.C18Cache.obsOf o).contacts.length) = [11, 1] ∧
    outs.map (fun o => (doneOf o).store.length) = [10, 10] := by decide

/-! ## Validators: concrete histories and non-vacuity of the 304 theorems -/

/-- an origin keyed by request path that honours `If-None-Match`: a request naming the current
    ETag of the path is answered 304 (ETag, the same Cache-Control, no body) -/
def originCond (tbl : List (Bytes × OResp)) (c : Contact) : Option OResp :=
  if c.url.scheme = b!"http" ∧ c.url.host = b!"d0.test" then
    match tbl.lookup c.url.path with
    | some r =>
      if r.etag ≠ [] ∧ Header.get c.headers b!"If-None-Match" = r.etag then
        some { status := 304, cacheControl := r.cacheControl, etag := r.etag }
      else some r
    | none => some { status := 404, body := b!"unknown" }
  else none

/-- `/a` → 302 `/b` with a validator, `/b` → 200 with a validator, both live for 60 s -/
def cfgV : RedirectCache.Cfg :=
  { rules := [rootRule],
    origin := originCond [(b!"/a", { status := 302, location := b!"/b", cacheControl := b!"max-age=60", body := b!"moved-0", etag := b!"\"v0\"" }),
                          (b!"/b", { status := 200, cacheControl := b!"max-age=60", body := b!"target", etag := b!"\"v1\"" })],
    isRedirect := fun s => Spec.redirectStatuses.contains s, hasStorage := fun id => id == b!"c1", maxRedirects := Spec.maxRedirects }

def inmOf (c : Contact) : Bytes := Header.get c.headers b!"If-None-Match"

/-- cold, warm, 61 s later (both hops are due: each is confirmed by a 304 and the STORED target of
    `/a` is followed), warm again: the client receives `200 target` four times; the third request
    makes exactly two contacts, both conditional, and hands out the entry as "revalidated" at age 0 -/
example :
    let outs := history cfgV edge 40 t0 [] [.request b!"/a", .request b!"/a", .tick 61, .request b!"/a", .request b!"/a"]
    outs.map (fun o => (Spec.C18Cache.obsOf o).status) = [200, 200, 200, 200] ∧
    outs.map (fun o => (Spec.C18Cache.obsOf o).body) = List.replicate 4 (toHex b!"target") ∧
    outs.map (fun o => (Spec.C18Cache.obsOf o).cacheStatus) = [b!"miss", b!"hit", b!"revalidated", b!"hit"] ∧
    outs.map (fun o => (doneOf o).contacts.map inmOf) = [[[], []], [], [b!"\"v0\"", b!"\"v1\""], []] ∧
    outs.map (fun o => (doneOf o).store.map (·.2.redirectedURL)) =
      [[b!"http://d0.test/b", []], [b!"http://d0.test/b", []], [[], b!"http://d0.test/b"], [[], b!"http://d0.test/b"]] := by decide

/-- the store the cold request leaves behind, and the instant at which both entries are due -/
def storeV : Store := (doneOf (run cfgV t0 40 [] [] (clientGet b!"/a"))).store
def t61 : Int := t0 + 61

def contactCond (path etag : Bytes) : Contact :=
  { url := { scheme := b!"http", host := b!"d0.test", path := path }, hostField := b!"d0.test",
    headers := [(b!"If-None-Match", [etag])] }

def rt304 : Routed :=
  { rule := rootRule, contact := contactCond b!"/a" b!"\"v0\"",
    resp := { status := 304, cacheControl := b!"max-age=60", etag := b!"\"v0\"" }, redir := none }

/-- `revalidation_reenters`, `revalidated_hop_keeps_target`, `revalidated_hop_followed`: `GET /a`
    at `t61` on `storeV` meets every hypothesis; the warm request `w` is the client's own request
    (at the same instant, on the revalidated store, it finds the hop fresh) -/
example : ∃ d, run cfgV t61 39 [] (storeV.revalidate (b!"c1", keyOf rootRule (clientGet b!"/a").req) rt304.resp.header t61) (clientGet b!"/a") = .done d ∧
    run cfgV t61 40 [] storeV (clientGet b!"/a") = .done { sent := d.sent, contacts := rt304.contact :: d.contacts, store := d.store } ∧
    inmOf rt304.contact = b!"\"v0\"" := by
  obtain ⟨_, h2, h3⟩ :=
    revalidated_hop_followed cfgV t61 38 [] storeV (clientGet b!"/a") rootRule (clientGet b!"/a").req rt304
      ⟨queryOf b!"/a", rfl, rfl, rfl, by decide⟩ rfl rfl (by decide) (by decide)
      _ rfl (clientGet b!"/a") rfl rfl
  exact ⟨doneOf (run cfgV t61 39 [] (storeV.revalidate (b!"c1", keyOf rootRule (clientGet b!"/a").req) rt304.resp.header t61) (clientGet b!"/a")),
    rfl, h2 _ rfl, by decide⟩

example : (storeV.get (b!"c1", keyOf rootRule (clientGet b!"/a").req)).map (·.redirectedURL) = some b!"http://d0.test/b" := by decide

/-- what a cold `GET /b` leaves behind (the client's own `/b` has the edge host in its key) -/
def storeVB : Store := (doneOf (run cfgV t0 40 [] [] (clientGet b!"/b"))).store

/-- `revalidated_final_served`: `GET /b` at `t61` on `storeVB` (the 200 is confirmed by a 304 and
    replayed from the cache under "revalidated"; the entry is re-stamped) -/
example :
    let o := run cfgV t61 40 [] storeVB (clientGet b!"/b")
    (Spec.C18Cache.obsOf o).status = 200 ∧ (Spec.C18Cache.obsOf o).body = toHex b!"target" ∧
    (Spec.C18Cache.obsOf o).cacheStatus = b!"revalidated" ∧ (doneOf o).contacts.map inmOf = [b!"\"v1\""] ∧
    (doneOf o).store.map (fun x => (x.2.status, x.2.revalidated - t0)) = [(200, 61)] := by decide

/-- `skip_never_revalidates` / `run_not_runaway`: with `skipRevalidate` an entry that is due is
    served (Found, `IsStale`), not revalidated: `GET /b` at `t61` as a 304 re-entry would run -/
example :
    let o := run cfgV t61 1 [] storeVB { clientGet b!"/b" with skipRevalidate := true }
    (Spec.C18Cache.obsOf o).status = 200 ∧ (Spec.C18Cache.obsOf o).cacheStatus = b!"stale" ∧ (doneOf o).contacts.length = 0 := by decide

/-- finding C09-b seen from C18 (witness stream kf.C09-b.sysrc, case 0): the 304 that confirms the
    due redirect hop says `no-store` -/
def cfgB : RedirectCache.Cfg :=
  { cfgV with origin := fun c =>
      match originCond [(b!"/a", { status := 302, location := b!"/b", cacheControl := b!"max-age=60", body := b!"moved-0", etag := b!"\"v0\"" }),
                        (b!"/b", { status := 200, cacheControl := b!"max-age=60", body := b!"target" })] c with
      | some r => if r.status = 304 then some { r with cacheControl := b!"no-store" } else some r
      | none => none }

open Spec.C18Cache in
def nodesB : List CNode :=
  [{ path := b!"/a", redirect := true, status := 302, body := b!"moved-0", location := b!"/b", cc := b!"max-age=60", intended := 1, ruleIdx := -1,
     etag := b!"\"v0\"", cc304 := b!"no-store" },
   { path := b!"/b", redirect := false, status := 200, body := b!"target", location := [], cc := b!"max-age=60", intended := -1, ruleIdx := -1 }]

/-- **fails_witness_09b**: cold the chain is followed; 61 s later the hop is due, the origin
    confirms it with `304 … no-store`, and the client is handed that 304: the oracle rejects it; the
    input lies in the class -/
theorem fails_witness_09b :
    let ops : List Op := [.request b!"/a", .tick 61, .request b!"/a"]
    let obs := (history cfgB edge 40 t0 [] ops).map Spec.C18Cache.obsOf
    obs.map (·.status) = [200, 304] ∧
    (Spec.C18Cache.holds nodesB [rootRule] edge {} [.request b!"/a" 0, .tick 61, .request b!"/a" 0] obs).bad
      = ["bad:C18:final-response-is-not-the-sinks"] ∧
    Spec.C18Cache.inClass_C09_b nodesB (Spec.C18Cache.chainOf nodesB [rootRule] edge b!"/a" 0) true = true := by decide

/-- the fuel bound of `cached_terminates` is attained up to the last activation: the 12-ring with
    validators, every hop stored and due — each of the ten hops the counter allows is confirmed by a
    304 (two activations per hop), the eleventh answer (a hop that was never stored: fetched) is a
    redirect the counter refuses: 21 activations (fuel 20 is cut, fuel 21 serves it), 10 conditional
    contacts and one plain one, 508 -/
def cfgRingV : RedirectCache.Cfg :=
  { rules := [rootRule],
    origin := originCond ((List.range 12).map fun i =>
      (ringName i, ({ status := 302, location := ringName ((i + 1) % 12), cacheControl := b!"max-age=60", body := b!"moved", etag := b!"\"r\"" } : OResp))),
    isRedirect := fun s => Spec.redirectStatuses.contains s, hasStorage := fun id => id == b!"c1", maxRedirects := Spec.maxRedirects }

def storeRingV : Store :=
  (doneOf (run cfgRingV t0 40 [] (doneOf (run cfgRingV t0 40 [] [] (clientGet b!"/c0"))).store (clientGet b!"/c10"))).store

example : storeRingV.length = 13 := by decide

example :
    isRunaway (run cfgRingV t61 20 [] storeRingV (clientGet b!"/c0")) = true ∧
    (Spec.C18Cache.obsOf (run cfgRingV t61 21 [] storeRingV (clientGet b!"/c0"))).status = 508 ∧
    (doneOf (run cfgRingV t61 21 [] storeRingV (clientGet b!"/c0"))).contacts.map inmOf = List.replicate 10 b!"\"r\"" ++ [[]] := by decide

end Props.C18Cache
