import RrModel.RedirectCache
import RrModel.Spec.C18Cache
import RrModel.Spec.Tables
/-
  C18 on cache-enabled rules (model RrModel/RedirectCache.lean).

  * `found_reentry` (full): the Found site of cachingFunc is a PURE re-entry — no comparison of
    any kind, no contact, no lock, the cache unchanged, `alwaysInclude` reset.
  * `found_cycle_runs_away` (full): if Found re-entries lead an activation back to itself, the
    handler never answers, for EVERY fuel, and without a single origin contact (finding C18-c).
  * `cycle2_runs_away`, `self_runs_away` (witnesses): a 2-cycle and a plain self-redirect, stored
    hop by hop through a non-restarting rule that shares the cache, read through the restarting
    one; the stores are the ones the model's own history produces.
  * `CachedTerminationStatement_false` (negation): no fuel bound serves every history.
  * `hit_replays_entry` (full): a fresh stored non-redirect answer is replayed (status, body)
    without contact and without touching the cache.
  * `fill_then_hit` (full): warm = cold for a request answered by its first hop: whatever rule
    set, origin and state — if the cold run fills the cache from a non-redirect answer and the
    entry is fresh, the immediate repeat returns the same status and body without any contact.
  * `uncacheable_redirect_not_followed` (full, finding C18-d): in the writer branch a redirect
    with a do-not-cache directive is handed to the client, whatever restart_on_redirect says.
  * `fails_witness_c`, `fails_witness_d` (witnesses): the oracle rejects the model's outcome.
-/
namespace Props.C18Cache
open Go Model Model.Redirect Model.RedirectCache

/-! ## The Found site -/

/-- the conditions under which an activation is answered by the Found site's re-entry, and the
    activation it re-enters with (server.go:96-106, 140-141, 204-213) -/
def foundNext (cfg : RedirectCache.Cfg) (now : Int) (locks : List Bytes) (store : Store) (a : Act) : Option Act :=
  match query a.req with
  | .panic _ => none
  | .ok q1 =>
    let matched := matchedRule cfg.rules q1
    let r : Redirect.Req := { a.req with headers := preprocess a.req.headers ((matched.map (·.requestHeaders)).getD []) }
    let rf := effectiveRule matched a.frf
    let cacheId := (rf.map (·.cacheId)).getD []
    if cacheId.length = 0 ∨ ¬ cfg.hasStorage cacheId ∨ ¬ (r.method = b!"GET" ∨ r.method = b!"HEAD") then none
    else
      match rf with
      | none => none
      | some rule =>
        match cacheGet store (cacheId, keyOf rule r) (locks.contains (keyOf rule r)) now rule.forceRevalidate with
        | .found e _ =>
          if rule.restartOnRedirect ∧ cfg.isRedirect e.status then
            (RedirectCache.requestWithRedirect r e.redirectedURL).map fun rr =>
              { req := rr, overrideURL := some rr.url, frf := some rule, inc := {} }
          else none
        | _ => none

/-- **found_reentry**: whenever the Found site applies, one activation of `cachingFunc` is
    EXACTLY the next one: nothing is compared with anything (no `urlEquals`, no hop count), nothing
    is contacted, no lock is taken, the store is untouched -/
theorem found_reentry (cfg : RedirectCache.Cfg) (now : Int) (n : Nat) (locks : List Bytes) (store : Store) (a a' : Act)
    (h : foundNext cfg now locks store a = some a') :
    run cfg now (n + 1) locks store a = run cfg now n locks store a' := by
  unfold foundNext at h
  conv => lhs; unfold run
  cases hq : query a.req with
  | panic s => rw [hq] at h; simp at h
  | ok q1 =>
    rw [hq] at h
    simp only at h ⊢
    split at h
    · simp at h
    · rename_i hc
      rw [if_neg hc]
      cases hrf : effectiveRule (matchedRule cfg.rules q1) a.frf with
      | none => rw [hrf] at h; simp at h
      | some rule =>
        rw [hrf] at h
        simp only at h ⊢
        split at h
        · rename_i e age hg
          simp only [Option.map_some, Option.getD_some] at hg
          split at h
          · rename_i hr
            cases hrr : RedirectCache.requestWithRedirect
                { a.req with headers := preprocess a.req.headers ((Option.map (·.requestHeaders) (matchedRule cfg.rules q1)).getD []) }
                e.redirectedURL with
            | none => rw [hrr] at h; simp at h
            | some rr =>
              rw [hrr] at h
              simp only [Option.map_some, Option.some.injEq] at h
              subst h
              simp only [Option.map_some, Option.getD_some, hg, hr, and_self, if_true, hrr]
          · simp at h
        all_goals simp at h

/-- `k` Found re-entries in a row -/
def foundAt (cfg : RedirectCache.Cfg) (now : Int) (locks : List Bytes) (store : Store) : Nat → Act → Option Act
  | 0, a => some a
  | k + 1, a =>
    match foundNext cfg now locks store a with
    | none => none
    | some a' => foundAt cfg now locks store k a'

theorem run_foundAt (cfg : RedirectCache.Cfg) (now : Int) (locks : List Bytes) (store : Store) (k n : Nat) (a s : Act)
    (h : foundAt cfg now locks store k a = some s) :
    run cfg now (n + k) locks store a = run cfg now n locks store s := by
  induction k generalizing a with
  | zero => simp only [foundAt, Option.some.injEq] at h; subst h; rfl
  | succ k ih =>
    unfold foundAt at h
    cases hf : foundNext cfg now locks store a with
    | none => rw [hf] at h; simp at h
    | some a' =>
      rw [hf] at h
      simp only at h
      rw [show n + (k + 1) = (n + k) + 1 by omega, found_reentry cfg now (n + k) locks store a a' hf]
      exact ih a' h

theorem foundAt_short (cfg : RedirectCache.Cfg) (now : Int) (locks : List Bytes) (store : Store) (k : Nat) (a s : Act)
    (h : foundAt cfg now locks store k a = some s) :
    ∀ n, n ≤ k → run cfg now n locks store a = .runaway [] := by
  induction k generalizing a with
  | zero => intro n hn; have : n = 0 := by omega
            subst this; rfl
  | succ k ih =>
    intro n hn
    cases n with
    | zero => rfl
    | succ m =>
      unfold foundAt at h
      cases hf : foundNext cfg now locks store a with
      | none => rw [hf] at h; simp at h
      | some a' =>
        rw [hf] at h
        simp only at h
        rw [found_reentry cfg now m locks store a a' hf]
        exact ih a' h m (by omega)

/-- **found_cycle_runs_away** (finding C18-c): if Found re-entries bring an activation back to
    itself after `k > 0` steps, then for EVERY fuel the request is not answered, and not one
    origin contact is made -/
theorem found_cycle_runs_away (cfg : RedirectCache.Cfg) (now : Int) (locks : List Bytes) (store : Store) (k : Nat) (a : Act)
    (hk : 0 < k) (h : foundAt cfg now locks store k a = some a) :
    ∀ n, run cfg now n locks store a = .runaway [] := by
  intro n
  induction n using Nat.strongRecOn with
  | _ n ih =>
    by_cases hn : n ≤ k
    · exact foundAt_short cfg now locks store k a a h n hn
    · have := run_foundAt cfg now locks store k (n - k) a a h
      rw [show n - k + k = n by omega] at this
      rw [this]
      exact ih (n - k) (by omega)

/-! ## A hit, and warm = cold for a request answered by its first hop -/

/-- the part of the prologue every cached branch shares: the effective rule with its cache, the
    request after the header overrides, and the storage key -/
def Prologue (cfg : RedirectCache.Cfg) (a : Act) (rule : Rule) (r : Redirect.Req) : Prop :=
  ∃ q : Query, query a.req = .ok q ∧
    r = { a.req with headers := preprocess a.req.headers ((Option.map (·.requestHeaders) (matchedRule cfg.rules q)).getD []) } ∧
    effectiveRule (matchedRule cfg.rules q) a.frf = some rule ∧
    ¬ (rule.cacheId.length = 0 ∨ ¬ cfg.hasStorage rule.cacheId ∨ ¬ (r.method = b!"GET" ∨ r.method = b!"HEAD"))

/-- **hit_replays_entry**: a fresh stored answer that is not a redirect to be followed is
    replayed as it was stored — status, body, Location — without any contact, and the cache
    stays as it is -/
theorem hit_replays_entry (cfg : RedirectCache.Cfg) (now : Int) (n : Nat) (locks : List Bytes) (store : Store) (a : Act)
    (rule : Rule) (r : Redirect.Req) (e : Entry) (age : Int)
    (hp : Prologue cfg a rule r)
    (hg : cacheGet store (rule.cacheId, keyOf rule r) (locks.contains (keyOf rule r)) now rule.forceRevalidate = .found e age)
    (hnr : ¬ (rule.restartOnRedirect ∧ cfg.isRedirect e.status)) :
    run cfg now (n + 1) locks store a =
      .done { sent := .response e.status e.body (e.header.get b!"Location") { status := hitStatus a.inc, age := some age },
              contacts := [], store := store } := by
  obtain ⟨q, hq, hr, hrf, hcache⟩ := hp
  subst hr
  unfold run
  simp only [hq, hrf, Option.map_some, Option.getD_some]
  rw [if_neg hcache]
  simp only [hg, if_neg hnr]

/-- what the writer branch does with a cacheable answer that is not a redirect (server.go
    311-457 for this case): the entry it publishes -/
theorem fill_stores_entry (cfg : RedirectCache.Cfg) (now : Int) (n : Nat) (locks : List Bytes) (store : Store) (a : Act)
    (rule : Rule) (r : Redirect.Req) (reval : Bool) (rt : Routed)
    (hp : Prologue cfg a rule r)
    (hg : cacheGet store (rule.cacheId, keyOf rule r) (locks.contains (keyOf rule r)) now rule.forceRevalidate = .writer reval)
    (hroute : route cfg r a.overrideURL (some rule) = .ok rt)
    (hdnc : (getCacheControlDirectives rt.resp.header).doNotCache = false)
    (hsie : (reval && decide (rt.resp.status ≥ 400) && staleIfErrorGranted store (rule.cacheId, keyOf rule r)) = false)
    (hgate : ¬ (¬ inGate cfg rt.resp.status ∨ (rt.resp.status = 200 ∧ rt.resp.body = [])))
    (hnored : rt.redir = none) :
    run cfg now (n + 1) locks store a =
      .done { sent := .response rt.resp.status rt.resp.body rt.resp.location
                        { status := if reval then b!"revalidated" else b!"miss", age := some 0 },
              contacts := [rt.contact],
              store := store.put (rule.cacheId, keyOf rule r) (entryOf rt.resp [] now reval) } := by
  obtain ⟨q, hq, hr, hrf, hcache⟩ := hp
  subst hr
  unfold run
  simp only [hq, hrf, Option.map_some, Option.getD_some]
  rw [if_neg hcache]
  simp only [hg, hroute, hdnc, hsie, if_neg hgate, hnored]
  simp

theorem store_get_put (s : Store) (k : StoreKey) (e : Entry) : (s.put k e).get k = some e := by
  simp [Store.get, Store.put]

/-- **fill_then_hit** (warm = cold, one hop): for every rule set, origin, cache state and
    activation — if the cold run fills the cache from a non-redirect answer and that entry counts
    as fresh at the same instant, the immediate repeat answers with the SAME status and body,
    contacts nobody and leaves the cache as the fill left it -/
theorem fill_then_hit (cfg : RedirectCache.Cfg) (now : Int) (n m : Nat) (store : Store) (a : Act)
    (rule : Rule) (r : Redirect.Req) (reval : Bool) (rt : Routed)
    (hp : Prologue cfg a rule r)
    (hg : cacheGet store (rule.cacheId, keyOf rule r) false now rule.forceRevalidate = .writer reval)
    (hroute : route cfg r a.overrideURL (some rule) = .ok rt)
    (hdnc : (getCacheControlDirectives rt.resp.header).doNotCache = false)
    (hsie : (reval && decide (rt.resp.status ≥ 400) && staleIfErrorGranted store (rule.cacheId, keyOf rule r)) = false)
    (hgate : ¬ (¬ inGate cfg rt.resp.status ∨ (rt.resp.status = 200 ∧ rt.resp.body = [])))
    (hnored : rt.redir = none)
    (hnr : cfg.isRedirect rt.resp.status = false)
    (age : Int)
    (hfresh : Freshness.get false { header := (entryOf rt.resp [] now reval).header, created := now,
                                    revalidated := if reval then now else 0 } now rule.forceRevalidate false [] [] none
              = .ok (.foundFresh age)) :
    ∃ d d', run cfg now (n + 1) [] store a = .done d ∧ run cfg now (m + 1) [] d.store a = .done d' ∧
      (∃ inc inc', d.sent = .response rt.resp.status rt.resp.body rt.resp.location inc ∧
                   d'.sent = .response rt.resp.status rt.resp.body (((entryOf rt.resp [] now reval).header).get b!"Location") inc') ∧
      d'.contacts = [] ∧ d'.store = d.store := by
  have hcold := fill_stores_entry cfg now n [] store a rule r reval rt hp (by simpa using hg) hroute hdnc hsie hgate hnored
  let st' := store.put (rule.cacheId, keyOf rule r) (entryOf rt.resp [] now reval)
  have hg' : cacheGet st' (rule.cacheId, keyOf rule r) (([] : List Bytes).contains (keyOf rule r)) now rule.forceRevalidate
      = .found (entryOf rt.resp [] now reval) age := by
    simp only [cacheGet, st', store_get_put, List.contains_nil]
    have : (entryOf rt.resp [] now reval).created = now ∧ (entryOf rt.resp [] now reval).revalidated = (if reval then now else 0) := by
      simp [entryOf]
    rw [this.1, this.2, hfresh]
  have hwarm := hit_replays_entry cfg now m [] st' a rule r (entryOf rt.resp [] now reval) age hp hg'
    (by intro ⟨_, h2⟩; simp [entryOf, hnr] at h2)
  refine ⟨_, _, hcold, hwarm, ⟨{ status := if reval then b!"revalidated" else b!"miss", age := some 0 },
    { status := hitStatus a.inc, age := some age }, rfl, ?_⟩, rfl, rfl⟩
  simp [entryOf]

/-! ## The do-not-cache branch (finding C18-d) -/

/-- **uncacheable_redirect_not_followed**: in the writer branch an answer with a do-not-cache
    directive goes to the client as it is — also a redirect under restart_on_redirect; the
    re-entry of server.go:418-426 sits in the other branch -/
theorem uncacheable_redirect_not_followed (cfg : RedirectCache.Cfg) (now : Int) (n : Nat) (locks : List Bytes) (store : Store) (a : Act)
    (rule : Rule) (r : Redirect.Req) (reval : Bool) (rt : Routed)
    (hp : Prologue cfg a rule r)
    (hg : cacheGet store (rule.cacheId, keyOf rule r) (locks.contains (keyOf rule r)) now rule.forceRevalidate = .writer reval)
    (hroute : route cfg r a.overrideURL (some rule) = .ok rt)
    (hdnc : (getCacheControlDirectives rt.resp.header).doNotCache = true) :
    run cfg now (n + 1) locks store a =
      .done { sent := .response rt.resp.status rt.resp.body rt.resp.location { a.inc with status := b!"uncacheable" },
              contacts := [rt.contact], store := store } := by
  obtain ⟨q, hq, hr, hrf, hcache⟩ := hp
  subst hr
  unfold run
  simp only [hq, hrf, Option.map_some, Option.getD_some]
  rw [if_neg hcache]
  simp only [hg, hroute, hdnc, if_true]

/-! ## Concrete configurations (witnesses and non-vacuity) -/

/-- two prefixes, one destination, one cache; only `/f/*` restarts -/
def ruleP : Rule := { path := b!"/p/*", wci := some 3, dest := b!"http://d0.test/$1", cacheId := b!"c1" }
def ruleF : Rule := { path := b!"/f/*", wci := some 3, dest := b!"http://d0.test/$1", cacheId := b!"c1", restartOnRedirect := true }

/-- an origin keyed by request path; only `d0.test` answers -/
def originOf (tbl : List (Bytes × OResp)) (c : Contact) : Option OResp :=
  if c.url.scheme = b!"http" ∧ c.url.host = b!"d0.test" then
    match tbl.lookup c.url.path with
    | some r => some r
    | none => some { status := 404, body := b!"unknown" }
  else none

def cfgOf (rules : List Rule) (tbl : List (Bytes × OResp)) : RedirectCache.Cfg :=
  { rules := rules, origin := originOf tbl, isRedirect := fun s => Spec.redirectStatuses.contains s,
    hasStorage := fun id => id == b!"c1" }

def t0 : Int := 1700000000
def edge : Bytes := b!"h.test"

/-- the 2-cycle `/a → /b → /a`, Locations absolute and back through the restarting prefix -/
def cfgC : RedirectCache.Cfg := cfgOf [ruleP, ruleF]
  [(b!"/a", { status := 302, location := b!"http://h.test/f/b", body := b!"moved-0" }),
   (b!"/b", { status := 302, location := b!"http://h.test/f/a", body := b!"moved-1" })]

def clientGet (target : Bytes) : Act :=
  { req := { url := { path := target }, host := edge, headers := [], method := b!"GET" } }

example : clientAct b!"/f/a" edge = some (clientGet b!"/f/a") := by rfl

/-- a request re-entered from the Found site under `/f/*` -/
def reentered (path : Bytes) : Act :=
  { req := { url := { scheme := b!"http", host := edge, path := path }, host := edge, headers := [], method := b!"GET" },
    overrideURL := some { scheme := b!"http", host := edge, path := path }, frf := some ruleF }

def doneOf : RedirectCache.Outcome → Done
  | .done d => d
  | _ => { sent := .outside, contacts := [], store := [] }

/-- the cache after `/p/a`, and after `/p/a` and `/p/b`: both hops asked for through the
    NON-restarting prefix (each request: one activation, one contact, the 302 handed to the client
    and stored) — computed by the model itself -/
def storeA : Store := (doneOf (run cfgC t0 1 [] [] (clientGet b!"/p/a"))).store
def storeC : Store := (doneOf (run cfgC t0 1 [] storeA (clientGet b!"/p/b"))).store

example : storeC.length = 2 := by decide
example : (storeC.map (·.2.redirectedURL)) = [b!"http://h.test/f/a", b!"http://h.test/f/b"] := by decide

theorem cycle2_first : foundNext cfgC t0 [] storeC (clientGet b!"/f/a") = some (reentered b!"/f/b") := by rfl
theorem cycle2_cycle : foundAt cfgC t0 [] storeC 2 (reentered b!"/f/b") = some (reentered b!"/f/b") := by rfl

/-- **cycle2_runs_away**: with both hops of the loop in the cache, `GET /f/a` is never answered,
    whatever the fuel — and the origin is never contacted -/
theorem cycle2_runs_away : ∀ n, run cfgC t0 n [] storeC (clientGet b!"/f/a") = .runaway [] := by
  intro n
  cases n with
  | zero => rfl
  | succ n =>
    rw [found_reentry cfgC t0 n [] storeC _ _ cycle2_first]
    exact found_cycle_runs_away cfgC t0 [] storeC 2 _ (by omega) cycle2_cycle n

/-- a plain self-redirect: on the writer path `urlEquals` would see nothing either (absolute
    Location, origin-form request), on the Found path nobody looks -/
def cfgS : RedirectCache.Cfg := cfgOf [ruleP, ruleF]
  [(b!"/a", { status := 301, location := b!"http://h.test/f/a", body := b!"moved-0" })]

def storeS : Store := (doneOf (run cfgS t0 1 [] [] (clientGet b!"/p/a"))).store

theorem self_first : foundNext cfgS t0 [] storeS (clientGet b!"/f/a") = some (reentered b!"/f/a") := by rfl
theorem self_cycle : foundAt cfgS t0 [] storeS 1 (reentered b!"/f/a") = some (reentered b!"/f/a") := by rfl

theorem self_runs_away : ∀ n, run cfgS t0 n [] storeS (clientGet b!"/f/a") = .runaway [] := by
  intro n
  cases n with
  | zero => rfl
  | succ n =>
    rw [found_reentry cfgS t0 n [] storeS _ _ self_first]
    exact found_cycle_runs_away cfgS t0 [] storeS 1 _ (by omega) self_cycle n

/-! ## Termination on the cached path: stated at full strength, refuted -/

def isRunaway : RedirectCache.Outcome → Bool
  | .runaway _ => true
  | _ => false

/-- "Redirect chains that loop, … whether or not the hops are cached, end in an error response
    after a bounded number of hops": some bound on the nesting serves every request of every
    history, on every rule set and origin -/
def CachedTerminationStatement : Prop :=
  ∃ N, ∀ (cfg : RedirectCache.Cfg) (host : Bytes) (now : Int) (ops : List Op),
    ∀ o ∈ history cfg host N now [] ops, isRunaway o = false

def opsC : List Op := [.request b!"/p/a", .request b!"/p/b", .request b!"/f/a"]

/-- the two fills need one activation each, whatever the fuel -/
theorem fillA (m : Nat) : run cfgC t0 (m + 1) [] [] (clientGet b!"/p/a")
    = .done (doneOf (run cfgC t0 1 [] [] (clientGet b!"/p/a"))) := by rfl

theorem fillB (m : Nat) : run cfgC t0 (m + 1) [] storeA (clientGet b!"/p/b")
    = .done (doneOf (run cfgC t0 1 [] storeA (clientGet b!"/p/b"))) := by rfl

theorem historyC (m : Nat) : (history cfgC edge (m + 1) t0 [] opsC).getLast? = some (.runaway []) := by
  have h1 : clientAct b!"/p/a" edge = some (clientGet b!"/p/a") := rfl
  have h2 : clientAct b!"/p/b" edge = some (clientGet b!"/p/b") := rfl
  have h3 : clientAct b!"/f/a" edge = some (clientGet b!"/f/a") := rfl
  have hA : (doneOf (run cfgC t0 1 [] [] (clientGet b!"/p/a"))).store = storeA := rfl
  have hB : (doneOf (run cfgC t0 1 [] storeA (clientGet b!"/p/b"))).store = storeC := rfl
  simp only [opsC, history, h1, h2, h3, fillA m, hA, fillB m, hB, cycle2_runs_away (m + 1)]
  rfl

/-- **CachedTerminationStatement_false** (finding C18-c) -/
theorem CachedTerminationStatement_false : ¬ CachedTerminationStatement := by
  intro ⟨N, h⟩
  cases N with
  | zero =>
    have h0 : history cfgC edge 0 t0 [] [.request b!"/f/a"] = [.runaway []] := rfl
    have := h cfgC edge t0 [.request b!"/f/a"] (.runaway []) (by rw [h0]; exact List.mem_singleton.mpr rfl)
    simp [isRunaway] at this
  | succ m =>
    have hl := historyC m
    have hmem : RedirectCache.Outcome.runaway [] ∈ history cfgC edge (m + 1) t0 [] opsC :=
      List.mem_of_getLast? hl
    have := h cfgC edge t0 opsC _ hmem
    simp [isRunaway] at this

/-! ## The oracle on the model's outcomes -/

open Spec.C18Cache in
def nodesC : List CNode :=
  [{ path := b!"/a", redirect := true, status := 302, body := b!"moved-0", location := b!"http://h.test/f/b", cc := [], intended := 1, ruleIdx := -1 },
   { path := b!"/b", redirect := true, status := 302, body := b!"moved-1", location := b!"http://h.test/f/a", cc := [], intended := 0, ruleIdx := -1 }]

open Spec.C18Cache in
def reqOpsC : List ReqOp := [.request b!"/p/a" 0, .request b!"/p/b" 1, .request b!"/f/a" 0]

/-- **fails_witness_c**: the oracle rejects what the model does on the stored 2-cycle (fuel 40 =
    the harness guard) -/
theorem fails_witness_c :
    (Spec.C18Cache.holds nodesC [ruleP, ruleF] edge {} reqOpsC ((history cfgC edge 40 t0 [] opsC).map Spec.C18Cache.obsOf)).bad
      = ["bad:C18:loop-not-ended-by-an-error-response"] := by decide

/-- `/a` answers 302 with `no-store` on a cache-enabled restarting rule; `/b` is the target -/
def rootRule : Rule :=
  { host := b!"h.test", path := b!"/*", wci := some 1, dest := b!"http://d0.test/$1", cacheId := b!"c1", restartOnRedirect := true }

def cfgD : RedirectCache.Cfg := cfgOf [rootRule]
  [(b!"/a", { status := 302, location := b!"/b", cacheControl := b!"no-store", body := b!"moved-0" }),
   (b!"/b", { status := 200, cacheControl := b!"max-age=60", body := b!"target" })]

open Spec.C18Cache in
def nodesD : List CNode :=
  [{ path := b!"/a", redirect := true, status := 302, body := b!"moved-0", location := b!"/b", cc := b!"no-store", intended := 1, ruleIdx := -1 },
   { path := b!"/b", redirect := false, status := 200, body := b!"target", location := [], cc := b!"max-age=60", intended := -1, ruleIdx := -1 }]

/-- the model hands the 302 to the client, cold and again on the repeat -/
example : (history cfgD edge 40 t0 [] [.request b!"/a", .request b!"/a"]).map (fun o => (Spec.C18Cache.obsOf o).status) = [302, 302] := by decide

/-- **fails_witness_d**: the oracle rejects it (the chain ends at `/b`: 200 "target") -/
theorem fails_witness_d :
    (Spec.C18Cache.holds nodesD [rootRule] edge {} [.request b!"/a" 0, .request b!"/a" 0]
      ((history cfgD edge 40 t0 [] [.request b!"/a", .request b!"/a"]).map Spec.C18Cache.obsOf)).bad
      = ["bad:C18:final-response-is-not-the-sinks", "bad:C18:final-response-is-not-the-sinks"] := by decide

/-- the same graph without the directive: followed, stored, and the repeat is served from the
    cache without any contact — the oracle accepts both requests (non-vacuity of `holds`, and an
    instance of warm = cold over two hops) -/
def cfgOK : RedirectCache.Cfg := cfgOf [rootRule]
  [(b!"/a", { status := 302, location := b!"/b", body := b!"moved-0" }),
   (b!"/b", { status := 200, cacheControl := b!"max-age=60", body := b!"target" })]

open Spec.C18Cache in
def nodesOK : List CNode :=
  [{ path := b!"/a", redirect := true, status := 302, body := b!"moved-0", location := b!"/b", cc := [], intended := 1, ruleIdx := -1 },
   { path := b!"/b", redirect := false, status := 200, body := b!"target", location := [], cc := b!"max-age=60", intended := -1, ruleIdx := -1 }]

example :
    let obs := (history cfgOK edge 40 t0 [] [.request b!"/a", .request b!"/a"]).map Spec.C18Cache.obsOf
    let st := Spec.C18Cache.holds nodesOK [rootRule] edge {} [.request b!"/a" 0, .request b!"/a" 0] obs
    st.bad = [] ∧ st.oks = 2 ∧ obs.map (·.status) = [200, 200] ∧ obs.map (·.contacts.length) = [2, 0] := by decide

/-! ## Non-vacuity of the general theorems -/

def contactAt (path : Bytes) : Contact :=
  { url := { scheme := b!"http", host := b!"d0.test", path := path }, hostField := b!"d0.test", headers := [] }

def queryOf (target : Bytes) : Query := { scheme := b!"http", host := edge, uri := target, method := b!"GET" }

/-- `fill_then_hit`, `fill_stores_entry`, `hit_replays_entry`: `GET /b` (200, max-age=60) on the
    cache-enabled root rule meets every hypothesis -/
example : ∃ d d', run cfgOK t0 1 [] [] (clientGet b!"/b") = .done d ∧ run cfgOK t0 1 [] d.store (clientGet b!"/b") = .done d' ∧
    d'.contacts = [] ∧ d'.store = d.store := by
  obtain ⟨d, d', h1, h2, _, h3, h4⟩ :=
    fill_then_hit cfgOK t0 0 0 [] (clientGet b!"/b") rootRule (clientGet b!"/b").req false
      { rule := rootRule, contact := contactAt b!"/b", resp := { status := 200, cacheControl := b!"max-age=60", body := b!"target" }, redir := none }
      ⟨queryOf b!"/b", rfl, rfl, rfl, by decide⟩ rfl rfl rfl rfl (by decide) rfl rfl 0 rfl
  exact ⟨d, d', h1, h2, h3, h4⟩

/-- `uncacheable_redirect_not_followed`: `GET /a` (302, no-store) on the restarting root rule -/
example : run cfgD t0 40 [] [] (clientGet b!"/a") =
    .done { sent := .response 302 b!"moved-0" b!"/b" { status := b!"uncacheable" }, contacts := [contactAt b!"/a"], store := [] } :=
  uncacheable_redirect_not_followed cfgD t0 39 [] [] (clientGet b!"/a") rootRule (clientGet b!"/a").req false
    { rule := rootRule, contact := contactAt b!"/a",
      resp := { status := 302, location := b!"/b", cacheControl := b!"no-store", body := b!"moved-0" }, redir := some { path := b!"/b" } }
    ⟨queryOf b!"/a", rfl, rfl, rfl, by decide⟩ rfl rfl rfl

/-- `found_reentry` / `found_cycle_runs_away`: `cycle2_first`, `cycle2_cycle`, `self_cycle` are
    instances; the store is reachable (`storeC` is what two requests leave behind) -/
example : history cfgC edge 1 t0 [] [.request b!"/p/a", .request b!"/p/b"] =
    [.done (doneOf (run cfgC t0 1 [] [] (clientGet b!"/p/a"))), .done (doneOf (run cfgC t0 1 [] storeA (clientGet b!"/p/b")))] := by rfl

end Props.C18Cache
