import RrModel.RedirectCache
import RrModel.Spec.C18Cache
import RrModel.Spec.Tables
/-
  C18 on cache-enabled rules (model RrModel/RedirectCache.lean).

  * `found_reentry` (full): the Found site of cachingFunc is a re-entry that only COUNTS — no URL
    is compared with any other, no contact, no lock, the cache unchanged, `alwaysInclude` reset,
    the redirect counter one higher.
  * `found_bound_508` (full): when the counter is exhausted the Found site answers 508 Loop
    detected, without contact, the cache unchanged.
  * `found_loop_508` (full; was `found_cycle_runs_away`, finding C18-c): a run of Found re-entries
    that is still going on when the counter is exhausted ends in that 508 — not one origin contact
    is made, for every fuel that covers the counter.
  * `cycle2_508`, `self_508` (the former witnesses `cycle2_runs_away`, `self_runs_away`): a 2-cycle
    and a plain self-redirect, stored hop by hop through a non-restarting rule that shares the
    cache, read through the restarting one: 508 for every fuel from `maxRedirects + 1` on.
  * `run_not_runaway`, `cached_terminates : CachedTerminationStatement` (FULL strength since the
    repair of findings C18-a / C18-c; was `CachedTerminationStatement_false`): no request of any
    history on any rule set, origin, store and lock set is cut as `runaway` once the fuel covers
    the counter (`maxRedirects + 1` activations).
  * `hit_replays_entry` (full): a fresh stored non-redirect answer is replayed (status, body)
    without contact and without touching the cache.
  * `fill_then_hit` (full): warm = cold for a request answered by its first hop: whatever rule
    set, origin and state — if the cold run fills the cache from a non-redirect answer and the
    entry is fresh, the immediate repeat returns the same status and body without any contact.
  * `uncacheable_redirect_not_followed` (full, finding C18-d): in the writer branch a redirect
    with a do-not-cache directive is handed to the client, whatever restart_on_redirect says.
  * `fails_witness_d` (witness): the oracle rejects the model's outcome; the former
    `fails_witness_c` is an `example` of the oracle accepting the 508.
-/
namespace Props.C18Cache
open Go Model Model.Redirect Model.RedirectCache

/-! ## The Found site -/

/-- the conditions under which an activation is answered by the Found site, and the activation it
    re-enters with when the counter allows (server.go:96-106, 140-141, 213-226) -/
def foundNext (cfg : RedirectCache.Cfg) (now : Int) (locks : List Bytes) (store : Store) (a : Act) : Option Act :=
  match query a.req with
  | .panic _ => none
  | .ok q1 =>
    let matched := matchedRule cfg.rules q1
    let r : Redirect.Req := { a.req with headers := preprocess a.req.headers ((matched.map (·.requestHeaders)).getD []) }
    let rf := effectiveRule matched a.frf
    let cacheId := (rf.map (·.cacheId)).getD []
    if cacheId.length = 0 ∨ ¬ cfg.hasStorage cacheId ∨ ¬ (r.method = b!"GET" ∨ r.method = b!"HEAD") then none
    else
      match rf with
      | none => none
      | some rule =>
        match cacheGet store (cacheId, keyOf rule r) (locks.contains (keyOf rule r)) now rule.forceRevalidate with
        | .found e _ =>
          if rule.restartOnRedirect ∧ cfg.isRedirect e.status then
            (RedirectCache.requestWithRedirect r e.redirectedURL).map fun rr =>
              { req := rr, overrideURL := some rr.url, frf := some rule, inc := {}, hops := a.hops + 1 }
          else none
        | _ => none

/-- what the Found site does, given that it applies: re-enter when the counter allows, else 508 -/
theorem found_site (cfg : RedirectCache.Cfg) (now : Int) (n : Nat) (locks : List Bytes) (store : Store) (a a' : Act)
    (h : foundNext cfg now locks store a = some a') :
    run cfg now (n + 1) locks store a =
      if a.hops + 1 > cfg.maxRedirects then
        .done { sent := .userError 508 b!"Loop detected", contacts := [], store := store }
      else run cfg now n locks store a' := by
  unfold foundNext at h
  conv => lhs; unfold run
  cases hq : query a.req with
  | panic s => rw [hq] at h; simp at h
  | ok q1 =>
    rw [hq] at h
    simp only at h ⊢
    split at h
    · simp at h
    · rename_i hc
      rw [if_neg hc]
      cases hrf : effectiveRule (matchedRule cfg.rules q1) a.frf with
      | none => rw [hrf] at h; simp at h
      | some rule =>
        rw [hrf] at h
        simp only at h ⊢
        split at h
        · rename_i e age hg
          simp only [Option.map_some, Option.getD_some] at hg
          split at h
          · rename_i hr
            cases hrr : RedirectCache.requestWithRedirect
                { a.req with headers := preprocess a.req.headers ((Option.map (·.requestHeaders) (matchedRule cfg.rules q1)).getD []) }
                e.redirectedURL with
            | none => rw [hrr] at h; simp at h
            | some rr =>
              rw [hrr] at h
              simp only [Option.map_some, Option.some.injEq] at h
              subst h
              simp only [Option.map_some, Option.getD_some, hg, hr, and_self, if_true, hrr]
          · simp at h
        all_goals simp at h

/-- **found_reentry**: whenever the Found site applies and the counter allows another redirect,
    one activation of `cachingFunc` is EXACTLY the next one, the counter one higher: no URL is
    compared with any other (no `urlEquals`), nothing is contacted, no lock is taken, the store is
    untouched -/
theorem found_reentry (cfg : RedirectCache.Cfg) (now : Int) (n : Nat) (locks : List Bytes) (store : Store) (a a' : Act)
    (h : foundNext cfg now locks store a = some a') (hb : a.hops + 1 ≤ cfg.maxRedirects) :
    run cfg now (n + 1) locks store a = run cfg now n locks store a' := by
  rw [found_site cfg now n locks store a a' h, if_neg (by omega)]

/-- **found_bound_508**: the Found site with the counter exhausted: 508 Loop detected, nothing
    contacted, the store untouched -/
theorem found_bound_508 (cfg : RedirectCache.Cfg) (now : Int) (n : Nat) (locks : List Bytes) (store : Store) (a a' : Act)
    (h : foundNext cfg now locks store a = some a') (hb : cfg.maxRedirects < a.hops + 1) :
    run cfg now (n + 1) locks store a =
      .done { sent := .userError 508 b!"Loop detected", contacts := [], store := store } := by
  rw [found_site cfg now n locks store a a' h, if_pos (by omega)]

theorem foundNext_hops (cfg : RedirectCache.Cfg) (now : Int) (locks : List Bytes) (store : Store) (a a' : Act)
    (h : foundNext cfg now locks store a = some a') : a'.hops = a.hops + 1 := by
  unfold foundNext at h
  split at h
  · simp at h
  · simp only at h
    split at h
    · simp at h
    · split at h
      · simp at h
      · split at h
        · split at h
          · simp only [Option.map_eq_some_iff] at h
            obtain ⟨_, _, rfl⟩ := h
            rfl
          · simp at h
        · simp at h

/-- `k` Found re-entries in a row (the counter is not looked at) -/
def foundAt (cfg : RedirectCache.Cfg) (now : Int) (locks : List Bytes) (store : Store) : Nat → Act → Option Act
  | 0, a => some a
  | k + 1, a =>
    match foundNext cfg now locks store a with
    | none => none
    | some a' => foundAt cfg now locks store k a'

theorem run_foundAt (cfg : RedirectCache.Cfg) (now : Int) (locks : List Bytes) (store : Store) (k n : Nat) (a s : Act)
    (h : foundAt cfg now locks store k a = some s) (hb : a.hops + k ≤ cfg.maxRedirects) :
    run cfg now (n + k) locks store a = run cfg now n locks store s ∧ s.hops = a.hops + k := by
  induction k generalizing a with
  | zero => simp only [foundAt, Option.some.injEq] at h; subst h; exact ⟨rfl, rfl⟩
  | succ k ih =>
    unfold foundAt at h
    cases hf : foundNext cfg now locks store a with
    | none => rw [hf] at h; simp at h
    | some a' =>
      rw [hf] at h
      simp only at h
      have hh := foundNext_hops cfg now locks store a a' hf
      rw [show n + (k + 1) = (n + k) + 1 by omega, found_reentry cfg now (n + k) locks store a a' hf (by omega)]
      obtain ⟨h1, h2⟩ := ih a' h (by omega)
      exact ⟨h1, by omega⟩

/-- **found_loop_508** (was `found_cycle_runs_away`, finding C18-c): a run of Found re-entries
    that is still going on when the counter is exhausted — after `maxRedirects - a.hops` of them
    the activation reached is again answered by a stored redirect to follow — ends in 508 Loop
    detected for EVERY fuel that covers the counter; not one origin contact is made and the store
    is untouched.  (Before the repair such a request was never answered.) -/
theorem found_loop_508 (cfg : RedirectCache.Cfg) (now : Int) (locks : List Bytes) (store : Store) (a s s' : Act)
    (ha : a.hops ≤ cfg.maxRedirects)
    (h : foundAt cfg now locks store (cfg.maxRedirects - a.hops) a = some s)
    (hs : foundNext cfg now locks store s = some s') (fuel : Nat) (hfuel : cfg.maxRedirects + 1 ≤ fuel + a.hops) :
    run cfg now fuel locks store a =
      .done { sent := .userError 508 b!"Loop detected", contacts := [], store := store } := by
  obtain ⟨h1, h2⟩ := run_foundAt cfg now locks store (cfg.maxRedirects - a.hops) (fuel - (cfg.maxRedirects - a.hops)) a s h (by omega)
  rw [show fuel - (cfg.maxRedirects - a.hops) + (cfg.maxRedirects - a.hops) = fuel by omega] at h1
  rw [h1]
  obtain ⟨m, hm⟩ : ∃ m, fuel - (cfg.maxRedirects - a.hops) = m + 1 := ⟨fuel - (cfg.maxRedirects - a.hops) - 1, by omega⟩
  rw [hm]
  exact found_bound_508 cfg now m locks store s s' hs (by omega)

/-! ## A hit, and warm = cold for a request answered by its first hop -/

/-- the part of the prologue every cached branch shares: the effective rule with its cache, the
    request after the header overrides, and the storage key -/
def Prologue (cfg : RedirectCache.Cfg) (a : Act) (rule : Rule) (r : Redirect.Req) : Prop :=
  ∃ q : Query, query a.req = .ok q ∧
    r = { a.req with headers := preprocess a.req.headers ((Option.map (·.requestHeaders) (matchedRule cfg.rules q)).getD []) } ∧
    effectiveRule (matchedRule cfg.rules q) a.frf = some rule ∧
    ¬ (rule.cacheId.length = 0 ∨ ¬ cfg.hasStorage rule.cacheId ∨ ¬ (r.method = b!"GET" ∨ r.method = b!"HEAD"))

/-- **hit_replays_entry**: a fresh stored answer that is not a redirect to be followed is
    replayed as it was stored — status, body, Location — without any contact, and the cache
    stays as it is -/
theorem hit_replays_entry (cfg : RedirectCache.Cfg) (now : Int) (n : Nat) (locks : List Bytes) (store : Store) (a : Act)
    (rule : Rule) (r : Redirect.Req) (e : Entry) (age : Int)
    (hp : Prologue cfg a rule r)
    (hg : cacheGet store (rule.cacheId, keyOf rule r) (locks.contains (keyOf rule r)) now rule.forceRevalidate = .found e age)
    (hnr : ¬ (rule.restartOnRedirect ∧ cfg.isRedirect e.status)) :
    run cfg now (n + 1) locks store a =
      .done { sent := .response e.status e.body (e.header.get b!"Location") { status := hitStatus a.inc, age := some age },
              contacts := [], store := store } := by
  obtain ⟨q, hq, hr, hrf, hcache⟩ := hp
  subst hr
  unfold run
  simp only [hq, hrf, Option.map_some, Option.getD_some]
  rw [if_neg hcache]
  simp only [hg, if_neg hnr]

/-- what the writer branch does with a cacheable answer that is not a redirect (server.go
    311-457 for this case): the entry it publishes -/
theorem fill_stores_entry (cfg : RedirectCache.Cfg) (now : Int) (n : Nat) (locks : List Bytes) (store : Store) (a : Act)
    (rule : Rule) (r : Redirect.Req) (reval : Bool) (rt : Routed)
    (hp : Prologue cfg a rule r)
    (hg : cacheGet store (rule.cacheId, keyOf rule r) (locks.contains (keyOf rule r)) now rule.forceRevalidate = .writer reval)
    (hroute : route cfg r a.overrideURL (some rule) = .ok rt)
    (hdnc : (getCacheControlDirectives rt.resp.header).doNotCache = false)
    (hsie : (reval && decide (rt.resp.status ≥ 400) && staleIfErrorGranted store (rule.cacheId, keyOf rule r)) = false)
    (hgate : ¬ (¬ inGate cfg rt.resp.status ∨ (rt.resp.status = 200 ∧ rt.resp.body = [])))
    (hnored : rt.redir = none) :
    run cfg now (n + 1) locks store a =
      .done { sent := .response rt.resp.status rt.resp.body rt.resp.location
                        { status := if reval then b!"revalidated" else b!"miss", age := some 0 },
              contacts := [rt.contact],
              store := store.put (rule.cacheId, keyOf rule r) (entryOf rt.resp [] now reval) } := by
  obtain ⟨q, hq, hr, hrf, hcache⟩ := hp
  subst hr
  unfold run
  simp only [hq, hrf, Option.map_some, Option.getD_some]
  rw [if_neg hcache]
  simp only [hg, hroute, hdnc, hsie, if_neg hgate, hnored]
  simp

theorem store_get_put (s : Store) (k : StoreKey) (e : Entry) : (s.put k e).get k = some e := by
  simp [Store.get, Store.put]

/-- **fill_then_hit** (warm = cold, one hop): for every rule set, origin, cache state and
    activation — if the cold run fills the cache from a non-redirect answer and that entry counts
    as fresh at the same instant, the immediate repeat answers with the SAME status and body,
    contacts nobody and leaves the cache as the fill left it -/
theorem fill_then_hit (cfg : RedirectCache.Cfg) (now : Int) (n m : Nat) (store : Store) (a : Act)
    (rule : Rule) (r : Redirect.Req) (reval : Bool) (rt : Routed)
    (hp : Prologue cfg a rule r)
    (hg : cacheGet store (rule.cacheId, keyOf rule r) false now rule.forceRevalidate = .writer reval)
    (hroute : route cfg r a.overrideURL (some rule) = .ok rt)
    (hdnc : (getCacheControlDirectives rt.resp.header).doNotCache = false)
    (hsie : (reval && decide (rt.resp.status ≥ 400) && staleIfErrorGranted store (rule.cacheId, keyOf rule r)) = false)
    (hgate : ¬ (¬ inGate cfg rt.resp.status ∨ (rt.resp.status = 200 ∧ rt.resp.body = [])))
    (hnored : rt.redir = none)
    (hnr : cfg.isRedirect rt.resp.status = false)
    (age : Int)
    (hfresh : Freshness.get false { header := (entryOf rt.resp [] now reval).header, created := now,
                                    revalidated := if reval then now else 0 } now rule.forceRevalidate false [] [] none
              = .ok (.foundFresh age)) :
    ∃ d d', run cfg now (n + 1) [] store a = .done d ∧ run cfg now (m + 1) [] d.store a = .done d' ∧
      (∃ inc inc', d.sent = .response rt.resp.status rt.resp.body rt.resp.location inc ∧
                   d'.sent = .response rt.resp.status rt.resp.body (((entryOf rt.resp [] now reval).header).get b!"Location") inc') ∧
      d'.contacts = [] ∧ d'.store = d.store := by
  have hcold := fill_stores_entry cfg now n [] store a rule r reval rt hp (by simpa using hg) hroute hdnc hsie hgate hnored
  let st' := store.put (rule.cacheId, keyOf rule r) (entryOf rt.resp [] now reval)
  have hg' : cacheGet st' (rule.cacheId, keyOf rule r) (([] : List Bytes).contains (keyOf rule r)) now rule.forceRevalidate
      = .found (entryOf rt.resp [] now reval) age := by
    simp only [cacheGet, st', store_get_put, List.contains_nil]
    have : (entryOf rt.resp [] now reval).created = now ∧ (entryOf rt.resp [] now reval).revalidated = (if reval then now else 0) := by
      simp [entryOf]
    rw [this.1, this.2, hfresh]
  have hwarm := hit_replays_entry cfg now m [] st' a rule r (entryOf rt.resp [] now reval) age hp hg'
    (by intro ⟨_, h2⟩; simp [entryOf, hnr] at h2)
  refine ⟨_, _, hcold, hwarm, ⟨{ status := if reval then b!"revalidated" else b!"miss", age := some 0 },
    { status := hitStatus a.inc, age := some age }, rfl, ?_⟩, rfl, rfl⟩
  simp [entryOf]

/-! ## The do-not-cache branch (finding C18-d) -/

/-- **uncacheable_redirect_not_followed**: in the writer branch an answer with a do-not-cache
    directive goes to the client as it is — also a redirect under restart_on_redirect; the
    re-entry of server.go:418-426 sits in the other branch -/
theorem uncacheable_redirect_not_followed (cfg : RedirectCache.Cfg) (now : Int) (n : Nat) (locks : List Bytes) (store : Store) (a : Act)
    (rule : Rule) (r : Redirect.Req) (reval : Bool) (rt : Routed)
    (hp : Prologue cfg a rule r)
    (hg : cacheGet store (rule.cacheId, keyOf rule r) (locks.contains (keyOf rule r)) now rule.forceRevalidate = .writer reval)
    (hroute : route cfg r a.overrideURL (some rule) = .ok rt)
    (hdnc : (getCacheControlDirectives rt.resp.header).doNotCache = true) :
    run cfg now (n + 1) locks store a =
      .done { sent := .response rt.resp.status rt.resp.body rt.resp.location { a.inc with status := b!"uncacheable" },
              contacts := [rt.contact], store := store } := by
  obtain ⟨q, hq, hr, hrf, hcache⟩ := hp
  subst hr
  unfold run
  simp only [hq, hrf, Option.map_some, Option.getD_some]
  rw [if_neg hcache]
  simp only [hg, hroute, hdnc, if_true]

/-! ## Concrete configurations (former witnesses, witnesses and non-vacuity) -/

/-- two prefixes, one destination, one cache; only `/f/*` restarts -/
def ruleP : Rule := { path := b!"/p/*", wci := some 3, dest := b!"http://d0.test/$1", cacheId := b!"c1" }
def ruleF : Rule := { path := b!"/f/*", wci := some 3, dest := b!"http://d0.test/$1", cacheId := b!"c1", restartOnRedirect := true }

/-- an origin keyed by request path; only `d0.test` answers -/
def originOf (tbl : List (Bytes × OResp)) (c : Contact) : Option OResp :=
  if c.url.scheme = b!"http" ∧ c.url.host = b!"d0.test" then
    match tbl.lookup c.url.path with
    | some r => some r
    | none => some { status := 404, body := b!"unknown" }
  else none

def cfgOf (rules : List Rule) (tbl : List (Bytes × OResp)) : RedirectCache.Cfg :=
  { rules := rules, origin := originOf tbl, isRedirect := fun s => Spec.redirectStatuses.contains s,
    hasStorage := fun id => id == b!"c1", maxRedirects := Spec.maxRedirects }

def t0 : Int := 1700000000
def edge : Bytes := b!"h.test"

/-- the 2-cycle `/a → /b → /a`, Locations absolute and back through the restarting prefix -/
def cfgC : RedirectCache.Cfg := cfgOf [ruleP, ruleF]
  [(b!"/a", { status := 302, location := b!"http://h.test/f/b", body := b!"moved-0" }),
   (b!"/b", { status := 302, location := b!"http://h.test/f/a", body := b!"moved-1" })]

def clientGet (target : Bytes) : Act :=
  { req := { url := { path := target }, host := edge, headers := [], method := b!"GET" } }

example : clientAct b!"/f/a" edge = some (clientGet b!"/f/a") := by rfl

/-- a request re-entered from the Found site under `/f/*`, the counter at `hops` -/
def reentered (path : Bytes) (hops : Nat := 1) : Act :=
  { req := { url := { scheme := b!"http", host := edge, path := path }, host := edge, headers := [], method := b!"GET" },
    overrideURL := some { scheme := b!"http", host := edge, path := path }, frf := some ruleF, hops := hops }

def doneOf : RedirectCache.Outcome → Done
  | .done d => d
  | _ => { sent := .outside, contacts := [], store := [] }

/-- the cache after `/p/a`, and after `/p/a` and `/p/b`: both hops asked for through the
    NON-restarting prefix (each request: one activation, one contact, the 302 handed to the client
    and stored) — computed by the model itself -/
def storeA : Store := (doneOf (run cfgC t0 1 [] [] (clientGet b!"/p/a"))).store
def storeC : Store := (doneOf (run cfgC t0 1 [] storeA (clientGet b!"/p/b"))).store

example : storeC.length = 2 := by decide
example : (storeC.map (·.2.redirectedURL)) = [b!"http://h.test/f/a", b!"http://h.test/f/b"] := by decide

def loop508 (store : Store) : RedirectCache.Outcome :=
  .done { sent := .userError 508 b!"Loop detected", contacts := [], store := store }

theorem cycle2_first : foundNext cfgC t0 [] storeC (clientGet b!"/f/a") = some (reentered b!"/f/b") := by rfl
theorem cycle2_round : foundAt cfgC t0 [] storeC 10 (clientGet b!"/f/a") = some (reentered b!"/f/a" 10) := by rfl
theorem cycle2_still : foundNext cfgC t0 [] storeC (reentered b!"/f/a" 10) = some (reentered b!"/f/b" 11) := by rfl

/-- **cycle2_508** (the former witness `cycle2_runs_away` of finding C18-c, repaired): with both
    hops of the loop in the cache, `GET /f/a` is answered 508 Loop detected for every fuel from
    `maxRedirects + 1` = 11 on — the origin is never contacted, the cache stays as it is -/
theorem cycle2_508 : ∀ n, 11 ≤ n → run cfgC t0 n [] storeC (clientGet b!"/f/a") = loop508 storeC := by
  intro n hn
  exact found_loop_508 cfgC t0 [] storeC (clientGet b!"/f/a") _ _ (by decide) cycle2_round cycle2_still n
    (by show Spec.maxRedirects + 1 ≤ n + 0; simp [Spec.maxRedirects]; omega)

/-- a plain self-redirect: on the writer path `urlEquals` would see nothing either (absolute
    Location, origin-form request), on the Found path no URL is compared — the counter ends it -/
def cfgS : RedirectCache.Cfg := cfgOf [ruleP, ruleF]
  [(b!"/a", { status := 301, location := b!"http://h.test/f/a", body := b!"moved-0" })]

def storeS : Store := (doneOf (run cfgS t0 1 [] [] (clientGet b!"/p/a"))).store

theorem self_round : foundAt cfgS t0 [] storeS 10 (clientGet b!"/f/a") = some (reentered b!"/f/a" 10) := by rfl
theorem self_still : foundNext cfgS t0 [] storeS (reentered b!"/f/a" 10) = some (reentered b!"/f/a" 11) := by rfl

/-- **self_508** (the former witness `self_runs_away`, repaired) -/
theorem self_508 : ∀ n, 11 ≤ n → run cfgS t0 n [] storeS (clientGet b!"/f/a") = loop508 storeS := by
  intro n hn
  exact found_loop_508 cfgS t0 [] storeS (clientGet b!"/f/a") _ _ (by decide) self_round self_still n
    (by show Spec.maxRedirects + 1 ≤ n + 0; simp [Spec.maxRedirects]; omega)

/-! ## Termination on the cached path: stated at full strength, proved -/

def isRunaway : RedirectCache.Outcome → Bool
  | .runaway _ => true
  | _ => false

theorem isRunaway_prepend (c : Contact) (o : RedirectCache.Outcome) : isRunaway (o.prepend c) = isRunaway o := by
  cases o <;> rfl

/-- **run_not_runaway**: for every rule set, origin, clock, lock set, store and activation: once
    the fuel covers what the counter still allows (`maxRedirects + 1 - a.hops` activations) the
    run is not cut — every re-entry of `cachingFunc` in this slice is a counted redirect -/
theorem run_not_runaway (cfg : RedirectCache.Cfg) (now : Int) :
    ∀ (fuel : Nat) (locks : List Bytes) (store : Store) (a : Act), 0 < fuel →
      cfg.maxRedirects + 1 ≤ fuel + a.hops → isRunaway (run cfg now fuel locks store a) = false := by
  intro fuel
  induction fuel with
  | zero => intro _ _ _ h; omega
  | succ n ih =>
    intro locks store a _ hb
    unfold run
    simp only []
    repeat' split
    all_goals first
      | rfl
      | (rw [isRunaway_prepend]; exact ih _ _ _ (by omega) (by dsimp only; omega))
      | exact ih _ _ _ (by omega) (by dsimp only; omega)

/-- "Redirect chains that loop, … whether or not the hops are cached, end in an error response
    after a bounded number of hops": the nesting `maxRedirects + 1` serves every request of every
    history, on every rule set and origin — no request is cut as `runaway` -/
def CachedTerminationStatement : Prop :=
  ∀ (cfg : RedirectCache.Cfg) (host : Bytes) (N : Nat), cfg.maxRedirects + 1 ≤ N →
    ∀ (now : Int) (store : Store) (ops : List Op), ∀ o ∈ history cfg host N now store ops, isRunaway o = false

/-- **cached_terminates** (full strength since the repair of findings C18-a / C18-c; was
    `CachedTerminationStatement_false`) -/
theorem cached_terminates : CachedTerminationStatement := by
  intro cfg host N hN now store ops
  induction ops generalizing now store with
  | nil => intro o ho; simp [history] at ho
  | cons op rest ih =>
    intro o ho
    cases op with
    | tick dt => exact ih (now + dt) store o (by simpa [history] using ho)
    | request target =>
      unfold history at ho
      cases hc : clientAct target host with
      | none => rw [hc] at ho; simp at ho
      | some a =>
        rw [hc] at ho
        simp only at ho
        have ha : a.hops = 0 := by
          unfold clientAct at hc
          simp only [Option.map_eq_some_iff] at hc
          obtain ⟨_, _, rfl⟩ := hc
          rfl
        have hr := run_not_runaway cfg now N [] store a (by omega) (by omega)
        cases hrun : run cfg now N [] store a with
        | done d =>
          rw [hrun] at ho
          simp only [List.mem_cons] at ho
          rcases ho with rfl | ho
          · rfl
          · exact ih now d.store o ho
        | runaway cs => rw [hrun] at hr; simp [isRunaway] at hr
        | selfwait cs =>
          rw [hrun] at ho
          simp only [List.mem_singleton] at ho
          subst ho; rfl

def opsC : List Op := [.request b!"/p/a", .request b!"/p/b", .request b!"/f/a"]

/-- the former `historyC`: the history that fills the 2-cycle hop by hop and then asks for it
    through the restarting prefix ends with the 508 (it used to end with `runaway []`), for every
    fuel from 11 on -/
example : (history cfgC edge 40 t0 [] opsC).map (fun o => (Spec.C18Cache.obsOf o).status) = [302, 302, 508] := by decide

/-! ## The oracle on the model's outcomes -/

open Spec.C18Cache in
def nodesC : List CNode :=
  [{ path := b!"/a", redirect := true, status := 302, body := b!"moved-0", location := b!"http://h.test/f/b", cc := [], intended := 1, ruleIdx := -1 },
   { path := b!"/b", redirect := true, status := 302, body := b!"moved-1", location := b!"http://h.test/f/a", cc := [], intended := 0, ruleIdx := -1 }]

open Spec.C18Cache in
def reqOpsC : List ReqOp := [.request b!"/p/a" 0, .request b!"/p/b" 1, .request b!"/f/a" 0]

/-- the former `fails_witness_c`, repaired: the oracle ACCEPTS what the model does on the stored
    2-cycle (regression stream kf.C18-c, case 0; fuel 40 = the harness guard): the request through
    the restarting prefix is judged and found in order, no contact is made for it -/
example :
    let obs := (history cfgC edge 40 t0 [] opsC).map Spec.C18Cache.obsOf
    let st := Spec.C18Cache.holds nodesC [ruleP, ruleF] edge {} reqOpsC obs
    st.bad = [] ∧ st.oks = 1 ∧ obs.map (·.cut) = [none, none, none] ∧ obs.map (·.contacts.length) = [1, 1, 0] := by decide

/-- `/a` answers 302 with `no-store` on a cache-enabled restarting rule; `/b` is the target -/
def rootRule : Rule :=
  { host := b!"h.test", path := b!"/*", wci := some 1, dest := b!"http://d0.test/$1", cacheId := b!"c1", restartOnRedirect := true }

def cfgD : RedirectCache.Cfg := cfgOf [rootRule]
  [(b!"/a", { status := 302, location := b!"/b", cacheControl := b!"no-store", body := b!"moved-0" }),
   (b!"/b", { status := 200, cacheControl := b!"max-age=60", body := b!"target" })]

open Spec.C18Cache in
def nodesD : List CNode :=
  [{ path := b!"/a", redirect := true, status := 302, body := b!"moved-0", location := b!"/b", cc := b!"no-store", intended := 1, ruleIdx := -1 },
   { path := b!"/b", redirect := false, status := 200, body := b!"target", location := [], cc := b!"max-age=60", intended := -1, ruleIdx := -1 }]

/-- the model hands the 302 to the client, cold and again on the repeat -/
example : (history cfgD edge 40 t0 [] [.request b!"/a", .request b!"/a"]).map (fun o => (Spec.C18Cache.obsOf o).status) = [302, 302] := by decide

/-- **fails_witness_d**: the oracle rejects it (the chain ends at `/b`: 200 "target") -/
theorem fails_witness_d :
    (Spec.C18Cache.holds nodesD [rootRule] edge {} [.request b!"/a" 0, .request b!"/a" 0]
      ((history cfgD edge 40 t0 [] [.request b!"/a", .request b!"/a"]).map Spec.C18Cache.obsOf)).bad
      = ["bad:C18:final-response-is-not-the-sinks", "bad:C18:final-response-is-not-the-sinks"] := by decide

/-- the same graph without the directive: followed, stored, and the repeat is served from the
    cache without any contact — the oracle accepts both requests (non-vacuity of `holds`, and an
    instance of warm = cold over two hops) -/
def cfgOK : RedirectCache.Cfg := cfgOf [rootRule]
  [(b!"/a", { status := 302, location := b!"/b", body := b!"moved-0" }),
   (b!"/b", { status := 200, cacheControl := b!"max-age=60", body := b!"target" })]

open Spec.C18Cache in
def nodesOK : List CNode :=
  [{ path := b!"/a", redirect := true, status := 302, body := b!"moved-0", location := b!"/b", cc := [], intended := 1, ruleIdx := -1 },
   { path := b!"/b", redirect := false, status := 200, body := b!"target", location := [], cc := b!"max-age=60", intended := -1, ruleIdx := -1 }]

example :
    let obs := (history cfgOK edge 40 t0 [] [.request b!"/a", .request b!"/a"]).map Spec.C18Cache.obsOf
    let st := Spec.C18Cache.holds nodesOK [rootRule] edge {} [.request b!"/a" 0, .request b!"/a" 0] obs
    st.bad = [] ∧ st.oks = 2 ∧ obs.map (·.status) = [200, 200] ∧ obs.map (·.contacts.length) = [2, 0] := by decide

/-! ## Non-vacuity of the general theorems -/

def contactAt (path : Bytes) : Contact :=
  { url := { scheme := b!"http", host := b!"d0.test", path := path }, hostField := b!"d0.test", headers := [] }

def queryOf (target : Bytes) : Query := { scheme := b!"http", host := edge, uri := target, method := b!"GET" }

/-- `fill_then_hit`, `fill_stores_entry`, `hit_replays_entry`: `GET /b` (200, max-age=60) on the
    cache-enabled root rule meets every hypothesis -/
example : ∃ d d', run cfgOK t0 1 [] [] (clientGet b!"/b") = .done d ∧ run cfgOK t0 1 [] d.store (clientGet b!"/b") = .done d' ∧
    d'.contacts = [] ∧ d'.store = d.store := by
  obtain ⟨d, d', h1, h2, _, h3, h4⟩ :=
    fill_then_hit cfgOK t0 0 0 [] (clientGet b!"/b") rootRule (clientGet b!"/b").req false
      { rule := rootRule, contact := contactAt b!"/b", resp := { status := 200, cacheControl := b!"max-age=60", body := b!"target" }, redir := none }
      ⟨queryOf b!"/b", rfl, rfl, rfl, by decide⟩ rfl rfl rfl rfl (by decide) rfl rfl 0 rfl
  exact ⟨d, d', h1, h2, h3, h4⟩

/-- `uncacheable_redirect_not_followed`: `GET /a` (302, no-store) on the restarting root rule -/
example : run cfgD t0 40 [] [] (clientGet b!"/a") =
    .done { sent := .response 302 b!"moved-0" b!"/b" { status := b!"uncacheable" }, contacts := [contactAt b!"/a"], store := [] } :=
  uncacheable_redirect_not_followed cfgD t0 39 [] [] (clientGet b!"/a") rootRule (clientGet b!"/a").req false
    { rule := rootRule, contact := contactAt b!"/a",
      resp := { status := 302, location := b!"/b", cacheControl := b!"no-store", body := b!"moved-0" }, redir := some { path := b!"/b" } }
    ⟨queryOf b!"/a", rfl, rfl, rfl, by decide⟩ rfl rfl rfl

/-- `found_reentry` / `found_bound_508` / `found_loop_508`: `cycle2_first`, `cycle2_round`,
    `cycle2_still`, `self_round`, `self_still` are instances; the store is reachable (`storeC` is
    what two requests leave behind) -/
example : history cfgC edge 1 t0 [] [.request b!"/p/a", .request b!"/p/b"] =
    [.done (doneOf (run cfgC t0 1 [] [] (clientGet b!"/p/a"))), .done (doneOf (run cfgC t0 1 [] storeA (clientGet b!"/p/b")))] := by rfl

/-- the bound also ends a loop that runs below a writer: `/x → /a` is fetched (cold) while the
    2-cycle `/a ↔ /b` is in the cache; the 508 written at the Found site is the client's answer,
    and `/x`'s own hop is stored while the stack unwinds (one contact, three entries) -/
def cfgX : RedirectCache.Cfg := cfgOf [ruleP, ruleF]
  [(b!"/a", { status := 302, location := b!"http://h.test/f/b", body := b!"moved-0" }),
   (b!"/b", { status := 302, location := b!"http://h.test/f/a", body := b!"moved-1" }),
   (b!"/x", { status := 302, location := b!"http://h.test/f/a", body := b!"moved-x" })]

example :
    let outs := history cfgX edge 40 t0 [] [.request b!"/p/a", .request b!"/p/b", .request b!"/f/x", .request b!"/f/x"]
    outs.map (fun o => (Spec.C18Cache.obsOf o).status) = [302, 302, 508, 508] ∧
    outs.map (fun o => (Spec.C18Cache.obsOf o).contacts.length) = [1, 1, 1, 0] ∧
    outs.map (fun o => (doneOf o).store.length) = [1, 2, 3, 3] := by decide

/-- the counter below nested WRITER activations (regression stream kf.C18-c, case 3): a 12-cycle
    fetched cold through a cache-enabled restarting rule.  Ten writers nest, the eleventh answer is
    a redirect again: 508 from the writer site after 11 contacts, and the ten hops are stored while
    the stack unwinds (the eleventh is not).  The repeat follows the ten stored hops, fetches the
    eleventh and is answered 508 after that one contact. -/
def ringName (i : Nat) : Bytes := b!"/c" ++ (Nat.toDigits 10 i).map Char.toNat

def cfgRing : RedirectCache.Cfg := cfgOf [rootRule]
  ((List.range 12).map fun i => (ringName i, ({ status := 302, location := ringName ((i + 1) % 12), body := b!"moved" } : OResp)))

example :
    let outs := history cfgRing edge 40 t0 [] [.request b!"/c0", .request b!"/c0"]
    outs.map (fun o => (Spec.C18Cache.obsOf o).status) = [508, 508] ∧
    outs.map (fun o => (Spec.C18Cache.obsOf o).cut) = [none, none] ∧
    outs.map (fun o => (Spec.C18Cache.obsOf o).contacts.length) = [11, 1] ∧
    outs.map (fun o => (doneOf o).store.length) = [10, 10] := by decide

end Props.C18Cache
