import RrModel.Spec.C14
import RrProofs.Lemmas.Crash
/-
  C14 — crash safety of the disk cache protocol (caching/disk.go as `RrModel/Crash.lean`).
  `body r` = complete body of origin response r.

  Shape of the proofs.  `Consistent` constrains only files that carry the xattr, one entry path at
  a time (`EntryOk`), and `Consistent ⇒ probeOk` for every key (`probeOk_of_consistent`).  So each
  crash theorem is: *the FS is Consistent at every crash point* (`consistent_prefix_*`, stronger
  than the statement asked for).  A crash point is a prefix `P'` of the protocol; the body is
  written in an arbitrary chunking (`chunks.flatten = body m.resp`), so every torn write is a
  crash point.  Effects of the protocol for key k write only `.final k` / `.tmp k`
  (`applyAll_prefix_other`); on `.final k` a fresh fill is `quiet` (no xattr can appear) up to
  its `setxattr`, from which on the file is the complete body (`applyAll_fill`); a revalidating
  fill does not write `.final k` before its `rename`, which installs the complete tmp file.
-/
namespace Props.C14
open Model.Crash Spec.C14

/-- hypotheses on the response being stored for key k -/
structure Storing (body : Nat → Bytes) (k : Nat) (chunks : List Bytes) (m : Meta) : Prop where
  key : m.key = k
  whole : chunks.flatten = body m.resp          -- the chunks (any tearing) make up the whole body
  size : m.size = (body m.resp).length

/-- crash_safe, fresh fill: at every prefix of the protocol (every crash point, writes torn
    arbitrarily), every key k' probes fine after restart -/
def CrashSafeFresh : Prop :=
  ∀ (body : Nat → Bytes) (fs₀ : FS) (k : Nat) (chunks : List Bytes) (m : Meta) (P' : List Effect) (k' : Nat),
    Consistent body fs₀ → fs₀ (.final k) = none → Storing body k chunks m →
    P' <+: freshFill k chunks m → probeOk body (applyAll fs₀ P') k'

/-- crash_safe, revalidating 200 fill (.tmp + rename): the old entry or the new one, never a mix -/
def CrashSafeReval : Prop :=
  ∀ (body : Nat → Bytes) (fs₀ : FS) (k : Nat) (chunks : List Bytes) (m : Meta) (P' : List Effect) (k' : Nat),
    Consistent body fs₀ → Storing body k chunks m →
    P' <+: revalFill k chunks m → probeOk body (applyAll fs₀ P') k'

/-- crash_safe, 304 revalidation: metadata rewritten in place for the same response -/
def CrashSafe304 : Prop :=
  ∀ (body : Nat → Bytes) (fs₀ : FS) (k : Nat) (f : File) (mOld m : Meta) (P' : List Effect) (k' : Nat),
    Consistent body fs₀ → fs₀ (.final k) = some f → f.xattr = some mOld →
    m.key = k → m.resp = mOld.resp → m.size = mOld.size →
    P' <+: reval304 k m → probeOk body (applyAll fs₀ P') k'

/-- crash_safe, eviction / Delete of an entry -/
def CrashSafeEvict : Prop :=
  ∀ (body : Nat → Bytes) (fs₀ : FS) (k : Nat) (P' : List Effect) (k' : Nat),
    Consistent body fs₀ → P' <+: evict k → probeOk body (applyAll fs₀ P') k'

/-- consistent_preserved: a COMPLETED fresh fill / revalidating fill / 304 re-establishes Consistent -/
def ConsistentPreservedFresh : Prop :=
  ∀ (body : Nat → Bytes) (fs₀ : FS) (k : Nat) (chunks : List Bytes) (m : Meta),
    Consistent body fs₀ → fs₀ (.final k) = none → Storing body k chunks m →
    Consistent body (applyAll fs₀ (freshFill k chunks m))

def ConsistentPreservedReval : Prop :=
  ∀ (body : Nat → Bytes) (fs₀ : FS) (k : Nat) (chunks : List Bytes) (m : Meta),
    Consistent body fs₀ → Storing body k chunks m →
    Consistent body (applyAll fs₀ (revalFill k chunks m))

/-- … and so does a crashed-then-healed one: after `get` has run for key k at any crash point of
    a fresh fill, the FS is Consistent again -/
def HealedConsistent : Prop :=
  ∀ (body : Nat → Bytes) (fs₀ : FS) (k : Nat) (chunks : List Bytes) (m : Meta) (P' : List Effect),
    Consistent body fs₀ → fs₀ (.final k) = none → Storing body k chunks m →
    P' <+: freshFill k chunks m → Consistent body (get (applyAll fs₀ P') k).1

/-- publish_is_last: in each filling protocol `setxattr` comes after every `append`, and (reval)
    `rename` after `setxattr` -/
def PublishIsLast : Prop :=
  ∀ (k : Nat) (chunks : List Bytes) (m : Meta),
    (∃ pre post, freshFill k chunks m = pre ++ [.setxattr (.final k) m] ++ post ∧
        (∀ e ∈ post, ∀ p b, e ≠ .append p b) ∧ appends (.final k) chunks <:+: pre) ∧
    (∃ pre post, revalFill k chunks m = pre ++ [.setxattr (.tmp k) m] ++ post ∧
        (∀ e ∈ post, ∀ p b, e ≠ .append p b) ∧ .rename (.tmp k) (.final k) ∈ post)

/-- the Vary-Origin key change of a revalidating writer moves a complete, correctly… NOT
    correctly labelled entry: state what holds — after `changeKey kOld kNew false` applied to a
    Consistent FS with an entry at kOld, the file at `final kNew` is complete (data = body of its
    response) but its xattr still says key kOld.  (Used to decide whether this is a finding.) -/
def ChangeKeyMovesEntry : Prop :=
  ∀ (body : Nat → Bytes) (fs₀ : FS) (kOld kNew : Nat) (f : File) (m : Meta),
    Consistent body fs₀ → kOld ≠ kNew → fs₀ (.final kOld) = some f → f.xattr = some m → fs₀ (.final kNew) = none →
    applyAll fs₀ (changeKey kOld kNew false) (.final kNew) = some f ∧
    applyAll fs₀ (changeKey kOld kNew false) (.final kOld) = none

/-! ### `Consistent`, one entry path at a time -/

/-- what `Consistent` says about the entry path of key k -/
def EntryOk (body : Nat → Bytes) (k : Nat) (o : Option File) : Prop :=
  ∀ f m, o = some f → f.xattr = some m → goodEntry body k f m ∧ m.size = f.data.length

theorem consistent_iff (body : Nat → Bytes) (fs : FS) :
    Consistent body fs ↔ ∀ k, EntryOk body k (fs (.final k)) := Iff.rfl

theorem entryOk_none (body : Nat → Bytes) (k : Nat) : EntryOk body k none := by
  intro f m hf; cases hf

/-- a free name or a file without metadata is never a published entry -/
theorem entryOk_of_noXattr (body : Nat → Bytes) (k : Nat) {o : Option File} (h : NoXattr o) :
    EntryOk body k o := by
  intro f m hf hx
  rw [h f hf] at hx; cases hx

/-- the whole body under the metadata of the response being stored is a good entry -/
theorem entryOk_stored {body : Nat → Bytes} {k : Nat} {chunks : List Bytes} {m : Meta}
    (hs : Storing body k chunks m) :
    EntryOk body k (some { data := chunks.flatten, xattr := some m }) := by
  intro f m' hf hx
  obtain rfl := Option.some.inj hf
  obtain rfl : m = m' := by simpa using hx
  exact ⟨⟨hs.whole, hs.key⟩, by rw [hs.size, ← hs.whole]⟩

/-- only the `.final` paths matter -/
theorem consistent_congr {body : Nat → Bytes} {fs fs' : FS} (h : ∀ k, fs' (.final k) = fs (.final k))
    (hc : Consistent body fs) : Consistent body fs' := by
  intro k; rw [h k]; exact hc k

theorem consistent_upd_final {body : Nat → Bytes} {fs : FS} {k : Nat} {o : Option File}
    (hc : Consistent body fs) (ho : EntryOk body k o) : Consistent body (upd fs (.final k) o) := by
  rw [consistent_iff]
  intro k'
  by_cases hk : k' = k
  · subst hk; rw [upd_same]; exact ho
  · rw [upd_other _ _ (by simp [hk])]; exact hc k'

theorem consistent_empty (body : Nat → Bytes) : Consistent body FS.empty := by
  intro k f m hf; cases hf

/-! ### `get`: a Consistent FS probes fine for every key, and healing keeps it Consistent -/

theorem probeOk_of_entryOk {body : Nat → Bytes} {fs : FS} {k' : Nat}
    (h : EntryOk body k' (fs (.final k'))) : probeOk body fs k' := by
  unfold probeOk
  cases hf : fs (.final k') with
  | none => rw [get_none hf]; simp [getWriterOk, hf]
  | some f =>
    cases hx : f.xattr with
    | none => rw [get_noXattr hf hx]; simp [getWriterOk]
    | some m =>
      have hg := (h f m hf hx).1
      by_cases hsz : f.data.length = m.size
      · rw [get_found_size hf hx hsz]; exact hg
      · cases hcl : m.hasContentLength with
        | true => rw [get_found_cl hf hx hcl]; exact hg
        | false => rw [get_size_mismatch hf hx hcl hsz]; simp [getWriterOk]

/-- **Consistent ⇒ every key probes fine**: a hit of a complete, correctly labelled entry, or a
    miss after which `GetWriter` is not refused (a file without xattr was removed by `get`) -/
theorem probeOk_of_consistent {body : Nat → Bytes} {fs : FS} (hc : Consistent body fs) (k' : Nat) :
    probeOk body fs k' :=
  probeOk_of_entryOk (hc k')

theorem get_consistent {body : Nat → Bytes} {fs : FS} (hc : Consistent body fs) (k : Nat) :
    Consistent body (get fs k).1 := by
  rcases get_fst fs k with h | h <;> rw [h]
  · exact hc
  · exact consistent_upd_final hc (entryOk_none body k)

/-! ### the protocols: where they write, and where they are quiet -/

/-- the part of a fresh fill before `setxattr` -/
def freshQuiet (k : Nat) (chunks : List Bytes) : List Effect :=
  [.nop "mkdirAll", .create (.final k)] ++ appends (.final k) chunks ++ [.nop "fd.Close"]

theorem freshFill_split (k : Nat) (chunks : List Bytes) (m : Meta) :
    freshFill k chunks m = freshQuiet k chunks ++ [.setxattr (.final k) m, .nop "chtimes"] := by
  simp [freshFill, freshQuiet]

theorem freshQuiet_quiet (k : Nat) (chunks : List Bytes) : ∀ e ∈ freshQuiet k chunks, quiet e = true := by
  intro e he
  simp only [freshQuiet, List.mem_append, List.mem_cons, List.not_mem_nil, or_false] at he
  rcases he with ((rfl | rfl) | he) | rfl
  · rfl
  · rfl
  · exact quiet_of_mem_appends he
  · rfl

/-- a fresh fill for key k writes only `.final k` -/
theorem freshFill_writes (k : Nat) (chunks : List Bytes) (m : Meta) :
    ∀ e ∈ freshFill k chunks m, ∀ q, q ≠ .final k → q ∉ writes e := by
  intro e he q hq
  simp only [freshFill, List.mem_append, List.mem_cons, List.not_mem_nil, or_false] at he
  rcases he with ((rfl | rfl) | he) | rfl | rfl | rfl
  · simp [writes]
  · simpa [writes] using hq
  · rw [writes_of_mem_appends he]; simpa using hq
  · simp [writes]
  · simpa [writes] using hq
  · simp [writes]

/-- the part of a revalidating fill before the `rename` -/
def revalPre (k : Nat) (chunks : List Bytes) (m : Meta) : List Effect :=
  [.nop "mkdirAll", .create (.tmp k)] ++ appends (.tmp k) chunks ++
  [.nop "fd.Close", .setxattr (.tmp k) m, .nop "chtimes"]

theorem revalFill_split (k : Nat) (chunks : List Bytes) (m : Meta) :
    revalFill k chunks m = revalPre k chunks m ++ [.rename (.tmp k) (.final k)] := by
  simp [revalFill, revalPre]

/-- before its `rename` a revalidating fill for key k writes only `.tmp k` -/
theorem revalPre_writes (k : Nat) (chunks : List Bytes) (m : Meta) :
    ∀ e ∈ revalPre k chunks m, ∀ q, q ≠ .tmp k → q ∉ writes e := by
  intro e he q hq
  simp only [revalPre, List.mem_append, List.mem_cons, List.not_mem_nil, or_false] at he
  rcases he with ((rfl | rfl) | he) | rfl | rfl | rfl
  · simp [writes]
  · simpa [writes] using hq
  · rw [writes_of_mem_appends he]; simpa using hq
  · simp [writes]
  · simpa [writes] using hq
  · simp [writes]

/-- the tmp file just before the `rename`: the whole body with the new metadata, whatever a
    stale `<name>.tmp` held before -/
theorem revalPre_tmp (fs : FS) (k : Nat) (chunks : List Bytes) (m : Meta) :
    applyAll fs (revalPre k chunks m) (.tmp k) = some { data := chunks.flatten, xattr := some m } := by
  have h := applyAll_fill fs (.tmp k) chunks m "mkdirAll" "fd.Close"
  have e : revalPre k chunks m =
      ([.nop "mkdirAll", .create (.tmp k)] ++ appends (.tmp k) chunks ++
        [.nop "fd.Close", .setxattr (.tmp k) m]) ++ [.nop "chtimes"] := by
    simp [revalPre]
  rw [e, applyAll_concat_nop]; exact h

/-! ### Consistent at every crash point -/

/-- fresh fill: the FS is Consistent at EVERY crash point (the half-written file carries no
    xattr, so it is not an entry; `get` removes it) -/
theorem consistent_prefix_fresh (body : Nat → Bytes) (fs₀ : FS) (k : Nat) (chunks : List Bytes)
    (m : Meta) (P' : List Effect) (hc : Consistent body fs₀) (hfree : fs₀ (.final k) = none)
    (hs : Storing body k chunks m) (hp : P' <+: freshFill k chunks m) :
    Consistent body (applyAll fs₀ P') := by
  rw [consistent_iff]
  intro k'
  by_cases hk : k' = k
  · subst hk
    have hfree' : NoXattr (fs₀ (.final k')) := by rw [hfree]; exact noXattr_none
    have hfull : applyAll fs₀ (freshQuiet k' chunks ++ [.setxattr (.final k') m]) (.final k')
        = some { data := chunks.flatten, xattr := some m } := by
      have h := applyAll_fill fs₀ (.final k') chunks m "mkdirAll" "fd.Close"
      have e : freshQuiet k' chunks ++ [.setxattr (.final k') m] =
          [.nop "mkdirAll", .create (.final k')] ++ appends (.final k') chunks ++
            [.nop "fd.Close", .setxattr (.final k') m] := by simp [freshQuiet]
      rw [e]; exact h
    rw [freshFill_split, prefix_append_iff] at hp
    rcases hp with hq | ⟨B', rfl, hB⟩
    · exact entryOk_of_noXattr body k'
        (applyAll_prefix_quiet fs₀ _ _ _ hq (freshQuiet_quiet k' chunks) hfree')
    · rcases (prefix_pair_iff _ _ _).1 hB with rfl | rfl | rfl
      · rw [List.append_nil]
        exact entryOk_of_noXattr body k' (applyAll_quiet fs₀ _ _ (freshQuiet_quiet k' chunks) hfree')
      · rw [hfull]; exact entryOk_stored hs
      · have e : freshQuiet k' chunks ++ [.setxattr (.final k') m, .nop "chtimes"] =
            (freshQuiet k' chunks ++ [.setxattr (.final k') m]) ++ [.nop "chtimes"] := by simp
        rw [e, applyAll_concat_nop, hfull]; exact entryOk_stored hs
  · rw [applyAll_prefix_other fs₀ _ _ _ hp
      (fun e he => freshFill_writes k chunks m e he _ (by simp [hk]))]
    exact hc k'

/-- revalidating fill: Consistent at every crash point — the entry path holds what it held
    before (old entry or nothing) until the atomic `rename` installs the complete new file -/
theorem consistent_prefix_reval (body : Nat → Bytes) (fs₀ : FS) (k : Nat) (chunks : List Bytes)
    (m : Meta) (P' : List Effect) (hc : Consistent body fs₀)
    (hs : Storing body k chunks m) (hp : P' <+: revalFill k chunks m) :
    Consistent body (applyAll fs₀ P') := by
  have hpre : ∀ P, P <+: revalPre k chunks m → Consistent body (applyAll fs₀ P) := by
    intro P hP
    refine consistent_congr (fun k' => ?_) hc
    exact applyAll_prefix_other fs₀ _ _ _ hP
      (fun e he => revalPre_writes k chunks m e he _ (by simp))
  rw [revalFill_split, prefix_append_iff] at hp
  rcases hp with hq | ⟨B', rfl, hB⟩
  · exact hpre _ hq
  · rcases (prefix_singleton_iff _ _).1 hB with rfl | rfl
    · rw [List.append_nil]; exact hpre _ List.prefix_rfl
    · rw [applyAll_append]
      simp only [applyAll_cons, applyAll_nil]
      rw [applyEffect_rename_some _ (revalPre_tmp fs₀ k chunks m)]
      refine consistent_congr (fs := upd (applyAll fs₀ (revalPre k chunks m)) (.final k)
        (some { data := chunks.flatten, xattr := some m })) (fun k' => ?_) ?_
      · rw [upd_other _ _ (by simp)]
      · exact consistent_upd_final (hpre _ List.prefix_rfl) (entryOk_stored hs)

/-- 304: Consistent at every crash point — the rewritten metadata describes the same response -/
theorem consistent_prefix_304 (body : Nat → Bytes) (fs₀ : FS) (k : Nat) (f : File) (mOld m : Meta)
    (P' : List Effect) (hc : Consistent body fs₀) (hf : fs₀ (.final k) = some f)
    (hx : f.xattr = some mOld) (hkey : m.key = k) (hresp : m.resp = mOld.resp)
    (hsize : m.size = mOld.size) (hp : P' <+: reval304 k m) :
    Consistent body (applyAll fs₀ P') := by
  have hold := hc k f mOld hf hx
  have hnew : Consistent body (applyEffect fs₀ (.setxattr (.final k) m)) := by
    rw [applyEffect_setxattr_some m hf]
    refine consistent_upd_final hc ?_
    intro f' m' hf' hx'
    obtain rfl := Option.some.inj hf'
    obtain rfl : m = m' := by simpa using hx'
    refine ⟨⟨?_, hkey⟩, ?_⟩
    · show f.data = body m.resp
      rw [hresp]; exact hold.1.1
    · show m.size = f.data.length
      rw [hsize]; exact hold.2
  have e : reval304 k m = [.nop "fd.Close"] ++ [.setxattr (.final k) m, .nop "chtimes"] := rfl
  rw [e, prefix_append_iff, prefix_singleton_iff] at hp
  rcases hp with (rfl | rfl) | ⟨B', rfl, hB⟩
  · exact hc
  · exact hc
  · rcases (prefix_pair_iff _ _ _).1 hB with rfl | rfl | rfl
    · exact hc
    · exact hnew
    · exact hnew

theorem consistent_prefix_evict (body : Nat → Bytes) (fs₀ : FS) (k : Nat) (P' : List Effect)
    (hc : Consistent body fs₀) (hp : P' <+: evict k) : Consistent body (applyAll fs₀ P') := by
  rw [evict, prefix_singleton_iff] at hp
  rcases hp with rfl | rfl
  · exact hc
  · exact consistent_upd_final hc (entryOk_none body k)

/-! ### the C14 theorems -/

theorem crash_safe_fresh : CrashSafeFresh := by
  intro body fs₀ k chunks m P' k' hc hfree hs hp
  exact probeOk_of_consistent (consistent_prefix_fresh body fs₀ k chunks m P' hc hfree hs hp) k'

theorem crash_safe_reval : CrashSafeReval := by
  intro body fs₀ k chunks m P' k' hc hs hp
  exact probeOk_of_consistent (consistent_prefix_reval body fs₀ k chunks m P' hc hs hp) k'

theorem crash_safe_304 : CrashSafe304 := by
  intro body fs₀ k f mOld m P' k' hc hf hx hkey hresp hsize hp
  exact probeOk_of_consistent
    (consistent_prefix_304 body fs₀ k f mOld m P' hc hf hx hkey hresp hsize hp) k'

theorem crash_safe_evict : CrashSafeEvict := by
  intro body fs₀ k P' k' hc hp
  exact probeOk_of_consistent (consistent_prefix_evict body fs₀ k P' hc hp) k'

theorem consistent_preserved_fresh : ConsistentPreservedFresh := by
  intro body fs₀ k chunks m hc hfree hs
  exact consistent_prefix_fresh body fs₀ k chunks m _ hc hfree hs List.prefix_rfl

theorem consistent_preserved_reval : ConsistentPreservedReval := by
  intro body fs₀ k chunks m hc hs
  exact consistent_prefix_reval body fs₀ k chunks m _ hc hs List.prefix_rfl

theorem healed_consistent : HealedConsistent := by
  intro body fs₀ k chunks m P' hc hfree hs hp
  exact get_consistent (consistent_prefix_fresh body fs₀ k chunks m P' hc hfree hs hp) k

/-- what the healing is needed for is not `Consistent` (which holds at every crash point) but
    the refill: after the probe of key k at a crash point of a fresh fill, the entry path is
    free, or holds the complete published entry -/
theorem healed_free_or_complete (body : Nat → Bytes) (fs₀ : FS) (k : Nat) (chunks : List Bytes)
    (m : Meta) (P' : List Effect) (hc : Consistent body fs₀) (hfree : fs₀ (.final k) = none)
    (hs : Storing body k chunks m) (hp : P' <+: freshFill k chunks m) :
    (get (applyAll fs₀ P') k).2 = .miss ∧ (get (applyAll fs₀ P') k).1 (.final k) = none ∨
    ∃ f mm, (get (applyAll fs₀ P') k).2 = .found f mm ∧ goodEntry body k f mm := by
  have h := crash_safe_fresh body fs₀ k chunks m P' k hc hfree hs hp
  unfold probeOk at h
  cases hg : get (applyAll fs₀ P') k with
  | mk fs' r =>
    rw [hg] at h
    cases r with
    | miss => exact Or.inl ⟨rfl, by simpa [getWriterOk] using h⟩
    | found f mm => exact Or.inr ⟨f, mm, rfl, h⟩

theorem publish_is_last : PublishIsLast := by
  intro k chunks m
  refine ⟨⟨[.nop "mkdirAll", .create (.final k)] ++ appends (.final k) chunks ++ [.nop "fd.Close"],
      [.nop "chtimes"], by simp [freshFill], ?_, ?_⟩,
    ⟨[.nop "mkdirAll", .create (.tmp k)] ++ appends (.tmp k) chunks ++ [.nop "fd.Close"],
      [.nop "chtimes", .rename (.tmp k) (.final k)], by simp [revalFill], ?_, ?_⟩⟩
  · intro e he p b
    simp only [List.mem_cons, List.not_mem_nil, or_false] at he
    subst he; intro h; cases h
  · exact ⟨[.nop "mkdirAll", .create (.final k)], [.nop "fd.Close"], rfl⟩
  · intro e he p b
    simp only [List.mem_cons, List.not_mem_nil, or_false] at he
    rcases he with rfl | rfl <;> (intro h; cases h)
  · simp

theorem changeKey_moves_entry : ChangeKeyMovesEntry := by
  intro body fs₀ kOld kNew f m _ hne hf _ _
  have hp : (Path.final kNew) ≠ Path.final kOld := by
    intro h; cases h; exact hne rfl
  have e : applyAll fs₀ (changeKey kOld kNew false) = upd (upd fs₀ (.final kNew) (some f)) (.final kOld) none := by
    simp only [changeKey, Bool.false_eq_true, ↓reduceIte, applyAll_cons, applyAll_nil]
    exact applyEffect_rename_some _ hf
  rw [e]
  exact ⟨by rw [upd_other _ _ hp, upd_same], upd_same _ _ _⟩

/-- Remark to `ChangeKeyMovesEntry` (for the decision whether this is a finding): the moved file
    still carries the xattr written for `kOld`, so in the window between `ChangeKey` and the
    writer's own `setxattr`/`rename` the FS is NOT Consistent and a probe of `kNew` is a hit of an
    entry labelled for another key. -/
theorem changeKey_mislabels (body : Nat → Bytes) (fs₀ : FS) (kOld kNew : Nat) (f : File) (m : Meta)
    (hc : Consistent body fs₀) (hne : kOld ≠ kNew) (hf : fs₀ (.final kOld) = some f)
    (hx : f.xattr = some m) (hfree : fs₀ (.final kNew) = none) :
    ¬ probeOk body (applyAll fs₀ (changeKey kOld kNew false)) kNew ∧
    ¬ Consistent body (applyAll fs₀ (changeKey kOld kNew false)) := by
  have hmv := (changeKey_moves_entry body fs₀ kOld kNew f m hc hne hf hx hfree).1
  have hold := hc kOld f m hf hx
  have hcons : ¬ Consistent body (applyAll fs₀ (changeKey kOld kNew false)) := by
    intro h
    exact hne ((hold.1.2).symm.trans (h kNew f m hmv hx).1.2)
  refine ⟨?_, hcons⟩
  intro h
  unfold probeOk Model.Crash.get at h
  rw [hmv] at h
  simp only [hx] at h
  by_cases hcl : m.hasContentLength = true
  · simp only [hcl, ↓reduceIte] at h
    exact hne (hold.1.2.symm.trans h.2)
  · simp only [hcl, Bool.false_eq_true, ↓reduceIte, hold.2, ne_eq, not_true_eq_false] at h
    exact hne (hold.1.2.symm.trans h.2)

/-! ### non-vacuity: a concrete FS, a stored entry for key 5, a fill for key 1 in two chunks -/

def exBody : Nat → Bytes := fun r => if r = 7 then [1, 2, 3] else if r = 0 then [9] else []
def exOld : Meta := { key := 5, resp := 0, size := 1, hasContentLength := false }
def exOldFile : File := { data := [9], xattr := some exOld }
/-- one published entry (key 5) and a stale metadata-carrying `<name>.tmp` of key 5 -/
def exFs : FS := upd (upd FS.empty (.final 5) (some exOldFile)) (.tmp 5) (some { data := [4, 4], xattr := some exOld })
def exMeta : Meta := { key := 1, resp := 7, size := 3, hasContentLength := false }
def exMeta5 : Meta := { key := 5, resp := 7, size := 3, hasContentLength := true }
def exChunks : List Bytes := [[1, 2], [3]]

example : Consistent exBody exFs := by
  refine consistent_congr (fs := upd FS.empty (.final 5) (some exOldFile)) (fun k => ?_) ?_
  · exact upd_other _ _ (by simp)
  · refine consistent_upd_final (consistent_empty _) ?_
    intro f m hf hx
    obtain rfl := Option.some.inj hf
    obtain rfl : exOld = m := by simpa [exOldFile] using hx
    exact ⟨⟨rfl, rfl⟩, rfl⟩

example : Storing exBody 1 exChunks exMeta := ⟨rfl, rfl, rfl⟩
example : Storing exBody 5 exChunks exMeta5 := ⟨rfl, rfl, rfl⟩
example : exFs (.final 1) = none := rfl

/-- a crash point inside the body (after `create` and the first chunk) is a prefix … -/
example : [.nop "mkdirAll", .create (.final 1), .append (.final 1) [1, 2]] <+: freshFill 1 exChunks exMeta :=
  ⟨_, rfl⟩
/-- … the torn file is there, without metadata … -/
example : applyAll exFs [.nop "mkdirAll", .create (.final 1), .append (.final 1) [1, 2]] (.final 1)
    = some { data := [1, 2], xattr := none } := by decide
/-- … it probes as a miss, and the probe frees the path -/
example : (get (applyAll exFs [.nop "mkdirAll", .create (.final 1), .append (.final 1) [1, 2]]) 1).2 = .miss := by
  decide
example : (get (applyAll exFs [.nop "mkdirAll", .create (.final 1), .append (.final 1) [1, 2]]) 1).1 (.final 1) = none := by
  decide
/-- after the whole body but before `setxattr`: still a miss -/
example : (get (applyAll exFs ([.nop "mkdirAll", .create (.final 1)] ++ appends (.final 1) exChunks ++ [.nop "fd.Close"])) 1).2
    = .miss := by decide
/-- the full fresh fill probes as found, with the whole body -/
example : (get (applyAll exFs (freshFill 1 exChunks exMeta)) 1).2
    = .found { data := [1, 2, 3], xattr := some exMeta } exMeta := by decide
/-- the other key is a hit at that crash point -/
example : (get (applyAll exFs [.nop "mkdirAll", .create (.final 1), .append (.final 1) [1, 2]]) 5).2
    = .found exOldFile exOld := by decide

/-- revalidating fill of key 5 over the stale tmp file: old entry at every point before the rename … -/
example : (get (applyAll exFs (revalPre 5 exChunks exMeta5)) 5).2 = .found exOldFile exOld := by decide
example : applyAll exFs (revalPre 5 exChunks exMeta5) (.tmp 5)
    = some { data := [1, 2, 3], xattr := some exMeta5 } := by decide
/-- … and the new one after it -/
example : (get (applyAll exFs (revalFill 5 exChunks exMeta5)) 5).2
    = .found { data := [1, 2, 3], xattr := some exMeta5 } exMeta5 := by decide
example : applyAll exFs (revalFill 5 exChunks exMeta5) (.tmp 5) = none := by decide

/-- 304 for key 5: same response, same size, refreshed metadata -/
example : (get (applyAll exFs (reval304 5 { exOld with revalidated := 1 })) 5).2
    = .found { exOldFile with xattr := some { exOld with revalidated := 1 } } { exOld with revalidated := 1 } := by
  decide
/-- eviction -/
example : (get (applyAll exFs (evict 5)) 5).2 = .miss := by decide

/-- the hypotheses of `ChangeKeyMovesEntry` / `changeKey_mislabels` are satisfiable: key 5 → 6 -/
example : exFs (.final 5) = some exOldFile ∧ exOldFile.xattr = some exOld ∧ exFs (.final 6) = none :=
  ⟨rfl, rfl, rfl⟩
example : (get (applyAll exFs (changeKey 5 6 false)) 6).2 = .found exOldFile exOld ∧ exOld.key ≠ 6 := by
  decide

/-- without the quantification over chunkings the theorem would miss torn writes: the same
    body in one chunk and in three chunks are both instances -/
example : Storing exBody 1 [[1, 2, 3]] exMeta ∧ Storing exBody 1 [[1], [], [2, 3]] exMeta :=
  ⟨⟨rfl, rfl, rfl⟩, ⟨rfl, rfl, rfl⟩⟩

end Props.C14
