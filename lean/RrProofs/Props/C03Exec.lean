import RrModel.Exec
import RrModel.Spec.Sys
/-
  C03 — method and body clause, on the executor model (routeRequest / performRequest):
  every destination that is contacted receives the client's method and complete body.
  The header clauses are in RrProofs/Props/C03.lean.
-/
namespace Props.C03Exec
open Go Model Spec.Sys

/-- the invariant carried through the executor: every answered contact so far has the
    client's method and body -/
def Intact (m b : Bytes) (st : ExecState) : Prop :=
  ∀ c ∈ st.contacts, c.failed = false → c.method = m ∧ c.body = b

theorem doOnce_intact (script : List OriginEntry) (st : ExecState) (host m b : Bytes)
    (h : Intact m b st) : Intact m b (doOnce script st host m b).1 := by
  unfold doOnce
  cases hf : script.find? (·.host = host) with
  | none =>
    intro c hc hfail
    simp only [bumpFail, List.mem_append, List.mem_singleton] at hc
    rcases hc with hc | hc
    · exact h c hc hfail
    · subst hc; simp at hfail
  | some e =>
    by_cases hlt : failCount st host < e.connectErrors
    · simp only [hlt, ↓reduceIte]
      intro c hc hfail
      simp only [bumpFail, List.mem_append, List.mem_singleton] at hc
      rcases hc with hc | hc
      · exact h c hc hfail
      · subst hc; simp at hfail
    · simp only [hlt, ↓reduceIte]
      intro c hc hfail
      simp only [List.mem_append, List.mem_singleton] at hc
      rcases hc with hc | hc
      · exact h c hc hfail
      · subst hc; exact ⟨rfl, rfl⟩

theorem attemptLoop_intact (script : List OriginEntry) (host m b : Bytes) (n : Nat) (st : ExecState)
    (h : Intact m b st) : Intact m b (attemptLoop script host m b n st).1 := by
  induction n generalizing st with
  | zero => exact h
  | succ n ih =>
    unfold attemptLoop
    have h1 := doOnce_intact script st host m b h
    cases hd : doOnce script st host m b with
    | mk st' r =>
      rw [hd] at h1
      cases r with
      | some e => exact h1
      | none => exact ih st' h1

/-- what the two body sources deliver: the buffered bytes, or what is left of the client body -/
def srcBody (st : ExecState) : BodySrc → Bytes
  | .buffered d => d
  | .client => st.remaining

/-- **connect_retries_resend_body** (and the single-attempt case): every attempt that is
    answered carries the complete body, for every fault script, retry count and method -/
theorem performRequest_intact (script : List OriginEntry) (retries : Nat) (excl : Bytes)
    (st : ExecState) (host m b : Bytes) (src : BodySrc) (ra : Bool)
    (hsrc : srcBody st src = b) (h : Intact m b st) :
    Intact m b (performRequest script retries excl st host m src ra).1 := by
  unfold performRequest
  by_cases hc : m ≠ excl ∧ ra = true
  · rw [if_pos hc]
    cases src with
    | buffered d =>
      simp only [srcBody] at hsrc; subst hsrc
      exact attemptLoop_intact script host m d _ st h
    | client =>
      simp only [srcBody] at hsrc
      simp only
      rw [hsrc]
      exact attemptLoop_intact script host m b _ _ (fun c hc' hf => h c hc' hf)
  · rw [if_neg hc]
    cases src with
    | buffered d =>
      simp only [srcBody] at hsrc; subst hsrc
      exact doOnce_intact script st host m d h
    | client =>
      simp only [srcBody] at hsrc
      simp only
      rw [hsrc]
      exact doOnce_intact script _ host m b (fun c hc' hf => h c hc' hf)

theorem copyStage_intact (cfg : ExecCfg) (m b : Bytes) (hasRetry : Bool) (ch : Option (Option Bytes))
    (src : BodySrc) (st : ExecState) (hsrc : srcBody st src = b) (h : Intact m b st) :
    Intact m b (copyStage cfg m hasRetry ch src st) := by
  unfold copyStage
  split
  · exact performRequest_intact _ _ _ _ _ m b _ _ hsrc h
  · exact h

theorem mainStage_intact (cfg : ExecCfg) (m b : Bytes) (hasRetry : Bool) (mh : Option (Option Bytes))
    (idx : Option Nat) (src : BodySrc) (st : ExecState) (hsrc : srcBody st src = b) (h : Intact m b st) :
    Intact m b (mainStage cfg m hasRetry mh idx src st).1 := by
  unfold mainStage
  split
  · rename_i hh
    have := performRequest_intact cfg.script cfg.retries cfg.excluded st hh m b src (!hasRetry) hsrc h
    split <;> (rename_i heq; rw [heq] at this; exact this)
  · exact h

/-- body buffering and the two performs, for whatever copy request was built -/
theorem performBoth_intact (cfg : ExecCfg) (m b : Bytes) (hasRetry : Bool)
    (main : Option (Rule × Bytes × Option Nat)) (copy : Option (Rule × Bytes)) (st : ExecState)
    (hr : st.remaining = b) (h : Intact m b st) :
    Intact m b (performBoth cfg m hasRetry main copy st).1 := by
  unfold performBoth
  simp only
  split
  · -- buffered: both stages read a fresh copy of the buffered bytes
    apply mainStage_intact _ _ _ _ _ _ _ _ (by simp [srcBody, hr])
    apply copyStage_intact _ _ _ _ _ _ _ (by simp [srcBody, hr])
    exact fun c hc hf => h c hc hf
  · -- not buffered: there are not two targets, so only one stage reads the client body
    rename_i hbuf
    have hnot : ¬ (main.isSome = true ∧ copy.isSome = true) := by
      intro ⟨h1, h2⟩; simp [h1, h2] at hbuf
    cases hcopy : copy with
    | none =>
      simp only [Option.map_none, copyStage]
      exact mainStage_intact _ _ _ _ _ _ _ _ (by simp [srcBody, hr]) h
    | some c =>
      have hmain : main = none := by
        cases hm : main with
        | none => rfl
        | some x => exfalso; apply hnot; simp [hcopy, hm]
      subst hmain
      simp only [Option.map_none, mainStage]
      exact copyStage_intact _ _ _ _ _ _ _ (by simp [srcBody, hr]) h

/-- one pass: if it starts with the whole body still unread, every answered contact of the
    pass carries the client's method and body — for every script, retry count, rule pair
    (a copy request that cannot be built is dropped: nothing is sent for it) -/
theorem routeOnce_intact (cfg : ExecCfg) (m b : Bytes) (hasRetry : Bool)
    (main : Option (Rule × Bytes × Option Nat)) (copy : Option (Rule × Bytes)) (st : ExecState)
    (hr : st.remaining = b) (h : Intact m b st) :
    Intact m b (routeOnce cfg m hasRetry main copy st).1 := by
  unfold routeOnce
  simp only
  split
  · exact h
  · split
    · exact h
    · split
      · exact h
      · exact performBoth_intact cfg m b hasRetry main _ st hr h

/-- **C03, method and body (full statement).** For every rule flavour, fault script and retry
    chain, every answered contact received the client's method and complete body. -/
def Statement : Prop :=
  ∀ (cfg : ExecCfg) (q : Query) (m b : Bytes) (chain : List Rule)
    (main : Option (Rule × Bytes × Option Nat)) (copy : Option (Rule × Bytes)),
    Intact m b (routeRequest cfg q m chain main copy { remaining := b }).1

/-- the invariant through the whole retry chain: each pass starts with the complete body
    (re-armed from the buffered bytes before a fallback) -/
theorem routeRequest_intact (cfg : ExecCfg) (q : Query) (m b : Bytes) (chain : List Rule)
    (main : Option (Rule × Bytes × Option Nat)) (copy : Option (Rule × Bytes)) (st : ExecState)
    (hr : st.remaining = b) (h : Intact m b st) :
    Intact m b (routeRequest cfg q m chain main copy st).1 := by
  induction chain generalizing main copy st with
  | nil =>
    have := routeOnce_intact cfg m b false main copy st hr h
    unfold routeRequest
    split
    · rename_i heq; rw [heq] at this; exact this
    · rename_i heq; rw [heq] at this; split <;> exact this
    · rename_i heq; rw [heq] at this; exact this
  | cons rr rest ih =>
    have := routeOnce_intact cfg m b true main copy st hr h
    unfold routeRequest
    split
    · rename_i heq; rw [heq] at this; exact this
    · rename_i st' e idx heq
      rw [heq] at this
      split
      · exact this
      · split
        · exact ih _ _ _ (by simp [hr]) (fun c hc hf => this c hc hf)
        · exact this
    · rename_i st' heq
      rw [heq] at this
      exact ih _ _ _ (by simp [hr]) (fun c hc hf => this c hc hf)

/-- **C03 as stated**: proxy target, copy target, every repeat attempt after a connection
    failure and every retry_rule fallback, at any depth of the retry chain. -/
theorem holds_model : Statement := by
  intro cfg q m b chain main copy
  exact routeRequest_intact cfg q m b chain main copy { remaining := b } rfl (by intro c hc; simp at hc)

/-! Regression instance (the former finding C03-a, repaired by a `fix:` commit): PUT with a body,
    main answers 404, retry_rule present ⇒ the fallback receives the COMPLETE body. -/
def wCfg : ExecCfg := {
  script := [ { host := b!"d0.test", status := 404, headers := [], body := b!"nf", chunked := false, connectErrors := 0, readErrAt := none },
              { host := b!"r0.test", status := 200, headers := [], body := b!"fallback", chunked := false, connectErrors := 0, readErrAt := none } ],
  retries := 0, excluded := b!"POST", build := fun _ => none,
  is4xx := fun s => 400 ≤ s && s ≤ 499, isRedirect := fun _ => false, locationOk := fun _ => true }
def wMain : Rule := { path := b!"/m/*", wci := some 3, dest := b!"http://d0.test/$1" }
def wRetry : Rule := { path := b!"/m/*", wci := some 3, dest := b!"http://r0.test/fb/$1" }
def wQ : Query := ⟨b!"http", b!"h1.test", b!"/m/a", b!"PUT"⟩

example :
    (routeRequest wCfg wQ b!"PUT" [wRetry] (some (wMain, b!"http://d0.test/a", some 0)) none { remaining := b!"payload" }).1.contacts
      = [⟨b!"d0.test", b!"PUT", false, b!"payload"⟩, ⟨b!"r0.test", b!"PUT", false, b!"payload"⟩] := by decide

/-- POST (not retryable) through a retry_rule: buffered too, so the fallback gets the body -/
example :
    (routeRequest wCfg { wQ with method := b!"POST" } b!"POST" [wRetry] (some (wMain, b!"http://d0.test/a", some 0)) none { remaining := b!"payload" }).1.contacts
      = [⟨b!"d0.test", b!"POST", false, b!"payload"⟩, ⟨b!"r0.test", b!"POST", false, b!"payload"⟩] := by decide

/-- non-vacuity: a copy target, a failing-then-answering main target -/
example : (routeRequest { wCfg with script := [ { host := b!"d0.test", status := 200, headers := [], body := b!"ok", chunked := false, connectErrors := 1, readErrAt := none },
                                                 { host := b!"c0.test", status := 500, headers := [], body := [], chunked := false, connectErrors := 0, readErrAt := none } ],
                                     retries := 1 }
            wQ b!"PUT" [] (some (wMain, b!"http://d0.test/a", some 0)) (some (wMain, b!"http://c0.test/a")) { remaining := b!"payload" }).1.contacts
    = [⟨b!"c0.test", b!"PUT", false, b!"payload"⟩, ⟨b!"d0.test", b!"PUT", true, []⟩, ⟨b!"d0.test", b!"PUT", false, b!"payload"⟩] := by decide

end Props.C03Exec
