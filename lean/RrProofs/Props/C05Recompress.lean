import RrModel.Recompress
import RrProofs.Lemmas.Header
/-
  C05 on the recompression path (rules without cache): "Content-Length, when present, equal to the
  bytes delivered". Whenever the handler changes the body (a gzip layer removed, an encoding added)
  it deletes the origin's Content-Length; a Content-Length that reaches the client is the origin's
  own, next to the origin's own bytes.
-/
namespace Props.C05Recompress
open Go Model.Recompress Go.Header

theorem vary_ne : canon kVary ≠ canon kContentLength := by decide
theorem ce_ne : canon kContentEncoding ≠ canon kContentLength := by decide
theorem cs_ne : canon kCacheStatus ≠ canon kContentLength := by decide

/-- **content_length_only_with_the_origins_bytes.** For every codec, rule flag, Accept-Encoding and
    origin response: if the response the handler builds carries a Content-Length, then it is the
    origin's Content-Length and the body is the origin's body, byte for byte. -/
theorem content_length_only_with_the_origins_bytes (E : Ext) (x : Input)
    (h : (respond E x).headers.get kContentLength ≠ []) (hs : (respond E x).status = 200) :
    (respond E x).body = x.originBody ∧
    (respond E x).headers.get kContentLength = x.originHeaders.get kContentLength := by
  unfold respond handle at *
  generalize decision x = rc at *
  by_cases hr : rc.remove = .gzip
  · -- a removed layer deletes the length; adding on top deletes it again
    simp only [hr, if_true] at h hs ⊢
    cases hd : E.gzipDec x.originBody with
    | none => simp [hd] at hs
    | some plain =>
      simp only [hd] at h
      exfalso; apply h
      unfold rewriteAdd rewriteRemove
      by_cases ha : rc.add = .none
      · simp [ha, hr, ce_ne]
      · simp [ha, hr, ce_ne, vary_ne]
  · simp only [hr, if_false] at h hs ⊢
    by_cases ha : rc.add = .none
    · simp [rewriteAdd, rewriteRemove, ha, hr, encode, clearAndCopyHeaders, cs_ne]
    · exfalso; apply h
      simp [rewriteAdd, rewriteRemove, ha, hr, ce_ne, vary_ne]

end Props.C05Recompress
