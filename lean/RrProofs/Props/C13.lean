import RrModel.Conc
import RrProofs.Lemmas.Conc
/-
  C13 — fault tolerance of the cache front for one key, on the interleaving model `Model.Conc`:
  no wedge, waiters registered, lock always released (every fault assignment, every schedule);
  partial responses: false in full (finding C13-a, origin body read error), proved without it.
-/
namespace Props.C13
open Model.Conc Lemmas.Conc

/-- no_wedge: once every request has finished and the notifier is idle, the key is unlocked —
    for every fault assignment and schedule -/
def NoWedge : Prop :=
  ∀ (n : Nat) (f : Nat → Fault) (sched : List Actor),
    let s := run (init n f) sched
    (∀ i, i < n → (s.threads i).pc = .done) → s.notifier = .idle → s.lock = none

/-- waiters are always registered with the lock they wait on (so a release wakes them):
    nobody can be left waiting after the writer is gone -/
def WaitersRegistered : Prop :=
  ∀ (n : Nat) (f : Nat → Fault) (sched : List Actor) (j : Nat),
    let s := run (init n f) sched
    j < n → (s.threads j).pc = .waiting → (s.threads j).woken = false →
    ∃ ws, s.lock = some ws ∧ j ∈ ws

/-- lock_always_released: a lock entry is only present while its taker is still on its way or its
    release is pending in the notifier -/
def LockAlwaysReleased : Prop :=
  ∀ (n : Nat) (f : Nat → Fault) (sched : List Actor) (i : Nat),
    let s := run (init n f) sched
    s.holder = some i → i < n ∧ ((s.threads i).pc ≠ .done ∨ s.notifier ≠ .idle)

/-- partial_never_served, full statement: nobody is ever served a strict prefix of an origin body -/
def PartialNeverServed : Prop :=
  ∀ (n : Nat) (f : Nat → Fault) (sched : List Actor) (i : Nat) (v : Nat), i < n →
    ((run (init n f) sched).threads i).view ≠ .truncated v

/-- proved part: without an origin body read error (class of finding C13-a) -/
def PartialNeverServedPartial : Prop :=
  ∀ (n : Nat) (f : Nat → Fault) (sched : List Actor) (i : Nat) (v : Nat), i < n →
    (∀ j, f j ≠ .readErr) →
    ((run (init n f) sched).threads i).view ≠ .truncated v

/-- the number of threads never changes -/
theorem run_n (n : Nat) (f : Nat → Fault) (sched : List Actor) : (run (init n f) sched).n = n :=
  run_inv (fun s => s.n = n) (fun s s' h hs => by cases hs <;> exact h) _ _ rfl

theorem no_wedge : NoWedge := by
  intro n f sched s hall hidle
  have hI : Inv s := inv_run n f sched
  have hn : s.n = n := run_n n f sched
  cases hh : s.holder with
  | none =>
    have := hI.lockHolder
    rw [hh] at this
    simpa using this
  | some h =>
    obtain ⟨h1, _, h3⟩ := hI.holderOk h hh
    exact absurd hidle (h3 (hall h (hn ▸ h1)))

theorem waiters_registered : WaitersRegistered := by
  intro n f sched j s _ hpc hw
  exact (inv_run n f sched).waiters j hpc hw

theorem lock_always_released : LockAlwaysReleased := by
  intro n f sched i s hh
  obtain ⟨h1, _, h3⟩ := (inv_run n f sched).holderOk i hh
  refine ⟨run_n n f sched ▸ h1, ?_⟩
  by_cases hd : (s.threads i).pc = .done
  · exact Or.inr (h3 hd)
  · exact Or.inl hd

theorem partial_never_served_partial : PartialNeverServedPartial := by
  intro n f sched i v _ hf hv
  have := (invR_run n f hf sched).views i
  rw [hv] at this
  simp [View.isTruncated] at this

/-! ### the full statement is false: finding C13-a -/

abbrev T (i : Nat) : Actor := .thread i

/-- thread 0's origin body read fails -/
def faultsC : Nat → Fault := fun i => if i = 0 then .readErr else .none

/-- thread 0 fills, thread 1 waits; the read error still publishes (the size checks are dead), the
    notifier wakes thread 1, which is served the truncated entry before thread 0's cleanup -/
def schedC : List Actor :=
  [T 0, T 0, T 0, T 1, T 1, T 0, T 0, T 0, T 0, .notifier, T 1, T 0, T 0, .notifier]

theorem partial_served_witness :
    ((run (init 2 faultsC) schedC).threads 1).view = .truncated 1 := by decide

theorem PartialNeverServed_false : ¬ PartialNeverServed := by
  intro h
  exact h 2 faultsC schedC 1 1 (by decide) partial_served_witness

/-! ### non-vacuity -/

/-- faults other than a read error: thread 0 cannot connect, thread 1's response is uncacheable -/
def faultsOk : Nat → Fault := fun i => if i = 0 then .connectErr else if i = 1 then .uncacheable else .none

/-- partial_never_served_partial: its hypothesis admits faulty origins, and requests finish -/
example : (∀ j, faultsOk j ≠ .readErr) ∧
    let s := run (init 2 faultsOk) [T 0, T 0, T 0, T 0, .notifier, T 1, T 1, T 1, T 1, .notifier, T 1, .notifier]
    (s.threads 0).pc = .done ∧ (s.threads 0).view = .error 502 ∧
    (s.threads 1).pc = .done ∧ (s.threads 1).view = .complete 1 false ∧ s.lock = none := by
  refine ⟨?_, by decide⟩
  intro j; unfold faultsOk
  split
  · simp
  · split <;> simp

/-- no_wedge: all requests done and the notifier idle is reachable, also under faults -/
example :
    let s := run (init 2 faultsC) schedC
    (∀ i, i < 2 → (s.threads i).pc = .done) ∧ s.notifier = .idle ∧ s.lock = none := by decide

/-- waiters_registered: an unwoken waiter exists while the writer fetches -/
example :
    let s := run (init 2 faultsC) [T 0, T 0, T 0, T 1, T 1]
    (s.threads 1).pc = .waiting ∧ (s.threads 1).woken = false ∧ s.lock = some [1] := by decide

/-- lock_always_released: both disjuncts occur — the holder on its way, and the holder done with
    its release still pending in the notifier -/
example :
    let s := run (init 1 (fun _ => .connectErr)) [T 0, T 0, T 0]
    s.holder = some 0 ∧ (s.threads 0).pc = .notify 3 ∧ s.notifier = .idle := by decide
example :
    let s := run (init 1 (fun _ => .connectErr)) [T 0, T 0, T 0, T 0]
    s.holder = some 0 ∧ (s.threads 0).pc = .done ∧ s.notifier = .got 0 := by decide

end Props.C13
