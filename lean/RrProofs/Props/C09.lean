import RrModel.Spec.C09
import RrProofs.Lemmas.HeaderC09
/-
  C09 — Revalidation and conditional requests never misreport content (function level; the
  client-validator comparison of cache.Get is proved in the Freshness slice).
  Only property theorems, their local lemmas and non-vacuity examples.
-/
namespace Props.C09
open Go Model.Conditional Spec.C09 HeaderC09

/-! ### local lemmas: the literal keys -/

theorem get_congr (h : Header) {k k' : Bytes} (hk : canon k = canon k') : h.get k = h.get k' := by
  unfold Header.get Header.values; rw [hk]

theorem canon_inm_ims : canon kINM ≠ canon kIMS := by decide
theorem canon_ims_inm : canon kIMS ≠ canon kINM := by decide
theorem canon_inm_range : canon kINM ≠ canon kRange := by decide
theorem canon_ims_range : canon kIMS ≠ canon kRange := by decide
theorem canon_range_inm : canon kRange ≠ canon kINM := by decide
theorem canon_range_ims : canon kRange ≠ canon kIMS := by decide
theorem canon_ETag : canon b!"ETag" = canon kEtag := by decide
theorem canon_LastModified : canon b!"Last-Modified" = canon kLM := by decide
theorem canon_IfNoneMatch : canon b!"If-None-Match" = canon kINM := by decide
theorem canon_IfModifiedSince : canon b!"If-Modified-Since" = canon kIMS := by decide

theorem length_pos_iff_ne_nil (b : Bytes) : b.length > 0 ↔ b ≠ [] := by
  cases b <;> simp

/-- the request after `Del range` (only when `getRange` parsed it) -/
def r0 (rp : Bool) (client : Header) : Header := if rp then client.del kRange else client

theorem get_r0_inm (rp : Bool) (client : Header) : (r0 rp client).get kINM = client.get kINM := by
  unfold r0; cases rp
  · rfl
  · simp [get_del, canon_inm_range]

theorem get_r0_ims (rp : Bool) (client : Header) : (r0 rp client).get kIMS = client.get kIMS := by
  unfold r0; cases rp
  · rfl
  · simp [get_del, canon_ims_range]

/-! ### `RevalidateHeaders`: which key, which value -/

/-- the value is the first non-empty one of `if-none-match`, `etag`, `if-modified-since`,
    `last-modified`; the key returned is the request-side name of the pair it was found in. -/
theorem revalidateHeaders_spec (h : Header) :
    (h.get kINM ≠ [] → revalidateHeaders h = (kINM, kEtag, h.get kINM)) ∧
    (h.get kINM = [] → h.get kEtag ≠ [] → revalidateHeaders h = (kINM, kEtag, h.get kEtag)) ∧
    (h.get kINM = [] → h.get kEtag = [] → h.get kIMS ≠ [] →
        revalidateHeaders h = (kIMS, kLM, h.get kIMS)) ∧
    (h.get kINM = [] → h.get kEtag = [] → h.get kIMS = [] → h.get kLM ≠ [] →
        revalidateHeaders h = (kIMS, kLM, h.get kLM)) ∧
    (h.get kINM = [] → h.get kEtag = [] → h.get kIMS = [] → h.get kLM = [] →
        revalidateHeaders h = ([], [], [])) := by
  unfold revalidateHeaders
  refine ⟨?_, ?_, ?_, ?_, ?_⟩
  · intro h1; simp [h1]
  · intro h1 h2; simp [h1, h2]
  · intro h1 h2 h3; simp [h1, h2, h3]
  · intro h1 h2 h3 h4; simp [h1, h2, h3, h4]
  · intro h1 h2 h3 h4; simp [h1, h2, h3, h4]

example : revalidateHeaders [(b!"Etag", [b!"\"a\""]), (b!"Last-Modified", [b!"d"])]
    = (kINM, kEtag, b!"\"a\"") := by decide
example : revalidateHeaders [(b!"Last-Modified", [b!"d"])] = (kIMS, kLM, b!"d") := by decide
/-- a raw lower-case key is invisible to `Get`, as in Go -/
example : revalidateHeaders [(b!"etag", [b!"\"a\""])] = ([], [], []) := by decide

/-! ### header surgery of the writer rows -/

/-- **C09, "revalidation sends the stored validators"** — exactly what the code guarantees, for
    ALL client and stored header maps: the origin request of a RevalidatingWriter is the
    client's request (minus a parsed Range) with `If-None-Match` SET to the stored
    `If-None-Match`-or-`ETag` value if there is one, else `If-Modified-Since` SET to the stored
    `If-Modified-Since`-or-`Last-Modified` value if there is one, else untouched. -/
theorem revalidation_sends_stored_validator (rp : Bool) (client stored : Header) :
    let req := originRequestHeaders .revalidating rp client stored
    (stored.get kINM ≠ [] → req = (r0 rp client).set kINM (stored.get kINM)) ∧
    (stored.get kINM = [] → stored.get kEtag ≠ [] → req = (r0 rp client).set kINM (stored.get kEtag)) ∧
    (stored.get kINM = [] → stored.get kEtag = [] → stored.get kIMS ≠ [] →
        req = (r0 rp client).set kIMS (stored.get kIMS)) ∧
    (stored.get kINM = [] → stored.get kEtag = [] → stored.get kIMS = [] → stored.get kLM ≠ [] →
        req = (r0 rp client).set kIMS (stored.get kLM)) ∧
    (stored.get kINM = [] → stored.get kEtag = [] → stored.get kIMS = [] → stored.get kLM = [] →
        req = r0 rp client) := by
  obtain ⟨s1, s2, s3, s4, s5⟩ := revalidateHeaders_spec stored
  simp only [originRequestHeaders, surgery]
  refine ⟨?_, ?_, ?_, ?_, ?_⟩
  · intro h1
    have hl := (length_pos_iff_ne_nil _).2 h1
    simp [s1 h1, hl, r0]
  · intro h1 h2
    have hl := (length_pos_iff_ne_nil _).2 h2
    simp [s2 h1 h2, hl, r0]
  · intro h1 h2 h3
    have hl := (length_pos_iff_ne_nil _).2 h3
    simp [s3 h1 h2 h3, hl, r0]
  · intro h1 h2 h3 h4
    have hl := (length_pos_iff_ne_nil _).2 h4
    simp [s4 h1 h2 h3 h4, hl, r0]
  · intro h1 h2 h3 h4
    simp [s5 h1 h2 h3 h4, r0]

/-- the stored ETag reaches the origin as `If-None-Match`, whatever the client sent -/
theorem revalidation_inm_is_stored_etag (rp : Bool) (client stored : Header)
    (h1 : stored.get kINM = []) (h2 : stored.get kEtag ≠ []) :
    (originRequestHeaders .revalidating rp client stored).get kINM = stored.get kEtag := by
  rw [(revalidation_sends_stored_validator rp client stored).2.1 h1 h2]
  simp [get_set]

/-- **the client's OTHER conditional header stays on the request** (C09-c): with a stored entry
    that has only `Last-Modified`, the client's `If-None-Match` goes out next to the cache's
    `If-Modified-Since`. -/
theorem client_inm_stays_next_to_stored_lm (rp : Bool) (client stored : Header)
    (h1 : stored.get kINM = []) (h2 : stored.get kEtag = []) (h3 : stored.get kIMS = [])
    (h4 : stored.get kLM ≠ []) :
    let req := originRequestHeaders .revalidating rp client stored
    req.get kIMS = stored.get kLM ∧ req.get kINM = client.get kINM := by
  simp only
  rw [(revalidation_sends_stored_validator rp client stored).2.2.2.1 h1 h2 h3 h4]
  simp [get_set, canon_inm_ims, get_r0_inm]

/-- … and symmetrically the client's `If-Modified-Since` next to the stored ETag (harmless: a
    recipient ignores it when `If-None-Match` is present) -/
theorem client_ims_stays_next_to_stored_etag (rp : Bool) (client stored : Header)
    (h1 : stored.get kINM = []) (h2 : stored.get kEtag ≠ []) :
    (originRequestHeaders .revalidating rp client stored).get kIMS = client.get kIMS := by
  rw [(revalidation_sends_stored_validator rp client stored).2.1 h1 h2]
  simp [get_set, canon_ims_inm, get_r0_ims]

example : (originRequestHeaders .revalidating false [(b!"If-None-Match", [b!"\"c\""])]
    [(b!"Etag", [b!"\"s\""])]).get kINM = b!"\"s\"" := by decide

/-- **C09, clause "revalidation sends the stored validators" as stated**: the validator the
    origin evaluates is the stored one (ETag, else Last-Modified). -/
def StatementStoredValidator : Prop :=
  ∀ (rp : Bool) (client stored : Header),
    contactOk stored (originRequestHeaders .revalidating rp client stored) = true

/-- witness C09-c: entry with only Last-Modified, client sends If-None-Match -/
def wC_client : Header := [(b!"If-None-Match", [b!"\"n2\""])]
def wC_stored : Header := [(b!"Last-Modified", [b!"Mon, 01 Jan 2024 00:00:00 GMT"]), (b!"Cache-Control", [b!"max-age=1"])]

theorem fails_witness_c :
    contactOk wC_stored (originRequestHeaders .revalidating false wC_client wC_stored) = false := by decide

/-- witness C09-d: the stored response carries a header literally named If-None-Match -/
def wD_stored : Header := [(b!"Etag", [b!"\"v1\""]), (b!"If-None-Match", [b!"\"v2\""])]

theorem fails_witness_d :
    contactOk wD_stored (originRequestHeaders .revalidating false [] wD_stored) = false := by decide

theorem StatementStoredValidator_false : ¬ StatementStoredValidator := by
  intro h
  have := h false wC_client wC_stored
  rw [fails_witness_c] at this
  exact Bool.noConfusion this

theorem get_eq_nil_of_bne_false {b : Bytes} (h : (b != []) = false) : b = [] := by
  simpa using h

/-- the clause outside the two classes: C09-c (entry with only Last-Modified ∧ client
    If-None-Match) and C09-d (stored response header named like the request-side conditional
    header).  Findings C09-c, C09-d. -/
theorem stored_validator_partial (rp : Bool) (client stored : Header)
    (hc : inClass_C09_c client stored = false) (hd : inClass_C09_d stored = false) :
    contactOk stored (originRequestHeaders .revalidating rp client stored) = true := by
  have e1 : stored.get b!"ETag" = stored.get kEtag := get_congr _ canon_ETag
  have e2 : stored.get b!"Last-Modified" = stored.get kLM := get_congr _ canon_LastModified
  have e3 : stored.get b!"If-None-Match" = stored.get kINM := get_congr _ canon_IfNoneMatch
  have e4 : stored.get b!"If-Modified-Since" = stored.get kIMS := get_congr _ canon_IfModifiedSince
  have e5 : client.get b!"If-None-Match" = client.get kINM := get_congr _ canon_IfNoneMatch
  have q1 : ∀ r : Header, r.get b!"If-None-Match" = r.get kINM := fun r => get_congr _ canon_IfNoneMatch
  have q2 : ∀ r : Header, r.get b!"If-Modified-Since" = r.get kIMS := fun r => get_congr _ canon_IfModifiedSince
  unfold inClass_C09_c at hc
  unfold inClass_C09_d at hd
  rw [e1, e2, e5] at hc
  rw [e1, e3, e4] at hd
  obtain ⟨g1, g2, g3, g4, g5⟩ := revalidation_sends_stored_validator rp client stored
  -- class d excluded: no stored If-None-Match
  have hINM : stored.get kINM = [] := by
    by_cases h : stored.get kINM = []
    · exact h
    · simp [h] at hd
  unfold contactOk storedValidator evaluated
  rw [e1, e2, q1, q2]
  by_cases hE : stored.get kEtag = []
  · -- no ETag: class d excluded gives no stored If-Modified-Since either
    have hIMS : stored.get kIMS = [] := by
      by_cases h : stored.get kIMS = []
      · exact h
      · simp [hINM, hE, h] at hd
    by_cases hL : stored.get kLM = []
    · simp [hE, hL]
    · -- only Last-Modified: class c excluded gives no client If-None-Match
      have hcI : client.get kINM = [] := by
        by_cases h : client.get kINM = []
        · exact h
        · simp [hE, hL, h] at hc
      rw [g4 hINM hE hIMS hL]
      simp [hE, hL, get_set, canon_inm_ims, get_r0_inm, hcI]
  · rw [g2 hINM hE]
    simp [hE, get_set]

example : inClass_C09_c [(b!"If-Modified-Since", [b!"d"])] [(b!"Etag", [b!"\"s\""])] = false ∧
    inClass_C09_d [(b!"Etag", [b!"\"s\""])] = false := by decide

/-- a NotFoundWriter's request carries neither conditional header -/
theorem notfound_sends_no_validator (rp : Bool) (client stored : Header) :
    let req := originRequestHeaders .notFound rp client stored
    req.get kINM = [] ∧ req.get kIMS = [] ∧ evaluated req = none := by
  have q1 : ∀ r : Header, r.get b!"If-None-Match" = r.get kINM := fun r => get_congr _ canon_IfNoneMatch
  have q2 : ∀ r : Header, r.get b!"If-Modified-Since" = r.get kIMS := fun r => get_congr _ canon_IfModifiedSince
  simp only [originRequestHeaders, surgery]
  have a : (((if rp = true then client.del kRange else client).del kINM).del kIMS).get kINM = [] := by
    simp [get_del, canon_inm_ims]
  have b : (((if rp = true then client.del kRange else client).del kINM).del kIMS).get kIMS = [] := by
    simp [get_del]
  refine ⟨a, b, ?_⟩
  unfold evaluated
  rw [q1, q2, a, b]
  simp

example : (originRequestHeaders .notFound false
    [(b!"If-None-Match", [b!"\"c\""]), (b!"If-Modified-Since", [b!"d"]), (b!"Accept", [b!"*/*"])] []).get b!"Accept"
    = b!"*/*" := by decide

/-- a Range header that `getRange` parsed never reaches the origin from a writer row … -/
theorem range_never_forwarded_by_writer (kind : WriterKind) (client stored : Header) :
    (originRequestHeaders kind true client stored).values kRange = [] := by
  cases kind with
  | notFound =>
    simp [originRequestHeaders, surgery, values_del]
  | revalidating =>
    obtain ⟨g1, g2, g3, g4, g5⟩ := revalidation_sends_stored_validator true client stored
    by_cases h1 : stored.get kINM = []
    · by_cases h2 : stored.get kEtag = []
      · by_cases h3 : stored.get kIMS = []
        · by_cases h4 : stored.get kLM = []
          · rw [g5 h1 h2 h3 h4]; simp [r0, values_del]
          · rw [g4 h1 h2 h3 h4]; simp [r0, values_set, values_del, canon_range_ims]
        · rw [g3 h1 h2 h3]; simp [r0, values_set, values_del, canon_range_ims]
      · rw [g2 h1 h2]; simp [r0, values_set, values_del, canon_range_inm]
    · rw [g1 h1]; simp [r0, values_set, values_del, canon_range_inm]

/-- … whereas a Range value `getRange` cannot parse (`rangeParsed = false`, e.g. a multi-range)
    is forwarded as it is -/
example : (originRequestHeaders .notFound false [(b!"Range", [b!"bytes=0-1,3-4"])] []).get kRange
    = b!"bytes=0-1,3-4" := by decide

/-! ### what a 304 does to the entry -/

theorem values_mergeKey (s : Header) (k : Bytes) (vv : List Bytes) (k' : Bytes) :
    (mergeKey s k vv).values k' =
      if canon k' = canon k then (if (s.get k).length > 0 then [] else s.values k) ++ vv
      else s.values k' := by
  unfold mergeKey
  rw [values_foldl_add]
  by_cases hk : canon k' = canon k
  · by_cases hg : (s.get k).length > 0 <;> simp [hk, hg, values_del]
  · by_cases hg : (s.get k).length > 0 <;> simp [hk, hg, values_del]

theorem merge304_cons (s : Header) (e : Bytes × List Bytes) (t : Header) :
    merge304 s (e :: t) = merge304 (mergeKey s e.1 e.2) t := by
  simp [merge304]

/-- headers the 304 does not mention are kept -/
theorem merge304_other_kept (h' s : Header) (k : Bytes) (hk : ∀ e ∈ h', canon e.1 ≠ canon k) :
    (merge304 s h').values k = s.values k := by
  induction h' generalizing s with
  | nil => rfl
  | cons e t ih =>
    rw [merge304_cons, ih _ (fun e' he' => hk e' (List.mem_cons_of_mem _ he')), values_mergeKey]
    have : canon k ≠ canon e.1 := fun h => hk e (List.mem_cons_self) h.symm
    simp [this]

/-- a header of the 304 replaces the stored one (all its values, in order); the one quirk: a
    stored header whose FIRST value is empty is not deleted, the new values are appended -/
theorem merge304_key (h' s : Header) (hd : h'.Pairwise (fun a b => canon a.1 ≠ canon b.1))
    (k : Bytes) (vv : List Bytes) (hm : (k, vv) ∈ h') :
    (merge304 s h').values k = (if (s.get k).length > 0 then [] else s.values k) ++ vv := by
  induction h' generalizing s with
  | nil => cases hm
  | cons e t ih =>
    rw [List.pairwise_cons] at hd
    rw [merge304_cons]
    rcases List.mem_cons.1 hm with he | ht
    · subst he
      rw [merge304_other_kept t _ k (fun b hb => (hd.1 b hb).symm), values_mergeKey]
      simp
    · have hne : canon k ≠ canon e.1 := fun h => hd.1 (k, vv) ht h.symm
      rw [ih _ hd.2 ht]
      have hv : (mergeKey s e.1 e.2).values k = s.values k := by
        rw [values_mergeKey]; simp [hne]
      have hg : (mergeKey s e.1 e.2).get k = s.get k := by
        unfold Header.get; rw [hv]
      rw [hv, hg]

theorem mem_dropZeroContentLength {h : Header} {e : Bytes × List Bytes}
    (he : e ∈ dropZeroContentLength h) : e ∈ h := by
  unfold dropZeroContentLength at he
  split at he
  · exact (List.mem_filter.1 he).1
  · exact he

theorem pairwise_dropZeroContentLength {h : Header} (hd : h.Pairwise (fun a b => canon a.1 ≠ canon b.1)) :
    (dropZeroContentLength h).Pairwise (fun a b => canon a.1 ≠ canon b.1) := by
  unfold dropZeroContentLength
  split
  · exact hd.filter _
  · exact hd

/-- **C09, "a 304 extends the entry's life and updates its headers while keeping the body"**:
    body, size, status, creation time and redirect target are untouched, `Revalidated = now`,
    the headers are the merge. -/
theorem on_304_keeps_body_merges_headers (m : Meta) (h304 : Header) (now : Int) :
    let m' := after304 m h304 now
    m'.body = m.body ∧ m'.size = m.size ∧ m'.status = m.status ∧ m'.created = m.created ∧
    m'.redirectedURL = m.redirectedURL ∧ m'.revalidated = now ∧
    m'.header = merge304 m.header (dropZeroContentLength h304) :=
  ⟨rfl, rfl, rfl, rfl, rfl, rfl, rfl⟩

/-- headers of the stored entry that the 304 does not carry are kept -/
theorem on_304_other_headers_kept (m : Meta) (h304 : Header) (now : Int) (k : Bytes)
    (hk : ∀ e ∈ h304, canon e.1 ≠ canon k) :
    (after304 m h304 now).header.values k = m.header.values k :=
  merge304_other_kept _ _ k (fun e he => hk e (mem_dropZeroContentLength he))

/-- headers of the 304 (other than a dropped `Content-Length: 0`) override the stored ones, key
    by key, for a 304 whose keys are distinct after canonicalisation -/
theorem on_304_headers_override (m : Meta) (h304 : Header) (now : Int)
    (hd : h304.Pairwise (fun a b => canon a.1 ≠ canon b.1))
    (k : Bytes) (vv : List Bytes) (hm : (k, vv) ∈ dropZeroContentLength h304) :
    (after304 m h304 now).header.values k =
      (if (m.header.get k).length > 0 then [] else m.header.values k) ++ vv :=
  merge304_key _ _ (pairwise_dropZeroContentLength hd) k vv hm

/-- `content-length: 0` of the 304 never reaches the stored headers -/
theorem on_304_drops_zero_content_length (h304 : Header) (h0 : h304.get kContentLength = b!"0") :
    (dropZeroContentLength h304).values kContentLength = [] := by
  unfold dropZeroContentLength
  simp [h0, values_del]

def exMeta : Meta :=
  { header := [(b!"Etag", [b!"\"v1\""]), (b!"Cache-Control", [b!"max-age=1"]), (b!"X-A", [b!"1"]), (b!"X-E", [b!""])],
    status := 200, created := 5, revalidated := 0, size := 3, redirectedURL := [], body := b!"abc" }
def ex304 : Header := [(b!"Cache-Control", [b!"max-age=60"]), (b!"X-New", [b!"n"]), (b!"Content-Length", [b!"0"]), (b!"X-E", [b!"e"])]

example : let m := after304 exMeta ex304 77
    m.header.values b!"Cache-Control" = [b!"max-age=60"] ∧ m.header.values b!"Etag" = [b!"\"v1\""] ∧
    m.header.values b!"X-A" = [b!"1"] ∧ m.header.values b!"X-E" = [b!"", b!"e"] ∧
    m.header.values b!"X-New" = [b!"n"] ∧ m.header.values b!"Content-Length" = [] ∧
    m.revalidated = 77 ∧ m.body = b!"abc" := by decide
example : ex304.Pairwise (fun a b => canon a.1 ≠ canon b.1) := by decide

/-! ### ETag suffix -/

theorem hasSuffix_nil (s : Bytes) : hasSuffix s [] = true := by simp [hasSuffix]

theorem getLast?_append_ne_nil (u : Bytes) {p : Bytes} (hp : p ≠ []) :
    (u ++ p).getLast? = p.getLast? := by
  rw [List.getLast?_append, List.getLast?_eq_some_getLast hp]
  rfl

theorem getLast?_of_hasSuffix {s p : Bytes} (hp : p ≠ []) (h : hasSuffix s p = true) :
    s.getLast? = p.getLast? := by
  obtain ⟨u, hu⟩ := (hasSuffix_iff s p).1 h
  rw [← hu, getLast?_append_ne_nil _ hp]

theorem quote_contains_false {x : Nat} (hx : x ≠ 34) : quote.contains x = false := by
  simp [quote, hx]

theorem getLast_ne_quote {t : Bytes} (ht : t ≠ []) (hq : 34 ∉ t) : t.getLast ht ≠ 34 :=
  fun h => hq (h ▸ List.getLast_mem ht)

/-- **suffix law 1**: `StripETagSuffix (AddETagSuffix e) = e` for every token without `"` and
    every ETag that does not already end in the token and is unquoted or ends in `"`. -/
theorem strip_add_roundtrip (t e : Bytes) (ht : t ≠ []) (hq : 34 ∉ t)
    (he : 34 ∉ e ∨ ∃ a, e = a ++ [34]) (hn : hasSuffix (trimRight quote e) t = false) :
    stripSuffix (some t) (addSuffix (some t) e) = e := by
  simp only [addSuffix, hn, Bool.false_eq_true, if_false]
  simp only [quote] at *
  rcases he with he | ⟨a, rfl⟩
  · rw [lastIndex_none_of_not_mem 34 e he]
    simp only [stripSuffix, quote]
    have h1 : hasSuffix (e ++ t) (t ++ [34]) = false := by
      cases hh : hasSuffix (e ++ t) (t ++ [34]) with
      | false => rfl
      | true =>
        have := getLast?_of_hasSuffix (by simp) hh
        rw [getLast?_append_ne_nil _ ht, List.getLast?_eq_some_getLast ht] at this
        simp at this
        exact absurd this (getLast_ne_quote ht hq)
    rw [h1, hasSuffix_append, trimSuffix_append]
    simp
  · rw [lastIndex_append_singleton]
    simp only [List.take_left' rfl, stripSuffix, quote]
    have : a ++ t ++ [34] = a ++ (t ++ [34]) := by simp
    rw [this, hasSuffix_append, trimSuffix_append]
    simp

/-- **suffix law 2**: `AddETagSuffix` is idempotent (for every token without `"`): an ETag is
    never suffixed twice -/
theorem add_idempotent (t e : Bytes) (hq : 34 ∉ t) :
    addSuffix (some t) (addSuffix (some t) e) = addSuffix (some t) e := by
  by_cases hs : hasSuffix (trimRight quote e) t = true
  · simp [addSuffix, hs]
  · have ht : t ≠ [] := by
      intro h; subst h; exact hs (hasSuffix_nil _)
    have hx := getLast_ne_quote ht hq
    have hsplit : t.dropLast ++ [t.getLast ht] = t := List.dropLast_concat_getLast ht
    simp only [Bool.not_eq_true] at hs
    have hadd : ∀ x : Bytes, hasSuffix (trimRight quote (x ++ t)) t = true := by
      intro x
      rw [← hsplit, ← List.append_assoc, trimRight_of_getLast _ _ _ (quote_contains_false hx),
        List.append_assoc]
      exact hasSuffix_append _ _
    cases hl : lastIndex quote e with
    | none =>
      have h1 : addSuffix (some t) e = e ++ t := by simp [addSuffix, hs, hl]
      rw [h1]
      simp [addSuffix, hadd]
    | some idx =>
      have h1 : addSuffix (some t) e = e.take idx ++ t ++ quote := by simp [addSuffix, hs, hl]
      rw [h1]
      have h2 : hasSuffix (trimRight quote (e.take idx ++ t ++ quote)) t = true := by
        rw [show (e.take idx ++ t ++ quote) = (e.take idx ++ t) ++ [34] from rfl,
          trimRight_append_cut _ _ 34 (by decide)]
        exact hadd _
      simp only [addSuffix, h2, if_true]

/-- with no suffix configured both functions are the identity -/
theorem suffix_unset (e : Bytes) : addSuffix none e = e ∧ stripSuffix none e = e := ⟨rfl, rfl⟩

/-- **suffix laws**, together -/
theorem suffix_laws (t e : Bytes) (hq : 34 ∉ t) :
    addSuffix (some t) (addSuffix (some t) e) = addSuffix (some t) e ∧
    (t ≠ [] → (34 ∉ e ∨ ∃ a, e = a ++ [34]) → hasSuffix (trimRight quote e) t = false →
      stripSuffix (some t) (addSuffix (some t) e) = e) :=
  ⟨add_idempotent t e hq, fun ht he hn => strip_add_roundtrip t e ht hq he hn⟩

example : addSuffix (some b!"-sfx") b!"\"v1\"" = b!"\"v1-sfx\"" ∧ addSuffix (some b!"-sfx") b!"W/\"v1\"" = b!"W/\"v1-sfx\"" ∧
    addSuffix (some b!"-sfx") b!"v1" = b!"v1-sfx" ∧ stripSuffix (some b!"-sfx") b!"\"v1-sfx\"" = b!"\"v1\"" ∧
    addSuffix (some b!"abc") b!"\"xabcx\"" = b!"\"xabcxabc\"" := by decide
/-- outside the hypotheses: a quote that is not the last byte — everything after it is lost -/
example : addSuffix (some b!"-s") b!"\"a\"b" = b!"\"a-s\"" ∧
    stripSuffix (some b!"-s") (addSuffix (some b!"-s") b!"\"a\"b") = b!"\"a\"" := by decide
/-- outside the hypotheses: an origin ETag that already ends in the token is served as it is and
    stored without it -/
example : addSuffix (some b!"-s") b!"\"a-s\"" = b!"\"a-s\"" ∧ stripSuffix (some b!"-s") b!"\"a-s\"" = b!"\"a\"" := by decide

/-! ### the header filter of a 304 -/

theorem values_allowHeaders (h : Header) (allow : List Bytes) (hc : ∀ e ∈ h, canon e.1 = e.1) (k : Bytes) :
    (allowHeaders h allow).values k = if allow.contains (toLower (canon k)) then h.values k else [] := by
  unfold allowHeaders
  rw [values_foldl_del]
  have hraw : ∀ k'' ∈ rawKeys h, canon k'' = k'' := by
    intro k'' hk''
    obtain ⟨e, he, rfl⟩ := List.mem_map.1 hk''
    exact hc e he
  cases ha : allow.contains (toLower (canon k)) with
  | true =>
    have : canon k ∉ ((rawKeys h).filter fun k => !allow.contains (toLower k)).map canon := by
      intro hm
      obtain ⟨k'', hk'', hck⟩ := List.mem_map.1 hm
      obtain ⟨hr, hf⟩ := List.mem_filter.1 hk''
      rw [hraw k'' hr] at hck
      subst hck
      rw [ha] at hf
      exact Bool.noConfusion hf
    rw [if_neg this]; rfl
  | false =>
    by_cases hr : canon k ∈ rawKeys h
    · have : canon k ∈ ((rawKeys h).filter fun k => !allow.contains (toLower k)).map canon := by
        refine List.mem_map.2 ⟨canon k, List.mem_filter.2 ⟨hr, ?_⟩, hraw _ hr⟩
        rw [ha]; rfl
      rw [if_pos this]; rfl
    · have : h.values k = [] := vals_eq_nil_of_not_mem h (canon k) hr
      rw [this]; simp

/-- **`allow304_subset`**: of a header map with canonical keys (every stored map: it is rebuilt
    with `Header.Set`) exactly the headers named in `HeadersAllowedIn304` survive, unchanged -/
theorem allow304_subset (h : Header) (hc : ∀ e ∈ h, canon e.1 = e.1) (k : Bytes) :
    (allow304 h).values k =
      if Facts.headersAllowedIn304.contains (toLower (canon k)) then h.values k else [] :=
  values_allowHeaders h _ hc k

theorem allow304_only_allowed (h : Header) (hc : ∀ e ∈ h, canon e.1 = e.1) (k : Bytes)
    (hk : (allow304 h).values k ≠ []) : toLower (canon k) ∈ Facts.headersAllowedIn304 := by
  rw [allow304_subset h hc] at hk
  cases ha : Facts.headersAllowedIn304.contains (toLower (canon k)) with
  | true => exact List.contains_iff_mem.1 ha
  | false => rw [ha] at hk; exact absurd rfl hk

example : (allow304 exMeta.header).values b!"Cache-Control" = [b!"max-age=1"] ∧
    (allow304 exMeta.header).values b!"ETag" = [b!"\"v1\""] ∧ (allow304 exMeta.header).values b!"X-A" = [] := by decide
/-- the quirk behind the hypothesis: `out.Del(k)` canonicalises, so a raw non-canonical key that
    is not allowed survives (and takes the canonical entry's place in the firing line) -/
example : allowHeaders [(b!"x-foo", [b!"1"]), (b!"X-Foo", [b!"2"])] [] = [(b!"x-foo", [b!"1"])] := by decide

/-- the Found/304 row: status 304, no body -/
theorem found304_status (sfx : Option Bytes) (stored ai : Header) :
    (found304View sfx stored ai).status = 304 ∧ (found304View sfx stored ai).body = [] := ⟨rfl, rfl⟩

/-! ### after the origin answered: C09-b -/

theorem revalidateHeaders_key (h : Header) (hv : (revalidateHeaders h).2.2 ≠ []) :
    (revalidateHeaders h).1 = kINM ∨ (revalidateHeaders h).1 = kIMS := by
  unfold revalidateHeaders at *
  by_cases h1 : h.get kINM = []
  · by_cases h2 : h.get kEtag = []
    · by_cases h3 : h.get kIMS = []
      · by_cases h4 : h.get kLM = []
        · simp [h1, h2, h3, h4] at hv
        · simp [h1, h2, h3, h4]
      · simp [h1, h2, h3]
    · simp [h1, h2]
  · simp [h1]

/-- when the cache injects no validator the request is the client's (minus a parsed Range) -/
theorem surgery_unused (rp : Bool) (client stored : Header)
    (hu : ¬ (surgery .revalidating rp client stored).used.length > 0) :
    (surgery .revalidating rp client stored).req = r0 rp client := by
  simp only [surgery] at hu ⊢
  by_cases hl : (revalidateHeaders stored).2.2.length > 0
  · exfalso
    simp only [hl, if_true] at hu
    have := revalidateHeaders_key stored ((length_pos_iff_ne_nil _).1 hl)
    rcases this with h | h <;> rw [h] at hu <;> exact hu (by decide)
  · simp [hl, r0]

theorem evaluated_r0_none (rp : Bool) (client : Header) (hv : hasValidator client = false) :
    evaluated (r0 rp client) = none := by
  have q1 : ∀ r : Header, r.get b!"If-None-Match" = r.get kINM := fun r => get_congr _ canon_IfNoneMatch
  have q2 : ∀ r : Header, r.get b!"If-Modified-Since" = r.get kIMS := fun r => get_congr _ canon_IfModifiedSince
  unfold hasValidator at hv
  unfold evaluated
  rw [q1, q2] at *
  rw [get_r0_inm, get_r0_ims]
  by_cases a : client.get kINM = []
  · by_cases b : client.get kIMS = []
    · simp [a, b]
    · simp [a, b] at hv
  · simp [a] at hv

/-- **C09-b, the defect as the code has it**: the cache injected its validator, the origin
    answered 304 with headers for which `DoNotCache` holds (no-store, private, no-cache,
    max-age=0, s-maxage=0): the origin's 304 is handed to the client as it is — status 304,
    label `uncacheable` — the injected validator is deleted from the request and the client's
    own is not restored. -/
theorem uncacheable_304_reaches_client (dnc : Header → Bool) (sfx : Option Bytes) (s : Surgery)
    (m : Meta) (resp : Resp) (now : Int) (ai : Header)
    (hu : s.used ≠ []) (h304 : resp.status = 304) (hd : dnc resp.header = true) :
    afterResponse dnc sfx s m resp now ai =
      .passThrough (s.req.del s.used) (clientViewOn304Uncacheable sfx resp.header ai) ∧
    (clientViewOn304Uncacheable sfx resp.header ai).status = 304 := by
  refine ⟨?_, rfl⟩
  have hl := (length_pos_iff_ne_nil _).2 hu
  unfold afterResponse
  simp only [hl, if_true, h304, hd, not_true_eq_false, and_false, if_false]
  simp [clientViewOn304Uncacheable, passThroughView, h304]

/-- **C09, clause "a client that sent no validator never receives 304"**, for every direct
    answer of the revalidating writer row, with the origin contract of DESIGN 5.0 (a 304 only
    answers a conditional request) as hypothesis. -/
def StatementNoValidatorNo304 : Prop :=
  ∀ (dnc : Header → Bool) (sfx : Option Bytes) (rp : Bool) (client : Header) (m : Meta)
    (resp : Resp) (now : Int) (ai : Header),
    hasValidator client = false →
    (resp.status = 304 → evaluated (surgery .revalidating rp client m.header).req ≠ none) →
    ∀ req v, afterResponse dnc sfx (surgery .revalidating rp client m.header) m resp now ai
        = .passThrough req v → no304WithoutValidator client v.status = true

/-- witness C09-b: unconditional client, stale entry with an ETag, origin answers
    `304 Cache-Control: no-store` -/
def wB_resp : Resp := ⟨304, [(b!"Cache-Control", [b!"no-store"]), (b!"Etag", [b!"\"v1\""])], []⟩
def wB_dnc : Header → Bool := fun h => h.get b!"Cache-Control" == b!"no-store"

theorem fails_witness_b :
    afterResponse wB_dnc none (surgery .revalidating false [] exMeta.header) exMeta wB_resp 9 []
      = .passThrough ((surgery .revalidating false [] exMeta.header).req.del kINM)
          (clientViewOn304Uncacheable none wB_resp.header []) ∧
    no304WithoutValidator [] (clientViewOn304Uncacheable none wB_resp.header []).status = false := by
  refine ⟨?_, by decide⟩
  exact (uncacheable_304_reaches_client wB_dnc none (surgery .revalidating false [] exMeta.header)
    exMeta wB_resp 9 [] (by decide) rfl (by decide)).1

theorem StatementNoValidatorNo304_false : ¬ StatementNoValidatorNo304 := by
  intro h
  have := h wB_dnc none false [] exMeta wB_resp 9 [] (by decide) (fun _ => by decide) _ _ fails_witness_b.1
  rw [fails_witness_b.2] at this
  exact Bool.noConfusion this

/-- the clause outside class C09-b (origin 304 ∧ `DoNotCache` of its headers ∧ validator
    injected): no direct answer of the row is a 304 for a client without validator.  Finding C09-b. -/
theorem no_validator_no_304_partial (dnc : Header → Bool) (sfx : Option Bytes) (rp : Bool)
    (client : Header) (m : Meta) (resp : Resp) (now : Int) (ai : Header)
    (hv : hasValidator client = false)
    (hoc : resp.status = 304 → evaluated (surgery .revalidating rp client m.header).req ≠ none)
    (hcls : inClass_C09_b (decide ((surgery .revalidating rp client m.header).used.length > 0))
              resp.status (dnc resp.header) = false) :
    ∀ req v, afterResponse dnc sfx (surgery .revalidating rp client m.header) m resp now ai
        = .passThrough req v → no304WithoutValidator client v.status = true := by
  intro req v h
  unfold afterResponse at h
  unfold no304WithoutValidator
  by_cases hu : (surgery .revalidating rp client m.header).used.length > 0
  · simp only [hu, if_true] at h
    by_cases c : resp.status = 304 ∧ ¬ dnc resp.header = true
    · simp [c] at h
    · simp only [c, if_false] at h
      by_cases d : dnc resp.header = true
      · simp only [d, if_true, Outcome.passThrough.injEq] at h
        obtain ⟨_, rfl⟩ := h
        have : resp.status ≠ 304 := by
          intro e
          simp [inClass_C09_b, hu, e, d] at hcls
        simp [passThroughView, this]
      · simp [d] at h
  · simp only [hu, if_false] at h
    by_cases d : dnc resp.header = true
    · simp only [d, if_true, Outcome.passThrough.injEq] at h
      obtain ⟨_, rfl⟩ := h
      have : resp.status ≠ 304 := by
        intro e
        apply hoc e
        rw [surgery_unused rp client m.header hu]
        exact evaluated_r0_none rp client hv
      simp [passThroughView, this]
    · simp [d] at h

example : inClass_C09_b true 304 false = false ∧ inClass_C09_b true 200 true = false := by decide

/-- row `w:304`: origin 304 without `DoNotCache`: the entry is updated (`after304`), the injected
    validator removed, the client's own validator — if it sent one — put back, and the handler
    re-entered with the label `revalidated` -/
theorem w304_updates_and_restores (dnc : Header → Bool) (sfx : Option Bytes) (s : Surgery)
    (m : Meta) (resp : Resp) (now : Int) (ai : Header)
    (hu : s.used ≠ []) (h304 : resp.status = 304) (hd : dnc resp.header = false) :
    afterResponse dnc sfx s m resp now ai =
      .reenter (if s.clientKey.length > 0 ∧ s.clientVal.length > 0
                then (s.req.del s.used).set s.clientKey s.clientVal else s.req.del s.used)
        (after304 m resp.header now) (ai.set kStatus b!"revalidated") := by
  have hl := (length_pos_iff_ne_nil _).2 hu
  unfold afterResponse
  simp [hl, h304, hd]

/-- … so a client that sent none of the four headers `RevalidateHeaders` looks at is re-entered
    without any conditional header -/
theorem w304_unconditional_client_stays_unconditional (rp : Bool) (client stored : Header)
    (h1 : client.get kINM = []) (h2 : client.get kEtag = []) (h3 : client.get kIMS = [])
    (h4 : client.get kLM = []) :
    let s := surgery .revalidating rp client stored
    s.clientVal = [] ∧ (s.req.del s.used).get kINM = [] ∧ (s.req.del s.used).get kIMS = [] := by
  have e1 : (r0 rp client).get kINM = [] := by rw [get_r0_inm, h1]
  have e3 : (r0 rp client).get kIMS = [] := by rw [get_r0_ims, h3]
  have e2 : (r0 rp client).get kEtag = [] := by
    unfold r0; cases rp
    · exact h2
    · simp [get_del, h2, show canon kEtag ≠ canon kRange by decide]
  have e4 : (r0 rp client).get kLM = [] := by
    unfold r0; cases rp
    · exact h4
    · simp [get_del, h4, show canon kLM ≠ canon kRange by decide]
  have hc : revalidateHeaders (r0 rp client) = ([], [], []) :=
    (revalidateHeaders_spec _).2.2.2.2 e1 e2 e3 e4
  simp only [surgery]
  have hr : (if rp = true then client.del kRange else client) = r0 rp client := rfl
  rw [hr, hc]
  by_cases hl : (revalidateHeaders stored).2.2.length > 0
  · simp only [hl, if_true]
    refine ⟨trivial, ?_, ?_⟩
    · rcases revalidateHeaders_key stored ((length_pos_iff_ne_nil _).1 hl) with h | h <;>
        rw [h] <;> simp [get_del, get_set, canon_inm_ims, e1]
    · rcases revalidateHeaders_key stored ((length_pos_iff_ne_nil _).1 hl) with h | h <;>
        rw [h] <;> simp [get_del, get_set, canon_ims_inm, e3]
  · simp only [hl, if_false]
    refine ⟨trivial, ?_, ?_⟩ <;> simp [get_del, e1, e3]

/-- quirk outside that hypothesis: a REQUEST header literally named `ETag` is "restored" as the
    client's `If-None-Match` -/
example : (surgery .revalidating false [(b!"Etag", [b!"\"x\""])] exMeta.header).clientKey = kINM ∧
    (surgery .revalidating false [(b!"Etag", [b!"\"x\""])] exMeta.header).clientVal = b!"\"x\"" := by decide

/-! ### any other answer replaces or bypasses the entry: C09-e -/

theorem afterResponse_reenter_status {dnc : Header → Bool} {sfx : Option Bytes} {s : Surgery} {m : Meta}
    {resp : Resp} {now : Int} {ai a : Header} {b : Meta} {c : Header}
    (h : afterResponse dnc sfx s m resp now ai = .reenter a b c) : resp.status = 304 := by
  unfold afterResponse at h
  by_cases hu : s.used.length > 0
  · simp only [hu, if_true] at h
    by_cases c1 : resp.status = 304 ∧ ¬ dnc resp.header = true
    · exact c1.1
    · simp only [c1, if_false] at h
      by_cases d : dnc resp.header = true <;> simp [d] at h
  · simp only [hu, if_false] at h
    by_cases d : dnc resp.header = true <;> simp [d] at h

/-- **C09, clause "any other answer replaces or bypasses the entry"** on the flow of one
    request over a stale entry: unless the origin says 304, the entry afterwards is either the
    old one, untouched, or the origin's new 200, which is also what the client is sent. -/
def StatementOtherAnswers : Prop :=
  ∀ (p : FlowParams) (rp : Bool) (client : Header) (m : Meta) (out : FlowOut),
    p.stale = true → flowStep p rp client (some m) = some out →
    (p.origin (surgery .revalidating rp client m.header).req).status ≠ 304 →
    out.entry = some m ∨
      ((p.origin (surgery .revalidating rp client m.header).req).status = 200 ∧
        out.entry.map (·.body) = some (p.origin (surgery .revalidating rp client m.header).req).body ∧
        out.view.body = (p.origin (surgery .revalidating rp client m.header).req).body)

/-- witness C09-e: the revalidation is answered 503 -/
def wE_p : FlowParams :=
  { sfx := none, doNotCache := fun _ => false, origin := fun _ => ⟨503, [], []⟩, now := 7,
    stale := true, cmp304 := false }

/-- the entry's life is extended (`Revalidated = now`) and the client gets the 503 status with
    the old cached body -/
theorem fails_witness_e :
    (flowStep wE_p false [] (some exMeta)).map (fun o => (o.entry, o.view.status, o.view.body))
      = some (some { exMeta with revalidated := 7 }, 503, b!"abc") := by decide

theorem StatementOtherAnswers_false : ¬ StatementOtherAnswers := by
  intro h
  have hw := fails_witness_e
  cases hfs : flowStep wE_p false [] (some exMeta) with
  | none => rw [hfs] at hw; cases hw
  | some out =>
    rw [hfs] at hw
    simp only [Option.map_some, Option.some.injEq, Prod.mk.injEq] at hw
    rcases h wE_p false [] exMeta out rfl hfs (by decide) with h1 | ⟨h2, _⟩
    · rw [hw.1] at h1
      exact absurd h1 (by decide)
    · exact absurd h2 (by decide)

/-- the clause outside class C09-e (origin status ≥ 500).  Finding C09-e. -/
theorem other_answers_partial (p : FlowParams) (rp : Bool) (client : Header) (m : Meta) (out : FlowOut)
    (hs : p.stale = true) (hf : flowStep p rp client (some m) = some out)
    (h304 : (p.origin (surgery .revalidating rp client m.header).req).status ≠ 304)
    (hcls : inClass_C09_e (p.origin (surgery .revalidating rp client m.header).req).status = false) :
    out.entry = some m ∨
      ((p.origin (surgery .revalidating rp client m.header).req).status = 200 ∧
        out.entry.map (·.body) = some (p.origin (surgery .revalidating rp client m.header).req).body ∧
        out.view.body = (p.origin (surgery .revalidating rp client m.header).req).body) := by
  generalize hresp : p.origin (surgery .revalidating rp client m.header).req = resp at *
  unfold flowStep at hf
  simp only [hs, if_true, hresp] at hf
  split at hf
  · rename_i heq
    exact absurd (afterResponse_reenter_status heq) h304
  · injection hf with hf; subst hf; exact Or.inl rfl
  · split at hf
    · cases hf
    · unfold fillView at hf
      by_cases c200 : resp.status = 200
      · simp only [c200, if_true, Option.map_some, Option.some.injEq] at hf
        subst hf
        exact Or.inr ⟨c200, rfl, rfl⟩
      · simp only [c200, if_false, h304] at hf
        have : ¬ resp.status ≥ 500 := by
          intro hge; simp [inClass_C09_e, hge] at hcls
        simp [this] at hf

example : inClass_C09_e 200 = false ∧ inClass_C09_e 404 = false := by decide

end Props.C09
