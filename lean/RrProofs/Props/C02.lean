import RrModel.Spec.C02
import RrProofs.Lemmas.Strings
import RrProofs.Lemmas.UrlSplit
/-
  C02 — Destination URL = rule destination + wildcard capture; query kept verbatim.
-/
namespace Props.C02
open Go Model Spec.C02

/-- **target_eq.** Whatever matches, the computed target is the destination text with the first
    `$1` replaced by the captured text (wildcard rules) or the destination itself (exact rules). -/
theorem target_eq (r : Rule) (uri t : Bytes) (h : matchPath r uri = some t) :
    (r.wci.isSome ∧ t = expectedTarget r.dest (capture r uri)) ∨ (r.wci = none ∧ t = r.dest) := by
  unfold matchPath at h
  cases hw : r.wci with
  | none =>
    right
    simp only [hw] at h
    by_cases hp : r.path = uri
    · simp [hp] at h; exact ⟨rfl, h.symm⟩
    · simp [hp] at h
  | some wc =>
    left
    simp only [hw] at h
    refine ⟨rfl, ?_⟩
    unfold expectedTarget capture
    simp only [hw]
    by_cases h1 : uri = b!"/" ∧ (r.path = b!"*" ∨ r.path = b!"/*")
    · rw [if_pos h1] at h; rw [if_pos h1]
      simpa [dollar1] using h.symm
    · rw [if_neg h1] at h; rw [if_neg h1]
      by_cases h2 : uri.length ≤ wc
      · simp [h2] at h
      · rw [if_neg h2] at h
        by_cases h3 : index (List.take wc r.path) uri ≠ some 0
        · simp [h3] at h
        · rw [if_neg h3] at h
          simpa [dollar1] using h.symm

/-- a destination without placeholder is used unchanged -/
theorem target_no_placeholder (dest cap : Bytes) (h : index b!"$1" dest = none) :
    expectedTarget dest cap = dest := by
  unfold expectedTarget replaceFirst
  simp [h]

/-- **capture_eq.** For a wildcard match other than the root special case the captured text is
    exactly what follows the pattern's prefix in the request-target, and it is not empty. -/
theorem capture_eq (r : Rule) (uri t : Bytes) (wc : Nat) (hw : r.wci = some wc)
    (hlen : wc ≤ r.path.length)
    (hroot : ¬ (uri = b!"/" ∧ (r.path = b!"*" ∨ r.path = b!"/*")))
    (h : matchPath r uri = some t) :
    r.path.take wc ++ capture r uri = uri ∧ capture r uri ≠ [] := by
  unfold matchPath at h
  simp only [hw, if_neg hroot] at h
  by_cases h2 : uri.length ≤ wc
  · simp [h2] at h
  · rw [if_neg h2] at h
    by_cases h3 : index (List.take wc r.path) uri ≠ some 0
    · simp [h3] at h
    · have h3' : index (List.take wc r.path) uri = some 0 := by
        cases hx : index (List.take wc r.path) uri with
        | none => simp [hx] at h3
        | some k => simp [hx] at h3; simp [h3]
      have hp := (index_eq_some_zero_iff _ _).1 h3'
      rw [List.isPrefixOf_iff_prefix] at hp
      obtain ⟨s, hs⟩ := hp
      have hl : (List.take wc r.path).length = wc := by simp; omega
      unfold capture
      simp only [hw, if_neg hroot]
      constructor
      · rw [← hs, List.drop_append]
        simp [hl]
      · intro hd
        have : (List.drop wc uri).length = uri.length - wc := by simp
        rw [hd] at this
        simp at this
        omega

/-- rules built by `NewRule` have their wildcard index at the last byte -/
theorem wildcardIndex_last (path dest : Bytes) (wc : Nat)
    (h : wildcardIndex path dest = .ok (some wc)) : wc = path.length - 1 := by
  unfold wildcardIndex at h
  by_cases h1 : path.length = 0
  · simp [h1] at h
  · rw [if_neg h1] at h
    by_cases h2 : dest.length = 0
    · simp [h2] at h
    · rw [if_neg h2] at h
      simp only at h
      cases hi : index b!"*" (toLower path) with
      | none => simp [hi] at h
      | some fi =>
        simp only [hi] at h
        by_cases h3 : lastIndex b!"*" (toLower path) ≠ some fi
        · simp [h3] at h
        · rw [if_neg h3] at h
          by_cases h4 : fi ≠ (toLower path).length - 1
          · simp [h4] at h
          · rw [if_neg h4] at h
            simp only [Except.ok.injEq, Option.some.injEq] at h
            have : (toLower path).length = path.length := by simp [toLower]
            omega

theorem indexByte_none_of_not_mem (c : Nat) (s : Bytes) (h : c ∉ s) : indexByte c s = none := by
  induction s with
  | nil => rfl
  | cons d t ih =>
    simp only [List.mem_cons, not_or] at h
    unfold indexByte
    have : ¬ d = c := fun e => h.1 e.symm
    simp [this, ih h.2]

/-- **query_verbatim (full statement).** The raw query the destination receives equals the
    client's raw query, byte for byte, for every target and every query. -/
def QueryStatement : Prop :=
  ∀ (target q frag : Bytes) (u : Url.Split), outgoingURL target q frag = some u → sentRawQuery u = q

/-- proved part: every query without `#` -/
theorem query_verbatim_partial (target q frag : Bytes) (u : Url.Split)
    (hq : inClassA q = false) (h : outgoingURL target q frag = some u) : sentRawQuery u = q := by
  unfold outgoingURL at h
  cases hs : Url.split target with
  | none => simp [hs] at h
  | some v =>
    simp only [hs, Option.map_some, Option.some.injEq] at h
    subst h
    unfold sentRawQuery Url.queryAfterReparse Url.cut1
    have : (35 : Nat) ∉ q := by
      intro hm
      have : inClassA q = true := by simp [inClassA, hm]
      simp [hq] at this
    simp [indexByte_none_of_not_mem 35 q this]

/-- the excluded class is real: `?a#b` reaches the destination as `?a` (finding C02-a) -/
theorem query_fails_witness :
    (outgoingURL b!"http://d/x" b!"a#b" []).map sentRawQuery = some b!"a" := by decide

theorem QueryStatement_false : ¬ QueryStatement := by
  intro h
  have := h b!"http://d/x" b!"a#b" []
  revert this
  decide

/-- **authority_fixed.** For a destination written `scheme://authority/rest` (authority free of
    `/ ? # $` and control bytes) and EVERY captured text — whatever the client put into path or
    query: `#`, `?`, `@`, `//`, `..`, control bytes — parsing the computed target either fails
    (nothing is contacted) or yields exactly the rule's scheme and authority. -/
theorem authority_fixed (d : WfDest) (hd : d.ok = true) (cap : Bytes) (u : Url.Split)
    (h : Url.split (expectedTarget d.text cap) = some u) :
    u.scheme = toLower d.scheme ∧ u.authority = some d.authority :=
  Go.parse_target_authority d hd cap u h

/-- the same through `createOutgoingURLs` (query and fragment overwritten from the client's URL) -/
theorem authority_fixed_outgoing (d : WfDest) (hd : d.ok = true) (cap q frag : Bytes) (u : Url.Split)
    (h : outgoingURL (expectedTarget d.text cap) q frag = some u) :
    u.scheme = toLower d.scheme ∧ u.authority = some d.authority := by
  unfold outgoingURL at h
  cases hs : Url.split (expectedTarget d.text cap) with
  | none => simp [hs] at h
  | some v =>
    simp only [hs, Option.map_some, Option.some.injEq] at h
    subst h
    exact authority_fixed d hd cap v hs

/-! Non-vacuity -/
example : (⟨b!"http", b!"d1.test:8080", b!"pre/$1"⟩ : WfDest).ok = true := by decide
example : (Url.split (expectedTarget (⟨b!"http", b!"d1.test:8080", b!"pre/$1"⟩ : WfDest).text b!"a/../b?x#y@evil/")).map (·.authority)
    = some (some b!"d1.test:8080") := by decide
example : matchPath { path := b!"/img/*", wci := some 5, dest := b!"http://d/p/$1" } b!"/img/a%2Fb?x=1"
    = some b!"http://d/p/a%2Fb?x=1" := by decide
example : inClassA b!"a=1&b=2" = false := by decide
example : (match wildcardIndex b!"/img/*" b!"http://d/$1" with | .ok (some 5) => true | _ => false) = true := by decide

end Props.C02
