import RrModel.SysCache
/-
  Theorems about the SEQUENTIAL SYSTEM MODEL of the cached request path (`Model.SysCache`):
  structure of one activation of `cachingFunc` (`stepOnce`), origin contacts, and the lift to whole
  requests (`cachingFunc`) and histories (`run`).  The property-level corollaries are in
  `Props/C08Sys.lean`, `Props/C10Sys.lean`, `Props/C07Sys.lean`, `Props/C13Sys.lean`.
-/
namespace Props.SysCache
open Go Model Model.SysCache

/-! ### origin contacts only grow, by at most one per activation -/

def Step.contacts : Step → List Contact
  | .done a => a.contacts
  | .reenter _ _ _ _ cs _ => cs
  | .reenterLocked _ _ _ cs _ => cs

theorem logged_eq (cfg : Config) (cs : List Contact) (h : Header) :
    logged cfg cs h = cs ∨ logged cfg cs h = cs ++ [contactOf h] := by
  unfold logged; split <;> simp

theorem logged_of_lt {cfg : Config} {cs : List Contact} (h : Header) (hl : cs.length < cfg.contactLimit) :
    logged cfg cs h = cs ++ [contactOf h] := by
  unfold logged; split
  · omega
  · rfl

theorem row304_contacts (d : Disk) (ai : Header) (cs : List Contact) (w : Writer) (sg : Conditional.Surgery)
    (resp : Resp) (now : Int) : Step.contacts (row304 d ai cs w sg resp now) = cs := by
  unfold row304
  repeat' first | split | (dsimp only; split)
  all_goals rfl

/-- every exit of a writer row after the origin's answer carries the performer's log as it is -/
theorem afterAnswer_contacts (cfg : Config) (now : Int) (keys : List Key) (rr : Option Range.ReqRange) (d : Disk)
    (ai : Header) (cs : List Contact) (reval : Option (Key × Stored × Int)) (w : Writer)
    (sg : Conditional.Surgery) (resp : Resp) :
    Step.contacts (afterAnswer cfg now keys rr d ai cs reval w sg resp) = cs := by
  unfold afterAnswer
  repeat' first | split | (dsimp only; split)
  all_goals first | rfl | exact row304_contacts ..

theorem writerRow_contacts (cfg : Config) (origin : Bytes → Option Origin) (now : Int) (req : Request)
    (keys : List Key) (rr : Option Range.ReqRange) (d : Disk) (client ai : Header) (cs : List Contact)
    (reval : Option (Key × Stored × Int)) :
    Step.contacts (writerRow cfg origin now req keys rr d client ai cs reval) =
      logged cfg cs (surgeryOf rr client reval).req := by
  unfold writerRow
  simp only []
  split
  · rfl
  · exact afterAnswer_contacts ..

/-- one activation logs at most one contact, at the end of the log it was given -/
theorem stepOnce_contacts (cfg : Config) (origin : Bytes → Option Origin) (now : Int) (req : Request)
    (d : Disk) (client ai : Header) (skip : Bool) (cs : List Contact) :
    Step.contacts (stepOnce cfg origin now req d client ai skip cs) = cs ∨
    ∃ h, Step.contacts (stepOnce cfg origin now req d client ai skip cs) = logged cfg cs h := by
  unfold stepOnce
  repeat' first | split | (dsimp only; split)
  all_goals first
    | (left; rfl)
    | (right; exact ⟨_, rfl⟩)
    | (right; exact ⟨_, writerRow_contacts ..⟩)

theorem stepOnce_contacts_prefix (cfg : Config) (origin : Bytes → Option Origin) (now : Int) (req : Request)
    (d : Disk) (client ai : Header) (skip : Bool) (cs : List Contact) :
    cs <+: Step.contacts (stepOnce cfg origin now req d client ai skip cs) := by
  rcases stepOnce_contacts cfg origin now req d client ai skip cs with h | ⟨hh, h⟩
  · rw [h]; exact List.prefix_refl _
  · rw [h]; rcases logged_eq cfg cs hh with e | e <;> rw [e]
    · exact List.prefix_refl _
    · exact List.prefix_append _ _

theorem lockedReentry_contacts_prefix (cfg : Config) (origin : Bytes → Option Origin) (now : Int) (req : Request)
    (d : Disk) (client ai : Header) (cs : List Contact) :
    cs <+: (lockedReentry cfg origin now req d client ai cs).contacts := by
  have hl : ∀ h, cs <+: logged cfg cs h := by
    intro h; rcases logged_eq cfg cs h with e | e <;> rw [e]
    · exact List.prefix_refl _
    · exact List.prefix_append _ _
  unfold lockedReentry
  repeat' first | split | (dsimp only; split)
  all_goals first | exact List.prefix_refl _ | exact hl _

/-- the performer's log of a request extends the log it started with: contacts are never forgotten -/
theorem cachingFunc_contacts_prefix (cfg : Config) (origin : Bytes → Option Origin) (now : Int) (req : Request) :
    ∀ (fuel : Nat) (d : Disk) (client ai : Header) (skip : Bool) (cs : List Contact),
      cs <+: (cachingFunc cfg origin now req fuel d client ai skip cs).contacts := by
  intro fuel
  induction fuel with
  | zero => intro d client ai skip cs; exact List.prefix_refl _
  | succ n ih =>
    intro d client ai skip cs
    have hp := stepOnce_contacts_prefix cfg origin now req d client ai skip cs
    unfold cachingFunc
    split
    · rename_i a heq; rw [heq] at hp; exact hp
    · rename_i d' c' ai' s' cs' tag heq
      rw [heq] at hp
      exact List.IsPrefix.trans hp (ih d' c' ai' s' cs')
    · rename_i d' c' ai' cs' tag heq
      rw [heq] at hp
      exact List.IsPrefix.trans hp (lockedReentry_contacts_prefix cfg origin now req d' c' ai' cs')

/-! ### `storage.Get` and `cache.Get` only ever REMOVE files -/

/-- every cell of `d'` is the cell of `d` or empty -/
def Shrinks (d' d : Disk) : Prop := ∀ p, d' p = d p ∨ d' p = none

theorem Shrinks.refl (d : Disk) : Shrinks d d := fun _ => Or.inl rfl

theorem Shrinks.trans {a b c : Disk} (h1 : Shrinks a b) (h2 : Shrinks b c) : Shrinks a c := by
  intro p
  rcases h1 p with e | e
  · rcases h2 p with e2 | e2
    · left; rw [e, e2]
    · right; rw [e, e2]
  · right; exact e

theorem Shrinks.upd_none (d : Disk) (k : Bytes) : Shrinks (d.upd k none) d := by
  intro p; unfold Disk.upd; split
  · right; rfl
  · left; rfl

theorem getOne_shrinks (d : Disk) (k : Key) : Shrinks (getOne d k).1 d := by
  unfold getOne
  repeat' first | split | (dsimp only; split)
  all_goals first | exact Shrinks.refl _ | exact Shrinks.upd_none _ _

theorem storageGet_shrinks : ∀ (keys : List Key) (d : Disk), Shrinks (storageGet d keys).1 d
  | [], d => Shrinks.refl d
  | k :: ks, d => by
    unfold storageGet
    have h1 := getOne_shrinks d k
    split
    · rename_i d' s heq; rw [heq] at h1; exact h1
    · rename_i d' s heq; rw [heq] at h1; exact h1
    · rename_i d' heq; rw [heq] at h1
      exact Shrinks.trans (storageGet_shrinks ks d') h1

/-- `cache.Get` leaves the disk as `storage.Get` left it -/
theorem lookup_fst (cfg : Config) (now : Int) (keys : List Key) (d : Disk) (client : Header) (skip : Bool) :
    (lookup cfg now keys d client skip).1 = (storageGet d keys).1 := by
  unfold lookup
  generalize storageGet d keys = r
  rcases r with ⟨d', g⟩
  cases g with
  | panic s => rfl
  | notFound => rfl
  | found k s =>
    dsimp only
    split <;> rfl

theorem lookup_shrinks (cfg : Config) (now : Int) (keys : List Key) (d : Disk) (client : Header) (skip : Bool) :
    Shrinks (lookup cfg now keys d client skip).1 d := by
  rw [lookup_fst]; exact storageGet_shrinks keys d
