import RrModel.Spec.C11
import RrProofs.Lemmas.KeyConcat
/-
  C11 — Distinct resources never share a cache entry (function level).
  Only property theorems, their witnesses / non-vacuity examples, and the lemmas local to them.

  Names are compared through the string that is hashed (`keyString`): `fsName` is
  `hex (sha1 keyString)` behind a fixed prefix, and SHA-1 is ASSUMED collision-free on the keys
  in play (trusted base; nothing is proved about `Go.Sha1`).
-/
namespace Props.C11
open Go Model Spec.C11

/-! ## 1. The hashed string as a function of the key fields -/

/-- **full statement**: equal hashed strings ⇒ equal (method, host, path, stored header map,
    opaque flag).  FALSE on the current tree (finding C11-a): see `keyString_injective_false`. -/
def InjectiveStatement : Prop :=
  ∀ k1 k2 : Key, keyString k1 = keyString k2 → k1.fields = k2.fields

/-- **partial (all that unseparated concatenation can give)**: the hashed string determines the
    fields once the field LENGTHS agree — method, host and path lengths, and for the stored
    headers the length of every key and of every single value.  Missing for the full statement:
    the lengths themselves are not part of the string (C11-a). -/
theorem keyString_injective_partial (k1 k2 : Key) (hs : k1.shape = k2.shape)
    (he : keyString k1 = keyString k2) : k1.fields = k2.fields := by
  unfold Key.shape at hs
  simp only [KeyShape.mk.injEq] at hs
  obtain ⟨hm, hh, hp, hhd⟩ := hs
  unfold keyString at he
  obtain ⟨e1, he⟩ := List.append_inj he hm
  obtain ⟨e2, he⟩ := List.append_inj he hh
  obtain ⟨e3, he⟩ := List.append_inj he hp
  obtain ⟨e4, e5⟩ := entriesString_append_inj _ _ _ _ hhd he
  have e6 := opaqueMarker_inj _ _ e5
  simp only [Key.fields, e1, e2, e3, e4, e6]

/-! Witnesses of C11-a: pairs of requests as `KeysFromRequest` sees them. -/

def reqPathAE : Req := { method := b!"GET", host := b!"h", uri := b!"/xAccept-Encodinggzip", header := [] }
def reqAE : Req := { method := b!"GET", host := b!"h", uri := b!"/x", header := [(b!"Accept-Encoding", [b!"gzip"])] }
def reqGetHostHEADh : Req := { method := b!"GET", host := b!"HEADh", uri := b!"/x", header := [] }
def reqHeadHosth : Req := { method := b!"HEAD", host := b!"h", uri := b!"/x", header := [] }
def reqAEab : Req := { method := b!"GET", host := b!"h", uri := b!"/x", header := [(b!"Accept-Encoding", [b!"a", b!"b"])] }
def reqAEab1 : Req := { method := b!"GET", host := b!"h", uri := b!"/x", header := [(b!"Accept-Encoding", [b!"ab"])] }
def reqAuth : Req := { method := b!"GET", host := b!"h", uri := b!"/x", header := [(b!"Authorization", [b!"tok"])] }
def reqPathAuth : Req := { method := b!"GET", host := b!"h", uri := b!"/xAuthorizationtok", header := [] }
def reqOrigin : Req := { method := b!"GET", host := b!"h", uri := b!"/x", header := [(b!"Origin", [b!"o"])] }
def reqPathOpaque : Req := { method := b!"GET", host := b!"h", uri := b!"/xopaqueOrigin", header := [] }

/-- one hashed string, different fields, key by key -/
def collide (a b : Req) : Bool :=
  (keysFromRequest a).any fun ka => (keysFromRequest b).any fun kb =>
    keyString ka == keyString kb && ka.fields != kb.fields

/-- `GET /xAccept-Encodinggzip` without Accept-Encoding ≡ `GET /x` with `Accept-Encoding: gzip` -/
theorem keyString_injective_fails_witness_path_header : collide reqPathAE reqAE = true := by decide
/-- `GET` with `Host: HEADh` ≡ `HEAD` with `Host: h` -/
theorem keyString_injective_fails_witness_method_host : collide reqGetHostHEADh reqHeadHosth = true := by decide
/-- two Accept-Encoding lines `a`, `b` ≡ one line `ab` -/
theorem keyString_injective_fails_witness_value_value : collide reqAEab reqAEab1 = true := by decide
/-- a request with an Origin (its opaque-origin key) ≡ a request without, path ending in `opaqueOrigin` -/
theorem keyString_injective_fails_witness_opaque_marker : collide reqOrigin reqPathOpaque = true := by decide

theorem keyString_injective_false : ¬ InjectiveStatement := by
  intro h
  have hk := h (newKey [] b!"HEADh" b!"/x" false [] Facts.keyClientHeaders)
    (newKey b!"HEAD" b!"h" b!"/x" false [] Facts.keyClientHeaders) (by decide)
  revert hk
  decide

/-- non-vacuity of the partial theorem: two different keys of one shape -/
example : (newKey [] b!"h" b!"/x" false [(b!"Accept-Encoding", [b!"gzip"])] Facts.keyClientHeaders).shape
    = (newKey [] b!"g" b!"/y" false [(b!"Accept-Encoding", [b!"zipg"])] Facts.keyClientHeaders).shape := by decide

/-! ## 2. Which keys a request has (`Vary: Origin` support) -/

def allowOf : KeyKind → List Bytes
  | .plain => Facts.keyClientHeaders
  | .full => keyClientHeadersWithOrigin
  | .opaqueOrigin => Facts.keyClientHeaders

def flagOf : KeyKind → Bool
  | .plain => false
  | .full => false
  | .opaqueOrigin => true

/-- the key of each kind, as `KeysFromRequest` builds it -/
def kindKey (r : Req) (k : KeyKind) : Key :=
  newKey (keyMethod r.method) r.host r.uri (flagOf k) r.header (allowOf k)

theorem canon_origin : canon b!"origin" = b!"Origin" := by decide
theorem canon_Origin : canon b!"Origin" = b!"Origin" := by decide
theorem canon_AE : canon b!"Accept-Encoding" = b!"Accept-Encoding" := by decide
theorem canon_Auth : canon b!"Authorization" = b!"Authorization" := by decide

theorem get_origin (h : Header) : Header.get h b!"origin" = Header.get h b!"Origin" := by
  simp only [Header.get, Header.values, canon_origin, canon_Origin]

theorem originPresent_iff (h : Header) :
    originPresent h = true ↔ (Header.get h b!"origin").length > 0 := by
  rw [get_origin]
  unfold originPresent
  cases Header.get h b!"Origin" <;> simp

theorem keysFromRequest_eq (r : Req) :
    keysFromRequest r = (kinds r.header).map (kindKey r) := by
  unfold keysFromRequest kinds
  by_cases h : originPresent r.header = true
  · have h' := (originPresent_iff r.header).1 h
    simp only [h', ↓reduceIte, h, List.map_cons, List.map_nil, kindKey, allowOf, flagOf]
  · have h' : ¬ (Header.get r.header b!"origin").length > 0 := fun x => h ((originPresent_iff _).2 x)
    simp only [h', ↓reduceIte, h, List.map_cons, List.map_nil, kindKey, allowOf, flagOf, Bool.false_eq_true]

theorem toLower_Origin_mem : toLower b!"Origin" ∈ keyClientHeadersWithOrigin := by decide
theorem toLower_Origin_not_mem : toLower b!"Origin" ∉ Facts.keyClientHeaders := by decide

/-- the Origin values survive in the full-origin key's stored headers -/
theorem stored_origin_full (r : Req) :
    Header.vals (kindKey r .full).storedHeaders b!"Origin" = Header.vals r.header b!"Origin" :=
  vals_allowHeaders_allowed _ _ _ toLower_Origin_mem

/-- … and are absent from the plain and the opaque-origin key -/
theorem stored_origin_base (r : Req) (k : KeyKind) (hk : k ≠ .full) :
    Header.vals (kindKey r k).storedHeaders b!"Origin" = [] := by
  cases k with
  | full => exact absurd rfl hk
  | plain => exact vals_allowHeaders_denied _ _ _ canon_Origin toLower_Origin_not_mem
  | opaqueOrigin => exact vals_allowHeaders_denied _ _ _ canon_Origin toLower_Origin_not_mem

theorem hasFullOrigin_eq (r : Req) (k : KeyKind) :
    (kindKey r k).hasFullOrigin = (k == .full && originPresent r.header) := by
  unfold Key.hasFullOrigin
  rw [get_origin]
  cases k with
  | full =>
    have := stored_origin_full r
    simp only [Header.get, Header.values, canon_Origin] at this ⊢
    rw [this]
    unfold originPresent
    simp only [Header.get, Header.values, canon_Origin, kindKey, newKey, flagOf]
    cases (Header.vals r.header b!"Origin").headD [] <;> simp
  | plain =>
    have := stored_origin_base r .plain (by decide)
    simp only [Header.get, Header.values, canon_Origin] at this ⊢
    rw [this]; simp
  | opaqueOrigin =>
    simp [kindKey, newKey, flagOf]

/-- **`vary_origin_keys`** — with an Origin there are exactly two keys, the full-origin key
    first (it stores the Origin values and is not flagged), the opaque-origin key second (flagged,
    stores no Origin); a miss is filled through the opaque one (`notFoundPreferredKey`). -/
theorem vary_origin_keys (r : Req) (h : originPresent r.header = true) :
    keysFromRequest r = [kindKey r .full, kindKey r .opaqueOrigin] ∧
    (kindKey r .full).hasFullOrigin = true ∧ (kindKey r .full).hasOpaqueOrigin = false ∧
    (kindKey r .opaqueOrigin).hasOpaqueOrigin = true ∧ (kindKey r .opaqueOrigin).hasFullOrigin = false ∧
    Header.vals (kindKey r .full).storedHeaders b!"Origin" = Header.vals r.header b!"Origin" ∧
    Header.vals (kindKey r .opaqueOrigin).storedHeaders b!"Origin" = [] ∧
    notFoundPreferredKey (keysFromRequest r) = .ok (kindKey r .opaqueOrigin) ∧
    preferredIndex (keysFromRequest r) = some 1 := by
  have hk : keysFromRequest r = [kindKey r .full, kindKey r .opaqueOrigin] := by
    rw [keysFromRequest_eq]; simp [kinds, h]
  have hne : (kindKey r .full == kindKey r .opaqueOrigin) = false := by
    simp [kindKey, newKey, flagOf]
  refine ⟨hk, ?_, rfl, rfl, ?_, stored_origin_full r, stored_origin_base r .opaqueOrigin (by decide), ?_, ?_⟩
  · rw [hasFullOrigin_eq]; simp [h]
  · rw [hasFullOrigin_eq]; rfl
  · rw [hk]; simp [notFoundPreferredKey, List.find?, kindKey, newKey, flagOf]
  · rw [hk]
    have : notFoundPreferredKey [kindKey r .full, kindKey r .opaqueOrigin] = .ok (kindKey r .opaqueOrigin) := by
      simp [notFoundPreferredKey, List.find?, kindKey, newKey, flagOf]
    simp only [preferredIndex, this]
    simp [List.findIdx?_cons, hne]

/-- without an Origin there is exactly one key, unflagged, storing no Origin -/
theorem plain_key (r : Req) (h : originPresent r.header = false) :
    keysFromRequest r = [kindKey r .plain] ∧
    (kindKey r .plain).hasFullOrigin = false ∧ (kindKey r .plain).hasOpaqueOrigin = false ∧
    notFoundPreferredKey (keysFromRequest r) = .ok (kindKey r .plain) ∧
    preferredIndex (keysFromRequest r) = some 0 := by
  have hk : keysFromRequest r = [kindKey r .plain] := by
    rw [keysFromRequest_eq]; simp [kinds, h]
  refine ⟨hk, ?_, rfl, ?_, ?_⟩
  · rw [hasFullOrigin_eq]; rfl
  · rw [hk]; simp [notFoundPreferredKey, List.find?, kindKey, newKey, flagOf]
  · rw [hk]
    have : notFoundPreferredKey [kindKey r .plain] = .ok (kindKey r .plain) := by
      simp [notFoundPreferredKey, List.find?, kindKey, newKey, flagOf]
    simp only [preferredIndex, this]
    simp [List.findIdx?_cons]

/-- the single-request clause of the oracle accepts the model, for every request -/
theorem holdsKeys_model (r : Req) :
    ∃ i, preferredIndex (keysFromRequest r) = some i ∧
      holdsKeys r.header ((keysFromRequest r).map (·.opaqueOrigin)) i = true := by
  cases h : originPresent r.header with
  | true =>
    obtain ⟨hk, _, _, _, _, _, _, _, hp⟩ := vary_origin_keys r h
    exact ⟨1, hp, by rw [hk]; simp [holdsKeys, h, kindKey, newKey, flagOf]⟩
  | false =>
    obtain ⟨hk, _, _, _, hp⟩ := plain_key r h
    exact ⟨0, hp, by rw [hk]; simp [holdsKeys, h, kindKey, newKey, flagOf]⟩

example : originPresent reqOrigin.header = true := by decide
example : originPresent reqAE.header = false := by decide

/-! ## 3. Equal key fields ⇒ equal method class, Accept-Encoding, Authorization, Origin -/

theorem methodClass_of_keyMethod (m1 m2 : Bytes) (h : keyMethod m1 = keyMethod m2) :
    methodClass m1 = methodClass m2 := by
  unfold keyMethod at h
  unfold methodClass
  by_cases h1 : m1 = b!"GET" <;> by_cases h2 : m2 = b!"GET"
  · simp [h1, h2]
  · simp only [h1, ne_eq, not_true_eq_false, ↓reduceIte, h2, not_false_eq_true] at h
    subst h; simp [h1]
  · simp only [h1, ne_eq, not_false_eq_true, ↓reduceIte, h2, not_true_eq_false] at h
    subst h; simp [h2]
  · simp only [ne_eq, h1, not_false_eq_true, ↓reduceIte, h2] at h
    rw [h]

theorem allowed_AE (k : KeyKind) : toLower b!"Accept-Encoding" ∈ allowOf k := by cases k <;> decide
theorem allowed_Auth (k : KeyKind) : toLower b!"Authorization" ∈ allowOf k := by cases k <;> decide

theorem override_fixed (rule : Rule) (r : Req) :
    (overrideOnRequest rule r).header = r.header ∧ (overrideOnRequest rule r).host = r.host ∧
    (overrideOnRequest rule r).method = r.method := by
  unfold overrideOnRequest
  split <;> simp

/-- the request whose URL has been through `OverrideOnRequest` -/
abbrev ov (x : Routed) : Req := overrideOnRequest x.rule x.req

theorem modelKeys_eq (x : Routed) : modelKeys x = (kinds x.req.header).map (kindKey (ov x)) := by
  unfold modelKeys requestKeys
  rw [keysFromRequest_eq, (override_fixed x.rule x.req).1]

/-- the part of C11 the key does deliver: two keys that agree field by field stand for the
    same method class, Accept-Encoding, Authorization and Origin identity -/
theorem resource_of_fields (a b : Routed) (ka kb : KeyKind)
    (hka : ka ∈ kinds a.req.header) (hkb : kb ∈ kinds b.req.header)
    (hf : (kindKey (ov a) ka).fields = (kindKey (ov b) kb).fields)
    (hd : dest a = dest b) : resourceId a ka = resourceId b kb := by
  obtain ⟨hha, _, hma⟩ := override_fixed a.rule a.req
  obtain ⟨hhb, _, hmb⟩ := override_fixed b.rule b.req
  simp only [Key.fields, kindKey, newKey, KeyFields.mk.injEq, ov, hha, hhb, hma, hmb] at hf
  obtain ⟨hm, _, _, hst, hflag⟩ := hf
  have hvals := vals_of_storedNormal_eq _ _ hst
  have hmc := methodClass_of_keyMethod _ _ hm
  have hae : acceptEncoding a.req.header = acceptEncoding b.req.header := by
    have := hvals b!"Accept-Encoding"
    rw [vals_allowHeaders_allowed _ _ _ (allowed_AE ka), vals_allowHeaders_allowed _ _ _ (allowed_AE kb)] at this
    simpa only [acceptEncoding, Header.values, canon_AE] using this
  have hau : authorization a.req.header = authorization b.req.header := by
    have := hvals b!"Authorization"
    rw [vals_allowHeaders_allowed _ _ _ (allowed_Auth ka), vals_allowHeaders_allowed _ _ _ (allowed_Auth kb)] at this
    simpa only [authorization, Header.values, canon_Auth] using this
  have hor : originId a.req.header ka = originId b.req.header kb := by
    have ho := hvals b!"Origin"
    -- a full-origin kind only exists for a request whose first Origin value is non-empty
    have full_ne : ∀ (h : Header), KeyKind.full ∈ kinds h → Header.vals h b!"Origin" ≠ [] := by
      intro h hk hv
      unfold kinds at hk
      split at hk
      · rename_i hp
        simp [originPresent, Header.get, Header.values, canon_Origin, hv] at hp
      · simp at hk
    cases ka <;> cases kb <;> simp only [flagOf, Bool.false_eq_true, Bool.true_eq_false] at hflag <;>
      simp only [allowOf] at ho
    · rfl
    · -- plain vs full: the stored Origin differs
      exfalso
      rw [vals_allowHeaders_denied _ _ _ canon_Origin toLower_Origin_not_mem,
        vals_allowHeaders_allowed _ _ _ toLower_Origin_mem] at ho
      exact full_ne _ hkb ho.symm
    · exfalso
      rw [vals_allowHeaders_allowed _ _ _ toLower_Origin_mem,
        vals_allowHeaders_denied _ _ _ canon_Origin toLower_Origin_not_mem] at ho
      exact full_ne _ hka ho
    · rw [vals_allowHeaders_allowed _ _ _ toLower_Origin_mem,
        vals_allowHeaders_allowed _ _ _ toLower_Origin_mem] at ho
      simp only [originId, originValues, Header.values, canon_Origin, ho]
    · rfl
  simp only [resourceId, hd, hmc, hae, hau, hor]

/-! ## 4. Equal keys ⇒ equal resource -/

/-- the names the model gives a routed request, as pre-images of SHA-1 -/
def modelNames (x : Routed) : List Bytes := (modelKeys x).map keyString

/-- **C11 as stated**, function level: for all pairs of routed requests, entries with the same
    name stand for the same resource.  FALSE on the current tree: C11-a (ambiguous
    concatenation), C11-b (destination authority not keyed; client path keyed for host/scheme-
    constrained rules), C11-c (client query reaches the destination but not the key when the
    rule's destination does not carry the capture). -/
def Statement : Prop := ∀ a b : Routed, holds a b (modelNames a) (modelNames b) = true

theorem fields_of_not_class_a (a b : Routed) (h : inClass_C11_a a b = false)
    (hc : a.rule.cacheId = b.rule.cacheId) (ka kb : Key) (hka : ka ∈ modelKeys a) (hkb : kb ∈ modelKeys b)
    (he : keyString ka = keyString kb) : ka.fields = kb.fields := by
  by_cases hf : ka.fields = kb.fields
  · exact hf
  · exfalso
    have : inClass_C11_a a b = true := by
      unfold inClass_C11_a
      simp only [hc, beq_self_eq_true, Bool.true_and, List.any_eq_true]
      exact ⟨ka, hka, kb, hkb, by simp [he, hf]⟩
    rw [h] at this
    exact absurd this (by decide)

theorem dest_of_not_class_bc (a b : Routed) (hb : inClass_C11_b a b = false) (hc : inClass_C11_c a b = false)
    (hs : sameFields a b = true) : dest a = dest b := by
  unfold inClass_C11_b at hb
  unfold inClass_C11_c at hc
  rw [hs] at hb hc
  by_cases hd : dest a = dest b
  · exact hd
  · exfalso
    have hd' : (dest a != dest b) = true := by simpa using hd
    simp only [hd', Bool.true_and] at hb
    cases hr : (rewritten a && rewritten b) with
    | false => simp [hr] at hb
    | true =>
      have hr1 : rewritten a = true := by simp only [Bool.and_eq_true] at hr; exact hr.1
      have hr2 : rewritten b = true := by simp only [Bool.and_eq_true] at hr; exact hr.2
      simp only [hr, ↓reduceIte] at hb
      simp only [hr1, hr2, Bool.true_and] at hc
      cases hq : (pathQuery (dest a) == pathQuery (dest b)) with
      | true => simp [hq] at hb
      | false =>
        have : (pathQuery (dest a) != pathQuery (dest b)) = true := by simp [bne, hq]
        simp [this] at hc

theorem mem_zip_map_self {α β : Type} (f : α → β) (l : List α) (n : β) (k : α)
    (h : (n, k) ∈ (l.map f).zip l) : n = f k ∧ k ∈ l := by
  induction l with
  | nil => simp at h
  | cons x t ih =>
    simp only [List.map_cons, List.zip_cons_cons, List.mem_cons, Prod.mk.injEq] at h
    rcases h with ⟨h1, h2⟩ | h
    · subst h2; exact ⟨h1, List.mem_cons_self⟩
    · obtain ⟨h1, h2⟩ := ih h
      exact ⟨h1, List.mem_cons_of_mem _ h2⟩

/-- **partial**: outside the three known-finding classes the oracle accepts the model for every
    pair of routed requests.  Missing for the full statement: exactly C11-a, C11-b, C11-c. -/
theorem key_determines_resource_partial (a b : Routed)
    (ha : inClass_C11_a a b = false) (hb : inClass_C11_b a b = false) (hc : inClass_C11_c a b = false) :
    holds a b (modelNames a) (modelNames b) = true := by
  have hA := modelKeys_eq a
  have hB := modelKeys_eq b
  unfold holds
  have c1 : countOk a (modelNames a) = true := by simp [countOk, modelNames, hA]
  have c2 : countOk b (modelNames b) = true := by simp [countOk, modelNames, hB]
  rw [c1, c2]
  simp only [Bool.true_and, List.isEmpty_iff]
  unfold clashes
  split
  · rfl
  · rename_i hcache
    have hcache : a.rule.cacheId = b.rule.cacheId := by simpa using hcache
    rw [List.flatMap_eq_nil_iff]
    rintro ⟨na, ka⟩ hna
    rw [List.filterMap_eq_nil_iff]
    rintro ⟨nb, kb⟩ hnb
    simp only [ite_eq_right_iff, reduceCtorEq, imp_false, not_and, Decidable.not_not]
    intro hn
    unfold tagged modelNames at hna hnb
    rw [hA, List.map_map] at hna
    rw [hB, List.map_map] at hnb
    obtain ⟨e1, m1⟩ := mem_zip_map_self _ _ _ _ hna
    obtain ⟨e2, m2⟩ := mem_zip_map_self _ _ _ _ hnb
    simp only [Function.comp] at e1 e2
    have hka : kindKey (ov a) ka ∈ modelKeys a := by rw [hA]; exact List.mem_map_of_mem m1
    have hkb : kindKey (ov b) kb ∈ modelKeys b := by rw [hB]; exact List.mem_map_of_mem m2
    have hf := fields_of_not_class_a a b ha hcache _ _ hka hkb (by rw [← e1, ← e2, hn])
    have hs : sameFields a b = true := by
      unfold sameFields
      simp only [hcache, beq_self_eq_true, Bool.true_and, List.any_eq_true]
      exact ⟨_, hka, _, hkb, by simp [hf]⟩
    exact resource_of_fields a b ka kb m1 m2 hf (dest_of_not_class_bc a b hb hc hs)

/-! Witnesses. -/

def catchAll : Rule := { path := b!"/*", wci := some 1, dest := b!"http://d0.test/$1", cacheId := b!"c1" }
def routedBy (rule : Rule) (r : Req) : Routed :=
  { req := r, rule := rule, rScheme := b!"http", rHost := r.host, rUri := r.uri }

/-- C11-a end to end through a catch-all rule: `/xAccept-Encodinggzip` vs `Accept-Encoding: gzip` -/
theorem key_determines_resource_fails_witness_a :
    holds (routedBy catchAll reqPathAE) (routedBy catchAll reqAE)
      (modelNames (routedBy catchAll reqPathAE)) (modelNames (routedBy catchAll reqAE)) = false := by decide

def ruleA : Rule := { path := b!"/a/*", wci := some 3, dest := b!"http://A/$1", cacheId := b!"c1" }
def ruleB : Rule := { path := b!"/b/*", wci := some 3, dest := b!"http://B/$1", cacheId := b!"c1" }
def reqASame : Req := { method := b!"GET", host := b!"h", uri := b!"/a/same", header := [] }
def reqBSame : Req := { method := b!"GET", host := b!"h", uri := b!"/b/same", header := [] }

/-- C11-b: `/a/* → http://A/$1`, `/b/* → http://B/$1`; `/a/same` and `/b/same` get one key -/
theorem key_determines_resource_fails_witness_b :
    holds (routedBy ruleA reqASame) (routedBy ruleB reqBSame)
      (modelNames (routedBy ruleA reqASame)) (modelNames (routedBy ruleB reqBSame)) = false := by decide

theorem witness_b_class :
    inClass_C11_b (routedBy ruleA reqASame) (routedBy ruleB reqBSame) = true ∧
    inClass_C11_a (routedBy ruleA reqASame) (routedBy ruleB reqBSame) = false ∧
    inClass_C11_c (routedBy ruleA reqASame) (routedBy ruleB reqBSame) = false := by decide

def ruleHttp : Rule := { scheme := b!"http", path := b!"/a/*", wci := some 3, dest := b!"http://A/$1", cacheId := b!"c1" }
def ruleHttps : Rule := { scheme := b!"https", path := b!"/a/*", wci := some 3, dest := b!"http://B/other/$1", cacheId := b!"c1" }

/-- C11-b, second form: scheme-constrained rules are not re-matched by `OverrideOnRequest`
    (r.URL.Scheme is empty), so the CLIENT path `/a/same` is keyed for both destinations -/
theorem key_determines_resource_fails_witness_b_constrained :
    holds (routedBy ruleHttp reqASame) { routedBy ruleHttps reqASame with rScheme := b!"https" }
      (modelNames (routedBy ruleHttp reqASame)) (modelNames (routedBy ruleHttps reqASame)) = false := by decide

def ruleFixed : Rule := { path := b!"/a/*", wci := some 3, dest := b!"http://A/fixed", cacheId := b!"c1" }
def reqV1 : Req := { method := b!"GET", host := b!"h", uri := b!"/a/x?v=1", header := [] }
def reqV2 : Req := { method := b!"GET", host := b!"h", uri := b!"/a/x?v=2", header := [] }

/-- C11-c: `/a/* → http://A/fixed`; `?v=1` and `?v=2` reach the destination, the key is `/fixed` -/
theorem key_determines_resource_fails_witness_c :
    holds (routedBy ruleFixed reqV1) (routedBy ruleFixed reqV2)
      (modelNames (routedBy ruleFixed reqV1)) (modelNames (routedBy ruleFixed reqV2)) = false := by decide

theorem witness_c_class :
    inClass_C11_c (routedBy ruleFixed reqV1) (routedBy ruleFixed reqV2) = true ∧
    inClass_C11_a (routedBy ruleFixed reqV1) (routedBy ruleFixed reqV2) = false ∧
    inClass_C11_b (routedBy ruleFixed reqV1) (routedBy ruleFixed reqV2) = false := by decide

theorem Statement_false : ¬ Statement := by
  intro h
  have := h (routedBy ruleA reqASame) (routedBy ruleB reqBSame)
  rw [key_determines_resource_fails_witness_b] at this
  exact absurd this (by decide)

/-- non-vacuity of the partial theorem: a pair outside all classes whose entries ARE shared
    (two client paths folded onto one destination), and a pair with separate entries -/
def ruleB2 : Rule := { path := b!"/b/*", wci := some 3, dest := b!"http://A/$1", cacheId := b!"c1" }
example : inClass_C11_a (routedBy ruleA reqASame) (routedBy ruleB2 reqBSame) = false ∧
    inClass_C11_b (routedBy ruleA reqASame) (routedBy ruleB2 reqBSame) = false ∧
    inClass_C11_c (routedBy ruleA reqASame) (routedBy ruleB2 reqBSame) = false ∧
    modelNames (routedBy ruleA reqASame) = modelNames (routedBy ruleB2 reqBSame) := by decide
example : inClass_C11_a (routedBy catchAll reqAE) (routedBy catchAll reqAuth) = false ∧
    inClass_C11_b (routedBy catchAll reqAE) (routedBy catchAll reqAuth) = false ∧
    inClass_C11_c (routedBy catchAll reqAE) (routedBy catchAll reqAuth) = false := by decide

/-! ## 5. What the keyed request-target is -/

/-- When `OverrideOnRequest` re-matches exactly as routing did and the destination is not an
    opaque URL, the keyed request-target is the DESTINATION's path followed by the query of the
    *substituted destination string* — not the client's query, which is what the destination is
    asked with (`dest`).  The two agree when the capture carries the query into the query
    position; C11-c is the case where they do not. -/
theorem keyed_uri_of_rewritten (x : Routed) (u : Url.Split) (d : Dest)
    (hsame : attemptMatch x.rule x.req.urlScheme x.req.urlHost x.req.uri
              = attemptMatch x.rule x.rScheme x.rHost x.rUri)
    (ht : target x = some u) (hop : u.opaq = []) (hd : dest x = some d) :
    (ov x).uri = d.path ++ UrlEsc.querySuffix u ∧
    d.authority = UrlEsc.hostOfAuthority (u.authority.getD []) ∧ 63 ∉ d.path := by
  unfold target at ht
  unfold dest target at hd
  unfold ov overrideOnRequest overrideTarget parseDest
  rw [hsame]
  cases hm : attemptMatch x.rule x.rScheme x.rHost x.rUri with
  | none => simp [hm] at ht
  | some t =>
    simp only [hm] at ht hd ⊢
    rw [ht] at hd ⊢
    simp only at hd ⊢
    unfold UrlEsc.requestURI
    by_cases hf : Url.escapesOk u.fragment = true
    · simp only [hf, not_true_eq_false, ↓reduceIte, hop, ne_eq] at hd ⊢
      cases hp : UrlEsc.escapedPath u.path with
      | none => simp [hp] at hd
      | some p =>
        simp only [hp, Option.some.injEq] at hd ⊢
        subst hd
        exact ⟨rfl, rfl, UrlEsc.not_mem_wirePath _ (UrlEsc.not_mem_escapedPath _ _ hp)⟩
    · simp [hf] at hd

/-- **partial, structural form of the destination clause**: for two requests whose rules
    re-match in `OverrideOnRequest` exactly as they were routed (excludes the constrained-rule
    form of C11-b), whose destinations have the same authority (excludes C11-b proper) and whose
    substituted destination strings carry the query the destination is asked with (excludes
    C11-c), an equal keyed request-target means an equal destination URL.  The cut of the keyed
    target at its first `?` is unambiguous because a path never contains a raw `?`. -/
theorem dest_of_keyed_uri_partial (a b : Routed) (ua ub : Url.Split) (da db : Dest)
    (hsa : attemptMatch a.rule a.req.urlScheme a.req.urlHost a.req.uri
              = attemptMatch a.rule a.rScheme a.rHost a.rUri)
    (hsb : attemptMatch b.rule b.req.urlScheme b.req.urlHost b.req.uri
              = attemptMatch b.rule b.rScheme b.rHost b.rUri)
    (hta : target a = some ua) (htb : target b = some ub)
    (hoa : ua.opaq = []) (hob : ub.opaq = [])
    (hda : dest a = some da) (hdb : dest b = some db)
    (hauth : da.authority = db.authority)
    (hqa : da.query = ua.rawQuery) (hqb : db.query = ub.rawQuery)
    (hk : (ov a).uri = (ov b).uri) : da = db := by
  obtain ⟨ea, _, na⟩ := keyed_uri_of_rewritten a ua da hsa hta hoa hda
  obtain ⟨eb, _, nb⟩ := keyed_uri_of_rewritten b ub db hsb htb hob hdb
  rw [ea, eb] at hk
  obtain ⟨hp, hs⟩ := UrlEsc.append_cut _ _ _ _ na nb (UrlEsc.querySuffix_shape ua)
    (UrlEsc.querySuffix_shape ub) hk
  have hq : da.query = db.query := by rw [hqa, hqb]; exact UrlEsc.rawQuery_of_querySuffix _ _ hs
  cases da; cases db
  simp only [Dest.mk.injEq]
  exact ⟨hauth, hp, hq⟩

/-- non-vacuity: `/a/x?q=1` through `/a/* → http://A/$1` meets every hypothesis -/
example : let x := routedBy ruleA { method := b!"GET", host := b!"h", uri := b!"/a/x?q=1", header := [] }
    attemptMatch x.rule x.req.urlScheme x.req.urlHost x.req.uri = attemptMatch x.rule x.rScheme x.rHost x.rUri ∧
    (target x).map (·.opaq) = some [] ∧ (target x).map (·.rawQuery) = (dest x).map (·.query) ∧
    dest x = some ⟨b!"A", b!"/x", b!"q=1"⟩ ∧ (ov x).uri = b!"/x?q=1" := by decide

example : (ov (routedBy ruleFixed reqV1)).uri = b!"/fixed" ∧
    dest (routedBy ruleFixed reqV1) = some ⟨b!"A", b!"/fixed", b!"v=1"⟩ := by decide

/-! ## 6. Method, Authorization, Accept-Encoding in the key -/

theorem mem_keysFromRequest (r : Req) (k : Key) (h : k ∈ keysFromRequest r) :
    ∃ kind, kind ∈ kinds r.header ∧ k = kindKey r kind := by
  rw [keysFromRequest_eq] at h
  obtain ⟨kind, hk, rfl⟩ := List.mem_map.1 h
  exact ⟨kind, hk, rfl⟩

/-- **full statement**: a GET and a HEAD request never share a hashed string.  FALSE (C11-a):
    `keyString_injective_fails_witness_method_host`. -/
def MethodSeparationStatement : Prop :=
  ∀ a b : Req, a.method = b!"GET" → b.method = b!"HEAD" →
    ∀ ka ∈ keysFromRequest a, ∀ kb ∈ keysFromRequest b, keyString ka ≠ keyString kb

theorem method_separation_false : ¬ MethodSeparationStatement := by
  intro h
  exact h reqGetHostHEADh reqHeadHosth rfl rfl _ (by decide : newKey [] b!"HEADh" b!"/x" false [] Facts.keyClientHeaders ∈ _)
    _ (by decide : newKey b!"HEAD" b!"h" b!"/x" false [] Facts.keyClientHeaders ∈ _) (by decide)

/-- **partial**: the GET key string starts with the client's Host (GET is keyed as the empty
    method), the HEAD key string with `HEAD`; they differ whenever Host + request-target of the
    GET request is non-empty and does not start with `H`.  (The exact condition for equality is
    that the GET request's Host+target+headers spell `HEAD` + the HEAD request's — C11-a.) -/
theorem method_separation_partial (a b : Req) (ha : a.method = b!"GET") (hb : b.method = b!"HEAD")
    (c : Nat) (hc : (a.host ++ a.uri).head? = some c) (hne : c ≠ 72) :
    ∀ ka ∈ keysFromRequest a, ∀ kb ∈ keysFromRequest b, keyString ka ≠ keyString kb := by
  intro ka hka kb hkb he
  obtain ⟨k1, _, rfl⟩ := mem_keysFromRequest a ka hka
  obtain ⟨k2, _, rfl⟩ := mem_keysFromRequest b kb hkb
  have h1 : (keyString (kindKey a k1)).head? = some c := by
    have hnil : a.host ++ a.uri ≠ [] := by intro e; rw [e] at hc; simp at hc
    simp only [keyString, kindKey, newKey, keyMethod, ha, ne_eq, not_true_eq_false, ↓reduceIte,
      List.nil_append]
    rw [← List.append_assoc, List.head?_append, hc]
    rfl
  have h2 : (keyString (kindKey b k2)).head? = some 72 := by
    simp [keyString, kindKey, newKey, keyMethod, hb]
  rw [he, h2] at h1
  exact hne (by simpa using h1.symm)

example : (reqAE.host ++ reqAE.uri).head? = some 104 := by decide

/-- **full statements**: requests that differ in Authorization (resp. Accept-Encoding) values
    never share a hashed string.  FALSE (C11-a). -/
def AuthorizationStatement : Prop :=
  ∀ a b : Req, authorization a.header ≠ authorization b.header →
    ∀ ka ∈ keysFromRequest a, ∀ kb ∈ keysFromRequest b, keyString ka ≠ keyString kb

def AcceptEncodingStatement : Prop :=
  ∀ a b : Req, acceptEncoding a.header ≠ acceptEncoding b.header →
    ∀ ka ∈ keysFromRequest a, ∀ kb ∈ keysFromRequest b, keyString ka ≠ keyString kb

theorem authorization_in_key_false : ¬ AuthorizationStatement := by
  intro h
  exact h reqAuth reqPathAuth (by decide)
    _ (by decide : newKey [] b!"h" b!"/x" false reqAuth.header Facts.keyClientHeaders ∈ _)
    _ (by decide : newKey [] b!"h" b!"/xAuthorizationtok" false [] Facts.keyClientHeaders ∈ _) (by decide)

theorem accept_encoding_in_key_false : ¬ AcceptEncodingStatement := by
  intro h
  exact h reqAEab reqAEab1 (by decide)
    _ (by decide : newKey [] b!"h" b!"/x" false reqAEab.header Facts.keyClientHeaders ∈ _)
    _ (by decide : newKey [] b!"h" b!"/x" false reqAEab1.header Facts.keyClientHeaders ∈ _) (by decide)

theorem stored_vals_of_shape (a b : Req) (ka kb : Key) (hka : ka ∈ keysFromRequest a)
    (hkb : kb ∈ keysFromRequest b) (hs : ka.shape = kb.shape) (he : keyString ka = keyString kb)
    (K : Bytes) (hK : ∀ k, toLower K ∈ allowOf k) : Header.vals a.header K = Header.vals b.header K := by
  obtain ⟨k1, _, rfl⟩ := mem_keysFromRequest a ka hka
  obtain ⟨k2, _, rfl⟩ := mem_keysFromRequest b kb hkb
  have hf := keyString_injective_partial _ _ hs he
  simp only [Key.fields, KeyFields.mk.injEq] at hf
  have := vals_of_storedNormal_eq _ _ hf.2.2.2.1 K
  simp only [kindKey, newKey] at this
  rwa [vals_allowHeaders_allowed _ _ _ (hK k1), vals_allowHeaders_allowed _ _ _ (hK k2)] at this

/-- **partial**: among keys of one shape (equal field lengths), different Authorization values
    give different hashed strings -/
theorem authorization_in_key_partial (a b : Req)
    (hne : authorization a.header ≠ authorization b.header)
    (ka kb : Key) (hka : ka ∈ keysFromRequest a) (hkb : kb ∈ keysFromRequest b)
    (hs : ka.shape = kb.shape) : keyString ka ≠ keyString kb := by
  intro he
  apply hne
  have := stored_vals_of_shape a b ka kb hka hkb hs he b!"Authorization" allowed_Auth
  simpa only [authorization, Header.values, canon_Auth] using this

/-- **partial**: among keys of one shape, different Accept-Encoding values give different
    hashed strings (ALL values of the header are kept, in order) -/
theorem accept_encoding_in_key_partial (a b : Req)
    (hne : acceptEncoding a.header ≠ acceptEncoding b.header)
    (ka kb : Key) (hka : ka ∈ keysFromRequest a) (hkb : kb ∈ keysFromRequest b)
    (hs : ka.shape = kb.shape) : keyString ka ≠ keyString kb := by
  intro he
  apply hne
  have := stored_vals_of_shape a b ka kb hka hkb hs he b!"Accept-Encoding" allowed_AE
  simpa only [acceptEncoding, Header.values, canon_AE] using this

/-- non-vacuity: `Accept-Encoding: gzip` vs `Accept-Encoding: zipg`, same shape, different values -/
def reqAE2 : Req := { method := b!"GET", host := b!"h", uri := b!"/x", header := [(b!"Accept-Encoding", [b!"zipg"])] }
example : acceptEncoding reqAE.header ≠ acceptEncoding reqAE2.header ∧
    (keysFromRequest reqAE).map Key.shape = (keysFromRequest reqAE2).map Key.shape := by decide

end Props.C11
