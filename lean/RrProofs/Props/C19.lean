import RrModel.Spec.C19
import RrModel.Spec.Tables
import RrModel.Secrets
import RrProofs.Lemmas.Strings
/-
  C19 — Configurations are accepted or rejected whole; reload keeps the last good one.
  Only property theorems, their non-vacuity examples, and the lemmas local to them.

  C19-c (a request reads `router.rules` twice without synchronisation, so a `SetRules` between
  the two reads serves one request under two rule versions) is a statement about schedules and
  belongs to the interleaving level (`Conc`); nothing here speaks about it.
-/
namespace Props.C19
open Go Model Model.Config Spec.C19

/-! ## 1. accepted or rejected whole -/

def outcome : Except RuleErr (List RuleChain) → Outcome
  | .ok cs => some cs.length
  | .error _ => none

theorem allOk_length {α β} (f : α → Option β) (l : List α) (r : List β) (h : allOk f l = some r) :
    r.length = l.length := by
  induction l generalizing r with
  | nil => simp [allOk] at h; subst h; rfl
  | cons a t ih =>
    unfold allOk at h
    cases hf : f a with
    | none => simp [hf] at h
    | some b =>
      cases ht : allOk f t with
      | none => simp [hf, ht] at h
      | some bs =>
        simp [hf, ht] at h
        subst h
        simp [ih bs ht]

theorem newRules_length (srcs : List (RS × List RS)) (cs : List RuleChain) (h : newRules srcs = .ok cs) :
    cs.length = srcs.length := by
  induction srcs generalizing cs with
  | nil => simp [newRules] at h; subst h; rfl
  | cons c rest ih =>
    unfold newRules at h
    cases h1 : newRuleChain c.1 c.2 with
    | error e => simp [h1] at h
    | ok r =>
      cases h2 : newRules rest with
      | error e => simp [h1, h2] at h
      | ok rs =>
        simp [h1, h2] at h
        subst h
        simp [ih rs h2]

/-- the decoder loop over the top-level keys ends with what stands under the last `rules` key -/
theorem decodeRulesKvs_spec (kvs : List (Scalar × Tree)) (acc srcs : List (RS × List RS))
    (h : decodeRulesKvs kvs acc = some srcs) :
    (lastField b!"rules" kvs = none ∧ srcs = acc) ∨
    (lastField b!"rules" kvs = some (.sc .null) ∧ srcs = []) ∨
    (∃ l, lastField b!"rules" kvs = some (.list l) ∧ allOk decodeRS l = some srcs) := by
  induction kvs generalizing acc with
  | nil => simp [decodeRulesKvs] at h; subst h; left; simp [lastField]
  | cons kv rest ih =>
    obtain ⟨k, v⟩ := kv
    unfold decodeRulesKvs at h
    unfold lastField
    by_cases hk : keyIs k b!"rules" = true
    · simp only [hk, ↓reduceIte] at h
      -- whatever this key sets, a later `rules` key overrides it
      have later : ∀ acc', decodeRulesKvs rest acc' = some srcs →
          (lastField b!"rules" rest = none ∧ srcs = acc') ∨
          (lastField b!"rules" rest = some (.sc .null) ∧ srcs = []) ∨
          (∃ l, lastField b!"rules" rest = some (.list l) ∧ allOk decodeRS l = some srcs) :=
        fun acc' h' => ih acc' h'
      cases v with
      | sc s =>
        cases s with
        | null =>
          rcases later [] h with ⟨h1, h2⟩ | ⟨h1, h2⟩ | ⟨l, h1, h2⟩
          · right; left; simp [h1, hk, h2]
          · right; left; simp [h1, h2]
          · right; right; exact ⟨l, by simp [h1], h2⟩
        | bool b => simp at h
        | int i => simp at h
        | other t => simp at h
        | str s => simp at h
      | map m => simp at h
      | list l =>
        simp only at h
        cases hl : allOk decodeRS l with
        | none => simp [hl] at h
        | some rs =>
          simp only [hl] at h
          rcases later rs h with ⟨h1, h2⟩ | ⟨h1, h2⟩ | ⟨l', h1, h2⟩
          · right; right; exact ⟨l, by simp [h1, hk], by rw [h2]; exact hl⟩
          · right; left; simp [h1, h2]
          · right; right; exact ⟨l', by simp [h1], h2⟩
    · simp only [hk, Bool.false_eq_true, ↓reduceIte] at h
      rcases ih acc h with ⟨h1, h2⟩ | ⟨h1, h2⟩ | ⟨l, h1, h2⟩
      · left; simp [h1, hk, h2]
      · right; left; simp [h1, h2]
      · right; right; exact ⟨l, by simp [h1], h2⟩

theorem decodeRulesConfig_spec (t : Tree) (srcs : List (RS × List RS))
    (h : decodeRulesConfig t = some srcs) (hne : srcs.length ≠ 0) :
    ∃ l, docRuleList t = some l ∧ l.length = srcs.length := by
  cases t with
  | sc s =>
    cases s <;> simp [decodeRulesConfig] at h
    subst h; simp at hne
  | list l => simp [decodeRulesConfig] at h
  | map kvs =>
    simp only [decodeRulesConfig] at h
    rcases decodeRulesKvs_spec kvs [] srcs h with ⟨_, h2⟩ | ⟨_, h2⟩ | ⟨l, h1, h2⟩
    · subst h2; simp at hne
    · subst h2; simp at hne
    · exact ⟨l, by simp [docRuleList, h1], (allOk_length _ _ _ h2).symm⟩

/-- **C19, "accepted or rejected whole".** For every document — whatever the two parsers made
    of the text — `ParseRules` either returns an error or a rule list with exactly one rule per
    entry of the document's `rules` list (and at least one): nothing is accepted in part. -/
def StatementWhole : Prop := ∀ d : Doc, holdsWhole d.source (outcome (parseRules d)) = true

theorem accept_or_reject : StatementWhole := by
  intro d
  unfold parseRules
  cases hs : d.source with
  | none => simp [outcome, holdsWhole]
  | some t =>
    simp only
    cases hd : decodeRulesConfig t with
    | none => simp [outcome, holdsWhole]
    | some srcs =>
      simp only
      by_cases h0 : srcs.length = 0
      · simp [h0, outcome, holdsWhole]
      · simp only [h0, ↓reduceIte]
        cases hn : newRules srcs with
        | error e => simp [outcome, holdsWhole]
        | ok cs =>
          obtain ⟨l, hl, hlen⟩ := decodeRulesConfig_spec t srcs hd h0
          have hc := newRules_length srcs cs hn
          simp only [outcome, holdsWhole, hl]
          have : 0 < cs.length := by omega
          simp [this]; omega

/-! Non-vacuity: an accepted three-rule document (one rule with a two-level retry chain), and a
    document for every rejection reason of `ParseRules` / `NewRules` / `NewRule`. -/

def kv (k : Bytes) (v : Tree) : Scalar × Tree := (.str k, v)
def str (s : Bytes) : Tree := .sc (.str s)
def rule (path dest : Bytes) (more : List (Scalar × Tree) := []) : Tree :=
  .map ([kv b!"path" (str path), kv b!"destination" (str dest)] ++ more)
def yamlDoc (rules : List Tree) (more : List (Scalar × Tree) := []) : Doc :=
  { yaml := some (.map ([kv b!"rules" (.list rules)] ++ more)), json := none }
def rejection {α} : Except RuleErr α → Option RuleErr
  | .ok _ => none
  | .error e => some e

def exGood : Doc := yamlDoc [
  rule b!"/a/*" b!"http://d0/$1" [kv b!"methods" (.list [str b!"GET", str b!"HEAD"]), kv b!"cache" (str b!"a")],
  rule b!"/b" b!"http://d1/b" [kv b!"type" (str b!"copy_traffic"), kv b!"force_revalidate" (.sc (.int (-3))),
    kv b!"request_headers" (.map [kv b!" X-A " (str b!"v"), kv b!"x-b" (.sc .null), kv b!"x-c" (.sc (.int 5))])],
  rule b!"/c/*" b!"http://d2/$1" [kv b!"retry_rule" (rule b!"/c/*" b!"http://d3/$1" [kv b!"retry_rule" (rule b!"/c/*" b!"http://d4/$1")])] ]

example : outcome (parseRules exGood) = some 3 := by decide
/-- wildcard index, force_revalidate, request headers and retry destinations of each accepted rule -/
def view (d : Doc) : List (Option Nat × Nat × List (Bytes × Option Bytes) × List Bytes) :=
  match parseRules d with
  | .ok cs => cs.map fun c => (c.rule.wci, c.rule.forceRevalidate, c.rule.requestHeaders, c.retries.map (·.dest))
  | .error _ => []
example : view exGood =
  [(some 3, 0, [], []), (none, 0, [(b!"x-a", some b!"v"), (b!"x-b", none)], []),
   (some 3, 0, [], [b!"http://d3/$1", b!"http://d4/$1"])] := by rfl

example : rejection (parseRules { yaml := none, json := none }) = some .decode := by decide
example : rejection (parseRules (yamlDoc [rule b!"/a" b!"d" [kv b!"path" (.sc (.int 5))]])) = some .decode := by decide
example : rejection (parseRules (yamlDoc [])) = some .noRules := by decide
example : rejection (parseRules { yaml := some (.map []), json := none }) = some .noRules := by decide
example : rejection (parseRules (yamlDoc [rule b!"/a" b!"d", rule b!"" b!"d"])) = some .emptyPathOrDest := by decide
example : rejection (parseRules (yamlDoc [rule b!"/a" b!"d", .sc .null])) = some .emptyPathOrDest := by decide
example : rejection (parseRules (yamlDoc [rule b!"/a" b!"d" [kv b!"methods" (.list [str b!"GET", str b!"get"])]])) = some .badMethods := by decide
example : rejection (parseRules (yamlDoc [rule b!"/a" b!"d" [kv b!"type" (str b!"Proxy")]])) = some .badType := by decide
example : rejection (parseRules (yamlDoc [rule b!"/a" b!"d", rule b!"/*/*" b!"d"])) = some (.newRule .wildcardCount) := by decide
example : rejection (parseRules (yamlDoc [rule b!"/a/*/b" b!"d"])) = some (.newRule .wildcardNotLast) := by decide
-- a retry rule three levels down rejects the whole document
example : rejection (parseRules (yamlDoc [rule b!"/a" b!"d", rule b!"/b" b!"d" [kv b!"retry_rule" (rule b!"/b" b!"d" [kv b!"retry_rule"
    (rule b!"/b" b!"d" [kv b!"retry_rule" (rule b!"/b" b!"d" [kv b!"methods" (.list [str b!"FETCH"])])])])]])) = some .badMethods := by decide
-- the retry rule's errors come before the parent's wildcard error (NewRule runs last)
example : rejection (parseRules (yamlDoc [rule b!"/*/*" b!"d" [kv b!"retry_rule" (rule b!"/b" b!"d" [kv b!"type" (str b!"x")])]])) = some .badType := by decide
-- YAML first: a float where a string belongs is a string after `cleanupMapValue`; the JSON decoder rejects it
example : outcome (parseRules { yaml := some (.map [kv b!"rules" (.list [rule b!"/a" b!"d" [kv b!"host" (.sc (.other b!"1.5"))]])]), json := none }) = some 1 := by decide
example : rejection (parseRules { yaml := none, json := some (.map [kv b!"rules" (.list [rule b!"/a" b!"d" [kv b!"host" (.sc (.other b!"1.5"))]])]) }) = some .decode := by decide

/-- `NewRule`'s own "Empty path" / "Empty destination" errors cannot come out of `NewRules`,
    which has tested both fields before: the only `NewRule` errors left are the wildcard ones. -/
theorem wildcardIndex_error (p d : Bytes) (e : NewRuleError) (h : wildcardIndex p d = .error e)
    (hp : p ≠ []) (hd : d ≠ []) : e = .wildcardCount ∨ e = .wildcardNotLast := by
  unfold wildcardIndex at h
  have h1 : p.length ≠ 0 := by simpa using hp
  have h2 : d.length ≠ 0 := by simpa using hd
  simp only [h1, h2, ↓reduceIte] at h
  cases hi : index b!"*" (toLower p) with
  | none => simp [hi] at h
  | some i =>
    simp only [hi] at h
    split at h
    · cases h; left; rfl
    · split at h
      · cases h; right; rfl
      · cases h

theorem preRule_nonempty (s : RS) (r : Rule) (h : preRule s = .ok r) : r.path ≠ [] ∧ r.dest ≠ [] := by
  unfold preRule at h
  by_cases h0 : s.path = [] ∨ s.dest = []
  · simp [h0] at h
  · simp only [h0, ↓reduceIte] at h
    have hp : s.path ≠ [] := fun x => h0 (Or.inl x)
    have hd : s.dest ≠ [] := fun x => h0 (Or.inr x)
    split at h
    · cases h
    · split at h
      · cases h
      · cases h; exact ⟨hp, hd⟩

theorem preRule_error (s : RS) (e : RuleErr) (h : preRule s = .error e) :
    e = .emptyPathOrDest ∨ e = .badMethods ∨ e = .badType := by
  unfold preRule at h
  by_cases h0 : s.path = [] ∨ s.dest = []
  · simp only [h0, ↓reduceIte, Except.error.injEq] at h
    left; exact h.symm
  · by_cases h1 : (checkMethods s.methods).2.length > 0
    · simp only [h0, h1, ↓reduceIte, Except.error.injEq] at h
      right; left; exact h.symm
    · simp only [h0, h1, ↓reduceIte] at h
      cases hty : s.type with
      | none => simp [hty] at h
      | some t =>
        simp only [hty] at h
        by_cases hk : Facts.knownTypes.contains t = true
        · by_cases hc : t = b!"copy_traffic" <;> simp only [hk, hc, ↓reduceIte] at h <;> cases h
        · simp only [hk, Bool.false_eq_true, ↓reduceIte, Except.error.injEq] at h
          right; right; exact h.symm

theorem finishRule_error (r : Rule) (e : NewRuleError) (h : finishRule r = .error (.newRule e))
    (hp : r.path ≠ []) (hd : r.dest ≠ []) : e = .wildcardCount ∨ e = .wildcardNotLast := by
  unfold finishRule at h
  cases hw : wildcardIndex r.path r.dest with
  | ok w => simp [hw] at h
  | error e' =>
    simp only [hw, Except.error.injEq, RuleErr.newRule.injEq] at h
    subst h
    exact wildcardIndex_error _ _ _ hw hp hd

theorem newRuleChain_error (l : List RS) (s : RS) (e : NewRuleError)
    (h : newRuleChain s l = .error (.newRule e)) : e = .wildcardCount ∨ e = .wildcardNotLast := by
  induction l generalizing s with
  | nil =>
    unfold newRuleChain at h
    cases hp : preRule s with
    | error e' =>
      simp only [hp, Except.error.injEq] at h
      subst h
      have := preRule_error s _ hp
      simp at this
    | ok r =>
      obtain ⟨h1, h2⟩ := preRule_nonempty s r hp
      cases hf : finishRule r with
      | error e' =>
        simp only [hp, hf, Except.error.injEq] at h
        subst h
        exact finishRule_error r e hf h1 h2
      | ok r' => simp [hp, hf] at h
  | cons s' more ih =>
    unfold newRuleChain at h
    cases hp : preRule s with
    | error e' =>
      simp only [hp, Except.error.injEq] at h
      subst h
      have := preRule_error s _ hp
      simp at this
    | ok r =>
      obtain ⟨h1, h2⟩ := preRule_nonempty s r hp
      cases hc : newRuleChain s' more with
      | error e' =>
        simp only [hp, hc, Except.error.injEq] at h
        subst h
        exact ih s' hc
      | ok c =>
        cases hf : finishRule r with
        | error e' =>
          simp only [hp, hc, hf, Except.error.injEq] at h
          subst h
          exact finishRule_error r e hf h1 h2
        | ok r' => simp [hp, hc, hf] at h

/-- `NewRule`'s "Empty path" / "Empty destination" are dead code under `ParseRules` -/
theorem newRule_errors_are_wildcard_errors (d : Doc) (e : NewRuleError)
    (h : parseRules d = .error (.newRule e)) : e = .wildcardCount ∨ e = .wildcardNotLast := by
  unfold parseRules at h
  cases hs : d.source with
  | none => simp [hs] at h
  | some t =>
    simp only [hs] at h
    cases hd : decodeRulesConfig t with
    | none => simp [hd] at h
    | some srcs =>
      simp only [hd] at h
      by_cases h0 : srcs.length = 0
      · simp [h0] at h
      · simp only [h0, ↓reduceIte] at h
        clear hd h0
        induction srcs with
        | nil => simp [newRules] at h
        | cons c rest ih =>
          unfold newRules at h
          cases h1 : newRuleChain c.1 c.2 with
          | error e' =>
            simp only [h1, Except.error.injEq] at h
            subst h
            exact newRuleChain_error _ _ _ h1
          | ok r =>
            cases h2 : newRules rest with
            | error e' =>
              simp only [h1, h2, Except.error.injEq] at h
              subst h
              exact ih h2
            | ok rs => simp [h1, h2] at h

/-! ## 2. the wildcard index of an accepted rule -/

/-- what `attemptMatch` relies on: the index, if any, is the last position of the path and a
    `*` stands there -/
def wciSound (r : Rule) : Prop :=
  match r.wci with
  | none => True
  | some i => i + 1 = r.path.length ∧ r.path[i]? = some 42

theorem index_single_get (c : Nat) (s : Bytes) (i : Nat) (h : index [c] s = some i) : s[i]? = some c := by
  induction s generalizing i with
  | nil => simp [index] at h
  | cons d t ih =>
    unfold index at h
    by_cases hp : [c].isPrefixOf (d :: t) = true
    · simp only [hp, ↓reduceIte, Option.some.injEq] at h
      subst h
      simp [List.isPrefixOf] at hp
      simp [hp]
    · simp only [hp, Bool.false_eq_true, ↓reduceIte, Option.map_eq_some_iff] at h
      obtain ⟨j, hj, rfl⟩ := h
      simp [ih j hj]

theorem lowerByte_star (c : Nat) (h : lowerByte c = 42) : c = 42 := by
  unfold lowerByte at h
  split at h <;> omega

theorem wildcardIndex_some (p d : Bytes) (i : Nat) (h : wildcardIndex p d = .ok (some i)) :
    i + 1 = p.length ∧ p[i]? = some 42 := by
  unfold wildcardIndex at h
  by_cases h1 : p.length = 0
  · simp [h1] at h
  · by_cases h2 : d.length = 0
    · simp [h1, h2] at h
    · simp only [h1, h2, ↓reduceIte] at h
      cases hi : index b!"*" (toLower p) with
      | none => simp [hi] at h
      | some f =>
        simp only [hi] at h
        by_cases hl : lastIndex b!"*" (toLower p) ≠ some f
        · simp [hl] at h
        · simp only [hl, ↓reduceIte] at h
          by_cases hf : f ≠ (toLower p).length - 1
          · simp [hf] at h
          · simp only [hf, ↓reduceIte, Except.ok.injEq, Option.some.injEq] at h
            subst h
            have hlen : (toLower p).length = p.length := by simp [toLower]
            have hf' : f = p.length - 1 := by
              have := Classical.not_not.mp hf
              omega
            refine ⟨by omega, ?_⟩
            have hg := index_single_get 42 (toLower p) f hi
            simp only [toLower, List.getElem?_map, Option.map_eq_some_iff] at hg
            obtain ⟨c, hc, hc2⟩ := hg
            rw [hc, lowerByte_star c hc2]

theorem finishRule_sound (r r' : Rule) (h : finishRule r = .ok r') : wciSound r' := by
  unfold finishRule at h
  cases hw : wildcardIndex r.path r.dest with
  | error e => simp [hw] at h
  | ok w =>
    simp only [hw, Except.ok.injEq] at h
    subst h
    unfold wciSound
    cases w with
    | none => trivial
    | some i => exact wildcardIndex_some _ _ _ hw

theorem newRuleChain_sound (l : List RS) (s : RS) (c : RuleChain) (h : newRuleChain s l = .ok c) :
    wciSound c.rule ∧ ∀ r ∈ c.retries, wciSound r := by
  induction l generalizing s c with
  | nil =>
    unfold newRuleChain at h
    cases hp : preRule s with
    | error e => simp [hp] at h
    | ok r =>
      cases hf : finishRule r with
      | error e => simp [hp, hf] at h
      | ok r' =>
        simp only [hp, hf, Except.ok.injEq] at h
        subst h
        exact ⟨finishRule_sound r r' hf, by simp⟩
  | cons s' more ih =>
    unfold newRuleChain at h
    cases hp : preRule s with
    | error e => simp [hp] at h
    | ok r =>
      cases hc : newRuleChain s' more with
      | error e => simp [hp, hc] at h
      | ok c' =>
        cases hf : finishRule r with
        | error e => simp [hp, hc, hf] at h
        | ok r' =>
          simp only [hp, hc, hf, Except.ok.injEq] at h
          subst h
          obtain ⟨h1, h2⟩ := ih s' c' hc
          refine ⟨finishRule_sound r r' hf, ?_⟩
          intro x hx
          simp only [List.mem_cons] at hx
          rcases hx with rfl | hx
          · exact h1
          · exact h2 x hx

theorem newRules_sound (srcs : List (RS × List RS)) (cs : List RuleChain) (h : newRules srcs = .ok cs) :
    ∀ c ∈ cs, wciSound c.rule ∧ ∀ r ∈ c.retries, wciSound r := by
  induction srcs generalizing cs with
  | nil => simp [newRules] at h; subst h; simp
  | cons c rest ih =>
    unfold newRules at h
    cases h1 : newRuleChain c.1 c.2 with
    | error e => simp [h1] at h
    | ok r =>
      cases h2 : newRules rest with
      | error e => simp [h1, h2] at h
      | ok rs =>
        simp only [h1, h2, Except.ok.injEq] at h
        subst h
        intro x hx
        simp only [List.mem_cons] at hx
        rcases hx with rfl | hx
        · exact newRuleChain_sound _ _ _ h1
        · exact ih rs h2 x hx

theorem parseRules_newRules (d : Doc) (cs : List RuleChain) (h : parseRules d = .ok cs) :
    ∃ srcs, newRules srcs = .ok cs := by
  unfold parseRules at h
  cases hs : d.source with
  | none => simp [hs] at h
  | some t =>
    simp only [hs] at h
    cases hd : decodeRulesConfig t with
    | none => simp [hd] at h
    | some srcs =>
      simp only [hd] at h
      by_cases h0 : srcs.length = 0
      · simp [h0] at h
      · simp only [h0, ↓reduceIte] at h
        exact ⟨srcs, h⟩

/-- **C19, wildcard index.** In every rule of an accepted configuration — retry rules at any
    depth included — the wildcard index is absent or is the last position of the path, where
    a `*` stands. -/
theorem wildcard_index_sound (d : Doc) (cs : List RuleChain) (h : parseRules d = .ok cs) :
    ∀ c ∈ cs, ∀ r ∈ c.rule :: c.retries, wciSound r := by
  obtain ⟨srcs, hn⟩ := parseRules_newRules d cs h
  intro c hc r hr
  obtain ⟨h1, h2⟩ := newRules_sound srcs cs hn c hc
  simp only [List.mem_cons] at hr
  rcases hr with rfl | hr
  · exact h1
  · exact h2 r hr

/-- hence the two slice expressions of `attemptMatch` are in range whenever they are executed:
    the checked function never panics and computes what `Model.matchPath` (C01, C02) computes -/
theorem matchPathChecked_eq (r : Rule) (uri : Bytes) (h : wciSound r) :
    matchPathChecked r uri = .ok (matchPath r uri) := by
  unfold matchPathChecked matchPath
  unfold wciSound at h
  cases hw : r.wci with
  | none => simp
  | some wc =>
    rw [hw] at h
    obtain ⟨h1, _⟩ := h
    simp only
    by_cases c1 : uri = b!"/" ∧ (r.path = b!"*" ∨ r.path = b!"/*")
    · rw [if_pos c1, if_pos c1]
    · rw [if_neg c1, if_neg c1]
      by_cases c2 : uri.length ≤ wc
      · rw [if_pos c2, if_pos c2]
      · rw [if_neg c2, if_neg c2]
        have e1 : sliceTo r.path wc = some (r.path.take wc) := by
          unfold sliceTo; rw [if_pos (by omega)]
        have e2 : sliceFrom uri wc = some (uri.drop wc) := by
          unfold sliceFrom; rw [if_pos (by omega)]
        simp only [e1, e2]
        by_cases c3 : index (List.take wc r.path) uri ≠ some 0
        · rw [if_pos c3, if_pos c3]
        · rw [if_neg c3, if_neg c3]

theorem attemptMatchChecked_eq (r : Rule) (scheme host uri : Bytes) (h : wciSound r) :
    attemptMatchChecked r scheme host uri = .ok (attemptMatch r scheme host uri) := by
  unfold attemptMatchChecked attemptMatch
  split
  · rfl
  · exact matchPathChecked_eq r uri h

theorem matchLoopChecked_eq (q : Query) (rs : List Rule) (i : Nat) (copy : Option (Nat × Bytes))
    (h : ∀ r ∈ rs, wciSound r) : matchLoopChecked q rs i copy = .ok (matchLoop q rs i copy) := by
  induction rs generalizing i copy with
  | nil => simp [matchLoopChecked, matchLoop]
  | cons r rs ih =>
    have hr := h r (by simp)
    have hrs : ∀ r' ∈ rs, wciSound r' := fun r' hr' => h r' (by simp [hr'])
    unfold matchLoopChecked matchLoop ruleHit
    by_cases he : r.enabled = false
    · simp only [he, ↓reduceIte]; exact ih _ _ hrs
    · simp only [he]
      by_cases hm : methodExcluded r q.method = true
      · simp only [hm, ↓reduceIte]; exact ih _ _ hrs
      · simp only [hm]
        rw [attemptMatchChecked_eq r _ _ _ hr]
        cases attemptMatch r q.scheme q.host q.uri with
        | none => simp only; exact ih _ _ hrs
        | some t =>
          simp only
          cases r.type with
          | proxy => rfl
          | copy => simp only; exact ih _ _ hrs

/-! ## 3. an accepted configuration never crashes a request -/

/-- **C19, "an accepted configuration never causes a crash … for any request"**, over the
    modelled request path (DropPort, the rule loop, `secrets[0]`): stated in full. -/
def StatementNoPanic : Prop :=
  ∀ (d : Doc) (cs : List RuleChain), parseRules d = .ok cs →
  ∀ (routingSecrets : Option (List Bytes)) (reparse : Query → Option Query) (req : Req),
    (requestPath routingSecrets reparse (cs.map (·.rule)) req).isOk = true

def exAccepted : Doc := yamlDoc [rule b!"/a/*" b!"http://d0/$1"]

theorem exAccepted_ok : ∃ cs, parseRules exAccepted = .ok cs := by
  cases h : parseRules exAccepted with
  | ok cs => exact ⟨cs, rfl⟩
  | error e =>
    have : outcome (parseRules exAccepted) = some 1 := by decide
    simp [h, outcome] at this

/-- `RoutingSecrets = []` (set, but empty) and an internal rule: `secrets[0]` in
    `ensureInternalHeaders` is out of range. This is the one panic site left on the modelled
    path; it depends on the deployment setting, not on the configuration text, and is the
    declared assumption of this property (`RoutingSecrets` nil or non-empty). -/
def exInternal : Doc := yamlDoc [rule b!"/a" b!"d" [kv b!"internal" (.sc (.bool true))]]

theorem fails_witness_secrets :
    (match parseRules exInternal with
     | .ok cs => (requestPath (some []) some (cs.map (·.rule)) { host := b!"h", uri := b!"/a", method := b!"GET" }).isOk
     | .error _ => true) = false := by decide

/-- the full statement quantifies over every `RoutingSecrets` value, the set-but-empty list
    included: there it stays false (not a listed finding: the declared assumption) -/
theorem StatementNoPanic_false : ¬ StatementNoPanic := by
  intro h
  have hw := fails_witness_secrets
  cases hp : parseRules exInternal with
  | error e => simp [hp] at hw
  | ok cs =>
    have := h exInternal cs hp (some []) some { host := b!"h", uri := b!"/a", method := b!"GET" }
    simp only [hp] at hw
    rw [hw] at this
    exact Bool.false_ne_true this

/-- `DropPort` has no panic site (since the fix for finding C05-b): for EVERY Host value -/
theorem dropPort_isOk (host : Bytes) : (dropPort host).isOk = true := by
  unfold dropPort
  split
  · rfl
  · split <;> rfl
  · rfl
  · split <;> rfl

/-- the second caller of `DropPort`, `util.RequestIP` (X-Real-Ip, X-Forwarded-For, RemoteAddr):
    no header value and no peer address makes it panic -/
theorem requestIP_isOk (header : Header) (remoteIP : Option Bytes) : (requestIP header remoteIP).isOk = true := by
  unfold requestIP
  simp only
  repeat' split
  all_goals first | rfl | exact dropPort_isOk _

theorem secretsSite_ok (pass : Bool) (secrets : List Bytes) (a b c : Bytes)
    (h : pass = false ∨ secrets ≠ []) : secretsSite pass secrets a b c = .ok () := by
  unfold secretsSite
  split
  · rfl
  · split
    · split
      · rfl
      · split
        · rfl
        · cases secrets with
          | nil => rcases h with h | h <;> simp_all
          | cons x xs => rfl
    · rfl

theorem ruleSite_ok (routingSecrets : Option (List Bytes)) (rs : List Rule) (req : Req)
    (m : Option (Nat × Bytes)) (h : routingSecrets ≠ some []) : ruleSite routingSecrets rs req m = .ok () := by
  unfold ruleSite
  cases m with
  | none => rfl
  | some it =>
    simp only
    cases rs[it.1]? with
    | none => rfl
    | some r =>
      simp only
      unfold internalSite
      cases routingSecrets with
      | none => exact secretsSite_ok _ _ _ _ _ (Or.inl rfl)
      | some secrets =>
        exact secretsSite_ok _ _ _ _ _ (Or.inr (fun hs => h (by rw [hs])))

/-- **proved form** (`_partial`): what is missing from `StatementNoPanic` is exactly
    `RoutingSecrets = []` (set, but empty): `secrets[0]` in `ensureInternalHeaders` — the
    declared assumption of this property. The Host-class hypothesis of finding C05-b (`[`
    without `]`) is gone with the repair of `util.DropPort`: EVERY Host value is covered.
    The slices of `attemptMatch` never panic under an accepted configuration. -/
theorem accepted_never_panics_partial (d : Doc) (cs : List RuleChain) (h : parseRules d = .ok cs)
    (routingSecrets : Option (List Bytes)) (reparse : Query → Option Query) (req : Req)
    (hSecrets : routingSecrets ≠ some []) :
    (requestPath routingSecrets reparse (cs.map (·.rule)) req).isOk = true := by
  have hs : ∀ r ∈ cs.map (·.rule), wciSound r := by
    intro r hr
    simp only [List.mem_map] at hr
    obtain ⟨c, hc, rfl⟩ := hr
    exact wildcard_index_sound d cs h c hc c.rule (by simp)
  unfold requestPath
  have hd := dropPort_isOk req.host
  cases hdp : dropPort req.host with
  | panic s => simp [hdp, Res.isOk] at hd
  | ok hh =>
    simp only
    cases reparse ⟨scheme req.tls req.xForwardedProto, hh, req.uri, req.method⟩ with
    | none => rfl
    | some q =>
      simp only [matchLoopChecked_eq q _ 0 none hs, ruleSite_ok _ _ _ _ hSecrets]
      rfl

-- the hypotheses are satisfiable by a request that is actually routed
def routed (d : Doc) (req : Req) : Option (Nat × Bytes) :=
  match parseRules d with
  | .ok cs => match requestPath (some [b!"s"]) some (cs.map (·.rule)) req with
    | .ok m => m.proxy
    | .panic _ => none
  | .error _ => none
example : routed exAccepted { host := b!"h1.test:8080", uri := b!"/a/x?y", method := b!"GET" } = some (0, b!"http://d0/x?y") := by decide
-- regression for finding C05-b (witnesses of stream kf.C19-host): a Host that opens a bracket
-- and never closes it is handed on unchanged, nothing panics, whatever the rules are
example : dropPort b!"[abc" = .ok b!"[abc" := by decide
example : dropPort b!"[" = .ok b!"[" := by decide
example : dropPort b!"[::1]:80" = .ok b!"::1" := by decide
example (routingSecrets : Option (List Bytes)) (rs : List Rule) :
    (requestPath routingSecrets (fun _ => none) rs { host := b!"[abc", uri := b!"/a/x", method := b!"GET" }).isOk = true := by
  rfl
-- (with the identity for the URL re-parse such a request is routed like any other; the real
-- `url.Parse` rejects the Host and `Rules.Match` hands the error back: the `reparse = none` case)
example : routed exAccepted { host := b!"[abc", uri := b!"/a/x", method := b!"GET" } = some (0, b!"http://d0/x") := by decide
-- the excluded site is real
example : (requestPath (some []) some [{ path := b!"/a", dest := b!"d", internal := true }]
    { host := b!"h", uri := b!"/a", method := b!"GET" }).isOk = false := by decide

/-! ## 4. one configuration, two spellings

  Both parsers are outside the model; what the model can say about "the YAML and JSON
  spellings of one configuration" is what `yamlconfig.Convert` does to the tree before the
  common typed decode. For a configuration both syntaxes spell with the same types — string
  keys; null, bool, int and string scalars — it does nothing, so the YAML route, the JSON
  route through the YAML parser and the `json.Unmarshal` fallback decode the same tree. -/

mutual
theorem cleanup_id : ∀ t : Tree, wellTyped t = true → cleanup t = t
  | .sc s, h => by
    cases s <;> simp_all [cleanup, wellTyped, Scalar.plain]
  | .list l, h => by
    have := cleanupList_id l (by simpa [wellTyped] using h)
    simp [cleanup, this]
  | .map m, h => by
    have := cleanupMap_id m (by simpa [wellTyped] using h)
    simp [cleanup, this]
theorem cleanupList_id : ∀ l : List Tree, wellTypedList l = true → cleanupList l = l
  | [], _ => by simp [cleanupList]
  | t :: r, h => by
    simp only [wellTypedList, Bool.and_eq_true] at h
    simp [cleanupList, cleanup_id t h.1, cleanupList_id r h.2]
theorem cleanupMap_id : ∀ m : List (Scalar × Tree), wellTypedMap m = true → cleanupMap m = m
  | [], _ => by simp [cleanupMap]
  | (k, v) :: r, h => by
    simp only [wellTypedMap, Bool.and_eq_true] at h
    obtain ⟨⟨hk, hv⟩, hr⟩ := h
    cases k <;> simp [Scalar.isStr] at hk
    simp [cleanupMap, sprintV, cleanup_id v hv, cleanupMap_id r hr]
end

/-- **C19, YAML ≡ JSON at model level.** The typed decodes do not see `cleanupMapValue` on a
    well-typed tree. -/
theorem cleanup_preserves_typed_fields (t : Tree) (h : wellTyped t = true) :
    decodeRulesConfig (cleanup t) = decodeRulesConfig t ∧
    decodeCacheConfig (cleanup t) = decodeCacheConfig t := by
  simp [cleanup_id t h]

/-- hence the same rules (or the same rejection) and the same storage configurations whichever
    way the text went: through the YAML parser, or — `j` being irrelevant then — through the
    JSON fallback -/
theorem spellings_agree (t : Tree) (j : Option Tree) (h : wellTyped t = true) :
    parseRules { yaml := some t, json := j } = parseRules { yaml := none, json := some t } ∧
    parseStorageConfigs { yaml := some t, json := j } = parseStorageConfigs { yaml := none, json := some t } := by
  unfold parseRules parseStorageConfigs Doc.source
  simp [cleanup_id t h]

theorem holdsSpellings_model (t : Tree) (j : Option Tree) :
    holdsSpellings t (outcome (parseRules { yaml := some t, json := j }))
      (outcome (parseRules { yaml := none, json := some t })) = true := by
  unfold holdsSpellings
  cases h : wellTyped t with
  | false => rfl
  | true => simp [(spellings_agree t j h).1]

-- non-vacuity: the three-rule document above is well-typed; with a float or a non-string key
-- the two routes really differ (that is what the hypothesis excludes)
example : (match exGood.yaml with | some t => wellTyped t | none => false) = true := by decide
example : wellTyped (.map [kv b!"rules" (.list [rule b!"/a" b!"d" [kv b!"host" (.sc (.other b!"1.5"))]])]) = false := by decide
example : wellTyped (.map [(.int 1, str b!"x")]) = false := by decide

/-! ## 5. reload -/

theorem reload_protocol_pinned : reloadProtocol = Spec.reloadSteps := by rfl

/-- what is observed after the attempt: the reloader cannot die any more (`step` is total),
    so there always is an observation (`none` is the oracle's "the process died") -/
def modelAfter (probes : List Query) (ids : List Bytes) (s : State) (f : Fetch) : Option Obs :=
  some (observe probes ids (step s f).1)

def modelRestart (probes : List Query) (ids : List Bytes) : Fetch → Option Obs
  | .error => none
  | .doc sum d => (start sum d).map (observe probes ids)

/-- **C19, "a reload that fails to fetch, parse or validate leaves the previous rules and
    caches serving"**: stated in full, for every probe set (so: for everything a client can
    observe of rules and caches). -/
def StatementFailure : Prop :=
  ∀ (probes : List Query) (ids : List Bytes) (s : State) (f : Fetch), kindOf s.checksum f ≠ .valid →
    holdsStep (kindOf s.checksum f) (observe probes ids s) (modelAfter probes ids s f) (modelRestart probes ids f) = true

/-- **C19, "a successful reload behaves like a restart with the new configuration"**, in full
    (rules and caches). -/
def StatementSuccess : Prop :=
  ∀ (probes : List Query) (ids : List Bytes) (s : State) (f : Fetch), kindOf s.checksum f = .valid →
    holdsStep .valid (observe probes ids s) (modelAfter probes ids s f) (modelRestart probes ids f) = true

/-! witnesses -/

def wProbes : List Query := [⟨b!"http", b!"h", b!"/a/x", b!"GET"⟩]
def wIds : List Bytes := [b!"a", b!"b"]
def cacheEntry (id path size : Bytes) : Tree := .map [kv b!"id" (str id), kv b!"path" (str path), kv b!"size" (str size)]

/-- serving: `/a/*` → old, cache `a` -/
def wOld : State :=
  { rules := [⟨{ path := b!"/a/*", wci := some 3, dest := b!"http://old/$1", cacheId := b!"a" }, []⟩],
    storages := [⟨b!"a", b!"/S/a", 1048576⟩], checksum := 1 }

/-- witness of (repaired) finding C19-a: new rules, and a cache section the decoder rejects
    (`size: 300`, a YAML integer) -/
def wFetchA : Fetch := .doc 2 (yamlDoc [rule b!"/a/*" b!"http://new/$1"]
  [kv b!"caches" (.list [.map [kv b!"id" (str b!"b"), kv b!"path" (str b!"/S/b"), kv b!"size" (.sc (.int 300))]])])

/-- witness of (repaired) finding C19-b: new rules, and the same cache id twice -/
def wFetchB : Fetch := .doc 3 (yamlDoc [rule b!"/a/*" b!"http://new/$1"]
  [kv b!"caches" (.list [cacheEntry b!"a" b!"/S/a" b!"1M", cacheEntry b!"a" b!"/S/a2" b!"1M"])])

/-- C19-d: the serving rules again, cache `a` kept and cache `b` added -/
def wFetchD : Fetch := .doc 4 (yamlDoc [rule b!"/a/*" b!"http://old/$1" [kv b!"cache" (str b!"a")]]
  [kv b!"caches" (.list [cacheEntry b!"a" b!"/S/a" b!"1M", cacheEntry b!"b" b!"/S/b" b!"1M"])])

theorem wFetchA_kind : kindOf wOld.checksum wFetchA = .invalidStorages := by decide
theorem wFetchB_kind : kindOf wOld.checksum wFetchB = .invalidStorages := by decide
theorem wFetchD_kind : kindOf wOld.checksum wFetchD = .valid := by decide

/-! regression for findings C19-a and C19-b (the witnesses of streams kf.C19-a, kf.C19-b): both
    attempts are failed reloads that leave everything as it was -/

-- C19-a: the cache section is rejected BEFORE `SetRules` runs: old rules, old caches
example :
    holdsStep (kindOf wOld.checksum wFetchA) (observe wProbes wIds wOld) (modelAfter wProbes wIds wOld wFetchA)
      (modelRestart wProbes wIds wFetchA) = true := by decide
example :
    (observe wProbes wIds wOld, modelAfter wProbes wIds wOld wFetchA) =
    (⟨[some (b!"http://old/$1", b!"a")], [true, false]⟩, some ⟨[some (b!"http://old/$1", b!"a")], [true, false]⟩) := by
  decide
example : (step wOld wFetchA).2 = .storagesRejected := by decide
-- C19-b: a duplicate cache id is an error like any other: the reloader lives, nothing changes
example : modelAfter wProbes wIds wOld wFetchB = some (observe wProbes wIds wOld) := by decide
example :
    holdsStep (kindOf wOld.checksum wFetchB) (observe wProbes wIds wOld) (modelAfter wProbes wIds wOld wFetchB)
      (modelRestart wProbes wIds wFetchB) = true := by decide
example : (step wOld wFetchB).2 = .storagesRejected := by decide
-- and a start-up with such a text refuses to start (with an error, no longer by panicking)
example : modelRestart wProbes wIds wFetchB = none := by decide

/-- **C19-d.** Valid new configuration listing caches `a` (in use) and `b` (new): afterwards
    only `b` exists — `SetStorageConfigs` replaces the list by the new storages alone. -/
theorem fails_witness_d :
    holdsStep .valid (observe wProbes wIds wOld) (modelAfter wProbes wIds wOld wFetchD)
      (modelRestart wProbes wIds wFetchD) = false := by decide

theorem fails_witness_d_detail :
    (modelAfter wProbes wIds wOld wFetchD, modelRestart wProbes wIds wFetchD) =
    (some ⟨[some (b!"http://old/$1", b!"a")], [false, true]⟩, some ⟨[some (b!"http://old/$1", b!"a")], [true, true]⟩) := by
  decide

theorem StatementSuccess_false : ¬ StatementSuccess := by
  intro h
  have := h wProbes wIds wOld wFetchD wFetchD_kind
  rw [fails_witness_d] at this
  exact Bool.false_ne_true this

/-! proved forms -/

/-- the state itself is untouched (not merely the observation) whenever the attempt is not a
    valid new configuration: fetch failure, unchanged text, rules rejected, cache section
    rejected (type error or duplicate id/path) -/
theorem step_keeps_state (s : State) (f : Fetch) (hk : kindOf s.checksum f ≠ .valid) :
    ∃ e, step s f = (s, e) := by
  cases f with
  | error => exact ⟨_, rfl⟩
  | doc sum d =>
    unfold step
    by_cases hc : s.checksum = sum
    · exact ⟨.unchanged, by simp [hc]⟩
    · simp only [hc, ↓reduceIte]
      cases hp : parseRules d with
      | error e => exact ⟨_, rfl⟩
      | ok rules =>
        cases hs : parseStorageConfigs d with
        | none => exact ⟨_, rfl⟩
        | some cfgs =>
          have : ¬ sum = s.checksum := fun h => hc h.symm
          simp [kindOf, this, hp, hs] at hk

theorem holds_of_kept (probes : List Query) (ids : List Bytes) (s : State) (f : Fetch) (e : StepEnd)
    (he : step s f = (s, e)) (hk : kindOf s.checksum f ≠ .valid) :
    holdsStep (kindOf s.checksum f) (observe probes ids s) (modelAfter probes ids s f) (modelRestart probes ids f) = true := by
  have : modelAfter probes ids s f = some (observe probes ids s) := by simp [modelAfter, he]
  rw [this]
  cases hkind : kindOf s.checksum f <;> simp_all [holdsStep]

/-- **C19, "a reload that fails to fetch, parse or validate leaves the previous rules and
    caches serving"** — at full strength, no class hypothesis: both sections of the new text are
    parsed and validated before `SetRules` / `SetStorageConfigs` run, and a duplicate cache id or
    path is an error, not a panic (findings C19-a and C19-b repaired). -/
theorem reload_failure_keeps_state : StatementFailure := by
  intro probes ids s f hk
  obtain ⟨e, he⟩ := step_keeps_state s f hk
  exact holds_of_kept probes ids s f e he hk

/-- the same for the three kinds that never needed a class hypothesis (kept under its name) -/
theorem reload_fetch_and_rule_failures_keep_state (probes : List Query) (ids : List Bytes) (s : State) (f : Fetch)
    (hk : kindOf s.checksum f = .fetchFailed ∨ kindOf s.checksum f = .same ∨ kindOf s.checksum f = .invalidRules) :
    holdsStep (kindOf s.checksum f) (observe probes ids s) (modelAfter probes ids s f) (modelRestart probes ids f) = true := by
  apply reload_failure_keeps_state
  rcases hk with h | h | h <;> rw [h] <;> decide

/-- and the reloader survives every attempt: there always is an observation afterwards -/
theorem reload_never_dies (probes : List Query) (ids : List Bytes) (s : State) (f : Fetch) :
    (modelAfter probes ids s f).isSome = true := rfl

/-- what `kindOf … = valid` says about the pieces -/
theorem valid_inv (s : State) (f : Fetch) (hk : kindOf s.checksum f = .valid) :
    ∃ sum d rules cfgs, f = .doc sum d ∧ s.checksum ≠ sum ∧ parseRules d = .ok rules ∧
      parseStorageConfigs d = some cfgs := by
  cases f with
  | error => simp [kindOf] at hk
  | doc sum d =>
    unfold kindOf at hk
    by_cases hc : sum = s.checksum
    · simp [hc] at hk
    · simp only [hc, ↓reduceIte] at hk
      cases hp : parseRules d with
      | error e => simp [hp] at hk
      | ok rules =>
        cases hs : parseStorageConfigs d with
        | none => simp [hp, hs] at hk
        | some cfgs => exact ⟨sum, d, rules, cfgs, rfl, fun h => hc h.symm, by simp [hp], by simp [hs]⟩

/-- **C19, "a successful reload behaves like a restart" — rules** (full): after a valid new
    text the reloader serves exactly the rule list a fresh start with that text builds, and
    remembers its checksum. -/
theorem reload_success_like_restart (s : State) (f : Fetch) (hk : kindOf s.checksum f = .valid) :
    ∃ sum d s' r cfgs, f = .doc sum d ∧ step s f = (s', .loaded) ∧ start sum d = some r ∧
      s'.rules = r.rules ∧ s'.checksum = r.checksum ∧
      parseStorageConfigs d = some cfgs ∧
      s'.storages = setStorageConfigs s.storages cfgs ∧ r.storages = cfgs.map Storage.ofCfg := by
  obtain ⟨sum, d, rules, cfgs, rfl, hc, hp, hs⟩ := valid_inv s f hk
  refine ⟨sum, d, ⟨rules, setStorageConfigs s.storages cfgs, sum⟩, ⟨rules, cfgs.map Storage.ofCfg, sum⟩, cfgs,
    rfl, ?_, ?_, rfl, rfl, hs, rfl, rfl⟩
  · simp [step, hc, hp, hs]
  · simp [start, hp, hs]

/-! the storage half -/

theorem updateFirst_ids (old : List Storage) (cfg : StorageCfg) :
    (updateFirst old cfg).map (·.id) = old.map (·.id) := by
  induction old with
  | nil => rfl
  | cons s r ih =>
    unfold updateFirst
    by_cases h : s.id = cfg.id
    · simp [h]
    · simp [h, ih]

theorem anyId_eq_of_ids (a b : List Storage) (h : a.map (·.id) = b.map (·.id)) (id : Bytes) :
    a.any (fun s => s.id = id) = b.any (fun s => s.id = id) := by
  have ha : a.any (fun s => s.id = id) = (a.map (·.id)).any (fun x => x = id) := by
    simp [List.any_map]; rfl
  have hb : b.any (fun s => s.id = id) = (b.map (·.id)).any (fun x => x = id) := by
    simp [List.any_map]; rfl
  rw [ha, hb, h]

/-- first loop of SetStorageConfigs: ids of the old list are untouched, the new storages are
    the configurations whose id the old list does not know, in order -/
theorem applyCfgs_spec (cfgs : List StorageCfg) (old news : List Storage) :
    ((applyCfgs cfgs old news).1.map (·.id) = old.map (·.id)) ∧
    (applyCfgs cfgs old news).2 =
      news ++ (cfgs.filter fun c => !old.any (fun s => s.id = c.id)).map Storage.ofCfg := by
  induction cfgs generalizing old news with
  | nil => simp [applyCfgs]
  | cons cfg rest ih =>
    unfold applyCfgs
    by_cases hex : old.any (fun s => s.id = cfg.id) = true
    · simp only [hex, ↓reduceIte]
      obtain ⟨h1, h2⟩ := ih (updateFirst old cfg) news
      have hid := updateFirst_ids old cfg
      refine ⟨by rw [h1, hid], ?_⟩
      rw [h2]
      have hf : (rest.filter fun c => !(updateFirst old cfg).any (fun s => s.id = c.id)) =
          (rest.filter fun c => !old.any (fun s => s.id = c.id)) := by
        congr 1; funext c; rw [anyId_eq_of_ids _ _ hid c.id]
      rw [hf]
      simp [hex]
    · simp only [hex, Bool.false_eq_true, ↓reduceIte]
      obtain ⟨h1, h2⟩ := ih old (news ++ [Storage.ofCfg cfg])
      refine ⟨h1, ?_⟩
      rw [h2]
      have : old.any (fun s => s.id = cfg.id) = false := by simpa using hex
      simp [this]

theorem any_ofCfg (cfgs : List StorageCfg) (id : Bytes) :
    (cfgs.map Storage.ofCfg).any (fun s => s.id = id) = cfgs.any (fun c => c.id = id) := by
  simp [List.any_map]; rfl

/-- outside class C19-d every cache the new configuration lists exists afterwards -/
theorem setStorageConfigs_covers (old : List Storage) (cfgs : List StorageCfg)
    (hd : (cfgs.any (fun c => old.any (fun s => s.id = c.id)) &&
           cfgs.any (fun c => !old.any (fun s => s.id = c.id))) = false)
    (id : Bytes) (hid : cfgs.any (fun c => c.id = id) = true) :
    (setStorageConfigs old cfgs).any (fun s => s.id = id) = true := by
  unfold setStorageConfigs
  obtain ⟨h1, h2⟩ := applyCfgs_spec cfgs old []
  simp only [List.nil_append] at h2
  by_cases hn : (applyCfgs cfgs old []).2.length = 0
  · -- no new storage: the old list, with its ids
    simp only [hn, ↓reduceIte]
    rw [anyId_eq_of_ids _ _ h1 id]
    have hnil : (cfgs.filter fun c => !old.any (fun s => s.id = c.id)) = [] := by
      have : ((cfgs.filter fun c => !old.any (fun s => s.id = c.id)).map Storage.ofCfg).length = 0 := by
        rw [← h2]; exact hn
      simpa using this
    simp only [List.any_eq_true] at hid
    obtain ⟨c, hc, hcid⟩ := hid
    have : c ∉ cfgs.filter fun c => !old.any (fun s => s.id = c.id) := by rw [hnil]; simp
    simp only [List.mem_filter, hc, true_and, Bool.not_eq_true', Bool.not_eq_false] at this
    simp only [decide_eq_true_eq] at hcid
    rw [← hcid]; exact this
  · -- some new storage: then (outside the class) every configuration is new
    simp only [hn, ↓reduceIte]
    have hsome : cfgs.any (fun c => !old.any (fun s => s.id = c.id)) = true := by
      have hne : (cfgs.filter fun c => !old.any (fun s => s.id = c.id)) ≠ [] := by
        intro h; apply hn; rw [h2, h]; rfl
      obtain ⟨c, hc⟩ := List.exists_mem_of_ne_nil _ hne
      simp only [List.mem_filter] at hc
      exact List.any_eq_true.mpr ⟨c, hc.1, hc.2⟩
    have hnone : cfgs.any (fun c => old.any (fun s => s.id = c.id)) = false := by
      simpa [hsome] using hd
    have hall : (cfgs.filter fun c => !old.any (fun s => s.id = c.id)) = cfgs := by
      apply List.filter_eq_self.mpr
      intro c hc
      have := List.any_eq_false.mp hnone c hc
      simpa using this
    rw [h2, hall, any_ofCfg]
    exact hid

theorem zip_map_all {α β γ} (l : List α) (f : α → β) (g : α → γ) (p : β × γ → Bool) :
    (List.zip (l.map f) (l.map g)).all p = l.all (fun x => p (f x, g x)) := by
  induction l with
  | nil => rfl
  | cons a t ih => simp [ih]

/-- **proved form** (`_partial`) of `StatementSuccess`. What is missing is class C19-d: a valid
    configuration that keeps a cache id in use and adds a new one loses the kept cache
    (`SetStorageConfigs` replaces the storage list by the new storages only). -/
theorem reload_success_partial (probes : List Query) (ids : List Bytes) (s : State) (f : Fetch)
    (hk : kindOf s.checksum f = .valid) (hd : inClass_C19_d s f = false) :
    holdsStep .valid (observe probes ids s) (modelAfter probes ids s f) (modelRestart probes ids f) = true := by
  obtain ⟨sum, d, s', r, cfgs, rfl, hstep, hstart, hrules, _, hs, hstor, hrstor⟩ := reload_success_like_restart s f hk
  have hA : modelAfter probes ids s (.doc sum d) = some (observe probes ids s') := by simp [modelAfter, hstep]
  have hR : modelRestart probes ids (.doc sum d) = some (observe probes ids r) := by simp [modelRestart, hstart]
  rw [hA, hR]
  simp only [holdsStep, observe, hrules, beq_self_eq_true, Bool.true_and]
  rw [zip_map_all]
  simp only [List.all_eq_true]
  intro id _
  cases hr : r.storages.any (fun x => x.id = id) with
  | false => rfl
  | true =>
    simp only [Bool.not_true, Bool.false_or]
    rw [hstor]
    have hd' : (cfgs.any (fun c => s.storages.any (fun x => x.id = c.id)) &&
        cfgs.any (fun c => !s.storages.any (fun x => x.id = c.id))) = false := by
      simpa [inClass_C19_d, hs] using hd
    apply setStorageConfigs_covers s.storages cfgs hd' id
    rw [hrstor, any_ofCfg] at hr
    exact hr

-- non-vacuity: valid reloads outside the class — all caches new, and all caches known
def wFetchNew : Fetch := .doc 5 (yamlDoc [rule b!"/a/*" b!"http://new/$1"]
  [kv b!"caches" (.list [cacheEntry b!"b" b!"/S/b" b!"1M"])])
def wFetchUpd : Fetch := .doc 6 (yamlDoc [rule b!"/a/*" b!"http://new/$1" [kv b!"cache" (str b!"a")]]
  [kv b!"caches" (.list [cacheEntry b!"a" b!"/S/a" b!"2M"])])
example : (kindOf wOld.checksum wFetchNew, inClass_C19_d wOld wFetchNew) = (.valid, false) := by decide
example : (kindOf wOld.checksum wFetchUpd, inClass_C19_d wOld wFetchUpd) = (.valid, false) := by decide
example : modelAfter wProbes wIds wOld wFetchUpd = some ⟨[some (b!"http://new/$1", b!"a")], [true, false]⟩ := by decide
example : (step wOld wFetchUpd).1.storages = [⟨b!"a", b!"/S/a", 2097152⟩] := by decide
-- and the failure kinds of the partial theorems
example : kindOf wOld.checksum .error = .fetchFailed := by decide
example : kindOf wOld.checksum (.doc 1 (yamlDoc [])) = .same := by decide
example : kindOf wOld.checksum (.doc 7 { yaml := none, json := none }) = .invalidRules := by decide
example : kindOf wOld.checksum (.doc 8 (yamlDoc [rule b!"/a/*/b" b!"d"])) = .invalidRules := by decide
example : (kindOf wOld.checksum wFetchA, kindOf wOld.checksum wFetchB) = (.invalidStorages, .invalidStorages) := by decide
example : inClass_C19_d wOld wFetchD = true := by decide

end Props.C19
