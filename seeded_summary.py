#!/usr/bin/env python3
"""Writes seeded/SUMMARY.md from seeded/*/meta.json."""
import glob, json, os
ROOT = os.path.dirname(os.path.abspath(__file__))
rows = []
for p in sorted(glob.glob(os.path.join(ROOT, "seeded", "*", "meta.json"))):
    m = json.load(open(p))
    confirmed = all(m.get(k) for k in ("patch_applies", "builds_and_suite_green_with_patch", "demo_fails_with_patch", "demo_passes_without_patch"))
    det = m.get("detected_by", [])
    wi = m.get("detected_with_failing_input", [])
    first = ""
    for h in m.get("history", []):
        if not (h.get("detected_by_before_strengthening") or h.get("detected_by_earlier")):
            first = "missed at first; check strengthened"
            break
    how = "—"
    if wi:
        how = "VIOLATION with failing input: " + ", ".join(wi)
        if set(det) - set(wi):
            how += "; broken obligation/correspondence only: " + ", ".join(sorted(set(det) - set(wi)))
    elif det:
        how = "VIOLATION … no-failing-input-found (broken pin or correspondence): " + ", ".join(det)
    else:
        how = "NOT detected by " + ", ".join(m.get("checks_run", {}).keys())
    rows.append((m["id"], m["breaks_property"], ("yes" if confirmed else "partly") + " @" + m.get("repo_head", "pinned"), how, first))
out = ["# Seeded changes — which checks report which change", "",
       "Each change was written by an independent sub-agent that saw only the property text and a scratch worktree;",
       "confirmed here in a scratch worktree (applies, builds, the 30 tests stay green, the demonstration fails with it and",
       "passes without it), then the registered quick checks were run against the tree with the change applied (git apply in /repo and",
       "git checkout afterwards, or a scratch worktree named by VERIF_REPO). 'confirmed @<commit>' names the /repo head the change was last",
       "confirmed and evaluated on (the fix: commits moved the head; four patches were rebased, the originals are kept as patch.pinned-commit.diff).", "",
       "| id | property | confirmed | reported by | note |", "|---|---|---|---|---|"]
for r in rows:
    out.append("| %s | %s | %s | %s | %s |" % r)
n = len(rows); d = sum(1 for r in rows if not r[3].startswith("NOT")); w = sum(1 for r in rows if r[3].startswith("VIOLATION with"))
out += ["", "%d changes; %d reported (%d with a concrete failing input, %d as broken pin/correspondence only); %d not reported." % (n, d, w, d - w, n - d)]
open(os.path.join(ROOT, "seeded", "SUMMARY.md"), "w").write("\n".join(out) + "\n")
print("\n".join(out[-1:]))
